#!/bin/bash
# keep_mutant.sh <PROP> <N> <src_out_dir> <demo_dest_relpath>  -- confirms a seeded change in a scratch worktree and files it under /verif/seeded/<PROP>-<N>/
# confirms: patch applies, `go build ./...` ok, demo FAILS with the change and PASSES without; (full suite: see tools/suite_mutants.sh)
set -u
P=$1; N=$2; SRC=$3; DEST=$4
WT=/tmp/confirm-$P-$N
git -C /repo worktree remove --force $WT >/dev/null 2>&1
git -C /repo worktree add --detach $WT HEAD >/dev/null 2>&1 || { echo "worktree failed"; exit 2; }
cd $WT
demo=$(ls $SRC/demo${N}_test.go 2>/dev/null)
[ -z "$demo" ] && { echo "no demo"; exit 2; }
cp $demo $WT/$DEST
pkgdir=$(dirname $DEST)
run_demo() { ( cd $WT && env -u GOFLAGS -u GOPROXY go test -mod=mod -vet=off -count=1 -run "ZZ|Demo|zz" ./$pkgdir/ 2>&1 | tail -3 ); }
echo "== without change:"; r0=$(run_demo); echo "$r0" | tail -2
git apply $SRC/change$N.diff || { echo "patch does not apply"; exit 2; }
( go build ./... ) || { echo "build fails"; exit 2; }
echo "== with change:"; r1=$(run_demo); echo "$r1" | tail -2
ok0=$(echo "$r0" | grep -c '^ok'); fail1=$(echo "$r1" | grep -c 'FAIL')
cd /; git -C /repo worktree remove --force $WT
if [ "$ok0" -ge 1 ] && [ "$fail1" -ge 1 ]; then
  D=/verif/seeded/$P-$N; mkdir -p $D
  cp $SRC/change$N.diff $D/patch.diff; cp $demo $D/demo_test.go
  echo "CONFIRMED $P-$N"
else echo "NOT CONFIRMED $P-$N (ok0=$ok0 fail1=$fail1)"; exit 1; fi
