#!/usr/bin/env python3
"""Regenerates /verif/MANIFEST.json from the table below (single source of truth)."""
import json, os, subprocess
ROOT = os.path.dirname(os.path.dirname(os.path.abspath(__file__)))
props = [json.loads(l) for l in open(os.path.join(ROOT, 'properties.jsonl'))]

# id -> dict(level, text, note, technique, design_ref, thorough(bool))
CHECKS = {
 "C19": dict(level="model_checking",
   text="TypeMap.tla (buckets, tombstones, hole re-use, length counter) is checked by TLC to refine a map over identity classes on the identity/hash shape measured on real types; every transition of the reduced graph is replayed on the real typeutil.Map for every realisation, random real executions are validated by TLC against TypeMapTrace.tla, and the model's assumption identical=>equal hash is checked with the real hasher on all pairs of a pool of real types.",
   note="Trusted: types.Identical as the identity relation, TLC, the Go toolchain. Bounded to 5 keys / 3-5 classes / 2 values per shape (thorough: more traces); key pool is a fixed set of ~880 real types incl. aliases, generic signatures, permuted interfaces/unions, instantiations.",
   technique="TLA+ spec + TLC exhaustive (VIEW-reduced) + transition-tour replay + TLC trace validation",
   design_ref="DESIGN.md section 5 C19"),
 "C20": dict(level="model_checking",
   text="Cache.tla models Impl.Find/Prepare/Save/Load step by step (one action per observable step: cache load, each fingerprint call, the open, nlist++, go list, store, reload) with the environment (fingerprints, export files, go-list outcome, the saved file and its damage). TLC checks FreshServe, NoNeedlessList, ListFailureIsError, EntryConsistent, GarbageNeverServed on all interleavings of two callers with environment steps, and generates gated behaviours (transition tours of several configurations + simulation) that the harness forces on the real cache.Impl: the fingerprint function and a stub `go` executable are gates at which every observation of the implementation blocks until the behaviour schedules it; served content, error, ListTimes, saved file and Load result are compared after every step.",
   note="Assumes fingerprints do not change between a `go list` and the hash calls labelling its result (AtomicPrepareEnv). Bounded: 2-3 packages, 2 fingerprint versions, <= 2 callers, <= 4 calls in quick. Trusted: TLC, the stub go (honours the -f template), Go race-free harness gates. Concurrent free-running traces under -race are thorough-tier only.",
   technique="TLA+ spec + TLC exhaustive (design, 2 callers) + gated transition-tour/simulation replay on the real cache",
   design_ref="DESIGN.md section 5 C20"),
 "C16": dict(level="model_checking",
   text="Builder.tla is the CodeBuilder as a stack machine: operand stack, open-construct frames (function, closure, inline closure, block, vblock, if/else, for/post, range, switch/case, type switch, select/comm, initialiser contexts), scope identity and depth, current function, label table; one action per public operation, enabled where the call protocol allows. TLC checks the balance law (Balanced, StmtBoundary, DepthOK, FnOK, action property EndRestores) and enumerates all histories of six construct-family configurations at full length plus simulated deep histories (nesting to 9-10); each history is replayed on a fresh real package and stack length, scope identity and depth, current function, visible labels and InVBlock are compared with the prediction after every operation.",
   note="Histories contain only protocol-legal operations (error paths are not claimed). Element types are abstract tags (int/bool/fn/void/ref/type/iface/slice). Bounded: nesting <= 6 exhaustively (<= 10 by simulation), 6-9 operations exhaustively (60-80 by simulation). Trusted: TLC, go/types scopes as identity of lexical scopes.",
   technique="TLA+ spec + TLC exhaustive history enumeration/simulation + per-step replay on the real CodeBuilder",
   design_ref="DESIGN.md section 5 C16"),
 "C10": dict(level="model_checking",
   text="Flow.tla transcribes the Go specification's terminating-statement analysis (Term/TermList/HasBreak) and label rules over the statement tree a client builds with statement-level builder operations, and TLC enumerates every complete function body of the bounded configurations (full alphabet to 5 operations; construct families to 7-8: loops+switch+labelled break, if/else/block/panic/shadowed panic, select, labels+goto+closures, type switch+fallthrough) with the diagnostics Go requires. Each body is built through the real CodeBuilder and the missing-return / unused-label / duplicate-label diagnostics delivered to HandleErr are compared with the prediction; go/types on an independent rendering of the same operations validates the specification on every body (S = T, else exit 2).",
   note="Jumps are generated towards legal targets only. For a label defined twice only the duplicate diagnostic is compared. Bounded by MaxOps/MaxNest/MaxItems of each configuration. Trusted: TLC, go/types (as validator of the specification), the renderer.",
   technique="TLA+ spec of Go's terminating-statement rules + TLC exhaustive enumeration + replay on the real CodeBuilder, go/types cross-validation of the spec",
   design_ref="DESIGN.md section 5 C10"),
 "C09": dict(level="model_checking",
   text="Imports.tla states what the property demands over the client-visible history (two files, declarations stored per file, references to three imported packages two of which share a base name, package-level / parameter / result / local names equal to import names, discarded references, deleted declarations, force-imports, cross-file bodies, a growing var block, writes at any time) and predicts the import set of every file after every operation. TLC enumerates all histories of five bounded configurations; each is replayed on a real Package with a synthetic importer; every mid-history and final write is parsed, its import block compared with the prediction, and the output type-checked by go/types (unique names, no collision with declared or enclosing local names, references resolve). Failing histories are minimised and keyed by operation signature / root cause.",
   note="Import names are an implementation choice (only uniqueness / non-collision / resolution are checked). Bounded: 3-5 operations per history, 2 files, 3 paths. Five root-cause classes are known findings (cross-file body, deleted type, force-import+discard, name declared after a write, parameter/result named like the import); a failure inside such a class is attributed to it. Trusted: TLC, go/parser, go/types.",
   technique="TLA+ spec + TLC exhaustive history enumeration + replay with go/types on every written file, delta-debugged finding keys",
   design_ref="DESIGN.md section 5 C09"),
 "C05": dict(level="model_checking",
   text="GoTypes.tla transcribes the Go specification's judgements (identity, underlying types, method sets, representability with exact symbolic constants 2^e+d up to 2^1024, assignability, comparison, conversion, default types) over a closed universe of 61 types; Grid.tla lets TLC evaluate every grid point (56x54 type pairs; ~40k constant x target points covering every boundary of every integer and float range) and check the meta-properties CmpSymmetric, IdenticalImpliesAssignable, AssignableImpliesConvertible, representability-is-an-interval, DefaultIdempotent. Every point is compared with gogen's AssignableConv, ConvertibleTo, ComparableTo (both argument orders) and Default on realised go/types objects; go/types on one-line programs validates the transcription on every point (S = T, else exit 2).",
   note="Closed universe (no type parameters yet). Typed floating-point constants only with values exact in float32. Six root-cause classes of the pinned tree are known findings; a failing point inside a class is attributed to it. The builder constructs (var init, argument, return ...) asking the same question are exercised by C01. Trusted: TLC, go/types as validator.",
   technique="TLA+ transcription of the Go spec judgements + TLC as exhaustive grid evaluator with meta-invariants + one implementation test per grid point",
   design_ref="DESIGN.md section 5 C05"),
 "C08": dict(level="model_checking",
   text="Select.tla transcribes Go's selector rules (breadth-first by embedding depth, ambiguity at the shallowest depth incl. a type reached twice, promotion through embedded pointers, pointer receivers need addressable operands, unexported members of another package invisible, method sets for method expressions) over struct type graphs of up to four types. TLC enumerates all 3-type/1-field graphs and samples the 4-type/2-field/two-package family (exhaustive larger families in thorough), printing the verdict of every selector on a value, an addressable value and a pointer. Each graph is realised with go/types objects and the real CodeBuilder.Member (value form, assignment-target form, method expressions (T).m and (*T).m) is compared on kind, resolved object (Recorder) and type; types.LookupFieldOrMethod and types.NewMethodSet validate the transcription on every lookup (S = T, else exit 2).",
   note="Graphs are realised through the go/types API (the builder's own type-declaration API is not under test here). Bounded: <= 4 struct types, <= 2 fields each, one member name, depth <= 3. Six known-finding groups (ambiguity accepted, needaddr accepted, MemberRef ignores methods / visibility, method-expression signatures). Trusted: TLC, go/types as validator.",
   technique="TLA+ transcription of Go's selector rules + TLC enumeration/sampling of type graphs + one implementation test per lookup",
   design_ref="DESIGN.md section 5 C08"),
 "C13": dict(level="model_checking",
   text="TypeSyntax.tla maps type terms (basic, unsafe.Pointer, local and imported named types incl. two packages with the same base name, pointers, slices, arrays, maps, three channel directions, functions with parameter/result lists and variadics, structs with embedded fields and tags incl. back quote / CR / LF, interfaces with methods and embedded interfaces) to the token sequence Go's grammar requires and parses them back with a recursive-descent parser for Go's type syntax written in TLA+; TLC checks Parse(Tokens(t)) = t on every term and refutes it when channel elements are never parenthesised. Every term is realised as a go/types type, declared through the builder as variable (file A), type definition, alias and parameter/result (file B), written, re-parsed, re-checked and structurally compared with the original.",
   note="Bounded: all constructors over rich leaves at depth 1, over small leaves at depth 2 (thorough: depth 2 rich, binding-sensitive constructors at depth 3). No type parameters / instantiations / unions yet. Interface methods all have signature func(). Trusted: TLC, go/parser, go/types.",
   technique="TLA+ token grammar + parser (print/parse identity checked by TLC) + declare/write/re-check replay per term",
   design_ref="DESIGN.md section 5 C13"),
 "C14": dict(level="model_checking",
   text="Zero.tla states the two demands on a synthesised zero expression over GoTypes.tla's universe (accepted where a T is expected; static type exactly T in an inferred position), checks that every type has a form meeting both, and evaluates the form the implementation chooses (ImplForm) to predict where it must deviate (class UntypedZeroForm). For every type (61 incl. an imported struct with unexported fields, named arrays, composites of named types) the real builder is asked for the zero value through every user (ZeroLit, T(), ReturnErr padding, omitted optional argument), the package is written and type-checked by go/types, and the reported Elem.Type, acceptance and the inferred static type are compared.",
   note="One universe, exhaustive over it (244 cases). Deviations the model predicts from the implementation's choice of form are one known root cause; any other deviation is a violation. Evaluation to the zero value is decided by form (0/false/\"\"/nil/T{}), not by executing code. Trusted: TLC, go/types.",
   technique="TLA+ judgement over the type universe (TLC as evaluator, satisfiability invariant) + replay of every (type, user) through the real builder with go/types on the output",
   design_ref="DESIGN.md section 5 C14"),
 "C01": dict(level="model_checking",
   text="Ops.tla transcribes the Go specification's rules for unary and binary operators, shifts and conversions (implicit conversion of untyped operands, representability, operator applicability, zero divisors, typed overflow, shift-count rules, constant conversions); TLC evaluates every point of the operand-pool grid (8228 binary, 88 unary, 968 shift, 154 conversion points) and checks laws of the calculus. Every point is built with the real CodeBuilder: a point Go rejects that the builder accepts is an unsound acceptance, keyed by rejection reason, operator class and operand constness pattern.",
   note='Two engines: expressions (Ops.tla: unary/binary operators, shifts, conversions over a pool of 22 operands; int8/uint8 carry range arithmetic because TLC integers are 32-bit) and statements (Decls.tla: :=, =, var, return over single values, multi-value calls and comma-ok forms, with redeclaration; constant blocks with iota and implicit repetition); C03 additionally compares selector result types and recorder objects on the lookups of Select.tla. Calls with arity/variadic/ellipsis, composite literals and statement heads are not yet predicted (exercised untyped by C10/C16). Known findings are exact class-key sets per root cause (known/*.keys). Trusted: TLC, go/types (types.Eval validates Ops.tla on every point: S = T else exit 2).',
   technique="TLA+ transcription of Go's operator typing and constant folding (Ops.tla) + TLC as exhaustive evaluator with laws + one implementation test per expression point",
   design_ref="DESIGN.md section 5 C01"),
 "C02": dict(level="model_checking",
   text='Same engine: a point that is valid Go (Ops.tla = go/types) and that the builder rejects, or on which it dies with a run-time fault, is a spurious rejection, keyed by operator class and operand pattern. Statement level: every valid function body of Flow.tla (statement order, nesting, clauses, labels, break/continue/goto incl. forward goto) must be accepted without diagnostic and come out of Package.WriteTo with the same typed canonical tree (positions, redundant parentheses, import names removed; every identifier annotated with the entity go/types resolves it to) as an independent rendering; Headers.tla transcribes the composite-literal ambiguity rule of statement headers and places every expression tree of its grammar in every statement context (14 contexts): the emitted text must parse back to the same tree.',
   note='Flow.tla validity and Headers.tla Ambiguous are validated against go/types / go/parser on every point (S = T else exit 2). Two engines: expressions (Ops.tla: unary/binary operators, shifts, conversions over a pool of 22 operands; int8/uint8 carry range arithmetic because TLC integers are 32-bit) and statements (Decls.tla: :=, =, var, return over single values, multi-value calls and comma-ok forms, with redeclaration; constant blocks with iota and implicit repetition); C03 additionally compares selector result types and recorder objects on the lookups of Select.tla. Calls with arity/variadic/ellipsis are predicted by C06, generics by C07. Known findings are exact class-key sets per root cause (known/*.keys). Trusted: TLC, go/types, go/parser.',
   technique="TLA+ specs (Ops.tla, Decls.tla, Flow.tla, Headers.tla) + TLC exhaustive enumeration + replay on the real CodeBuilder, typed canonical-tree comparison of Package.WriteTo output with an independent rendering",
   design_ref="DESIGN.md section 5 C02"),
 "C06": dict(level="model_checking",
   text="Overload.tla models the candidate loop of matchFuncCall step by step (Backup, Enter: arity + inference, Step: one argument against one parameter with the in-place rewrites T_Init conversion / generic-function instantiation / overloaded-value narrowing, Fail with restore, Succeed) and TLC checks FirstApplicable, NoResidue and ResultType against the functional definition on every (family, call) point (families of 1-2 of 21 signatures incl. variadic, generic, rewriting ones; calls of 0-2 of 12 argument forms, f(xs...) form; thorough: triples, 3 arguments); with Restore = FALSE TLC must find a violation (vacuity guard, run every time). Every point is replayed on the real CodeBuilder in six realisations of the family (imported functions F__i, value-receiver methods, pointer-receiver methods, interface methods, XGoo_ explicit order with names in reverse lexical order, in-package NewOverloadFunc): rejection, chosen callee, emitted argument expressions and result type must equal the model's; metamorphic check against the single-candidate family of the chosen candidate.",
   note="Go applicability and result type of the model are validated against go/types on every (signature, call) pair (S = T else exit 2). Generic or overloaded function values as arguments of generic candidates, overloaded operators and overloaded named-type casts are not in the fragment. The named deviation of the model (uninstantiated generic function accepted for an interface parameter) attributes KF-C06-1. Trusted: TLC, go/types.",
   technique="TLA+ step model of the overload candidate loop + TLC invariants (sabotage guard) + replay of every point through six realisations on the real CodeBuilder, go/types cross-validation of the spec",
   design_ref="DESIGN.md section 5 C06"),
 "C03": dict(level="model_checking",
   text='Same engine: on every point both parties accept, the type the builder reports for the result element is compared with the type Ops.tla (= go/types) assigns, untyped kinds included.',
   note='Two engines: expressions (Ops.tla: unary/binary operators, shifts, conversions over a pool of 22 operands; int8/uint8 carry range arithmetic because TLC integers are 32-bit) and statements (Decls.tla: :=, =, var, return over single values, multi-value calls and comma-ok forms, with redeclaration; constant blocks with iota and implicit repetition); C03 additionally compares selector result types and recorder objects on the lookups of Select.tla. Calls with arity/variadic/ellipsis, composite literals and statement heads are not yet predicted (exercised untyped by C10/C16). Known findings are exact class-key sets per root cause (known/*.keys). Trusted: TLC, go/types (types.Eval validates Ops.tla on every point: S = T else exit 2).',
   technique="TLA+ transcription of Go's operator typing and constant folding (Ops.tla) + TLC as exhaustive evaluator with laws + one implementation test per expression point",
   design_ref="DESIGN.md section 5 C03"),
 "C04": dict(level="model_checking",
   text='Same engine: constness and the exact folded value (rationals, integer division truncating toward zero, typed results in range) are compared on every accepted point; a constant expression Go rejects (overflow, unrepresentable operand, negative shift count, division by zero, out-of-range constant conversion) that the builder folds is reported.',
   note='Two engines: expressions (Ops.tla: unary/binary operators, shifts, conversions over a pool of 22 operands; int8/uint8 carry range arithmetic because TLC integers are 32-bit) and statements (Decls.tla: :=, =, var, return over single values, multi-value calls and comma-ok forms, with redeclaration; constant blocks with iota and implicit repetition); C03 additionally compares selector result types and recorder objects on the lookups of Select.tla. Calls with arity/variadic/ellipsis, composite literals and statement heads are not yet predicted (exercised untyped by C10/C16). Known findings are exact class-key sets per root cause (known/*.keys). Trusted: TLC, go/types (types.Eval validates Ops.tla on every point: S = T else exit 2).',
   technique="TLA+ transcription of Go's operator typing and constant folding (Ops.tla) + TLC as exhaustive evaluator with laws + one implementation test per expression point",
   design_ref="DESIGN.md section 5 C04"),
 "C15": dict(level="model_checking",
   text="Determinism.tla models every walk over an unordered collection (per-file import table, file table, overload tables, extension-package dependency set) as a free choice of order and compares two writers by self-composition; TLC checks OutputIndependentOfOrder with the implementation's sort flags over all collection-size vectors 0..3 (and refutes it when the dependency walk is unsorted). Each of the 256 programs is built as a real package with exactly those collection sizes 25 times in one process and once in each of two fresh processes; every written file must be byte-identical across all builds.",
   note="Collections modelled: imports per file, files, overload families of an imported package, extension dependencies in exported signatures (sizes 0..3). Detection of an order dependence is probabilistic in the implementation (Go randomises map iteration): miss probability < 1e-4 with 3 items and 25 builds. Trusted: TLC, Go's map-iteration randomisation.",
   technique="TLA+ self-composition over free iteration orders (TLC exhaustive) + repeated in-process and cross-process builds of every enumerated program",
   design_ref="DESIGN.md section 5 C15"),
 "C18": dict(level="model_checking",
   text="Shared.tla: K builders (own package object, file set, importer) execute programs of 12 features over the library's shared package-level objects; Reads/Writes per feature as read from the code; TLC explores every interleaving, checks NoSharedWrite and RaceFree (and refutes them for a mutating feature) and prints the program tuples (pairs and triples). Binding: every feature runs alone between two deep snapshots of the registered shared objects (hook VerifSharedGlobals, build tag verif) so a write is detected without a lucky schedule; all 442 tuples run on unsynchronised goroutines released from one barrier in a race-instrumented child process, each package's bytes are compared with its sequential build and the race detector's log is read; the registry is cross-checked against the package-level variables parsed from /repo.",
   note="The race detector only judges schedules that occur; snapshots cover the 19 registered shared objects (unregistered package-level tables are listed in the evidence and covered by the race run only). Features: nil, bool, builtins, iota, blank, range over enumerator, operators, import, paren rewrite, builtin-type methods, closures, literals. Trusted: TLC, Go race detector.",
   technique="TLA+ access-set model with interleavings (TLC exhaustive) + snapshot comparison per feature + race-detector runs of every enumerated program tuple",
   design_ref="DESIGN.md section 5 C18"),
 "C17": dict(level="exploration",
   text="Total.tla contributes the complete cross product operation (44 builder operations) x operand classes (33: typed variables of every kind, untyped constants, nil, constants of 2^40 / 2^63 / 2^64 / 2^100 / 10^4 digits, a type, a reference, a multi-value call, a call without value) x configuration (default, recorder, NoSkipConstant) with the only prediction Outcome in {ok, reported}. Every point (25k in quick, 46k in thorough) is executed on the real CodeBuilder in isolated worker processes with a 6 GB address-space limit and a 20 s deadline per operation; a recovered runtime.Error, a foreign panic (go/constant, math/big), a deadline miss, memory exhaustion or worker death (confirmed by re-running the point alone) is a fault. The expression points of Ops.tla feed the same classification.",
   note="Exploration level: the specification enumerates the operand-class cross product, it does not predict values; time and memory are monitored, not modelled. Known findings are exact class-key sets per root cause (known/KF-C17-*.keys). Deep nesting is covered by C16's simulated histories, not here. Trusted: TLC (as enumerator), the OS resource limits.",
   technique="TLA+ cross-product enumeration (TLC) + isolated-worker execution with resource monitors",
   design_ref="DESIGN.md section 5 C17"),
}

def sh(cmd):
    return subprocess.run(cmd, shell=True, capture_output=True, text=True).stdout.strip()

hook_commits = [l for l in sh("git -C /repo log --format=%H --grep='^verif:' ").splitlines() if l]

checks = []
for p in props:
    c = CHECKS.get(p["id"])
    if not c: continue
    checks.append({
        "property_id": p["id"],
        "quick_cmd": f"./check {p['id']} quick",
        "thorough_cmd": f"./check {p['id']} thorough",
        "evidence_file": f"/verif/evidence/{p['id']}.json",
        "replay_cmd_template": f"./check {p['id']} quick --replay {{path}}",
        "engine": "tlc+vcheck",
        "level_claimed": {"category": c["level"], "text": c["text"], "design_ref": c["design_ref"]},
        "level_note": c["note"],
        "technique": c["technique"],
    })
NA_REASON = {}
na = [{"property_id": p["id"], "reason": NA_REASON.get(p["id"], "check not built yet (construction in progress; see DESIGN.md section 9)")}
      for p in props if p["id"] not in CHECKS]
m = {
 "version": 1,
 "setup_cmd": "./check --setup",
 "hooks": {"guard": "verif",
           "enable": "go build -tags verif (harness module: replace github.com/goplus/gogen => /repo); ./check rebuilds on every invocation",
           "baseline_off_cmd": "cd /repo && go test -mod=mod -vet=off -count=1 -timeout 25m ./...",
           "source_commits": hook_commits, "add_only": True},
 "engines": [{"name": "tlc+vcheck", "path": "/verif/harness/cmd/vcheck",
              "serves_properties": sorted(CHECKS),
              "kind_free_text": "Go driver: runs TLC on /verif/spec/*.tla (exhaustive, simulation, trace validation), replays TLC-generated behaviours on goplus/gogen built from /repo with -tags verif, compares per step, classifies against known-findings.json, writes evidence"}],
 "checks": checks,
 "notes": "Exit 0 = held (KNOWN-FINDING lines possible), 1 = VIOLATION, 2 = infrastructure failure (never a verdict). known-findings.json lists genuine defects of the pinned tree by specification-level key.",
 "not_applicable": na,
}
json.dump(m, open(os.path.join(ROOT, 'MANIFEST.json'), 'w'), indent=1)
print("checks:", [c["property_id"] for c in checks])
