#!/usr/bin/env python3
"""Development aid: groups the keys dumped by a check (VERIF_DUMP_KEYS) into known-finding point files by root cause.
Usage: mk_points.py <PROP> <dumped-keys-file>.  Prints keys no rule claims (these need a decision by hand)."""
import re, sys, json, os
prop, dump = sys.argv[1], sys.argv[2]
keys = set(l.rstrip('\n') for l in open(dump) if l.strip())
import glob
for f in glob.glob(f'/verif/known/KF-{prop}-*.keys'):      # keys already listed stay listed (the dump holds unlisted keys only)
    keys |= set(l.rstrip('\n') for l in open(f) if l.strip() and not l.startswith('#'))
keys = sorted(keys)
CONST = r'(typed-const|untyped-\w+-const|nil)'
RULES = {
 "C01": [
  ("KF-C01-1", "constant-operands-bypass-operand-checking", rf'^accepted-although-\w+/[^\[]+ \[{CONST}(, {CONST})?\]$',
   "when every operand is a constant the operator's operand matching is skipped (instrFlagUntyped): mismatched constant types, unrepresentable untyped constants, typed overflow, negative shift counts and operators undefined on the operand kind are accepted and folded", "ast.go matchFuncCall / binaryOp: constants are folded without matchFuncType"),
  ("KF-C01-2", "integer-only-operators-accept-floats", r'^accepted-although-opundefined/(%|bitwise|unary\^) .*float64-operand$',
   "%, &, |, ^, &^ and unary ^ accept float64 operands: the `integer` contract is the number set", "constraint.go / builtin.go integer contract"),
  ("KF-C01-3", "zero-divisor-checked-for-division-only", r'^accepted-although-divzero/% \[var, ',
   "x % 0 with a variable dividend is accepted (only / is checked for a constant zero divisor)", "codebuild.go checkDivisionByZero"),
  ("KF-C01-4", "shift-operand-and-count-rules-not-enforced", r'^accepted-although-(shiftedoperand|negcount|overflow)/shift',
   "shifts accept a float shifted operand, a negative constant count and overflowing typed constant results", "builtin_gengo.go Lsh/Rsh, ast.go doBinaryOp"),
  ("KF-C01-5", "conversion-accepts-unconvertible-operands", r'^accepted-although-\w+/conversion[ /]',
   "T(x) is emitted without checking convertibility or constant representability (int(\"s\"), int8(300), string(1.5), T(nil))", "ast.go matchTypeCast finish path"),
  ("KF-C01-7", "multi-value-call-accepted-inside-a-value-list", r'^accepted-although-multi-value-in-list/',
   "f(), x on the right-hand side of :=, =, var or return (a multi-value call among several values) is accepted", "type_var_and_const.go endInit / codebuild.go doAssignWith count by operands"),
  ("KF-C01-8", "define-accepts-no-new-variable-when-a-blank-is-present", r'^accepted-although-no-new-variables/',
   "_ := v and x, _ := ... (no new non-blank variable on the left of :=) are accepted: the blank identifier counts as new", "type_var_and_const.go newValueDecl: scope.Lookup(\"_\") == nil"),
  ("KF-C01-9", "define-accepts-a-repeated-name", r'^accepted-although-repeated-name/',
   "n, n := a, b is accepted (Go: n repeated on left side of :=)", "type_var_and_const.go newValueDecl"),
  ("KF-C01-10", "untyped-nil-accepted-without-a-type", r'^accepted-although-untyped-nil/',
   "x := nil, var x = nil and _ = nil are accepted and emitted (Go: use of untyped nil)", "type_var_and_const.go endInit (DefaultConv of untyped nil), codebuild.go doAssignWith"),
  ("KF-C01-11", "index-and-slice-operands-not-checked", r'^accepted-although-(badindex|negindex|outofrange|inverted)/(index|slice)/',
   "a[i], a[lo:hi:max]: the index operands are not checked: non-integer indices (1.5, \"s\", a float64 variable), negative constants, constants beyond the length of an array / constant string and inverted constant bounds are accepted and emitted", "util_gengo.go Index / Slice: only the operand kind is looked at"),
  ("KF-C01-12", "slice-of-a-map-accepted", r'^accepted-although-notsliceable/slice/map$',
   "m[lo:hi] for a map m is accepted and emitted (Go: cannot slice m)", "util_gengo.go Slice: *types.Map falls into the default branch"),
  ("KF-C01-13", "map-index-key-not-checked", r'^accepted-although-key/index/map$',
   "m[k] with a key not assignable to the map's key type (vm[1], vm[vi] for map[string]int) is accepted", "util_gengo.go Index: map branch takes the element type without matching the key"),
  ("KF-C01-14", "literal-keys-not-checked-for-duplicates-or-sign", r'^accepted-although-(dupkey|negkey)/(array|slice|map)-literal$|^accepted-although-dupkey/open-array-literal/|^accepted-although-dupfield/struct-literal',
   "composite literals accept duplicate constant keys ([]int{0: 1, 0: 2}, map[string]int{\"s\": 1, \"s\": 2}, S{a: 1, a: 2}) and negative indices ([]int{-1: 1})", "util_gengo.go SliceLitEx / ArrayLitEx / MapLitEx / StructLit"),
  ("KF-C01-15", "keyed-array-literal-skips-the-element-range-check", r'^accepted-although-elem/array-literal$',
   "[2]int8{1: 300, 0: 1}: in a keyed array literal an element constant that is not representable in the element type is accepted", "util_gengo.go ArrayLitEx keyVal branch"),
  ("KF-C01-16", "duplicate-cases-not-detected", r'^accepted-although-dup/(switch|type-switch)/',
   "switch x { case 1, 1: } and switch v.(type) { case int, int: } are accepted (Go: duplicate case)", "stmt.go caseStmt.Then / typeCaseStmt.Then: no duplicate detection"),
  ("KF-C01-17", "send-statement-operands-not-checked", r'^accepted-although-(cannotsend|value)/send/',
   "ch <- v is emitted without checking that ch is a channel that can be sent to (an int, a slice, a receive-only channel are accepted) or that v is assignable to its element type", "codebuild.go Send"),
  ("KF-C01-18", "range-over-send-only-channel-accepted", r'^accepted-although-notrangeable/range/sendchan/',
   "for range ch with ch of type chan<- int is accepted (Go: cannot range over a send-only channel)", "stmt.go forRangeStmt.getKeyValTypes: channel direction is not looked at"),
  ("KF-C01-6", "comparison-accepts-mismatched-or-unrepresentable-operands", r'^accepted-although-(mismatched|notrepresentable)/(equality|ordering) \[.*var|^accepted-although-case/switch/tag:',
   "== / != / < with a variable accept mismatched defined types (MyInt == int) and untyped constants not representable in the variable's type (v_int8 == 300)", "template.go ComparableTo / untypedComparable (see C05 findings 4-6)"),
  ("KF-C01-19", "make-size-arguments-not-checked", r'^accepted-although-(toomany|size|negsize|lencap|missinglen)/builtin/make\(',
   "make(T, sizes...) is emitted without checking the size arguments: their number (make([]int), make([]int, 1, 2, 3), make(map[string]int, 1, 2)), their type (a float64 variable, 1.5, \"s\"), their sign (-1) or len > cap for constants", "builtin_gengo.go makeInstr.Call (arguments beyond the third are dropped silently)"),
  ("KF-C01-20", "untyped-nil-accepted-as-slice-operand-of-append-and-copy", r'^accepted-although-notslice/builtin/append\(nil|^accepted-although-copy/builtin/copy\((nil,|[^,]+,nil\))',
   "append(nil, 1) (typed []int by the builder), copy(s, nil) and copy(nil, s) are accepted (Go: the slice operand must be a typed slice)", "builtin_gengo.go append / copy templates: nil unifies with []Type"),
  ("KF-C01-21", "min-max-of-constants-skip-operand-matching", r'^accepted-although-mismatch/builtin/(min|max)\{((typed-const:\w+|untyped-\w+-const),?)+\}$',
   "min / max whose operands are all constants skip operand matching (the root cause of KF-C01-1): max(kf, 1.5, \"s\"), min(1, kstr), min(k8, 1.5) are accepted and folded", "ast.go:751-755 tryBuiltinCall sets instrFlagUntyped"),
 ],
 "C02": [
  ("KF-C02-1", "integral-float-constant-shift-count-rejected", r'^rejected-valid/shift(<<|>>) \[.*untyped-float-const\]$',
   "x << 2.0 (an untyped float constant with integral value as shift count) is valid Go and rejected as mismatched types", "builtin_gengo.go Lsh/Rsh operand contract"),
  ("KF-C02-2", "untyped-float-vs-untyped-int-equality-rejected", r'^rejected-valid/equality \[untyped-float-const, untyped-(int|rune)-const\]$',
   "1.5 != 0 (fractional untyped float against untyped int/rune constant, float on the left) is rejected while 0 != 1.5 is accepted", "template.go untypedComparable asymmetry"),
  ("KF-C02-3", "float-constant-in-integer-remainder-faults", r'^fault-on-valid-expression/% ',
   "0.0 % c_int / c_int % 2.0 (untyped float constant with integral value, valid after conversion to the integer type) dies inside go/constant (invalid binary operation)", "ast.go binaryOp folds without converting the untyped operand"),
  ("KF-C02-5", "integral-float-constant-rejected-as-literal-key", r'^rejected-valid/((array|slice|map)-literal/integral-float-key|struct-literal/\S+/integral-float-value)$',
   "[]int{1.0: 5}, [2]int{1.0: 5}, map[int]string{1.0: \"s\"}, S{1.0, \"s\"} (field a int): an untyped float constant with integral value is a valid index / int key / int value (same family as KF-C02-1) and is rejected", "util_gengo.go literal key handling; template.go assignableTo (untyped float to integer types)"),
 ],
 "C06": [
  ("KF-C06-1", "generic-function-value-accepted-for-interface-parameter", r'^generic-function-value-accepted-for-interface-parameter/',
   "an uninstantiated generic function value (ov.Id) is accepted as argument for an interface (any, ...any) parameter and emitted as is: Go rejects it (cannot use generic function without instantiation); inside an overload family the candidate with the interface parameter is chosen although Go's rules skip it", "template.go AssignableConv: types.AssignableTo(generic signature, interface) is true"),
  ("KF-C06-2", "tinit-conversion-assumed-for-multi-value-call", r'^tinit-conversion-assumed-for-multi-value-call/',
   "F(Big, string) called as F(pair()) with pair() (int, string): the implicit T_Init conversion is taken as applicable to a value of the multi-value call, the candidate is chosen and F(pair()) is emitted, which Go rejects (no conversion can be inserted there)", "ast.go matchFuncType tuple branch: fresh elements without value go through AssignableConv / assignable"),
  ("KF-C06-3", "generic-candidate-aborts-resolution-on-multi-value-call", r'^generic-candidate-aborts-resolution-on-multi-value-call$',
   "a family whose generic candidate [T any](T) precedes the applicable one, called with a multi-value call as only argument: inference panics with 'unexpected *types.Tuple' and the whole call is rejected instead of the next candidate being tried", "typeparams.go inferFunc / typesinfer.go: tuple operand"),
 ],
 "C11": [
  ("KF-C11-1", "several-hoisted-assertions-in-a-statement-head", r'^lowering-fails/member/(if-cond|elseif-cond|for-cond|switch-tag|if-init)/temporaries=',
   "member access on `any` in an if / for / switch head needs its hoisted assertion as the head's init statement; a second one (two accesses, a chain a.b.c, or an access inside an if-init statement) fails with 'too many init statements'", "stmt.go ifStmt/forStmt/switchStmt: one init statement; codebuild.go:1311 emitMapStringAnyAssert emits into the head"),
  ("KF-C11-2", "any-member-in-loop-condition-evaluated-once", r'^member-of-any-in-loop-condition-evaluated-once/',
   "for e.key == nil { .. } is lowered to for T, _ := e.(map[string]any); T[\"key\"] == nil; { .. }: the assertion runs once before the loop, the condition no longer re-reads e on every iteration", "stmt.go forStmt.Then: hoisted statement becomes the loop's init statement"),
  ("KF-C11-3", "any-member-in-case-list-hoisted-after-use", r'^lowered-code-ill-typed/member/case-expr/',
   "case e.key: in an expression switch emits the hoisted assertion into the clause body, after the case expression that uses the temporary: the output does not type-check (undefined / declared and not used)", "stmt.go:500 caseStmt: expressions of the case list are taken before the hoisted statements are placed"),
  ("KF-C11-4", "inline-closure-arguments-evaluated-in-reverse-order", r'^inline-closure-arguments-evaluated-in-reverse-order$',
   "an inline closure call binds its arguments to fresh variables last parameter first: with two or more argument expressions they are evaluated right to left (observable when they have side effects); Go evaluates call arguments left to right", "codebuild.go CallInlineClosureStart: for i := n1; i >= 0; i-- emitVar(...) pops the operands from the top of the stack (the repository's expected strings pin this order)"),
  ("KF-C11-5", "inline-closure-unused-parameter-declared-and-not-used", r'^inline-closure-unused-parameter-declared-and-not-used$',
   "an inline closure whose body does not use one of its parameters is lowered to a block that declares the bound variable and never uses it: Go rejects the output (declared and not used); the real closure call is valid", "codebuild.go emitVar: var _autoGo_N T = arg without a use"),
 ],
 "C12": [
  ("KF-C12-1", "statement-comments-printed-at-column-zero", r'^comments/not-a-gofmt-fixed-point/comment-indentation$',
   "a comment group attached to a statement with SetComments is printed at column 0 instead of at the indentation of its statement: the written text is not a fixed point of gofmt (the repository's own expected strings pin this layout)", "internal/go/printer/nodes.go:1321 statement-comment hook prints the position-less comment text as is"),
 ],
 "C03": [
  ("KF-C03-1", "typed-constant-result-reported-untyped", r'^type u\w+ reported as int \[builtin/compl\]$|^type (int|int8|uint8|MyInt) reported as untyped int \[constant-operands',
   "an operator applied to typed constants reports the untyped kind instead of the operand type (c_int + 1 has type int, reported untyped int)", "ast.go result type mapping for instrFlagUntyped (806-828)"),
  ("KF-C03-2", "untyped-rune-decays-to-untyped-int", r'^type untyped rune reported as untyped int ',
   "'a' + 1, -'a', 'a' << 1 are untyped rune constants in Go and reported as untyped int", "ast.go untyped kind of folded results"),
  ("KF-C03-5", "logical-operator-on-untyped-boolean-reports-bool", r'^type untyped bool reported as bool \[variable-involved, binary\]$',
   "(x == y) && true: a comparison yields an untyped boolean and && / || of untyped booleans stay untyped in Go; the builder reports bool (so the result is not assignable to a defined boolean type)", "builtin operator && / || signatures are instantiated at bool"),
  ("KF-C03-4", "slice-of-a-constant-string-reported-untyped", r'^type string reported as untyped string \[slice\]$',
   "\"abc\"[0:1] has type string in Go (slicing a constant string gives a non-constant string); the builder reports untyped string", "util_gengo.go Slice: the operand's untyped type is kept"),
  ("KF-C03-3", "untyped-int-shift-by-float-count-reported-untyped-float", r'^type untyped int reported as untyped float \[constant-operands, shift\]$',
   "1 << 2.0 is an untyped int constant; the builder reports untyped float (the kind of the count)", "builtin_gengo.go shift result kind"),
  ("KF-C03-6", "min-max-of-constants-report-an-untyped-kind", r'^type int8 reported as int \[builtin/(min|max)\]$|^untyped=false reported as untyped=true \[builtin/(min|max)\]$|^type float64 reported as int \[builtin/(min|max)\]$',
   "min / max of constants: with a typed constant operand the result is reported untyped (max(k8) is an int8 constant, reported untyped int); with untyped operands of mixed kinds the kind is not the larger one (max(1, 1.5) is an untyped float 1.5, reported as untyped int with value 1.5)", "ast.go result type mapping for instrFlagUntyped (same root as KF-C03-1)"),
  ("KF-C03-7", "append-to-a-defined-slice-type-reports-the-unnamed-slice", r'^type MySlice reported as \[\]int \[builtin/append\]$',
   "append(s, x) with s of a defined slice type (type MySlice []int) has type MySlice in Go; the builder reports []int", "builtin_gengo.go append template: func append(slice []Type, elems ...Type) []Type"),
 ],
 "C04": [
  ("KF-C04-1", "constant-expression-folded-although-go-rejects-it", r'^folded-although-\w+/',
   "a constant expression Go rejects (typed overflow, unrepresentable operand, negative shift count, constant conversion out of range) is folded to a value instead of being rejected (same root cause as KF-C01-1/5)", "ast.go binaryOp/unaryOp/doBinaryOp, matchTypeCast"),
  ("KF-C04-2", "integer-division-with-integral-float-constant-folded-as-float", r'^value-differs// \[(untyped-float-const, typed-const|typed-const, untyped-float-const)\]$',
   "c_int / 2.0 is integer division in Go (7/2 = 3) because 2.0 is converted to int; the builder folds 3.5", "ast.go binaryOp integer-division special case looks at the constant kinds only"),
  ("KF-C04-3", "complex-of-typed-constants-not-folded", r'^constness\(go=true,builder=false\)/builtin/complex\(',
   "complex(kf, 1), complex(kf, kf) with a typed float constant operand are constants in Go; the builder carries no value for them (only the untyped overload is folded)", "ast.go:672 tryBuiltinCall only when the result type is untyped"),
 ],
 "C17": [
  ("KF-C17-1", "assignment-like-operations-assume-a-reference-operand", r'^run-time-fault/(AssignOp\S+|IncDec) .* failed-type-assertion$',
   "AssignOp and IncDec assert that the operand on the stack is a reference (refType) without checking: any other operand ends in a failed type assertion", "codebuild.go:1604, :1674"),
  ("KF-C17-2", "huge-constant-without-configured-big-number-types", r'huge-constant.*(nil-dereference|index-out-of-range)$',
   "a constant beyond 64 bits is retyped to the configured big-number type; when none is configured (the default) the nil type is dereferenced", "template.go:393-399"),
  ("KF-C17-3", "ill-kinded-constant-pairs-die-inside-go-constant", r'(foreign-panic\(go/constant,math/big\)|\[untyped-constant, untyped-constant\] failed-type-assertion)$',
   "constant operands bypass operand matching (KF-C01-1), so ill-kinded pairs (true * \"s\", -\"s\", !1, 1 % 0, huge shift counts) reach go/constant / math/big, which panic", "ast.go binaryOp/unaryOp"),
  ("KF-C17-4", "exotic-operand-shapes-are-dereferenced-unchecked", r'\[(novalue|tuple2|type|ref), [^\]]*\] (nil-dereference|failed-type-assertion|index-out-of-range)$|\[[^,]*, (novalue|tuple2|type|ref)\] (nil-dereference|failed-type-assertion|index-out-of-range)$',
   "operands that are not ordinary values (a call without result, a multi-value call, a type, a reference) are used without checking their shape by operators, literals, append/copy, case clauses", "ast.go / builtin_gengo.go / util_gengo.go"),
  ("KF-C17-5", "constant-shift-count-unbounded", r'^process-fatal/BinaryOp<<',
   "a constant shifted left by a constant count allocates count bits: 1 << 2^40 exhausts memory and kills the process", "ast.go:550-557"),
 ],
}
unclaimed = []
groups = {}
for k in keys:
    for (kid, name, rx, what, where) in RULES.get(prop, []):
        if re.search(rx, k):
            groups.setdefault(kid, []).append(k); break
    else:
        unclaimed.append(k)
os.makedirs('/verif/known', exist_ok=True)
kf = json.load(open('/verif/known-findings.json'))
kf = [f for f in kf if not (f.get('property') == prop and f.get('id', '').startswith('KF-' + prop))]
for (kid, name, rx, what, where) in RULES.get(prop, []):
    ks = groups.get(kid, [])
    if not ks: continue
    path = f'known/{kid}.keys'
    open('/verif/' + path, 'w').write(f'# {kid} {name}: exact class keys observed on the pinned tree (one per line)\n' + '\n'.join(ks) + '\n')
    kf.append({"id": kid, "property": prop, "points": path, "what": what, "where": where, "root_cause": name})
json.dump(kf, open('/verif/known-findings.json', 'w'), indent=1)
print(prop, {k: len(v) for k, v in groups.items()}, "unclaimed:", len(unclaimed))
for u in unclaimed: print("  UNCLAIMED", u)
