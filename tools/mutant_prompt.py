#!/usr/bin/env python3
"""Prints the prompt given to an independent sub-agent that seeds a property-breaking change.
Usage: mutant_prompt.py <ID> <worktree>"""
import json, sys
pid, wt = sys.argv[1], sys.argv[2]
p = next(json.loads(l) for l in open('/verif/properties.jsonl') if json.loads(l)['id'] == pid)
mech = "\n".join(f"  - {m.get('name','')} @ {m.get('where','')}" for m in p['anchors']['mechanism'])
print(f"""You are helping to evaluate a verification framework for the Go library goplus/gogen (a Go code-generation toolkit with a stack-based CodeBuilder that type-checks expressions, matches overloads and generics, folds constants, and prints Go source). Your job is to act as a *realistic bug seeder*.

You have your own scratch git worktree of the repository at {wt} (work ONLY there; never touch /repo or /verif, and do not read anything under /verif). The sandbox has no network. Go is installed (go1.23). Run the repository's tests from the worktree exactly like this (GOFLAGS/GOPROXY must be unset, or one test that matches `go list` error text fails):
    cd {wt} && nice -n 15 env -u GOFLAGS -u GOPROXY GOMAXPROCS=6 go test -mod=mod -vet=off -count=1 -timeout 60m ./...
The whole suite takes 10-25 minutes (the machine is shared with other work: ALWAYS use the nice/GOMAXPROCS prefix shown, never run two suites at the same time, run it in the background with output to a file, and do not run it more often than you need — ideally once per change, after targeted tests already pass). Use targeted `go test -run` for quick iterations, and `go build ./...` to check compilation.

The semantic property to break:

  {pid}: {p['title']}
  Statement: {p['statement']}
  Quantified over: {p['quantifier']['text']}
  Code the property is anchored in (files: {', '.join(p['anchors']['files'])}):
{mech}

Produce TWO different, independent changes to the library source (non-test .go files) — each as its own patch — such that for each change:
  1. the code still compiles (`go build ./...`) and the ENTIRE existing test suite still passes, unedited (you must actually run the full suite with the change applied and confirm it passes; if a test fails, pick a different change);
  2. the change makes the library violate the property above for some inputs/histories;
  3. the violation needs something specific to manifest — a particular multi-step sequence of operations, an unusual input or type shape, a particular interleaving or fault at a particular point, or two cooperating sites that each look fine alone — NOT something ordinary use would expose at once. Think of the kind of regression a plausible refactoring, optimisation or "simplification" would introduce. The two changes should attack different mechanisms behind the property.
  4. you provide a demonstration for each: a small Go test file (package gogen_test or the relevant package; placed in the worktree next to the code, named zz_demo<N>_test.go) or a small program, that FAILS with the change applied and PASSES on the unchanged code. Verify both directions yourself (git stash / git apply -R).

Deliver, under {wt}/_out/ (create it):
  - change1.diff and change2.diff: `git diff` of the library change only (no test files), each applying cleanly on the unchanged HEAD with `git apply`;
  - demo1_test.go / demo2_test.go (or demo1/main.go ...): the demonstrations, plus in a comment at the top the exact command to run them and where the file must be placed;
  - notes.md: for each change: what it breaks, what is needed for it to manifest, and the exact commands you ran (including the full-suite result line counts: ok/FAIL per package).
Leave the worktree's tracked files UNCHANGED at the end (git checkout -- . ; demo test files removed from the package dirs, kept only in _out/), so that only _out/ is new.

In your final answer, summarise the two changes in a few lines each and confirm what you verified. If you could only produce one change that satisfies all conditions, say so honestly.""")
