#!/bin/bash
# run_all.sh <tier> [seed]  -- runs every registered check once, prints one line per property
tier=${1:-quick}; seed=${2:-1}
cd /verif
for i in $(seq -w 1 20); do
  id=C$i
  s=$(date +%s)
  out=$(VERIF_SEED=$seed ./check $id $tier 2>&1); rc=$?
  echo "$id rc=$rc $(( $(date +%s) - s ))s $(echo "$out" | grep '^PASS\|^FAIL\|INFRA' | head -1 | cut -c1-160)"
  echo "$out" | grep '^VIOLATION' | head -3 | cut -c1-300
done
