#!/usr/bin/env python3
"""meta.py <PROP-N> <property> <summary> <needs> <detected_by> [suite_note]  -- writes /verif/seeded/<PROP-N>/meta.json"""
import json, sys, os
d, prop, summary, needs, det = sys.argv[1:6]
suite = sys.argv[6] if len(sys.argv) > 6 else "full suite run with the change by the seeding sub-agent: all packages ok (its log is quoted in notes.md)"
path = f"/verif/seeded/{d}"
meta = {"property": prop, "breaks": summary, "needs_to_manifest": needs,
        "confirmed": {"applies_on": os.popen("git -C /repo rev-parse --short HEAD").read().strip(),
                      "build": "go build ./... ok (tools/keep_mutant.sh, scratch worktree under /tmp, removed afterwards)",
                      "demo": "demo_test.go passes without the change and fails with it (tools/keep_mutant.sh)",
                      "suite": suite},
        "checks": {"detected_by": det}}
json.dump(meta, open(os.path.join(path, "meta.json"), "w"), indent=1)
print("wrote", path)
