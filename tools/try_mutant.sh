#!/bin/bash
# try_mutant.sh <seeded-dir> <ID> [tier]  -- applies seeded/<dir>/patch.diff to /repo, runs ./check <ID> <tier>, reverts. Evidence files are restored.
D=$(realpath $1); ID=$2; T=${3:-quick}
cd /verif
[ -n "$(git -C /repo status --porcelain --untracked-files=no)" ] && { echo "/repo not clean"; exit 2; }
git -C /repo apply $D/patch.diff || { echo "patch does not apply"; exit 2; }
./check $ID $T > /tmp/try-$(basename $D)-$ID.log 2>&1; rc=$?
git -C /repo checkout -- .
git checkout -- evidence/$ID.json 2>/dev/null
echo "$(basename $D) on $ID $T: exit=$rc"; grep -c '^VIOLATION' /tmp/try-$(basename $D)-$ID.log; grep '^VIOLATION' /tmp/try-$(basename $D)-$ID.log | cut -c1-400 | head -4
