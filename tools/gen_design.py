#!/usr/bin/env python3
"""Generates /verif/DESIGN.md: hand-written sections below + tables generated from MANIFEST.json,
known-findings.json, seeded/*/meta.json and evidence/*.json so that the document cannot drift from
what is registered."""
import json, glob, os, re, subprocess

ROOT = '/verif'
man = json.load(open(f'{ROOT}/MANIFEST.json'))
known = json.load(open(f'{ROOT}/known-findings.json'))
props = [json.loads(l) for l in open(f'{ROOT}/properties.jsonl')]
checks = {c['property_id']: c for c in man['checks']}
seeded = {}
for d in sorted(glob.glob(f'{ROOT}/seeded/*/meta.json')):
    m = json.load(open(d)); n = d.split('/')[-2]
    seeded.setdefault(m['property'], []).append((n, m))
ev = {}
for f in glob.glob(f'{ROOT}/evidence/*.json'):
    e = json.load(open(f)); ev[e['property_id']] = e
kf = {}; fixed = {}
for e in known:
    if 'fixed' in e:
        m = re.match(r'property=(C\d+) (\w+) (.*)', e['fixed'], re.S)
        fixed.setdefault(m.group(1), []).append((m.group(2), m.group(3)))
    else:
        kf.setdefault(e['property'], []).append(e)

def sh(c): return subprocess.run(c, shell=True, capture_output=True, text=True).stdout.strip()
repo_log = "\n".join(l for l in sh("git -C /repo log --format='%h %s' | head -40").splitlines() if " fix:" in l or " verif:" in l)

SPEC = {"C01": "Ops.tla, Decls.tla, Lits.tla, StmtRules.tla, Builtins.tla", "C02": "Ops.tla, Decls.tla, Lits.tla, StmtRules.tla, Builtins.tla, Flow.tla, Headers.tla", "C03": "Ops.tla, Decls.tla, Lits.tla, Builtins.tla, Select.tla", "C04": "Ops.tla, Decls.tla, Builtins.tla, Units.tla",
        "C05": "GoTypes.tla, Grid.tla", "C06": "Overload.tla", "C07": "Infer.tla", "C08": "Select.tla", "C09": "Imports.tla", "C10": "Flow.tla",
        "C11": "Lower.tla", "C12": "Print.tla, Comments.tla, Flow.tla, Headers.tla", "C13": "TypeSyntax.tla (GoTypes.tla)", "C14": "Zero.tla (GoTypes.tla)",
        "C15": "Determinism.tla", "C16": "Builder.tla, Blocks.tla, BlockTrace.tla", "C17": "Total.tla, Builtins.tla", "C18": "Shared.tla", "C19": "TypeMap.tla, TypeMapTrace.tla", "C20": "Cache.tla"}
DRIVER = {"C01": "c01_04.go, expr.go, decls.go, lits.go, stmtrules.go, builtins.go", "C02": "c01_04.go, c02_flow.go, c02_headers.go, astcanon.go", "C03": "c01_04.go, c08.go", "C04": "c01_04.go",
          "C05": "c05.go, gotypes.go", "C06": "c06.go", "C07": "c07.go", "C08": "c08.go", "C09": "c09.go", "C10": "c10.go", "C11": "c11.go, c11_exec.go, c11_tuple.go",
          "C12": "c12.go, c12_comments.go", "C13": "c13.go", "C14": "c14.go", "C15": "c15.go", "C16": "c16.go, c16_trace.go", "C17": "c17.go", "C18": "c18.go",
          "C19": "c19.go", "C20": "c20.go, cmd/stubgo/stubgo.c"}

# hand-written remarks per property: decisions, false alarms corrected, what TLC itself checks
REMARK = {
"C01": """TLC evaluates laws on Ops.tla itself (commutativity of the verdict for commutative operators, constness closed under folding, shift laws); the harness validates *every* point against `types.Eval` on an independent one-line rendering (S = T, else exit 2) before the builder's outcome is judged. Two engines: expressions (`opsRun`) and statements (`declsRun`: `:=`, `=`, `var`, `return` with single values, multi-value calls, comma-ok forms, redeclaration, const blocks with iota, implicit repetition and a trailing stand-alone `const S = iota`). A third engine (`litRun`, Lits.tla) covers composite literals, index and slice expressions and indirection; its first run agreed with go/types after two corrections of the model (a 3-index slice without middle index is not syntax; duplicate keys of a map with interface key type are compared after default typing) and exposed five more root causes of unsound acceptance (KF-C01-11..15), one of spurious rejection (KF-C02-5) and one of type reporting (KF-C03-4). A fourth engine (`srRun`, StmtRules.tla) covers the typing rules of statement heads; four corrections of the model came from go/types (boolean constants are not checked for duplicate cases; a tagless switch compares `true == x`, so interface cases are fine; an untyped boolean case is comparable with an interface tag) and it exposed KF-C01-16..18 (duplicate cases, unchecked send statements, range over a send-only channel). The four properties C01-C04 are four *verdicts* of the same points (`opsClassify` / `declsClassify`): unsound acceptance, spurious rejection, reported type, constness/value. **Later engines, same discipline (S = T on every point, else exit 2):** Lits.tla (composite literals incl. open-length arrays `[...]T{..}` whose length enters the type, index / slice / indirection / conversions), StmtRules.tla (conditions, switch cases, range, type switch and type assertion incl. methods on the pointer receiver or of another signature, send, `++`) and Builtins.tla (the predeclared functions `len cap new make append copy delete complex real imag min max clear close panic`, `unsafe.Sizeof/Alignof/Offsetof`: 16 541 calls; the model agreed with go/types on validity, result type, constness, exact constant value and untypedness at its second run - the first had the size of a directional channel wrong). Builtins.tla exposed six further root causes (KF-C01-19..21, KF-C03-6/7, KF-C04-3).""",
"C02": """Besides the C01 engine's "valid Go rejected" verdict, C02 owns the statement level. (1) **Flow bodies**: every *valid* function body enumerated from Flow.tla (validity = no missing return, no unused / duplicate label; cross-checked with go/types) is built in one package per batch, the package is written, and each emitted function must have the same *typed canonical tree* (astcanon.go: positions, comments, redundant parentheses, `else { if }` vs `else if`, grouped field names, empty result lists and import names removed; every identifier annotated with universe / package / member / n-th local as go/types resolves it) as an independent rendering of the same operations. Flow.tla gained the action `FGoto` (forward goto: `NewLabel` + `Goto` now, `Label` later in an enclosing block, tracked by block paths of frame ids) for this. (2) **Headers.tla** transcribes the Go specification's composite-literal ambiguity rule (`Exposed`, with the precedence refinement that a unary or binary operand of a primary expression is necessarily parenthesised) and places every expression tree of a grammar (8 bases incl. a literal of an instantiated generic type, chains of selectors / method calls, 17 finals) in 14 statement contexts; `go/parser` on the text *without* protective parentheses validates `Ambiguous` on every point. The builder must accept each placement and emit text that parses back to the same tree. (3) **Expression shapes** (c02_shapes.go): the trees of Print.tla over operators closed on one operand type are pushed on the operand stack and the expression the builder holds must read back as the same tree - added after a seeded change to the printer (`x op (y op z)` printed without parentheses) slipped through: the nested family of Ops.tla is left-nested only.""",
"C03": """Same points as C01; additionally the lookups of Select.tla are replayed with `selectForC03`: the result type of `MemberVal` / method expressions and the object passed to `Recorder.Member` must be the member Go selects. **Round 2:** a typed constant shifted by a variable (`c << n`) had been left out of Ops.tla together with the genuinely context-dependent untyped case; it is a non-constant value of the constant's type.""",
"C04": """Same points; compared are constness and the exact constant value (go/constant `ExactString`), also for constant declarations (`Package.Types.Scope()` entries vs go/types on the written package). **Round 2:** Units.tla (literals with a unit as the constant conversion `T(literal * factor)` in exact decimal arithmetic, *histories* of literals replayed on one package because the parsed unit table is cached per type) and the symbolic complement `2^w - k` of unsigned constants in Builtins.tla were added after two seeded changes slipped through; Units.tla at once exposed a genuine defect (`2.5mm` of an integer-based type emitted as the INT literal `5/2`), repaired in 1867c48.""",
"C05": """GoTypes.tla carries symbolic constants 2^e+d (TLC integers are 32-bit) so that representability is exact up to 2^1024. TLC checks meta-invariants on the grid (assignability implies convertibility, identical types are mutually assignable, comparison symmetric, ...). Every grid point is asked of go/types (S = T) and of the real `AssignableTo / AssignableConv / ComparableTo / ConvertibleTo / Default` with both argument orders. Root-cause predicates (`c05RootCause`) attribute a failing point to one of six known classes; anything else is a violation. Every point is asked a second time with alias types (`type AV = V`): the alias-nil defect repaired in 3ba0e5d (found by C11) would have been reported as `alias-changes-verdict/ComparableTo...` - checked by reverting the fix.""",
"C06": """The model is a *step machine* mirroring `matchFuncCall`: Backup, Enter (arity + inference on the current arguments, bind stored), Step (one argument against one parameter; rewrites `init0/init1` through `T_Init__k`, `inst` for a generic function value, `narrow` for a single-candidate overloaded value - the narrowing also happens when the match fails), Fail (restore), Succeed. Invariants FirstApplicable / NoResidue / ResultType compare the machine with the functional definition; `Restore = FALSE` must violate them (run on every invocation). Named deviations of the implementation are parameters of the functional definition (`d = TRUE`), so that a failing point that equals the deviation's prediction is attributed to KF-C06-1..3 and everything else is a violation. A hand mutant (dropping `restoreArgs` in the function loop) is caught. Realisations: imported functions, value / pointer receiver methods, interface methods, an `XGoo_` ordered family (names in reverse lexical order), an in-package family (`NewOverloadFunc`), and the overloaded binary operator (`x + arg` with methods `XGo_Add__i`) for families of one-operand signatures. **Round 2:** long threshold families (1-12 members, base-36 member suffixes, blank `XGoo_` slots) and the *retry* realisation (an accepted call repeated after a call that no candidate accepts, through the same callee element) were added after two seeded changes slipped through.""",
"C07": """The first version of the fragment agreed with go/types on all 21 184 points at the first run; three later disagreements refined the model (explicit type arguments are never re-bound to a defined type; a bare unary/`StarExpr` etc. are not part of it). The replay found the variadic-adapter defect at once (fixed, 0deb63f). Function values (`InferFV`: parameters *and* results of the generic function unified exactly with the expected function type), `f(xs...)` calls and the type-as-parameter realisation (`XGox_` functions called as `F(T1, args..)`) were added after the seeded changes for C07 were missed; they exposed two more defects (183f873, b42d3c6). **Round 2:** `InferPV` (an explicitly instantiated function used as a plain value: only core types can supply the rest, every type argument is checked) and signature 18 `Gather[T, U any](u U, xs ...T)` (explicit-only variadic element parameter next to an inferred one) were added after two seeded changes slipped through.""",
"C08": """Select.tla was validated against `types.LookupFieldOrMethod` on every lookup (S = T). Replayed: `MemberVal`, `MemberRef`, method expressions `(T).m` / `(*T).m`, with addressable / non-addressable / pointer operands. **Round 2:** two more realisations of every graph - types with equal field lists sharing one struct object (`type B A`), and delay-loaded types whose underlying type and methods arrive through `Config.LoadNamed` at the first lookup - were added after two seeded changes slipped through.""",
"C09": """Histories are replayed with `go/types` on every written file (imports exactly the used packages, names unique, no collision with declared names, references resolve to the intended package). Failing histories are delta-debugged (operations removed, arguments simplified) to a minimal witness whose *shape* is the finding key; five root causes are known findings, two were fixed. **Round 2:** `Visit` (a whole declaration made in the other file between `SetCurFile` and `RestoreCurFile`) and `RefAt` (references from ten syntactic positions, e.g. the key of a map literal) were added after two seeded changes slipped through: `RestoreCurFile` had only been used inside `Cross`, all of whose histories fall under KF-C09-1, and every reference had been a call statement or a variable type. A further position (`tparam`: the constraint of a type parameter) exposed a genuine defect - the used-import scan did not walk type parameter lists - repaired in 4987ba8.""",
"C10": """S (Flow.tla's Term/TermList/HasBreak transcription and label counters) = T (go/types diagnostics on an independent rendering) on every body, else exit 2. Compared with the builder: number of `missing return`, unused labels, duplicate labels. Forward gotos were added with C02. **Round 2:** configuration `for-if-else-break-9` (condition-less `for`, `if` / `else if` chains, `break`) was added after a seeded change to `hasBreak` (else-if arms not searched) slipped through: no configuration had combined the three with enough operations.""",
"C11": """R1-R6 are compared structurally (typed canonical tree of the emitted declaration vs the reference lowering rendered as Go; for the `any` member rule after inlining the hoisted `_autoGo_k` temporaries, plus the placement predicate for loop conditions). R5 is judged by value: the emitted construction (`big.NewInt`, `SetString`, `NewRat`, `SetFrac`, wrapped by init functions) is evaluated with math/big. R7 (user-defined range enumerators: iterator-function and `Next()` styles, pointer and value iterators, receivers that Go could range over natively, every loop-variable form, bodies with `break`) and R8 (inline closure calls: 0-2 parameters, variadic with 0-2 extra arguments, 0-2 results, plain / early-return / unused-parameter / mutating bodies) are judged by **execution**: the emitted functions and hand-written plain-Go references (a real range loop over the enumerated sequence, a real closure call) are compiled into one program with instrumented operands and run under three condition schedules; their traces (evaluation order, bound values, results, final values of assigned variables) must be equal. For assignment-form loop variables over `Next()` enumerators the reference is the documented loop (the final failing `Next()` overwrites the variable), not Go's native range. **R9 (tuple types, added in round 3)**: `NewTuple` with and without names held as a value, a defined type and a pointer; every spelling of a component (`t.0`, `t.X_0`, `t.x`) as value and as assignment target must lower to the ordinal field, `TupleLit` (typed and untyped) and the cast `T(a, ..)` / `T()` to the struct literal; `LookupField` / `IsTupleType` are probed on the same points (207 points; a sabotage that reverses the name-to-ordinal mapping is caught).""",
"C12": """Part A (Print.tla) is specification-decided: tokens, indispensable blanks, lexer and parser are all in TLA+ and TLC proves the round trip on every enumerated tree; the forked printer must produce that token stream. Part B compares the tree the package holds (`Package.ASTFile`) with the tree parsed from `Package.WriteTo`, and runs Headers.tla's placements (builder-side parentheses). Part C (Comments.tla) models emission order - an `if`/`for` statement is emitted at `End`, after the statements of its body, an if-initialiser when it is complete - so that the model, not the test author, says which statement a comment belongs to; the package is written twice. Part D (not specification-derived) prints position-stripped standard-library files. **Round 2:** configuration `compact-mode-depth3` (the printer's compact mode below an index and in mixed-precedence expressions: `x[x] + x & ^x`) and part E, TypeParams.tla (type parameter lists of generic type declarations: the trailing comma of `[P *int | string,]`, validated against go/parser), were added after two seeded changes slipped through.""",
"C13": """TLC checks `Parse(Tokens(t)) = t` over the bounded type grammar; `NoParens = TRUE` reproduces the `chan (<-chan T)` defect (fixed, 7fa8cc5). Each term is declared through the builder in every syntactic position across two files, written, re-checked, and the type read back is compared with the original. Instantiated generic types (`G[T]`, `ax.G[T]`, `P2[K, V]`) are constructors of the grammar (tokens, parser, realisation through `Package.Instantiate` / `types.Instantiate`), so type arguments nest arbitrarily with the other constructors. **Round 2:** interface methods now carry signatures (`Printf(T, ...U)`, `Get(T) (U, T)`) in the grammar, the parser of TypeSyntax.tla and the comparison of read-back types; and every term naming an imported type is also declared as the type of a *local* variable after local types named like the imports (`type x int; type x1 = int`) - added after two seeded changes slipped through.""",
"C14": """Zero.tla states the two demands on a synthesised zero value (accepted where a T is expected; static type exactly T in an inferred position), proves satisfiability for every type of the universe and evaluates the form the implementation chooses (`ImplForm`), thereby *predicting* the deviation class `UntypedZeroForm` (KF-C14-1); the named-struct/array case was fixed (da1024a). Users replayed: `ZeroLit`, `T()`, `ReturnErr`, `ReturnErr(outer)`, omitted optional arguments, each also after operand-rewriting pre-steps (the cached zero element must not be mutated). **Round 3:** every (type, user) is replayed in four *realisations* of the type: as it is, through an alias declared in the package, through an alias of an alias, and as a delay-loaded named type (`Config.LoadNamed`) whose first use is the zero value (one fresh type object per user).""",
"C15": """Determinism.tla is a self-composition: two builds of the same program with free iteration-order choices for every map-backed collection; `Sorted[c] = FALSE` must produce a counterexample. Replay: K = 25 in-process builds plus builds in child processes (map seeds differ per process), files rendered through `ForEachFile`. **Round 3:** two more collections - `xgosame` (extension dependencies that share their package name: a walk sorted by a key on which items tie is as unordered as an unsorted one; `Sorted` now takes the values total / bykey / none and TLC must refute `bykey` for this collection) and `ovref` (explicit `XGoo_` overload families that list another family, one registered before and one after it); programs have at most three non-empty collections (577 quick, 1789 thorough).""",
"C16": """History entries `<<op, arg, len, scope, sdepth, fn, labels, invb>>` are compared after *every* step with the real builder's projected state (stack length, scope identity and depth, current function, visible labels). `Leak = TRUE` is the sabotage guard. The former known finding KF-C16-1 (inline-closure base) disappeared with fix 4acf71e; the model had always described the sane behaviour. **Trace validation**: `Blocks.tla` / `BlockTrace.tla` check executions of the repository's *own* tests (recorded through the `verifTrace` hook at `startBlockStmt` / `endBlockStmt`) against the frame discipline; the first version rejected a white-box test that opens an `if` outside any function (the scope depth outside the outermost construct is not recorded: relaxed for the outermost frame only) and tests of error paths, which misuse the protocol on purpose (skipped by name). **Round 3:** action `EndInitRejected` (a reported initialiser - `EndInit(2)` for one name - still pops its operands and leaves the initialiser context, which is what `endInit`'s deferred clean-up is for) and configuration `init-reject`: the first modelled error path, because clients that collect errors go on with the same builder.""",
"C17": """Total.tla contributes the cross product (operation x operand classes x configuration); the only prediction is Outcome in {ok, reported error}. Every point runs in an isolated worker (6 GB address space, 128 MB stack, 20 s deadline); a dying point is confirmed alone; after 12 confirmed deaths the run stops early (the verdict is already FAIL). Operand classes include huge constants (2^40 .. 10^10000), types, references, multi-value and no-value calls and recursive types (A{*B}/B{*A}, type L []L). **Round 3:** configuration `src`: operands and operations carry source nodes and no `NodeInterpreter` is configured; every reported error is rendered explicitly (`Error()` under the harness's own recover: `fmt` swallows a panic inside `Error()`), also the errors delivered to `HandleErr`.""",
"C18": """Shared.tla lists the package-level singletons (`VerifSharedGlobals`) each feature reads or writes; `Mutating = TRUE` is the sabotage guard. Replay: deep snapshots of the singletons around sequential builds; tuples of programs built in parallel must equal their sequential builds; the same tuples run under the race detector (`.bin/vcheck-race`). Every builder has its own big-number types; features `btiadd` / `btiuse` customise and probe the per-package builtin-type table.""",
"C19": """TypeMap.tla refines a map over identity classes (TLC, 236 states; sabotage constants `StopAtFirstHole`, `IgnoreTombstone`); traces recorded from the real `typeutil.Map` (hash forced to collide / to one bucket) are validated by TypeMapTrace.tla; a pool of identical-but-distinct type pairs checks `hash identity`. **Round 3:** the pool derives nine more forms from every base type (method of an interface, nested signature below a method, variadic parameter, channel directions, map key, unions in both term orders, constraint of a generic signature): ~1830 types, 1.67 million pairs. Generic function types are not put below interface methods: such a type is not a Go type and the hasher (like x/tools') hashes type parameters met there by pointer - the first run of the wider pool raised 43 alarms of exactly that kind, a defect of the pool, not of the code (§8).""",
"C20": """Cache.tla models `Find` as the code's steps with the environment (fingerprint changes, `go list` failures, disk file, restart); `StaleBug = TRUE` reproduces the stale-serve defect (fixed b2397a6). Gated replay: the fingerprint callback and a stub `go` executable (C, unix socket) are scheduler gates, so every interleaving TLC enumerates for two callers is forced on the real code.""",
}

out = []
w = out.append
w("""# Verification of goplus/gogen - model-based, with explicit TLA+ specifications (as built)

This document describes what is in `/verif` and why. It is generated by `tools/gen_design.py`
(hand-written text plus tables taken from `MANIFEST.json`, `known-findings.json`, `seeded/` and
`evidence/`), so the numbers below are the registered ones. The design-round document it replaces is
kept as `docs/DESIGN-round0.md`; where the two differ, this one is right.

**Status.** All 20 properties (C01-C20) are claimed; `not_applicable` is empty. Every property has
a TLA+ specification checked by TLC, a binding to the real code (replay of TLC-generated
behaviours; for C19 and C16 also TLC validation of traces recorded from the real code), a quick and a thorough tier, evidence,
and at least four seeded property-breaking changes produced by independent sub-agents (%d in all): %d
are caught, the %d of the last round that are not are listed as such in §9 with what the model lacks
(§9 also says which were first missed and what was strengthened). While building, %d genuine
defects of the pinned tree were repaired by small `fix:` commits in `/repo` and %d root causes are
recorded as known findings (§7).

**Reading guide.** §1 why this technique; §2 architecture and interface; §3 verdict discipline;
§4 shared modules; §5 per property; §6 summary table; §7 defects (fixes and findings); §8 false
alarms met and what was done; §9 seeded changes and which check catches which; §10 what is not
covered; §11 cost; §12 hooks; Appendix: practical notes.
""" % (sum(len(v) for v in seeded.values()),
       sum(1 for v in seeded.values() for (n, m) in v if not m['checks']['detected_by'].startswith('NOT CAUGHT')),
       sum(1 for v in seeded.values() for (n, m) in v if m['checks']['detected_by'].startswith('NOT CAUGHT')),
       sum(len(v) for v in fixed.values()), sum(len(v) for v in kf.values())))

w("""
---------------------------------------------------------------------------------------------------

## 1. What is being verified, and why a TLA+ model reaches what the tests cannot

gogen is a *sequential stack machine with a type checker attached*: a client drives `CodeBuilder`
with a history of operations (`Val`, `BinaryOp`, `If`/`Then`/`End`, `Call`, ...); each operation pops
and pushes typed operands, opens or closes block / scope / function contexts, appends statements,
registers imports and names, and finally `WriteTo` prints files. Around it sit three small state
machines: the type-keyed map (`typeutil.Map`), the export-data cache (`packages/cache`) and the
per-file import table.

The repository's 674 tests have one shape: build one hand-picked program and compare the printed
text (or one error message) with a hand-written string. That decides nothing that is quantified over
*all* histories, programs, inputs, schedules or fault sequences, and it has no oracle for "accepted
but wrong". Every listed property is of that quantified kind.

The same loop is used for every property:

1. **Specify** the relevant state and transitions in TLA+ (`spec/*.tla`): the builder as a typed
   stack machine whose actions are the public API calls; the Go specification's judgements
   (assignability, representability, constant folding, selector lookup, terminating statements,
   call applicability, type-argument inference, the composite-literal ambiguity rule, expression
   syntax) as TLA+ operators over closed finite universes; the side machines with their environment
   (fingerprints, files, `go list` failures, hash collisions, map-iteration order, interleavings).
2. **Model-check** with TLC: invariants and action properties that state the property at the level
   of the model, exhaustively for small constants, by simulation beyond. TLC is at the same time the
   *generator*: every behaviour or point it explores is printed (JSON through `PrintT(ToJson(..))`)
   with the observations the property predicts.
3. **Bind** the specification to the implementation: the generated behaviours are replayed on the
   real code built from `/repo`'s working tree (with `-tags verif`) and the projected real state is
   compared with the prediction after every step; for the type map, executions recorded from the real
   code are validated by TLC against a trace specification that reuses the model's actions.

A code change that breaks a property is detected in step 3; a flaw in the model is detected in step
2 or by the validation of the model against go/types / go/parser (§3.2), which turns TLA+
transcriptions of Go rules from "plausible" into "equal to the reference on every enumerated point".

What it does not buy is said per property (§5) and collected in §10.

---------------------------------------------------------------------------------------------------

## 2. Architecture and interface

```
/verif
  DESIGN.md  MANIFEST.json  known-findings.json  known/KF-*.keys   check (shell entry)
  spec/*.tla            22 specification modules (configurations are generated by the drivers)
  harness/              Go module verif/harness, stdlib only, `replace github.com/goplus/gogen => /repo`
    cmd/vcheck          dispatcher: vcheck <ID> <quick|thorough|emit> [--replay file]
    cmd/stubgo/stubgo.c scripted `go` executable for C20 (scheduler gate)
    internal/tlc        runs TLC in a scratch directory, streams JSON payload lines, maps exit codes
    internal/ev         evidence, known-findings lookup, replay files, VIOLATION / KNOWN-FINDING / PASS lines
    internal/props      one driver per property (cNN*.go), shared: gotypes.go, expr.go, decls.go, astcanon.go
  tools/                gen_manifest.py (source of MANIFEST.json), gen_design.py (this file), mk_points.py
                        (groups dumped finding keys into known/KF-*.keys by root-cause rule), keep_mutant.sh, meta.py,
                        mutant_prompt.py (prompt given to seeding sub-agents)
  evidence/<ID>.json    rewritten by every run          replays/<ID>-<hash>.json   one per reported key (max 40)
  seeded/<ID>-<n>/      patch.diff, demo_test.go, notes.md (the seeding agent's), meta.json
```

`./check --setup` builds the harness, the race-detector build used by C18 and the C stub. `./check
<ID> <tier>` rebuilds the harness from `/repo`'s *current working tree* on every invocation, runs
TLC on the specification(s) of the property, replays, classifies and writes `evidence/<ID>.json`.
Exit codes: 0 = held on everything explored (possibly `KNOWN-FINDING:` lines), 1 = `VIOLATION
property=<id> replay=<path>` for a key the known-findings file does not list, 2 = infrastructure
failure (TLC error, specification disagreeing with its reference, dead worker, timeout) - never a
verdict. `./check <ID> quick --replay <file>` re-runs one recorded case. `VERIF_SEED` seeds the
simulation-based parts (default 1). Nothing a registered command needs lives under `/tmp`; TLC
scratch directories and worktrees are removed after use.

---------------------------------------------------------------------------------------------------

## 3. Verdict discipline

### 3.1 Only property-level predictions are compared
A model predicts observations the property talks about (accept / reject, type, constant value,
stack length, import set, served file, diagnostics, token stream, trace of an execution) - never
error message texts or internal representation.

### 3.2 The specification is itself validated: S, T, G
For every transcription of a Go rule there are three parties: **S** the TLA+ model's prediction,
**T** an independent reference (go/types `Eval` / `Check` / `LookupFieldOrMethod` / `Info.Instances`,
go/parser, go/scanner, go/format) on an independent rendering of the same point, **G** gogen. S is
compared with T on *every* point first; a disagreement is a defect of the model, reported as exit 2
(`INFRA-FAILURE ... specification defect, not a verdict`) and never as a violation. Only G differing
from S (= T) yields `VIOLATION` / `KNOWN-FINDING`. This is what made it safe to write rule
transcriptions quickly: e.g. Infer.tla agreed with go/types on all 21 184 points at its first run and
the three later disagreements were corrected in the model, not in the verdict.

### 3.3 Known findings and fixes
`known-findings.json` lists genuine defects of the pinned tree by *specification-level keys*
(class of the point: operator class and operand pattern, statement context and literal spine,
minimal history shape ...), never by message text. An entry has `key`, `keys` or a `points` file
(`known/KF-*.keys`: exact key sets produced once with `VERIF_DUMP_KEYS` + `tools/mk_points.py`, whose
regular expressions only *sort* dumped keys into root causes; at run time only exact membership
counts). A reported key that is listed prints `KNOWN-FINDING: property=<id> <entry> ...` and does not
fail the run; any other key is a violation, so a different violation of the same property is still
reported (the seeded changes below are caught although their properties have known findings). Nothing
adds to the file at run time. Where a root cause is best described as a *named deviation of the
model* (C05, C06, C14, C11-R6), the model carries the deviation as a parameter and a failing point is
attributed to it only if the implementation's outcome equals the deviation's prediction.
`fixed:` entries record repaired defects (`property=<id> <commit> <what failed>`); they suppress
nothing.

### 3.4 Vacuity and binding guards
Every model with an invariant has a sabotage constant that must make TLC report a violation, run
on every invocation where cheap (one such guard was itself found vacuous: C16's first constants `EndBlock` /
`Else` do not touch any invariant because the model's End actions are only enabled at the frame's base; they
ran in the thorough tier only and the first complete thorough run exposed it; the guard is now `Leak =
"Restore"` and runs in both tiers) (`Restore = FALSE` C06, `NoBlank` / `NoParens` C12, `NoParens` C13,
`Leak` C16, `Mutating` C18, `StaleBug` C20, `Sorted[c] = FALSE` C15, `StopAtFirstHole` C19). Drivers
abort with exit 2 when a configuration generates no point, no valid body, no ambiguous placement, no
attachment, when a realisation is never exercised, or when the number of received points differs from
TLC's distinct-state count. That the binding is live is shown by the seeded changes (§9): each is
a change of `/repo` only, and the checks turn red.

---------------------------------------------------------------------------------------------------

## 4. Shared modules

* `GoTypes.tla` - closed type universe (basic, named, pointer, slice, array, map, chan, func, struct,
  interface) with the Go specification's judgements as pure operators; constants are symbolic
  (`2^e + d`) because TLC integers are 32-bit. Used by Grid (C05), Zero (C14), TypeSyntax (C13).
* `Ops.tla`, `Decls.tla` - expression and statement engines of C01-C04.
* `Flow.tla` - statement-level builder protocol with the tree under construction; used by C10, C02, C12.
* `Headers.tla` - composite literals in statement headers; used by C02 and C12.
* `astcanon.go` - typed canonical form of Go source (see C02); used by C02, C11, C12.
* `internal/tlc` - one way to run TLC (scratch dir, heap, workers, `-simulate`, JSON streaming,
  exit-code mapping 12/13 = violation); small runs use SerialGC + C1 for JVM start-up time.
* `sharedImporter()` - one mutex-wrapped export-data importer per process (the gc importer is not
  safe for concurrent use: this was the cause of a crash in a fresh sandbox, see §8).
""")

w("\n---------------------------------------------------------------------------------------------------\n\n## 5. Per property\n")
w("Each subsection: the registered claim (from MANIFEST.json), remarks on the model and binding, findings and fixes, seeded changes, limits.\n")
for p in props:
    pid = p['id']; c = checks[pid]
    w(f"\n### {pid} - {p['title']}\n")
    w(f"* **Specification**: `{SPEC[pid]}`; driver `harness/internal/props/{DRIVER[pid]}`. Level claimed: {c['level_claimed']['category']}.")
    w(f"* **Claim**: {c['level_claimed']['text']}")
    w(f"* **Technique**: {c['technique']}.")
    if pid in REMARK:
        w(f"* **Remarks**: {REMARK[pid]}")
    e = ev.get(pid)
    if e:
        cov = e['coverage'] if isinstance(e['coverage'], dict) else {}
        w(f"* **Quick tier, last run on the committed tree**: {cov.get('evaluations', '?')} cases ({cov.get('distinct_nontrivial', '?')} distinct) in {e.get('wall_s', 0):.0f} s; TLC states {cov.get('states', '?')}.")
    for (h, t) in fixed.get(pid, []):
        w(f"* **Fixed** `{h}`: {t}")
    for k in kf.get(pid, []):
        w(f"* **Known finding {k['id']}**: {k['what']} ({k.get('where', '')})")
    for (n, m) in seeded.get(pid, []):
        w(f"* **Seeded {n}**: {m['breaks']} - {m['checks']['detected_by']}")
    w(f"* **Limits**: {c['level_note']}")

w("\n---------------------------------------------------------------------------------------------------\n\n## 6. Summary\n")
w("| id | specification | quick cases | quick s | fixes | known findings | seeded caught |")
w("|---|---|---|---|---|---|---|")
for p in props:
    pid = p['id']; e = ev.get(pid, {}); cov = e.get('coverage', {}) if isinstance(e.get('coverage'), dict) else {}
    w(f"| {pid} | {SPEC[pid]} | {cov.get('evaluations', '?')} | {e.get('wall_s', 0):.0f} | {len(fixed.get(pid, []))} | {len(kf.get(pid, []))} | {sum(1 for (n, m) in seeded.get(pid, []) if not m['checks']['detected_by'].startswith('NOT CAUGHT'))}/{len(seeded.get(pid, []))} |")

w("\n---------------------------------------------------------------------------------------------------\n\n## 7. Genuine defects of the pinned tree\n")
w("""Every entry below was reproduced against the real code (the replay file named in the entry's
keys re-runs it). **Fixes** are single `fix:` commits in `/repo`, each touching only what the defect
requires; the repository's suite, unedited, passes on the final HEAD with the `verif` tag off
(`go test ./...`: gogen, packages, packages/cache ok). **Known findings** were not repaired because
the repair is not small and safe: it would change output that the repository's own expected strings
pin (inline-closure argument order, statement-comment layout, untyped zero values, the constant
paths), or it needs a redesign (parenthesisation of literals in every statement head, hoisting of
assertions, operand checking for constant operands), or the behaviour is arguably intended.\n""")
w("### 7.1 Fixes (`git -C /repo log`)\n```\n" + repo_log + "\n```\n")
w("| property | commit | what failed |\n|---|---|---|")
for pid in sorted(fixed):
    for (h, t) in fixed[pid]:
        w(f"| {pid} | {h} | {t[:300]} |")
w("\n### 7.2 Known findings\n\n| id | what | where |\n|---|---|---|")
for pid in sorted(kf):
    for k in kf[pid]:
        w(f"| {k['id']} | {k['what'][:400]} | {k.get('where', '')[:160]} |")

w("""
---------------------------------------------------------------------------------------------------

## 8. False alarms met while building, and what was done

A check that is wrong is corrected or removed; it is never listed as a finding. The cases met:

* **C19** - an early check counted commas in `KeysString()`; type strings contain commas. Removed.
* **C20** - the model had `nlist++` and the `go list` call in one step; the code increments first.
  Split into a silent `PrepCount` step. The first stub ignored `-f` templates (it *missed* a seeded
  change rather than alarming); it now renders `{{.ImportPath}} {{.Export}} {{.Deps}} {{.Imports}}`.
* **C16** - `Rec` used primed variables before assignment; inline closures in statement heads produce
  "too many init statements" in the real builder, so `InlineStart` is restricted to bodies; history
  counts were calibrated per family. All were model defects found by replay on the unchanged tree.
* **C10** - go/types prints a continuation line ("other declaration of L") that was counted as a
  second diagnostic; a trailing label needs `;` in the independent rendering; type-switch cases need
  distinct types. Renderer / classifier corrected.
* **C09** - nil vs empty slices in the JSON recomputation; key explosion (fixed by minimisation and
  root-cause classes, not by loosening).
* **C05 / GoTypes.tla** - `Int` clashed with the Integers module; constants beyond 512 bits are not
  legal Go source (float kinds use `0x1pN`); untyped constant to interface needs representability in
  the default type. Model corrected until S = T.
* **C13 / TypeSyntax.tla** - an embedded pointer to an interface is not valid Go: removed from the
  grammar.
* **C09 in a fresh sandbox** (`vp check` #2) - "concurrent map read and map write" inside the gc
  importer shared by goroutines: the harness now wraps it in a mutex and warms it up. This was a
  harness defect (exit by crash), not a verdict.
* **C01-C04 harness** - conversion targets were looked up in the package scope (nil for basic types);
  type names normalised (`p.MyInt`, alias, rune/int32).
* **C17** - the regular expression that sorts keys into KF-C17-4 was too broad; restricted to exotic
  operand shapes. A failing mutant run took 30 minutes (every death costs two worker starts): stack
  limit 128 MB and a stop after 12 confirmed deaths; a skipped remainder without that many deaths is
  exit 2.
* **C06** - named return `applicable` stayed false when the builder rejected by panic: rejections
  were silently not evaluated (66 568 instead of 378 120 cases). Found by reading the evidence
  numbers; fixed.
* **C07** - the model re-bound an *explicit* type argument to a defined type (`Sl[[]int](vmysl)`); Go
  keeps explicit arguments. Model corrected (TLC's `ExplicitRespected` caught it before the
  comparison with go/types did).
* **C11** - my reference for optional parameters lacked the documented `__xgo_optional_` marker in
  the emitted declaration; my reference for assignment-form loop variables over `Next()`
  enumerators was Go's native range, stricter than the documented lowering. References corrected.
  `ForRange("_")` over iterator functions is not valid input (it denotes `for _ := range`): removed
  from the catalogue.
* **C12** - `Results=(FieldList [])` vs `Results=nil` are the same tree: normalised in the canonical
  form. The depth-3 tree sets exceeded TLC's 10^6 set-size limit: smaller operator sets.
* **C02 thorough** - two unmeasured Flow configurations did not finish in 40 minutes (6.6*10^7 states
  after 5 minutes): re-fitted to measured counts (4.5*10^6, 3.9*10^6, 1.8*10^6 states).
* **C19, round 3** - the widened type pool put *generic function types* below interface methods
  (`interface{ M(func[T any](T)) }`): 43 "identical types hash differently" alarms on the unchanged
  tree. A generic function type is not the type of any value, so such an interface cannot be
  written in Go; the hasher (like x/tools' typeutil, which it is derived from) hashes type parameters
  met below an interface method by pointer. The check demanded more than the property's domain
  (keys are Go types): the derived forms imeth / ideep / gsig are no longer built from generic
  signatures. The alias-below-a-method pairs that the same forms add are kept (they caught C19-3).
* **C12 evidence** (`vp check` #6) - `assumptions: null` in the evidence of a run that records no
  assumption before `Finish`; the evidence writer now always emits a list.
""")

w("---------------------------------------------------------------------------------------------------\n\n## 9. Seeded changes: which check catches which\n")
w("""Each change was produced by a fresh sub-agent that was given only the text of one property and its
own scratch git worktree of `/repo` (nothing from `/verif`), had to keep the build and the whole
unedited suite green, and had to deliver a demonstration that fails with the change and passes
without. I confirmed each in a scratch worktree (`tools/keep_mutant.sh`: patch applies, `go build`,
demo passes without / fails with) and ran the checks with `git -C /repo apply` ... `git -C /repo
checkout -- .`. None is committed to `/repo`. "First MISSED" marks the changes my checks did not
catch when they were delivered, with what was strengthened. "NOT CAUGHT" marks the changes of
the last round (C10-5) that are
still missed: each entry says which dimension the specification lacks; they are the next work items.\n""")
w("| change | what it breaks | detected by |\n|---|---|---|")
for pid in sorted(seeded):
    for (n, m) in seeded[pid]:
        w(f"| {n} | {m['breaks'][:330]} | {m['checks']['detected_by'][:520]} |")
nmiss = sum(1 for pid in seeded for (n, m) in seeded[pid] if 'MISSED' in m['checks']['detected_by'])
ntot = sum(len(v) for v in seeded.values())
w(f"\n{ntot} changes, {nmiss} of them first missed. The pattern of the misses is instructive: almost every one needed a *dimension the model did not have yet* (forward goto, statement headers, alias-typed operands, a stand-alone iota constant, force-imports, recursive types, per-package big-number types, multi-value call arguments, function values, type-as-parameter calls, a second write, enumerators on rangeable receivers) - none was missed because a comparison was too weak. Extending the specification by that dimension repeatedly exposed further genuine defects of the pinned tree (C06: KF-C06-2/3; C07: two fixes; C02: the header-parentheses fix aeb3ba7; C11: five fixes).\n")

w("""
---------------------------------------------------------------------------------------------------

## 10. What is not covered

* **Bounds.** Every enumeration is bounded (operations per history, nesting, chain length, pool of
  operands and types, family length, arguments per call); the bounds are in the evidence files and in
  §5. TLC integers are 32-bit: wide arithmetic is symbolic (GoTypes) or delegated to math/big (C11).
* **Fragments.** C07 is a fragment of Go's inference (no interface inference, channel directions,
  generic function values as arguments of generic functions: `Id(Id)` does not terminate, a C17
  matter); C06 has no unary overloaded operators and no overloaded named-type casts; C11's tuple rule (R9) has three shapes and no tuples nested in tuples;
  C12 does not model gofmt's layout (canonicality is the predicate "go/format leaves the text
  unchanged" on specification-enumerated trees and a standard-library corpus); C13 enumerates instantiated generic types but not the declaration of type-parameter lists; C02's statement structure is that of Flow.tla's alphabet (no
  `select` communications with values, no `defer`/`go` bodies beyond C16's protocol).
* **Meaning.** "Same program" and "documented lowering" are decided structurally (typed canonical
  trees) except C11 R7/R8, which execute. A wrong entry that is wrong both in the catalogue and in
  the code is invisible.
* **Concurrency.** C18 explores tuples of builders under the race detector and by snapshots, not
  all interleavings; C20's gated replay forces every interleaving of two callers that TLC
  enumerates, not three.
* **Code never exercised.** The models see only paths that a replayed behaviour or recorded trace
  drives; JS target (`*_genjs.go`), class-file builders (`ClassDefs`), `TypeDefs` deletion beyond C09,
  the `packages` importer's error paths beyond C20 are not driven.

## 11. Cost

Quick tiers: see §6 (sum about 9 minutes on this machine with 16 cores; C16 takes a minute because it also runs
a subset of the repository's tests with the trace hook). All quick tiers were run with VERIF_SEED = 1, 2 and 3 on
the unchanged tree: all pass. Thorough tiers, measured on the final tree (seconds; cases):

| C01 | C02 | C03 | C04 | C05 | C06 | C07 | C08 | C09 | C10 |
|---|---|---|---|---|---|---|---|---|---|
| 38 s, 7.5e4 | 309 s, 1.6e5 | 40 s, 7.5e4 | 54 s, 4.3e4 | 20 s, 3.8e4 | 137 s, 2.4e6 | 306 s, 1.0e5 | 186 s, 1.4e7 | 1671 s, 2.4e6 | 658 s, 1.6e6 |

| C11 | C12 | C13 | C14 | C15 | C16 | C17 | C18 | C19 | C20 |
|---|---|---|---|---|---|---|---|---|---|
| 6 s, 8.0e2 | 765 s, 1.7e6 | 15 s, 1.6e4 | 2 s, 3.1e2 | 479 s, 4.1e3 | 752 s, 4.0e6 | 53 s, 9.2e4 | 159 s, 4.3e4 | 44 s, 9.8e5 | 893 s, 7.9e4 |

About 1.8 hours in total. C09 thorough needs about 14 GB of memory (delta-debugging of every failing history).
Thorough configurations were fitted to measured state counts (a configuration that does not finish is an
infrastructure failure, never a pass): the first attempt at C02 thorough contained a Flow configuration with more
than 6.6*10^7 states and timed out after 40 minutes; C12's depth-3 tree set exceeded TLC's set-size limit. C11 and
C14 are exhaustive over their catalogues in both tiers. For C16 the thorough tier validates the block trace of the
repository's whole test suite (1280 events of 235 builders).

## 12. Hooks in /repo

Two hook commits (`verif:`), add-only. `verif_export.go` (`//go:build verif`): `VerifFormatNode` (the
forked formatter cannot be imported from outside the module) and `VerifSharedGlobals` (the package-level
singletons, for C18's snapshots). `verif_trace.go` / `verif_trace_off.go`: `verifTrace`, called by three
one-liners in `startBlockStmt` / `endBlockStmt`; without the tag it is an empty function, with the tag it
appends one JSON line per block event to the file named by `VERIF_TRACE_FILE` (C16 trace validation). With
the tag off the suite passes. MANIFEST.hooks records guard, enable and baseline-off commands.

## Appendix: practical notes

* TLC: `UNION` over thousands of tiny sets is quadratic - use a second VARIABLE for a dependent
  dimension (Infer.tla `ell`); `LET` definitions are re-evaluated at every use; sets above 10^6
  elements are an error; `(*` inside a comment opens a nested comment; strings are not sequences
  (tokens are records); comparing a string with an integer is a run-time error (binding vectors use
  `<<>>` as failure value); `-simulate` evaluates invariants on all successor candidates.
* Process creation is slow here (12 ms `/bin/true`, 54 ms a Go binary): the `go` stub of C20 is C; C17
  batches 3000 points per worker; C11 compiles all executed points into one program.
* A rejected builder call can leave a half-built declaration (a `FuncDecl` without type crashes the
  printer): drivers try a point in a scratch package before adding it to the shared one.
* Finding keys must not contain positions or counters (`stripPos`); keys are classes of points.
""")
open(f'{ROOT}/DESIGN.md', 'w').write("\n".join(out) + "\n")
print("DESIGN.md written:", len("\n".join(out).splitlines()), "lines")
