------------------------------- MODULE Decls -------------------------------
(* Declarations and assignment-like statements (properties C01-C04 at statement level).

   Go's rules for  x, y := rhs  /  x, y = rhs  /  var x, y T = rhs  /  return rhs  over
   single values, multi-value calls and the comma-ok forms (map index, channel receive,
   type assertion), and for constant declaration blocks with iota and implicit repetition.
   Every statement yields either Err(reason) or Ok with the static types of the variables
   it declares (C03) resp. the type and exact value of every constant (C03, C04).  TLC
   evaluates every point; the harness builds the same statement with the real CodeBuilder
   inside a function whose scope already declares x int and s string (so that := can
   *re*declare), compares acceptance (C01 unsound / C02 spurious), the types the builder
   records in the scope (C03) and the constant values (C04); go/types on an independent
   rendering validates these rules on every point. *)
EXTENDS GoTypes, Json
CONSTANT Family   \* "define" | "assign" | "var" | "return" | "const"

Err(w) == [ok |-> FALSE, why |-> w]
\* ---------- right-hand sides ----------
\* a value: [src, ty, c]; a multi-value call: [src, tys]; a comma-ok form: [src, ty] (one value of type ty, or ty and an untyped bool)
One(src, ty, c) == [k |-> "one", src |-> src, ty |-> ty, c |-> c]
Call2(src, t1, t2) == [k |-> "tuple", src |-> src, tys |-> <<t1, t2>>]
CommaOk(src, ty) == [k |-> "commaok", src |-> src, ty |-> ty]
C1 == Num(FALSE, 0, 0, FALSE, FALSE)
C300 == Num(FALSE, 8, 1, FALSE, FALSE)      \* 257 stands for "does not fit int8/uint8"
C15 == Num(FALSE, 0, 0, TRUE, FALSE)
Singles == {One("x", TInt, NoC), One("s", TStr, NoC), One("fl", TF64, NoC), One("mi", MyInt, NoC), One("e", Iface({}), NoC), One("gerr", ErrorT, NoC),
            One("h()", TInt, NoC),
            One("1", UT("int"), C1), One("257", UT("int"), C300), One("'\\u0101'", UT("rune"), C300), One("1.5", UT("float"), C15), One("\"s\"", UT("string"), [ck |-> "str"]),
            One("true", UT("bool"), [ck |-> "bool"]), One("nil", UT("nil"), NoC)}
Multis == {Call2("f()", TStr, ErrorT), Call2("g()", TInt, ErrorT)}
CommaOks == {CommaOk("m[\"k\"]", TStr), CommaOk("<-ch", TInt), CommaOk("e.(int)", TInt)}
\* the value list a right-hand side provides for n targets, or an error
Values(rhs, n) ==
  IF Len(rhs) = 2 THEN
       IF rhs[1].k # "one" \/ rhs[2].k # "one" THEN Err("multi-value-in-list")
       ELSE IF n # 2 THEN Err("count") ELSE [ok |-> TRUE, vs |-> <<[ty |-> rhs[1].ty, c |-> rhs[1].c], [ty |-> rhs[2].ty, c |-> rhs[2].c]>>]
  ELSE LET r == rhs[1] IN
       CASE r.k = "one" -> IF n # 1 THEN Err("count") ELSE [ok |-> TRUE, vs |-> <<[ty |-> r.ty, c |-> r.c]>>]
         [] r.k = "tuple" -> IF n # 2 THEN Err("count") ELSE [ok |-> TRUE, vs |-> <<[ty |-> r.tys[1], c |-> NoC], [ty |-> r.tys[2], c |-> NoC]>>]
         [] OTHER -> IF n = 1 THEN [ok |-> TRUE, vs |-> <<[ty |-> r.ty, c |-> NoC]>>]
                     ELSE IF n = 2 THEN [ok |-> TRUE, vs |-> <<[ty |-> r.ty, c |-> NoC], [ty |-> UT("bool"), c |-> NoC]>>]
                     ELSE Err("count")
\* ---------- targets ----------
ScopeTy(name) == CASE name = "x" -> TInt [] name = "s" -> TStr [] name = "fl" -> TF64 [] name = "mi" -> MyInt [] name = "e" -> Iface({}) [] OTHER -> UT("nil")
Existing == {"x", "s"}               \* declared in the statement's own scope
Outer == {"fl", "mi", "e"}           \* declared at package level
News == {"n1", "n2"}
DeclaredType(v) == IF v.ty = UT("nil") THEN Err("untyped-nil") ELSE [ok |-> TRUE, ty |-> Default(v.ty)]
AllOk(S) == \A r \in S : r.ok
FirstErr(seq) == LET bad == {i \in DOMAIN seq : ~seq[i].ok} IN seq[CHOOSE i \in bad : \A j \in bad : i <= j]
\* x, y := rhs
Define(names, rhs) ==
  LET vals == Values(rhs, Len(names)) IN
  IF ~vals.ok THEN vals
  ELSE IF Len(names) = 2 /\ names[1] = names[2] /\ names[1] # "_" THEN Err("repeated-name")
  ELSE IF \A i \in DOMAIN names : names[i] \in Existing \cup {"_"} THEN Err("no-new-variables")
  ELSE LET per == [i \in DOMAIN names |->
                     IF names[i] = "_" THEN (IF vals.vs[i].ty = UT("nil") THEN Err("untyped-nil") ELSE [ok |-> TRUE, ty |-> UT("nil")])
                     ELSE IF names[i] \in Existing THEN
                            (IF AssignableTo(vals.vs[i].ty, ScopeTy(names[i]), vals.vs[i].c) THEN [ok |-> TRUE, ty |-> ScopeTy(names[i])] ELSE Err("not-assignable"))
                     ELSE DeclaredType(vals.vs[i])] IN
       IF \E i \in DOMAIN per : ~per[i].ok THEN FirstErr(per)
       ELSE [ok |-> TRUE, decl |-> [i \in {j \in DOMAIN names : names[j] \in News \cup Outer} |-> [n |-> names[i], ty |-> per[i].ty]]]
\* x, y = rhs
Assign(names, rhs) ==
  LET vals == Values(rhs, Len(names)) IN
  IF ~vals.ok THEN vals
  ELSE LET per == [i \in DOMAIN names |->
                     IF names[i] = "_" THEN (IF vals.vs[i].ty = UT("nil") THEN Err("untyped-nil") ELSE [ok |-> TRUE])
                     ELSE IF AssignableTo(vals.vs[i].ty, ScopeTy(names[i]), vals.vs[i].c) THEN [ok |-> TRUE] ELSE Err("not-assignable")] IN
       IF \E i \in DOMAIN per : ~per[i].ok THEN FirstErr(per) ELSE [ok |-> TRUE, decl |-> <<>>]
\* var n1, n2 T = rhs      (T = UT("nil") means no type)
VarDecl(n, T, rhs) ==
  LET vals == Values(rhs, n) IN
  IF ~vals.ok THEN vals
  ELSE LET per == [i \in 1..n |->
                     IF T = UT("nil") THEN DeclaredType(vals.vs[i])
                     ELSE IF AssignableTo(vals.vs[i].ty, T, vals.vs[i].c) THEN [ok |-> TRUE, ty |-> T] ELSE Err("not-assignable")] IN
       IF \E i \in 1..n : ~per[i].ok THEN FirstErr(per)
       ELSE [ok |-> TRUE, decl |-> [i \in 1..n |-> [n |-> IF i = 1 THEN "n1" ELSE "n2", ty |-> per[i].ty]]]
\* return rhs   in a function with result types rs
Return(rs, rhs) ==
  IF Len(rhs) = 0 THEN (IF Len(rs) = 0 THEN [ok |-> TRUE, decl |-> <<>>] ELSE Err("count"))
  ELSE IF Len(rs) = 0 THEN Err("count")
  ELSE LET vals == IF Len(rhs) = 1 /\ rhs[1].k = "commaok" THEN Values(rhs, 1) ELSE Values(rhs, Len(rs)) IN
       IF ~vals.ok THEN vals
       ELSE IF Len(vals.vs) # Len(rs) THEN Err("count")
       ELSE IF \A i \in DOMAIN rs : AssignableTo(vals.vs[i].ty, rs[i], vals.vs[i].c) THEN [ok |-> TRUE, decl |-> <<>>] ELSE Err("not-assignable")

\* ---------- constant blocks ----------
\* a spec is [ty, e]: ty \in {"", "uint8", "int", "MyInt", "string"}; e \in {"", "iota", "k", "str", "iota*2", "1<<iota", "big"}
\* ("" = implicit repetition of the previous spec's type and expression)
CTypes == [uint8 |-> B("uint8"), int |-> TInt, MyInt |-> MyInt, string |-> TStr]
RECURSIVE Pow2(_)
Pow2(n) == IF n = 0 THEN 1 ELSE 2 * Pow2(n - 1)
\* value of expression e at iota = i : [kind, v]  (kind "int" | "str")
EvalC(e, i) == CASE e = "iota" -> [kind |-> "int", v |-> i] [] e = "k" -> [kind |-> "int", v |-> 7]
                 [] e = "iota*2" -> [kind |-> "int", v |-> 2 * i] [] e = "1<<iota" -> [kind |-> "int", v |-> Pow2(i)]
                 [] e = "big" -> [kind |-> "int", v |-> 300] [] OTHER -> [kind |-> "str", v |-> 0]
RECURSIVE Resolve(_, _, _, _)
\* effective (type, expr) of spec i: implicit repetition takes both from the nearest previous explicit spec
Resolve(specs, i, ty, e) ==
  IF i > Len(specs) THEN <<>>
  ELSE LET t2 == IF specs[i].e = "" THEN ty ELSE specs[i].ty
           e2 == IF specs[i].e = "" THEN e ELSE specs[i].e IN
       <<[ty |-> t2, e |-> e2]>> \o Resolve(specs, i + 1, t2, e2)
ConstOne(r, i) ==
  LET v == EvalC(r.e, i) IN
  IF r.ty = "" THEN [ok |-> TRUE, ty |-> IF v.kind = "str" THEN UT("string") ELSE UT("int"), v |-> v]
  ELSE LET T == CTypes[r.ty] IN
       IF v.kind = "str" THEN (IF IsStringT(T) THEN [ok |-> TRUE, ty |-> T, v |-> v] ELSE Err("not-assignable"))
       ELSE IF IsStringT(T) THEN Err("not-assignable")
       ELSE IF UKind(T) = "uint8" /\ v.v > 255 THEN Err("overflow")
       ELSE [ok |-> TRUE, ty |-> T, v |-> v]
ConstBlock(specs) ==
  IF specs[1].e = "" THEN Err("missing-init")
  ELSE LET rs == Resolve(specs, 1, "", "")
           per == [i \in DOMAIN rs |-> ConstOne(rs[i], i - 1)] IN
       IF \E i \in DOMAIN per : ~per[i].ok THEN FirstErr(per)
       ELSE \* the block is followed by a separate declaration  const S = iota  : iota restarts at 0 in every const declaration
            [ok |-> TRUE, consts |-> [i \in DOMAIN per |-> [ty |-> per[i].ty, kind |-> per[i].v.kind, v |-> per[i].v.v]]
                                     \o <<[ty |-> UT("int"), kind |-> "int", v |-> 0]>>]

\* ---------- the grid ----------
Rhs1 == {<<r>> : r \in Singles \cup Multis \cup CommaOks}
Rhs2 == {<<a, b>> : a \in {One("x", TInt, NoC), One("\"s\"", UT("string"), [ck |-> "str"]), One("1", UT("int"), C1), One("nil", UT("nil"), NoC), One("gerr", ErrorT, NoC)},
                    b \in {One("s", TStr, NoC), One("1.5", UT("float"), C15), One("gerr", ErrorT, NoC)}}
         \cup {<<Call2("f()", TStr, ErrorT), One("x", TInt, NoC)>>}
NameSeqs == {<<a>> : a \in {"x", "n1", "_"}} \cup {<<a, b>> : a \in {"x", "s", "n1", "_"}, b \in {"x", "n2", "_", "n1"}}
AssignSeqs == {<<a>> : a \in {"x", "s", "fl", "mi", "e", "_"}} \cup {<<a, b>> : a \in {"x", "s", "_"}, b \in {"x", "mi", "e", "_"}}
VarTypes == {UT("nil"), TInt, TStr, TF64, MyInt, Iface({}), B("int8"), ErrorT}
ResultSigs == {<<>>, <<TInt>>, <<TInt, ErrorT>>, <<TStr, ErrorT>>, <<Iface({}), TInt>>}
SpecSet == {[ty |-> t, e |-> e] : t \in {"", "uint8", "int", "MyInt", "string"}, e \in {"iota", "k", "str", "iota*2", "1<<iota", "big"}} \cup {[ty |-> "", e |-> ""]}
ConstBlocks == {<<a, b>> : a \in SpecSet, b \in SpecSet} \cup {<<a, b, c>> : a \in {s \in SpecSet : s.e \in {"iota", "str", "1<<iota"}}, b \in {s \in SpecSet : s.ty = "" /\ s.e \in {"", "str", "iota"}}, c \in {[ty |-> "", e |-> ""]}}
                \cup {<<a, [ty |-> "", e |-> ""], c, [ty |-> "", e |-> ""]>> : a \in {[ty |-> "uint8", e |-> "iota"], [ty |-> "MyInt", e |-> "1<<iota"]}, c \in {[ty |-> "", e |-> "str"], [ty |-> "", e |-> "iota"], [ty |-> "int", e |-> "k"]}}
VARIABLE pt
Init == pt \in (CASE Family = "define" -> {[names |-> n, rhs |-> r] : n \in NameSeqs, r \in Rhs1 \cup Rhs2}
                  [] Family = "assign" -> {[names |-> n, rhs |-> r] : n \in AssignSeqs, r \in Rhs1 \cup Rhs2}
                  [] Family = "var" -> {[n |-> k, ty |-> T, rhs |-> r] : k \in {1, 2}, T \in VarTypes, r \in Rhs1 \cup Rhs2}
                  [] Family = "return" -> {[rs |-> s, rhs |-> r] : s \in ResultSigs, r \in Rhs1 \cup Rhs2 \cup {<<>>}}
                  [] OTHER -> {[specs |-> b] : b \in ConstBlocks})
Next == UNCHANGED pt
Res == CASE Family = "define" -> Define(pt.names, pt.rhs) [] Family = "assign" -> Assign(pt.names, pt.rhs)
         [] Family = "var" -> VarDecl(pt.n, pt.ty, pt.rhs) [] Family = "return" -> Return(pt.rs, pt.rhs)
         [] OTHER -> ConstBlock(pt.specs)
Laws == (Family = "define" /\ Res.ok) => \E i \in DOMAIN pt.names : pt.names[i] \in News     \* := declares at least one new variable
Emit == PrintT(ToJson([pt |-> pt, r |-> Res]))
=============================================================================
