------------------------------- MODULE Lower -------------------------------
(* Language extensions lower to plain Go with the documented meaning (property C11).

   A catalogue: one rule per extension, pattern |-> reference lowering.  TLC evaluates every point of
   every rule's domain, checks the laws below on the reference lowering itself, and prints the point
   with its lowering; the harness builds the pattern with the real CodeBuilder and compares the emitted
   Go (typed canonical tree, go/types) with the reference lowering rendered as Go.

   R1  methods on builtin types      recv.M(a1..an)  |->  F(conv(recv), a1..an, e1..ek)
         F, the extra arguments e and the argument kinds are the documented table BTI; conv = T(recv)
         iff recv has a defined type over the builtin type T; reachable by the exact name, by the
         lower-case alias (s.toUpper) and, without arguments, as auto-property (s.len)
   R2  bool -> integer casts         T(b)  |->  constant: T(1) / T(0);  otherwise
                                              func() T { if b { return 1 } else { return 0 } }()
   R3  optional parameters           f(a1..ak) with k < n, parameters k+1..n optional
                                              |->  f(a1..ak, zero(T_k+1), .., zero(T_n))
   R4  method alias / auto-property  v.name |-> v.Name()          v.add(x) |-> v.Add(x)
   R6  member access on maps / any    m.key |-> m["key"];  e.key (e any) |-> T["key"] with T, _ := e.(map[string]any) hoisted
   R7  user-defined range enumerators   iterator-function and Next() styles, every loop-variable form; judged by executing
   R8  inline closure calls             arguments evaluated once in order, body once, return = values of the call; judged by executing
   R9  tuple types                      components by ordinal, X_i or name |-> the field X_i; tuple literal / cast |-> struct literal
   R5  big-number literals           written value v  |->  an expression whose value is exactly v:
         integers in int64 range big.NewInt(v), beyond it SetString(decimal, 10) on a new big.Int;
         rationals big.NewRat(a, b) when both fit, new(big.Rat).SetFrac(A, B) otherwise

   Laws (on the catalogue, independent of the implementation):
     BindOnce          the receiver / every supplied argument occurs exactly once in the lowering
     ArityConsistent   the lowered call has as many arguments as the target function has parameters
     PlainGo           the lowering uses core constructs only (call, conversion, literals, closures)
     ZeroComplete      every omitted optional parameter gets exactly one zero value, in order *)
EXTENDS Integers, Sequences, FiniteSets, TLC, Json

(* ---------- R1: the documented table of builtin-type methods ---------- *)
M(ty, m, fn, uargs, eargs, arity) == [ty |-> ty, m |-> m, fn |-> fn, uargs |-> uargs, eargs |-> eargs, arity |-> arity]
BTI == {
  M("float64", "String", "strconv.FormatFloat", <<>>, <<"'g'", "-1", "64">>, 4),
  M("int", "String", "strconv.Itoa", <<>>, <<>>, 1),
  M("int64", "String", "strconv.FormatInt", <<>>, <<"10">>, 2),
  M("uint64", "String", "strconv.FormatUint", <<>>, <<"10">>, 2),
  M("string", "Len", "len", <<>>, <<>>, 1),
  M("string", "Count", "strings.Count", <<"str">>, <<>>, 2),
  M("string", "Int", "strconv.Atoi", <<>>, <<>>, 1),
  M("string", "Int64", "strconv.ParseInt", <<>>, <<"10", "64">>, 3),
  M("string", "Uint64", "strconv.ParseUint", <<>>, <<"10", "64">>, 3),
  M("string", "Float", "strconv.ParseFloat", <<>>, <<"64">>, 2),
  M("string", "Index", "strings.Index", <<"str">>, <<>>, 2),
  M("string", "IndexAny", "strings.IndexAny", <<"str">>, <<>>, 2),
  M("string", "IndexByte", "strings.IndexByte", <<"byte">>, <<>>, 2),
  M("string", "IndexRune", "strings.IndexRune", <<"rune">>, <<>>, 2),
  M("string", "LastIndex", "strings.LastIndex", <<"str">>, <<>>, 2),
  M("string", "LastIndexAny", "strings.LastIndexAny", <<"str">>, <<>>, 2),
  M("string", "LastIndexByte", "strings.LastIndexByte", <<"byte">>, <<>>, 2),
  M("string", "Contains", "strings.Contains", <<"str">>, <<>>, 2),
  M("string", "ContainsAny", "strings.ContainsAny", <<"str">>, <<>>, 2),
  M("string", "ContainsRune", "strings.ContainsRune", <<"rune">>, <<>>, 2),
  M("string", "Compare", "strings.Compare", <<"str">>, <<>>, 2),
  M("string", "EqualFold", "strings.EqualFold", <<"str">>, <<>>, 2),
  M("string", "HasPrefix", "strings.HasPrefix", <<"str">>, <<>>, 2),
  M("string", "HasSuffix", "strings.HasSuffix", <<"str">>, <<>>, 2),
  M("string", "Quote", "strconv.Quote", <<>>, <<>>, 1),
  M("string", "Unquote", "strconv.Unquote", <<>>, <<>>, 1),
  M("string", "ToTitle", "strings.ToTitle", <<>>, <<>>, 1),
  M("string", "ToUpper", "strings.ToUpper", <<>>, <<>>, 1),
  M("string", "ToLower", "strings.ToLower", <<>>, <<>>, 1),
  M("string", "Fields", "strings.Fields", <<>>, <<>>, 1),
  M("string", "Repeat", "strings.Repeat", <<"int">>, <<>>, 2),
  M("string", "Split", "strings.Split", <<"str">>, <<>>, 2),
  M("string", "SplitAfter", "strings.SplitAfter", <<"str">>, <<>>, 2),
  M("string", "SplitN", "strings.SplitN", <<"str", "int">>, <<>>, 3),
  M("string", "SplitAfterN", "strings.SplitAfterN", <<"str", "int">>, <<>>, 3),
  M("string", "Replace", "strings.Replace", <<"str", "str", "int">>, <<>>, 4),
  M("string", "ReplaceAll", "strings.ReplaceAll", <<"str", "str">>, <<>>, 3),
  M("string", "Trim", "strings.Trim", <<"str">>, <<>>, 2),
  M("string", "TrimSpace", "strings.TrimSpace", <<>>, <<>>, 1),
  M("string", "TrimLeft", "strings.TrimLeft", <<"str">>, <<>>, 2),
  M("string", "TrimRight", "strings.TrimRight", <<"str">>, <<>>, 2),
  M("string", "TrimPrefix", "strings.TrimPrefix", <<"str">>, <<>>, 2),
  M("string", "TrimSuffix", "strings.TrimSuffix", <<"str">>, <<>>, 2),
  M("[]string", "Len", "len", <<>>, <<>>, 1),
  M("[]string", "Cap", "cap", <<>>, <<>>, 1),
  M("[]string", "Join", "strings.Join", <<"str">>, <<>>, 2),
  M("[]int", "Len", "len", <<>>, <<>>, 1),
  M("[]int", "Cap", "cap", <<>>, <<>>, 1),
  M("chan int", "Len", "len", <<>>, <<>>, 1)}
\* receiver forms: a variable of the type, a variable of a defined type over it (conversion inserted; basic types only),
\* an untyped constant (for the types that have a default-typed literal)
RecvForms(ty) == {"var"} \cup (IF ty \in {"float64", "int", "int64", "uint64", "string"} THEN {"named"} ELSE {})
                         \cup (IF ty \in {"float64", "int", "string"} THEN {"const"} ELSE {})
Modes(r) == {"method", "alias"} \cup (IF Len(r.uargs) = 0 THEN {"autoprop"} ELSE {})
R1Points == UNION {{[rule |-> "bti", r |-> r, recv |-> f, mode |-> md] : f \in RecvForms(r.ty), md \in Modes(r)} : r \in BTI}
R1Lower(p) == [fn |-> p.r.fn,
               args |-> <<[k |-> "recv", conv |-> IF p.recv = "named" THEN p.r.ty ELSE ""]>>
                        \o [i \in 1..Len(p.r.uargs) |-> [k |-> "user", kind |-> p.r.uargs[i]]]
                        \o [i \in 1..Len(p.r.eargs) |-> [k |-> "extra", v |-> p.r.eargs[i]]]]

(* ---------- R2: bool casts ---------- *)
IntTypes == {"int", "int8", "uint8", "int64", "uint", "float64", "float32", "complex128"}   \* every numeric target the cast accepts
BoolForms == {"true", "false", "var", "named", "cmp"}          \* constants, a bool variable, a variable of a defined bool type, vi == 1
R2Points == {[rule |-> "boolcast", ty |-> t, b |-> f] : t \in IntTypes, f \in BoolForms}
R2Lower(p) == IF p.b \in {"true", "false"} THEN [form |-> "const", ty |-> p.ty, v |-> IF p.b = "true" THEN 1 ELSE 0]
              ELSE [form |-> "closure", ty |-> p.ty, cond |-> p.b]

(* ---------- R3: optional parameters ---------- *)
ParamTypes == {"int", "string", "[]int", "*S", "S", "any", "MyInt"}
ZeroOf(t) == CASE t \in {"int", "MyInt"} -> "0" [] t = "string" -> "str" [] t \in {"[]int", "*S", "any"} -> "nil" [] t = "S" -> "S{}"
\* signatures: nreq required int parameters followed by the optional ones
OptSigs == {<<>>} \cup {<<a>> : a \in ParamTypes} \cup {<<a, b>> : a \in {"int", "S", "[]int"}, b \in ParamTypes}
\* src: how the callee got its signature - "func" a function declared with NewFunc (optional flags of the own package),
\*      "value" a function-typed variable whose signature was built directly, "foreign" a signature whose parameters belong to
\*      another package (optional = the documented name prefix __xgo_optional_)
\* tail: "none"; "req" one more required parameter AFTER the optional ones (possible for "value" / "foreign" only: NewFunc rejects
\*      the order); "variadic" a trailing variadic parameter
\* Rule: a call with k arguments is completed iff EVERY parameter from k+1 on (the variadic one excepted) is optional; otherwise
\* it is not an instance of the extension and must be reported (a required argument is never made up).
R3Base == UNION {UNION {{[rule |-> "optional", nreq |-> n, opts |-> o, given |-> g, src |-> "func", tail |-> "none"] : g \in n..(n + Len(o))} : o \in OptSigs} : n \in 0..1}
OptSigsX == {<<a>> : a \in {"int", "string"}} \cup {<<"int", "S">>, <<"[]int", "string">>}
R3Ext == UNION {UNION {UNION {{[rule |-> "optional", nreq |-> n, opts |-> o, given |-> g, src |-> sr, tail |-> tl] :
                 g \in n..(n + Len(o) + (IF tl = "req" THEN 1 ELSE 0))} : o \in OptSigsX} : n \in 0..1} :
                 sr \in {"func", "value", "foreign"}, tl \in {"none", "req", "variadic"}}
            \ {p \in [rule : {"optional"}, nreq : 0..1, opts : OptSigsX, given : 0..4, src : {"func"}, tail : {"none", "req"}] : TRUE}
R3Points == R3Base \cup R3Ext
NFixed(p) == p.nreq + Len(p.opts) + (IF p.tail = "req" THEN 1 ELSE 0)        \* parameters other than the variadic one
R3Lower(p) == IF p.tail = "req" /\ p.given < NFixed(p)
              THEN [nargs |-> p.given, zeros |-> <<>>, verdict |-> "reject"]
              ELSE [nargs |-> NFixed(p), verdict |-> "lowered",
                    zeros |-> [i \in 1..(NFixed(p) - p.given) |-> ZeroOf(p.opts[p.given - p.nreq + i])]]

(* ---------- R4: method alias / auto-property on user types ---------- *)
R4Points == {[rule |-> "alias", m |-> m, mode |-> md, recv |-> rf] :
               m \in {"Len", "Name", "Add"}, md \in {"alias", "autoprop"}, rf \in {"value", "pointer"}}
               \ {[rule |-> "alias", m |-> "Add", mode |-> "autoprop", recv |-> rf] : rf \in {"value", "pointer"}}   \* Add takes an argument
R4Lower(p) == [method |-> p.m, nargs |-> IF p.m = "Add" THEN 1 ELSE 0]

(* ---------- R5: big-number literals (values symbolic: 2^e * s + d) ---------- *)
V(s, e, d) == [s |-> s, e |-> e, d |-> d]           \* s * 2^e + d
BigInts == {V(0, 0, 0), V(1, 0, 0), V(-1, 0, 0), V(1, 63, -1), V(1, 63, 0), V(1, 64, -1), V(1, 64, 0), V(-1, 63, 0), V(-1, 63, -1), V(1, 100, 7), V(-1, 200, -3)}
FitsInt64(v) == v.e < 63 \/ (v.e = 63 /\ ((v.s = 1 /\ v.d < 0) \/ (v.s = -1 /\ v.d >= 0))) \/ v.s = 0
Denoms == {V(1, 0, 0), V(1, 1, 1), V(1, 70, 1)}         \* 1, 3, 2^70 + 1
R5Points == {[rule |-> "bigint", v |-> v] : v \in BigInts}
            \cup {[rule |-> "bigrat", v |-> v, den |-> d] : v \in {V(1, 0, 0), V(-1, 3, 1), V(1, 63, 0), V(1, 100, 7)}, d \in Denoms}
R5Lower(p) == IF p.rule = "bigint" THEN [form |-> IF FitsInt64(p.v) THEN "NewInt" ELSE "SetString"]
              ELSE [form |-> IF FitsInt64(p.v) /\ FitsInt64(p.den) THEN "NewRat" ELSE "SetFrac"]

(* ---------- R6: member access on string-keyed maps and on `any` ---------- *)
\* m.key |-> m["key"];  e.key for e of type any |-> T["key"] where T is a temporary defined by  T, _ := e.(map[string]any)
\* evaluated where e.key would be evaluated: before the statement that contains the access (or as the init statement of its
\* if / switch head), and *inside* the loop for a loop condition (the condition is evaluated on every iteration).
\* base: "map" map[string]int (no temporaries), "any" (steps temporaries), "mapany" map[string]any (steps - 1 temporaries)
MemberCtx == {"define", "assign", "callarg", "return", "if-cond", "elseif-cond", "for-cond", "switch-tag", "case-expr", "range-body", "closure-body", "if-init"}
HeadCtx == {"if-cond", "elseif-cond", "switch-tag", "if-init"}
R6Points == {[rule |-> "member", base |-> b, steps |-> n, ctx |-> c, twice |-> tw] :
               b \in {"map", "any", "mapany"}, n \in 1..2, c \in MemberCtx, tw \in BOOLEAN}
            \ {p \in [rule : {"member"}, base : {"map"}, steps : {2}, ctx : MemberCtx, twice : BOOLEAN] : TRUE}     \* map[string]int has no second step
Temps(p) == (CASE p.base = "map" -> 0 [] p.base = "any" -> p.steps [] OTHER -> p.steps - 1) * (IF p.twice THEN 2 ELSE 1)
R6Lower(p) == [temps |-> Temps(p),
               placement |-> IF Temps(p) = 0 THEN "none" ELSE IF p.ctx = "for-cond" THEN "per-iteration" ELSE IF p.ctx \in HeadCtx THEN "before-or-init" ELSE "before-statement"]

(* ---------- R7: user-defined range enumerators ---------- *)
\* for k, v := range x   with x.XGo_Enum() returning
\*   an iterator function  func(yield func([K[, V]]) bool)          |->  for k, v := range x.XGo_Enum() { body }
\*   a value with Next() (elem, ok) or (key, elem, ok)            |->  for it := x.XGo_Enum(); ; { var ok bool; k, v, ok = it.Next(); if !ok { break }; body }
\* The loop visits exactly the sequence the enumerator yields, binding the loop variables per iteration; break leaves the loop.
\* iter1s / next2i: the enumerator is declared on a type that Go can range over natively (a slice type, an integer type):
\* the enumerator wins
EnumStyles == {"next2", "next3", "ptrnext2", "iter0", "iter1", "iter2", "iter1s", "next2i"}
Vals(st) == CASE st \in {"next2", "ptrnext2", "iter1", "iter1s", "next2i"} -> 1 [] st \in {"next3", "iter2"} -> 2 [] OTHER -> 0
\* blank-k is `for _ = range x`: an assignment to the blank identifier (only meaningful for the Next() styles, which lower to an assignment)
VarForms(st) == {"none"} \cup (IF Vals(st) >= 1 THEN {"define-k", "assign-k"} ELSE {})
                         \cup (IF st \in {"next2", "next3", "ptrnext2", "next2i"} THEN {"blank-k"} ELSE {})
                         \cup (IF Vals(st) = 2 THEN {"define-kv", "assign-kv", "blank-k-define-v"} ELSE {})
R7Points == UNION {{[rule |-> "enum", style |-> st, vars |-> vf, brk |-> b] : vf \in VarForms(st), b \in BOOLEAN} : st \in EnumStyles}
\* the enumerators of the fixture yield 3 elements; a body with break stops after the second
R7Lower(p) == [iterations |-> IF p.brk THEN 2 ELSE 3, binds |-> CASE p.vars \in {"none", "blank-k"} -> 0 [] p.vars \in {"define-k", "assign-k", "blank-k-define-v"} -> 1 [] OTHER -> 2]

(* ---------- R8: inline closure calls ---------- *)
\* func(p1 T1, ..) (R1, ..) { body }(a1, ..)  inlined: every argument expression is evaluated exactly once, in source order,
\* before the body; the body runs once; `return e..` delivers e.. as the values of the call and leaves the inlined body;
\* the statements after the call see the results.  Observable behaviour must equal that of the real closure call.
R8Points == {[rule |-> "inline", np |-> np, variadic |-> va, nvar |-> nv, nres |-> nr, body |-> b] :
               np \in 0..2, va \in BOOLEAN, nv \in 0..2, nr \in 0..2, b \in {"plain", "early", "unused", "mutate"}}
            \ {p \in [rule : {"inline"}, np : 0..2, variadic : BOOLEAN, nvar : 0..2, nres : 0..2, body : {"plain", "early", "unused", "mutate"}] :
                  (~p.variadic /\ p.nvar > 0) \/ (p.variadic /\ p.np = 0) \/ (p.body = "unused" /\ (p.np = 0 \/ p.nres > 0))
                  \/ (p.body = "mutate" /\ (p.np = 0 \/ p.variadic \/ p.nres = 2))}
\* body "plain" / "early" use every parameter; "unused" uses none (a closure need not use its parameters);
\* "mutate": the first argument is a plain variable, the body assigns to that variable and to its parameter - the parameter is a copy
\* number of argument expressions of the call
NArgs(p) == IF p.variadic THEN p.np - 1 + p.nvar ELSE p.np
R8Lower(p) == [argevals |-> NArgs(p), returns |-> IF p.body = "early" THEN 2 ELSE 1]

(* ---------- R9: tuple types ---------- *)
\* A tuple type is the struct type struct{X_0 T0; ..; X_n-1 Tn-1} (Package.NewTuple); with names, the i-th field can also be
\* reached by its own name (a virtual field).  Everything lowers to that ordinary struct:
\*   t.0 / t.X_0 / t.name (value or assignment target)  |->  t.X_i        on a value, a defined type over it, a pointer to it
\*   (a0, .., an-1) as a T (TupleLit)                  |->  T{a0, .., an-1}
\*   (a0, .., an-1) without a type                     |->  struct{X_0 D0; ..}{a0, ..}   with Di the default type of ai
\*   T(a0, .., an-1) for a defined tuple type T (cast)  |->  T{a0, .., an-1};   T()  |->  T{}
TupShapes == {<<"int">>, <<"int", "string">>, <<"string", "int", "S">>}
TupHolders == {"anon", "named", "ptr"}
TupAccess(wn) == {"ord", "X"} \cup (IF wn THEN {"name"} ELSE {})
R9Points == {[rule |-> "tuple", op |-> "lit", shape |-> sh, holder |-> h, wn |-> wn, acc |-> "", idx |-> 0, nargs |-> Len(sh)] :
                sh \in TupShapes, h \in {"anon", "named"}, wn \in BOOLEAN}
            \cup {[rule |-> "tuple", op |-> "infer", shape |-> sh, holder |-> "anon", wn |-> FALSE, acc |-> "", idx |-> 0, nargs |-> Len(sh)] : sh \in TupShapes}
            \cup UNION {{[rule |-> "tuple", op |-> "cast", shape |-> sh, holder |-> "named", wn |-> wn, acc |-> "", idx |-> 0, nargs |-> n] :
                          n \in {0, Len(sh)}, wn \in BOOLEAN} : sh \in TupShapes}
            \cup UNION {UNION {{[rule |-> "tuple", op |-> o, shape |-> sh, holder |-> h, wn |-> wn, acc |-> a, idx |-> i, nargs |-> 0] :
                          o \in {"val", "ref"}, h \in TupHolders, a \in TupAccess(wn), i \in 1..Len(sh)} : wn \in BOOLEAN} : sh \in TupShapes}
Ordinal(i) == CASE i = 1 -> "X_0" [] i = 2 -> "X_1" [] i = 3 -> "X_2"
R9Lower(p) == IF p.op \in {"val", "ref"} THEN [form |-> "selector", sel |-> Ordinal(p.idx), elem |-> p.shape[p.idx]]
              ELSE [form |-> "literal", sel |-> "", elem |-> "", nelems |-> p.nargs,
                    typeform |-> IF p.op = "infer" \/ p.holder = "anon" THEN "struct" ELSE "name"]

(* ---------- the catalogue as a state space ---------- *)
VARIABLE pt
Points == R1Points \cup R2Points \cup R3Points \cup R4Points \cup R5Points \cup R6Points \cup R7Points \cup R8Points \cup R9Points
Init == pt \in Points
Next == UNCHANGED pt
Lowered == CASE pt.rule = "bti" -> R1Lower(pt) [] pt.rule = "boolcast" -> R2Lower(pt) [] pt.rule = "optional" -> R3Lower(pt)
             [] pt.rule = "alias" -> R4Lower(pt) [] pt.rule = "member" -> R6Lower(pt) [] pt.rule = "enum" -> R7Lower(pt)
             [] pt.rule = "inline" -> R8Lower(pt) [] pt.rule = "tuple" -> R9Lower(pt) [] OTHER -> R5Lower(pt)
BindOnce == pt.rule = "bti" =>
              /\ Cardinality({i \in 1..Len(Lowered.args) : Lowered.args[i].k = "recv"}) = 1
              /\ Lowered.args[1].k = "recv"
              /\ Cardinality({i \in 1..Len(Lowered.args) : Lowered.args[i].k = "user"}) = Len(pt.r.uargs)
              /\ (Lowered.args[1].conv # "") = (pt.recv = "named")
ArityConsistent == pt.rule = "bti" => Len(Lowered.args) = pt.r.arity
ZeroComplete == pt.rule = "optional" => /\ pt.given + Len(Lowered.zeros) = Lowered.nargs
                                        /\ (Lowered.verdict = "reject") = (\E i \in (pt.given + 1)..NFixed(pt) : i <= pt.nreq \/ i > pt.nreq + Len(pt.opts))
PlainGo == /\ (pt.rule = "boolcast" => Lowered.form \in {"const", "closure"})
           /\ (pt.rule \in {"bigint", "bigrat"} => Lowered.form \in {"NewInt", "SetString", "NewRat", "SetFrac"})
           /\ (pt.rule = "bti" /\ pt.mode = "autoprop" => Len(pt.r.uargs) = 0)
\* an access needs a temporary exactly for every step that starts from a value of type any
HoistCount == pt.rule = "member" => (Lowered.temps = 0) = (pt.base = "map" \/ (pt.base = "mapany" /\ pt.steps = 1))
\* every way of naming the i-th component of a tuple denotes the same ordinal field, and a tuple literal / cast has either all
\* components or none
TupleOrdinal == pt.rule = "tuple" =>
                  IF pt.op \in {"val", "ref"}
                  THEN \A q \in R9Points : (q.op \in {"val", "ref"} /\ q.shape = pt.shape /\ q.idx = pt.idx) =>
                                               (R9Lower(q).sel = Lowered.sel /\ R9Lower(q).elem = pt.shape[pt.idx])
                  ELSE Lowered.nelems \in {0, Len(pt.shape)} /\ (Lowered.nelems = 0 => pt.op = "cast")
Emit == PrintT(ToJson([pt |-> pt, low |-> Lowered]))
=============================================================================
