------------------------------- MODULE Flow -------------------------------
(* Missing-return and label diagnostics (property C10).

   The state is the function body under construction, exactly as a client of the
   CodeBuilder builds it: a stack `open` of partially built statements (one entry per
   open construct), a pending label, and one label table per open function (closures
   have their own).  The actions are statement-level builder operations (each stands
   for the short fixed sequence of API calls the harness issues for it):

     ret / panic / spanic / call      simple statements (spanic = call of a *shadowed* panic)
     assign define incdec send defer go var   the other simple statements (not terminating)
     break[L] continue[L] goto L      jumps, generated only towards legal targets
     fgoto L                          forward goto: NewLabel + Goto now, Label later in an enclosing block
     label L                          NewLabel + Label (attaches to the next statement,
                                      or to an empty statement at the end of the block)
     open(k)  k in if, for, forcond, range, erange, block, switch, tswitch, select, closure
              (erange: a range loop over a user-defined enumerator - for the Go rules it is a range loop like any other,
               whatever loop the builder lowers it to)
     else, clause(default?), fallthrough, end

   The Go specification's "Terminating statements" section is transcribed as the
   recursive operators Term / TermList / HasBreak below; label rules as the def/used
   counters.  The diagnostics Go requires for the finished body:
       missing  number of functions (outer function + closures) whose body is not terminating
       unused   labels defined and never used      dup   labels defined twice
   A behaviour is printed when the body is complete; the harness builds it with the
   real CodeBuilder and compares the diagnostics delivered to HandleErr; go/types on an
   independent rendering of the same operations validates this specification itself. *)
EXTENDS Integers, Sequences, FiniteSets, TLC, Json
CONSTANTS MaxOps, MaxNest, Labels, Kinds, Simple, Jumps, MaxItems
\* Kinds: openable construct kinds; Simple: subset of {"ret","panic","spanic","call"};
\* Jumps: subset of {"break","continue","goto","label","fallthrough"}; MaxItems: statements per list

VARIABLES open, pend, nops, hist, lbl, missing, unused, dup, nid
vars == <<open, pend, nops, hist, lbl, missing, unused, dup, nid>>
Top == open[Len(open)]
Leaf(k, l) == [k |-> k, lab |-> l]

(* ---------- Go specification: terminating statements ---------- *)
RECURSIVE Term(_, _), TermList(_), HasBreak(_, _, _), HasBreakList(_, _, _)
IsEmpty(s) == s.k = "empty"
LastNonEmpty(list) == LET idx == {i \in 1..Len(list) : ~IsEmpty(list[i])} IN
                      IF idx = {} THEN 0 ELSE CHOOSE i \in idx : \A j \in idx : j <= i
TermList(list) == LET i == LastNonEmpty(list) IN IF i = 0 THEN FALSE ELSE Term(list[i], "")
HasBreakList(list, label, implicit) == \E i \in 1..Len(list) : HasBreak(list[i], label, implicit)
HasBreak(s, label, implicit) ==
  CASE s.k = "break" -> IF s.lab = "" THEN implicit ELSE s.lab = label
    [] s.k = "block" -> HasBreakList(s.items, label, implicit)
    [] s.k = "if" -> HasBreakList(s.items, label, implicit) \/ HasBreakList(s.els, label, implicit)
    [] s.k \in {"switch", "tswitch", "select"} -> label # "" /\ \E i \in 1..Len(s.cl) : HasBreakList(s.cl[i].items, label, FALSE)
    [] s.k \in {"for", "forcond", "range", "erange"} -> label # "" /\ HasBreakList(s.items, label, FALSE)
    [] s.k = "labeled" -> HasBreak(s.stmt, label, implicit)
    [] OTHER -> FALSE
Term(s, label) ==
  CASE s.k \in {"ret", "panic", "goto", "fallthrough"} -> TRUE
    [] s.k = "labeled" -> Term(s.stmt, s.lab)
    [] s.k = "block" -> TermList(s.items)
    [] s.k = "if" -> s.hasElse /\ TermList(s.items) /\ TermList(s.els)
    [] s.k = "for" -> ~HasBreakList(s.items, label, TRUE)
    [] s.k \in {"switch", "tswitch", "select"} ->
         /\ (s.k = "select" \/ \E i \in 1..Len(s.cl) : s.cl[i].dflt)
         /\ \A i \in 1..Len(s.cl) : TermList(s.cl[i].items) /\ ~HasBreakList(s.cl[i].items, label, TRUE)
    [] OTHER -> FALSE

(* ---------- the builder protocol at statement level ---------- *)
\* fwd: the block path (frame ids) of a pending *forward* goto to the label (<<>> if none): "goto L" before "L:" is legal
\* iff L is later defined in a block that encloses the goto (Go: goto must not jump into a block)
NoLbl == [l \in Labels |-> [def |-> 0, used |-> FALSE, top |-> FALSE, fwd |-> <<>>]]
Init == /\ open = <<[k |-> "func", items |-> <<>>, cl |-> <<>>, x |-> "", id |-> 0]>> /\ pend = "" /\ nops = 0 /\ hist = <<>>
        /\ lbl = <<NoLbl>> /\ missing = 0 /\ unused = <<>> /\ dup = <<>> /\ nid = 1
Log(op, a) == hist' = Append(hist, <<op, a>>) /\ nops' = nops + 1
Wrap(s) == IF pend = "" THEN s ELSE [k |-> "labeled", lab |-> pend, stmt |-> s]
Emit(s) == /\ open' = [open EXCEPT ![Len(open)].items = Append(@, Wrap(s))] /\ pend' = ""
InBody == Top.k \in {"func", "closure", "block", "ifb", "elseb", "for", "forcond", "range", "erange", "case", "tcase", "comm"}
Room == /\ Len(Top.items) < MaxItems
        /\ ~(Len(Top.items) > 0 /\ Top.items[Len(Top.items)].k = "fallthrough")      \* fallthrough ends its clause
\* the frames of the innermost function (jumps never cross a closure boundary)
FnBase == LET idx == {i \in 1..Len(open) : open[i].k \in {"func", "closure"}} IN CHOOSE i \in idx : \A j \in idx : j <= i
Mine == FnBase..Len(open)
Loops == {"for", "forcond", "range", "erange"}
Breakables == Loops \cup {"switch", "tswitch", "select"}
InLoop == \E i \in Mine : open[i].k \in Loops
InBreakable == \E i \in Mine : open[i].k \in Breakables
EnclosingLabel(l, kinds) == \E i \in Mine : open[i].k \in kinds /\ open[i].x = l
CurLbl == lbl[Len(lbl)]
SetLbl(t) == lbl' = [lbl EXCEPT ![Len(lbl)] = t]
Keep == UNCHANGED <<missing, unused, dup>>
Path == [i \in 1..(Len(open) - FnBase + 1) |-> open[FnBase + i - 1].id]
IsPrefixOf(p, q) == Len(p) <= Len(q) /\ \A i \in 1..Len(p) : p[i] = q[i]

\* declarations get a fresh name from the operation count (the harness appends it)
SimpleStmt(k) == /\ k \in Simple /\ InBody /\ Room /\ Emit(Leaf(k, ""))
                 /\ UNCHANGED <<lbl, nid>> /\ Keep
                 /\ Log(k, IF k \in {"define", "var"} THEN ToString(nops) ELSE "")
Break(l) == /\ "break" \in Jumps /\ InBody /\ Room
            /\ (IF l = "" THEN InBreakable ELSE EnclosingLabel(l, Breakables))
            /\ Emit(Leaf("break", l)) /\ (IF l = "" THEN UNCHANGED lbl ELSE SetLbl([CurLbl EXCEPT ![l].used = TRUE]))
            /\ UNCHANGED nid /\ Keep /\ Log("break", l)
Continue(l) == /\ "continue" \in Jumps /\ InBody /\ Room
               /\ (IF l = "" THEN InLoop ELSE EnclosingLabel(l, Loops))
               /\ Emit(Leaf("continue", l)) /\ (IF l = "" THEN UNCHANGED lbl ELSE SetLbl([CurLbl EXCEPT ![l].used = TRUE]))
               /\ UNCHANGED nid /\ Keep /\ Log("continue", l)
\* backward goto at the top level of the current function body only (always a legal target)
Goto(l) == /\ "goto" \in Jumps /\ InBody /\ Room /\ Len(open) = FnBase /\ CurLbl[l].def = 1 /\ CurLbl[l].top
           /\ Emit(Leaf("goto", l)) /\ SetLbl([CurLbl EXCEPT ![l].used = TRUE]) /\ UNCHANGED nid /\ Keep /\ Log("goto", l)
\* forward goto: the label object exists (NewLabel) but is not placed yet; one pending forward goto per label
FGoto(l) == /\ "fgoto" \in Jumps /\ InBody /\ Room /\ CurLbl[l].def = 0 /\ CurLbl[l].fwd = <<>>
            /\ Emit(Leaf("goto", l)) /\ SetLbl([CurLbl EXCEPT ![l].used = TRUE, ![l].fwd = Path])
            /\ UNCHANGED nid /\ Keep /\ Log("fgoto", l)
Label(l) == /\ "label" \in Jumps /\ InBody /\ Room /\ pend = "" /\ CurLbl[l].def < 2
            /\ (CurLbl[l].fwd # <<>> => IsPrefixOf(Path, CurLbl[l].fwd))      \* the generator keeps forward jumps legal
            /\ SetLbl([CurLbl EXCEPT ![l].def = @ + 1, ![l].top = (IF CurLbl[l].def = 0 THEN Len(open) = FnBase ELSE @), ![l].fwd = <<>>])
            /\ pend' = (IF CurLbl[l].def = 0 THEN l ELSE "")        \* the second definition is rejected: no label object, nothing attached
            /\ UNCHANGED <<open, nid>> /\ Keep /\ Log("label", l)
Fallthrough == /\ "fallthrough" \in Jumps /\ Top.k = "case" /\ Room /\ pend = ""
               /\ Emit(Leaf("fallthrough", "")) /\ UNCHANGED <<lbl, nid>> /\ Keep /\ Log("fallthrough", "")
Open(k) == /\ k \in Kinds /\ k # "closure" /\ InBody /\ Room /\ Len(open) < MaxNest
           /\ open' = Append(open, [k |-> k, items |-> <<>>, cl |-> <<>>, x |-> pend, id |-> nid]) /\ pend' = "" /\ nid' = nid + 1
           /\ UNCHANGED lbl /\ Keep /\ Log(k, "")
\* gf(func() int { ... }) : a closure as argument of an expression statement; own label table
OpenClosure == /\ "closure" \in Kinds /\ InBody /\ Room /\ Len(open) < MaxNest /\ pend = ""
               /\ open' = Append(open, [k |-> "closure", items |-> <<>>, cl |-> <<>>, x |-> "", id |-> nid]) /\ nid' = nid + 1
               /\ lbl' = Append(lbl, NoLbl) /\ UNCHANGED pend /\ Keep /\ Log("closure", "")
Else == /\ Top.k = "ifb" /\ pend = ""
        /\ open' = [open EXCEPT ![Len(open)] = [k |-> "elseb", items |-> <<>>, cl |-> <<[items |-> Top.items]>>, x |-> Top.x, id |-> nid]]
        /\ nid' = nid + 1 /\ UNCHANGED <<pend, lbl>> /\ Keep /\ Log("else", "")
ClauseKind(k) == IF k = "switch" THEN "case" ELSE IF k = "tswitch" THEN "tcase" ELSE "comm"
HasDefault(f) == \E i \in 1..Len(f.cl) : f.cl[i].dflt
Clause(d) == /\ Top.k \in {"switch", "tswitch", "select"} /\ Len(open) < MaxNest /\ pend = "" /\ Len(Top.cl) < MaxItems
             /\ (d => ~HasDefault(Top))
             /\ open' = Append(open, [k |-> ClauseKind(Top.k), items |-> <<>>, cl |-> <<>>, x |-> IF d THEN "dflt" ELSE "", id |-> nid])
             /\ nid' = nid + 1 /\ UNCHANGED <<pend, lbl>> /\ Keep /\ Log(IF d THEN "default" ELSE "case", "")
Trail(f) == IF pend = "" THEN f.items ELSE Append(f.items, [k |-> "labeled", lab |-> pend, stmt |-> [k |-> "empty"]])
SeqOfSet(S) == CHOOSE s \in [1..Cardinality(S) -> S] : \A i, j \in 1..Cardinality(S) : i < j => s[i] # s[j]
UnusedOf(t) == {l \in Labels : t[l].def > 0 /\ ~t[l].used}
DupOf(t) == {l \in Labels : t[l].def > 1}
Close ==
  /\ Len(open) > 1
  /\ LET f == Top
         trail == Trail(f)
         node == CASE f.k = "ifb" -> [k |-> "if", items |-> trail, els |-> <<>>, hasElse |-> FALSE]
                   [] f.k = "elseb" -> [k |-> "if", items |-> f.cl[1].items, els |-> trail, hasElse |-> TRUE]
                   [] f.k \in {"switch", "tswitch", "select"} -> [k |-> f.k, cl |-> f.cl]
                   [] f.k = "closure" -> [k |-> "call"]                 \* gf(func..) is an ordinary call statement
                   [] OTHER -> [k |-> f.k, items |-> trail]
         lab == IF f.k \in {"case", "tcase", "comm", "closure"} THEN "" ELSE f.x
         wrapped == IF lab = "" THEN node ELSE [k |-> "labeled", lab |-> lab, stmt |-> node] IN
     /\ (f.k \in {"switch", "tswitch", "select"} => pend = "")
     /\ (f.k = "closure" => \A l \in Labels : CurLbl[l].fwd = <<>>)           \* every forward goto of the closure found its label
     /\ (f.k \in {"case", "tcase"} /\ Len(f.items) > 0 /\ f.items[Len(f.items)].k = "fallthrough" => pend = "")
     /\ IF f.k \in {"case", "tcase", "comm"}
          THEN open' = [SubSeq(open, 1, Len(open) - 1) EXCEPT ![Len(open) - 1].cl = Append(@, [items |-> trail, dflt |-> f.x = "dflt"])]
          ELSE open' = [SubSeq(open, 1, Len(open) - 1) EXCEPT ![Len(open) - 1].items = Append(@, wrapped)]
     /\ IF f.k = "closure"
          THEN /\ missing' = missing + (IF TermList(trail) THEN 0 ELSE 1)
               /\ unused' = unused \o SeqOfSet(UnusedOf(CurLbl)) /\ dup' = dup \o SeqOfSet(DupOf(CurLbl))
               /\ lbl' = SubSeq(lbl, 1, Len(lbl) - 1)
          ELSE UNCHANGED <<missing, unused, dup, lbl>>
  /\ pend' = "" /\ UNCHANGED nid /\ Log("end", "")
\* fallthrough must be the last statement of a clause and not in the last clause: the generator keeps bodies legal
LegalFallthrough ==
  \A i \in 1..Len(open) : open[i].k = "case" =>
     \A j \in 1..Len(open[i].items) : open[i].items[j].k = "fallthrough" => j = Len(open[i].items)
\* further simple statements (none of them terminating): x = 1, y := 1 (used at once), x++, ch <- 1, defer g0(), go g0(), var z int
MoreSimple == {"assign", "define", "incdec", "send", "defer", "go", "var"}
Next == /\ nops < MaxOps
        /\ \/ \E k \in {"ret", "panic", "spanic", "call"} \cup MoreSimple : SimpleStmt(k)
           \/ \E l \in Labels \cup {""} : Break(l) \/ Continue(l)
           \/ \E l \in Labels : Goto(l) \/ Label(l) \/ FGoto(l)
           \/ Fallthrough \/ Else \/ Close \/ OpenClosure
           \/ \E k \in {"ifb", "for", "forcond", "range", "erange", "block", "switch", "tswitch", "select"} : Open(k)
           \/ \E d \in BOOLEAN : Clause(d)
Spec == Init /\ [][Next]_vars

Done == Len(open) = 1
BodyList == Trail(open[1])
\* a clause ending in fallthrough must be followed by another clause (Go: "cannot fallthrough final case in switch")
RECURSIVE NoFinalFallthroughList(_), NoFinalFallthrough(_)
NoFinalFallthrough(s) ==
  CASE s.k = "labeled" -> NoFinalFallthrough(s.stmt)
    [] s.k \in {"block", "for", "forcond", "range", "erange"} -> NoFinalFallthroughList(s.items)
    [] s.k = "if" -> NoFinalFallthroughList(s.items) /\ NoFinalFallthroughList(s.els)
    [] s.k \in {"switch", "tswitch", "select"} ->
         /\ \A i \in 1..Len(s.cl) : NoFinalFallthroughList(s.cl[i].items)
         /\ (Len(s.cl) > 0 => LET last == s.cl[Len(s.cl)].items IN ~(Len(last) > 0 /\ last[Len(last)].k = "fallthrough"))
    [] OTHER -> TRUE
NoFinalFallthroughList(list) == \A i \in 1..Len(list) : NoFinalFallthrough(list[i])
Legal == NoFinalFallthroughList(BodyList) /\ \A l \in Labels : lbl[1][l].fwd = <<>>
Result == [ops |-> hist,
           missing |-> missing + (IF TermList(BodyList) THEN 0 ELSE 1),
           unused |-> unused \o SeqOfSet(UnusedOf(lbl[1])),
           dup |-> dup \o SeqOfSet(DupOf(lbl[1]))]
\* sanity laws of the transcription, checked on every complete body
Laws == Done =>
  /\ (BodyList = <<>> => ~TermList(BodyList))
  /\ (Len(BodyList) > 0 /\ BodyList[Len(BodyList)].k = "ret" => TermList(BodyList))
  /\ LegalFallthrough
EmitInv == (Done /\ nops = MaxOps /\ Legal) => PrintT(ToJson(Result))
===========================================================================
