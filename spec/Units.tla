------------------------------- MODULE Units -------------------------------
(* Literals with a unit (property C04, also C01 / C02): CodeBuilder.ValWithUnit.

   A literal with a unit, 5ms or 2.5cm, is lowered to a typed constant of a named type T that has a unit table
   (time.Duration: built in; any other named type: const XGou_T = "mm=1,cm=10,m=1000" in its package).  What the
   lowering must mean in Go terms is the constant conversion T(literal * factor):

     Value       the constant's value is exactly literal * factor (decimal arithmetic, no rounding)
     Truncated   for an integer type the product must be an integer (Go: constant truncated), else the literal is rejected
     Errors      T is not a named type / has no unit table / the unit is not in the table
     Stateless   the value depends on (T, literal, unit) only - not on which literals were lowered before in the
                 same package (the implementation caches the parsed table per type)

   Numbers are decimal: mantissa * 10^exp (TLC integers are 32 bit; a day is 864 * 10^11 ns).  TLC enumerates all
   histories of up to MaxOps literals; the harness validates every value against go/types on T(literal * factor)
   and replays every history on one real package. *)
EXTENDS Integers, Sequences, FiniteSets, TLC, Json
CONSTANTS MaxOps, TypeNames, Lits

Dec(m, e) == [m |-> m, e |-> e]
\* literals: text, token kind, decimal value
Lit(src) == CASE src = "5" -> [src |-> src, kind |-> "INT", v |-> Dec(5, 0)]
              [] src = "0" -> [src |-> src, kind |-> "INT", v |-> Dec(0, 0)]
              [] src = "30" -> [src |-> src, kind |-> "INT", v |-> Dec(3, 1)]
              [] src = "2.5" -> [src |-> src, kind |-> "FLOAT", v |-> Dec(25, -1)]
              [] src = "1.5" -> [src |-> src, kind |-> "FLOAT", v |-> Dec(15, -1)]
              [] src = "0.25" -> [src |-> src, kind |-> "FLOAT", v |-> Dec(25, -2)]
              [] src = "1e3" -> [src |-> src, kind |-> "FLOAT", v |-> Dec(1, 3)]
\* types: under = "int" | "float" | "none" (not a named type); table = set of [u, f]
U(u, m, e) == [u |-> u, f |-> Dec(m, e)]
Table(t) == CASE t = "Duration" -> {U("ns", 1, 0), U("us", 1, 3), U("ms", 1, 6), U("s", 1, 9), U("m", 6, 10), U("h", 36, 11), U("d", 864, 11)}
              [] t = "Dist" -> {U("mm", 1, 0), U("cm", 1, 1), U("m", 1, 3)}
              [] t = "Secs" -> {U("s", 1, 0), U("ms", 1, -3), U("us", 1, -6)}
              [] OTHER -> {}
UnderOf(t) == CASE t \in {"Duration", "Dist", "Plain"} -> "int" [] t = "Secs" -> "float" [] OTHER -> "none"
Units(t) == {x.u : x \in Table(t)} \cup {"xx"}
RECURSIVE Norm(_)
Norm(d) == IF d.m = 0 THEN Dec(0, 0) ELSE IF d.m % 10 = 0 THEN Norm(Dec(d.m \div 10, d.e + 1)) ELSE d
Mul(a, b) == Norm(Dec(a.m * b.m, a.e + b.e))
IsInteger(d) == Norm(d).e >= 0
Err(w) == [ok |-> FALSE, why |-> w, v |-> Dec(0, 0)]
Value(t, l, u) ==
  IF UnderOf(t) = "none" THEN Err("notnamed")
  ELSE IF Table(t) = {} THEN Err("nounits")
  ELSE IF \A x \in Table(t) : x.u # u THEN Err("unknownunit")
  ELSE LET f == (CHOOSE x \in Table(t) : x.u = u).f
           p == Mul(Lit(l).v, f) IN
       IF UnderOf(t) = "int" /\ ~IsInteger(p) THEN Err("truncated") ELSE [ok |-> TRUE, why |-> "", v |-> p]

(* ---- histories ---- *)
VARIABLES hist
Op(t, l, u) == [t |-> t, l |-> l, u |-> u, res |-> Value(t, l, u), factor |-> IF \E x \in Table(t) : x.u = u THEN (CHOOSE x \in Table(t) : x.u = u).f ELSE Dec(0, 0)]
Init == hist = <<>>
Next == /\ Len(hist) < MaxOps
        /\ \E t \in TypeNames, l \in Lits, u \in UNION {Units(tt) : tt \in TypeNames} :
             /\ (u \in Units(t) \/ (Table(t) = {} /\ u = "s"))
             /\ hist' = Append(hist, Op(t, l, u))
Spec == Init /\ [][Next]_hist
\* laws of the arithmetic: a product with an integral factor of an integral literal is integral; zero stays zero
IntegralClosed == \A i \in 1..Len(hist) : (hist[i].res.ok /\ IsInteger(Lit(hist[i].l).v) /\ IsInteger(hist[i].factor)) => IsInteger(hist[i].res.v)
ZeroIsZero == \A i \in 1..Len(hist) : (hist[i].res.ok /\ hist[i].l = "0") => hist[i].res.v = Dec(0, 0)
\* Stateless holds by construction (Value is a function); the replay is what tests it on the code
Stateless == \A i \in 1..Len(hist) : hist[i].res = Value(hist[i].t, hist[i].l, hist[i].u)
Emit == (Len(hist) = MaxOps) => PrintT(ToJson(hist))
=============================================================================
