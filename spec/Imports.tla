------------------------------ MODULE Imports ------------------------------
(* Per-file import blocks (property C09).

   What the property demands, stated over the client-visible history: a package is a set
   of files; declarations are stored in the file that is current when they are created;
   a declaration's syntax may reference imported packages; names are declared at package
   level or bound locally around a reference; a reference may be built and thrown away;
   a declaration may be deleted; a file may be written at any time and any number of times.

   At every write of file f (and for every file at the end of the history) the emitted
   file must
     ImportExact   import exactly the packages referenced from the live declarations
                   stored in f, plus those force-imported in f (as blank imports);
     (checked on the real output by go/parser + go/types, not predicted here:)
     NamesUnique, NoCollision, RefsResolve — every import name unique in the file and
                   different from every package-level name and from every local binding
                   that encloses a reference, every qualified reference resolving to the
                   package the builder was given.
   The model therefore predicts the import *set* per written file; the naming scheme is
   deliberately left to the implementation (a different renaming scheme must not alarm).

   Operations (each a short fixed sequence of API calls in the harness):
     SetCur(f)                 Package.SetCurFile
     Func(ps, bind)            func in the current file whose body references the packages ps;
                               bind: "" | "param:n" | "local:n" | "result:n" — a parameter / local variable /
                               named result called n (possibly an import's base name) encloses the references
     Var(n)                    package-level variable n in the current file
     Discard(p)                a reference to p is built inside a function body and abandoned (ResetStmt)
     Force(p)                  Package.ForceImport in the current file
     TypeDel(p)                a type whose definition references p is declared, then deleted
     Cross(p)                  a function declared in the current file whose body is built while the
                               *other* file is current
     VarAdd(p)                 a variable of type p.T is added to the (single, long-lived) var ( ... ) block of the
                               current file: a declaration that keeps growing after the file was written
     Visit(ps)                 the *other* file is made current (SetCurFile), a function referencing ps is declared and
                               built there, and the previous file is restored (RestoreCurFile): everything belongs
                               to the other file, the current file does not change
     RefAt(p, pos)             a declaration of the current file that references p from the syntactic position pos:
                               parameter / result type, initial value of a package-level variable, a live type
                               declaration, a labeled statement, key / value of a map literal, index of a slice
                               literal, the type of a composite literal, inside a function literal, the constraint of a type parameter
     Write(f)                  the file is written (and checked) now
   Deviation constants make the model behave like known defects of the implementation, so
   that TLC shows the property-level consequence (vacuity guard). *)
EXTENDS Integers, Sequences, FiniteSets, TLC, Json
CONSTANTS Files, Paths, Names, Binds, MaxOps, Ops, PathSets, Positions
\* Ops: enabled operation kinds; PathSets: the reference sets a Func may use (a set of sets of paths)

VARIABLES cur, decls, forced, declared, nops, hist
vars == <<cur, decls, forced, declared, nops, hist>>
\* a declaration: [id, file (where it is stored), refs (paths its syntax references), live]
Needed(f) == UNION {d.refs : d \in {d \in decls : d.file = f /\ d.live}}
Block(f) == [imports |-> Needed(f), blank |-> forced[f] \ Needed(f)]
Other(f) == CHOOSE g \in Files : g # f
Log(op, a, b) == /\ hist' = Append(hist, [op |-> op, a |-> a, b |-> b, exp |-> [f \in Files |-> Block(f)]'])
                 /\ nops' = nops + 1
Init == /\ cur = (CHOOSE f \in Files : f = "") /\ decls = {} /\ forced = [f \in Files |-> {}] /\ declared = {}
        /\ nops = 0 /\ hist = <<>>
NewDecl(f, refs, live) == decls' = decls \cup {[id |-> nops, file |-> f, refs |-> refs, live |-> live]}

SetCur(f) == /\ "SetCur" \in Ops /\ f # cur /\ cur' = f /\ UNCHANGED <<decls, forced, declared>> /\ Log("SetCur", f, "")
Func(ps, b) == /\ "Func" \in Ops /\ NewDecl(cur, ps, TRUE) /\ UNCHANGED <<cur, forced, declared>> /\ Log("Func", ps, b)
Var(n) == /\ "Var" \in Ops /\ n \notin declared /\ declared' = declared \cup {n} /\ NewDecl(cur, {}, TRUE)
          /\ UNCHANGED <<cur, forced>> /\ Log("Var", n, "")
Discard(p) == /\ "Discard" \in Ops /\ NewDecl(cur, {}, TRUE) /\ UNCHANGED <<cur, forced, declared>> /\ Log("Discard", p, "")
Force(p) == /\ "Force" \in Ops /\ p \notin forced[cur] /\ forced' = [forced EXCEPT ![cur] = @ \cup {p}]
            /\ UNCHANGED <<cur, decls, declared>> /\ Log("Force", p, "")
TypeDel(p) == /\ "TypeDel" \in Ops /\ NewDecl(cur, {p}, FALSE) /\ UNCHANGED <<cur, forced, declared>> /\ Log("TypeDel", p, "")
Cross(p) == /\ "Cross" \in Ops /\ NewDecl(cur, {p}, TRUE) /\ UNCHANGED <<cur, forced, declared>> /\ Log("Cross", p, "")
VarAdd(p) == /\ "VarAdd" \in Ops /\ NewDecl(cur, {p}, TRUE) /\ UNCHANGED <<cur, forced, declared>> /\ Log("VarAdd", p, "")
Visit(ps) == /\ "Visit" \in Ops /\ NewDecl(Other(cur), ps, TRUE) /\ UNCHANGED <<cur, forced, declared>> /\ Log("Visit", ps, "")
RefAt(p, pos) == /\ "RefAt" \in Ops /\ NewDecl(cur, {p}, TRUE) /\ UNCHANGED <<cur, forced, declared>> /\ Log("RefAt", p, pos)
Write(f) == /\ "Write" \in Ops /\ nops > 0 /\ hist[Len(hist)].op # "Write"
            /\ UNCHANGED <<cur, decls, forced, declared>> /\ Log("Write", f, "")
Next == /\ nops < MaxOps
        /\ \/ \E f \in Files : SetCur(f) \/ Write(f)
           \/ \E ps \in PathSets, b \in Binds : Func(ps, b)
           \/ \E ps \in PathSets : Visit(ps)
           \/ \E p \in Paths, pos \in Positions : RefAt(p, pos)
           \/ \E n \in Names : Var(n)
           \/ \E p \in Paths : Discard(p) \/ Force(p) \/ TypeDel(p) \/ Cross(p) \/ VarAdd(p)
Spec == Init /\ [][Next]_vars

(* model-level sanity: what is demanded is well defined and monotone in the obvious ways *)
BlockDisjoint == \A f \in Files : Block(f).imports \cap Block(f).blank = {}
OnlyOwnFile == \A f \in Files : Block(f).imports \subseteq UNION {d.refs : d \in {d \in decls : d.file = f}}
EmitInv == (nops = MaxOps) => PrintT(ToJson(hist))
=============================================================================
