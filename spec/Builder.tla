----------------------------- MODULE Builder -----------------------------
(* The CodeBuilder of goplus/gogen as a stack machine (property C16, and the
   skeleton the statement-level specifications stand on).

   One action per public operation, enabled exactly where the API's call
   protocol permits it (DESIGN.md Appendix D).  The state is what the property
   talks about:
     stk     operand stack (abstract element tags)
     frames  open constructs, innermost last; each records what was current when it was
             opened: stack length (base), scope, function, label table
     scope   identity of the current lexical scope (fresh id per opened scope) and its depth
     fn      identity of the current function (0 = package level)
     labels  labels defined in the current function
   Multi-step constructs are several actions exactly as in the API: If .. Then ..
   [Else ..] End;  For .. Then .. [Post <one statement>] End;  Switch .. Then {Case ..
   Then .. End} End;  TypeSwitch .. TypeAssertThen {TypeCase .. Then .. End} End;
   Select {CommCase [comm stmt] Then .. End} End;  ForRange x RangeAssignThen .. End;
   Block/VBlock .. End;  NewClosure.BodyStart .. End;  CallInlineClosureStart .. End;
   XStart .. EndInit (initialiser contexts, which may contain closures and hence
   whole statement lists).

   The balance law (what C16 states):
     Arity         every operation changes the stack length by its documented amount
     StmtBoundary  after EndStmt / ResetStmt / any statement-completing operation the stack is at
                   the innermost block's base
     EndRestores   closing a construct restores scope, function and label table that were
                   current when it was opened, and the stack to its base (+1 for a closure
                   value, +results for an inline closure)
   They are stated as invariants / action properties below and checked by TLC; the
   generator prints histories with the predicted observation after every step and the
   harness replays them on the real CodeBuilder.

   Constant Leak sabotages the model (vacuity guard): "EndBlock" forgets to truncate
   the stack, "Else" forgets to restore the scope. *)
EXTENDS Integers, Sequences, FiniteSets, TLC, Json

CONSTANTS MaxNest,    \* maximal number of open frames
          MaxStk,     \* maximal operand stack length
          MaxHist,    \* bound on the number of operations
          Ops,        \* enabled operation families (a set of strings), see Next
          Leak        \* "none" | "Restore" (End forgets to restore the scope depth: DepthOK and EndRestores must fail) | "EndBlock" | "Else"

VARIABLES stk, frames, scope, sdepth, nscope, fn, nfn, labels, nvar, hist, last
vars == <<stk, frames, scope, sdepth, nscope, fn, nfn, labels, nvar, hist, last>>
View == <<stk, frames, scope, sdepth, nscope, fn, nfn, labels, nvar>>

Top      == frames[Len(frames)]
Virtual(f) == f.k \in {"vblock", "init"}       \* no stack base / statement list of their own
\* the innermost frame that owns a statement list and a stack base
RECURSIVE RealIdx(_)
RealIdx(i) == IF ~Virtual(frames[i]) THEN i ELSE RealIdx(i - 1)
Real     == frames[RealIdx(Len(frames))]
RECURSIVE RealIdxOf(_, _)
RealIdxOf(fs, i) == IF ~Virtual(fs[i]) THEN i ELSE RealIdxOf(fs, i - 1)
RealIdxIn(fs) == RealIdxOf(fs, Len(fs))
Base     == Real.base
AtBase   == Len(stk) = Base
InInit   == Top.k = "init"
LabelU   == {"L1", "L2"}

Frame(k, st) == [k |-> k, st |-> st, base |-> Len(stk), n |-> 0,
                 oscope |-> scope, odepth |-> sdepth, ofn |-> fn, olabels |-> labels, ar |-> 0, nres |-> 0]
\* where statements may be written
BodyK == {"func", "closure", "inline", "block", "ifb", "forb", "range"}
IsBody(f) == \/ f.k \in {"func", "closure", "inline", "block", "ifb", "forb"}
             \/ (f.k \in {"case", "tcase", "comm", "range"} /\ f.st = "body")
\* statement context: a statement may start here
HeadOpen(f) == \/ (f.k \in {"if", "for", "switch", "tsw"} /\ f.st = "head" /\ f.n = 0)   \* <= 1 init statement
               \/ (f.k = "for" /\ f.st = "post" /\ f.n = 0)                               \* exactly one post statement
               \/ (f.k = "comm" /\ f.st = "head" /\ f.n = 0)                              \* <= 1 communication statement
StmtCtx == ~InInit /\ AtBase /\ (IsBody(Real) \/ HeadOpen(Real)) /\ (Top.k = "vblock" => IsBody(Real))
\* expression context: an operand may be pushed here
ExprCtx == /\ Len(stk) < MaxStk
           /\ \/ IsBody(Real) \/ InInit
              \/ (Real.k \in {"if", "for", "switch", "tsw", "range"} /\ Real.st = "head")
              \/ (Real.k = "for" /\ Real.st = "post" /\ Real.n = 0)
              \/ (Real.k \in {"case", "tcase"} /\ Real.st = "vals")
              \/ (Real.k = "comm" /\ Real.st = "head" /\ Real.n = 0)
InFunc == fn # 0

SetTop(f)  == [frames EXCEPT ![Len(frames)] = f]
SetReal(f) == [frames EXCEPT ![RealIdx(Len(frames))] = f]
Pop1       == SubSeq(frames, 1, Len(frames) - 1)
CountStmt  == SetReal([Real EXCEPT !.n = @ + 1])            \* one statement completed in the innermost real frame

Obs(s, sc, sd, f, labs, frs) ==
  [len |-> Len(s), scope |-> sc, sdepth |-> sd, fn |-> f, labels |-> labs,
   invb |-> (frs[Len(frs)].k = "vblock"), nframes |-> Len(frs)]
\* a history entry is <<op, arg, len, scope id, scope depth, function id, visible labels, in-vblock>>:
\* the operation and the observation the specification predicts after it
Rec(op, a) == /\ hist' = Append(hist, <<op, a, Len(stk'), scope', sdepth', fn', labels', frames'[Len(frames')].k = "vblock">>)
              /\ last' = op
NoCtx == UNCHANGED <<scope, sdepth, nscope, fn, nfn, labels, nvar>>
NewScope == scope' = nscope + 1 /\ nscope' = nscope + 1 /\ sdepth' = sdepth + 1
Enabled(o) == o \in Ops /\ Len(hist) < MaxHist

Init == /\ stk = <<>> /\ scope = 0 /\ sdepth = 0 /\ nscope = 0 /\ fn = 0 /\ nfn = 0 /\ labels = {} /\ nvar = 0
        /\ frames = <<[k |-> "pkg", st |-> "", base |-> 0, n |-> 0, oscope |-> 0, odepth |-> 0, ofn |-> 0, olabels |-> {}, ar |-> 0, nres |-> 0]>>
        /\ hist = <<>> /\ last = "init"

(* ---------------------------- expressions ---------------------------- *)
ValTags == {"int", "bool"}
Val(t) == /\ Enabled("expr") /\ (InFunc \/ InInit) /\ ExprCtx /\ stk' = Append(stk, t)
          /\ UNCHANGED frames /\ NoCtx /\ Rec("Val", t)
\* a reference to the prelude variable a (int): VarRef pushes an assignment target
VarRefOp == /\ Enabled("assign") /\ InFunc /\ StmtCtx /\ Len(stk) < MaxStk /\ stk' = Append(stk, "ref")
            /\ UNCHANGED frames /\ NoCtx /\ Rec("VarRef", "a")
AssignOp == /\ Enabled("assign") /\ Len(stk) = Base + 2 /\ stk[Len(stk) - 1] = "ref" /\ stk[Len(stk)] = "int" /\ ~InInit
            /\ stk' = SubSeq(stk, 1, Base) /\ frames' = CountStmt /\ NoCtx /\ Rec("Assign", "1")
Bin(op, a, r) == /\ Enabled("expr") /\ Len(stk) - Base >= 2 /\ stk[Len(stk)] = a /\ stk[Len(stk) - 1] = a
                 /\ stk' = Append(SubSeq(stk, 1, Len(stk) - 2), r)
                 /\ UNCHANGED frames /\ NoCtx /\ Rec("BinaryOp", op)
Unary == /\ Enabled("expr") /\ Len(stk) - Base >= 1 /\ stk[Len(stk)] = "int"
         /\ UNCHANGED <<stk, frames>> /\ NoCtx /\ Rec("UnaryOp", "-")
\* calls: Val(g0) Call(0) -> void ;  Val(g1) <int> Call(1) -> int ; Val(gv) <int>*n Call(n) -> int
ValFn(f) == /\ Enabled("call") /\ InFunc /\ ExprCtx /\ stk' = Append(stk, f)
            /\ UNCHANGED frames /\ NoCtx /\ Rec("ValFn", f)
\* number of "int" elements on top of the stack
RECURSIVE IntsOnTop(_)
IntsOnTop(i) == IF i > Base /\ stk[i] = "int" THEN 1 + IntsOnTop(i - 1) ELSE 0
CallOp == /\ Enabled("call") /\ UNCHANGED frames /\ NoCtx
          /\ LET n == IntsOnTop(Len(stk))  ci == Len(stk) - n IN
             /\ ci > Base /\ stk[ci] \in {"g0", "g1", "gv"}
             /\ (stk[ci] = "g0" => n = 0) /\ (stk[ci] = "g1" => n = 1)
             /\ stk' = Append(SubSeq(stk, 1, ci - 1), IF stk[ci] = "g0" THEN "void" ELSE "int")
             /\ Rec("Call", ToString(n))
EndStmt == /\ Enabled("call") /\ ~InInit /\ Len(stk) = Base + 1 /\ stk[Len(stk)] = "void"
           /\ (IsBody(Real) \/ HeadOpen(Real))
           /\ stk' = SubSeq(stk, 1, Base) /\ frames' = CountStmt /\ NoCtx /\ Rec("EndStmt", "")
\* ResetStmt: abandon a half-built statement
ResetStmt == /\ Enabled("reset") /\ ~InInit /\ Len(stk) > Base /\ InFunc
             /\ stk' = SubSeq(stk, 1, Base) /\ UNCHANGED frames /\ NoCtx /\ Rec("ResetStmt", "")
Return0 == /\ Enabled("flow") /\ StmtCtx /\ IsBody(Real) /\ InFunc
           /\ \A i \in 1..Len(frames) : frames[i].k # "inline"         \* inline closures: see ReturnInline
           /\ UNCHANGED stk /\ frames' = CountStmt /\ NoCtx /\ Rec("Return", "0")

(* ---------------------------- initialiser contexts ---------------------------- *)
\* x := e   (DefineVarStart .. EndInit(1)); also as init statement of if/for/switch heads
DefineStart == /\ Enabled("init") /\ InFunc /\ StmtCtx /\ Len(frames) < MaxNest /\ Real.st # "post"
               /\ frames' = Append(frames, Frame("init", "define")) /\ nvar' = nvar + 1
               /\ UNCHANGED <<stk, scope, sdepth, nscope, fn, nfn, labels>> /\ Rec("DefineVarStart", "v" \o ToString(nvar + 1))
\* var x T = e  (NewVarStart .. EndInit(1)) at package level or in a body
NewVarStart == /\ Enabled("init") /\ (StmtCtx \/ (Top.k = "pkg" /\ AtBase)) /\ Len(frames) < MaxNest
               /\ (InFunc => IsBody(Real))
               /\ frames' = Append(frames, Frame("init", "var")) /\ nvar' = nvar + 1
               /\ UNCHANGED <<stk, scope, sdepth, nscope, fn, nfn, labels>> /\ Rec("NewVarStart", "v" \o ToString(nvar + 1))
InitTagOK(t) == t \in {"int", "bool", "fn"}
EndInit == /\ Enabled("init") /\ InInit /\ Len(stk) = Top.base + 1 /\ InitTagOK(stk[Len(stk)])
           /\ stk' = SubSeq(stk, 1, Len(stk) - 1)
           /\ LET fs == Pop1  ri == RealIdx(Len(fs)) IN
              frames' = IF fs[ri].k = "pkg" THEN fs ELSE [fs EXCEPT ![ri].n = @ + 1]
           /\ NoCtx /\ Rec("EndInit", "1")

\* A rejected initialiser: EndInit(2) for one name is reported ("assignment mismatch"), but the initialiser context is left all
\* the same - the operands are popped and the enclosing construct is current again (endInit's deferred clean-up) - so a client
\* that collects errors can go on with the same builder and close the enclosing constructs.
EndInitRejected == /\ Enabled("reject") /\ InInit /\ Len(stk) = Top.base + 2
                   /\ stk[Len(stk)] \in {"int", "bool"} /\ stk[Len(stk) - 1] \in {"int", "bool"}
                   /\ stk' = SubSeq(stk, 1, Len(stk) - 2)
                   /\ LET fs == Pop1  ri == RealIdxIn(fs) IN
                      frames' = IF fs[ri].k = "pkg" THEN fs ELSE [fs EXCEPT ![ri].n = @ + 1]
                   /\ NoCtx /\ Rec("EndInitRejected", "2")

(* ---------------------------- block-forming statements ---------------------------- *)
Open(k, st, op) == /\ StmtCtx /\ IsBody(Real) /\ InFunc /\ Len(frames) < MaxNest
                   /\ frames' = Append(frames, Frame(k, st)) /\ NewScope
                   /\ UNCHANGED <<stk, fn, nfn, labels, nvar>> /\ Rec(op, "")
If      == Enabled("if") /\ Open("if", "head", "If")
For     == Enabled("for") /\ Open("for", "head", "For")
Switch  == Enabled("switch") /\ Open("switch", "head", "Switch")
TypeSw  == Enabled("typeswitch") /\ Open("tsw", "head", "TypeSwitch")
Select  == Enabled("select") /\ Open("select", "body", "Select")
Block   == Enabled("block") /\ Open("block", "", "Block")
Range   == Enabled("range") /\ Open("range", "head", "ForRange")
VBlock  == /\ Enabled("vblock") /\ StmtCtx /\ IsBody(Real) /\ InFunc /\ Len(frames) < MaxNest
           /\ frames' = Append(frames, Frame("vblock", "")) /\ NewScope
           /\ UNCHANGED <<stk, fn, nfn, labels, nvar>> /\ Rec("VBlock", "")
NoneOp  == /\ Enabled("for") /\ Real.k \in {"for", "switch"} /\ Real.st = "head" /\ AtBase /\ ~InInit
           /\ stk' = Append(stk, "none") /\ UNCHANGED frames /\ NoCtx /\ Rec("None", "")
\* a value of interface type / a rangeable value / a type operand
ValX(t) == /\ Enabled(IF t = "iface" THEN "typeswitch" ELSE IF t = "slice" THEN "range" ELSE "typeswitch")
           /\ InFunc /\ ~InInit /\ AtBase
           /\ \/ (t = "iface" /\ Real.k = "tsw" /\ Real.st = "head")
              \/ (t = "slice" /\ Real.k = "range" /\ Real.st = "head")
              \/ (t = "type" /\ Real.k = "tcase" /\ Real.st = "vals")
           /\ stk' = Append(stk, t) /\ UNCHANGED frames /\ NoCtx /\ Rec("ValX", t)

OpenBody(k, st) == Append(SetTop([Top EXCEPT !.st = "then"]), [Frame(k, st) EXCEPT !.base = Len(stk) - 1])
ThenIf  == /\ Enabled("if") /\ Top.k = "if" /\ Top.st = "head" /\ Len(stk) = Base + 1 /\ stk[Len(stk)] = "bool"
           /\ Len(frames) < MaxNest + 1
           /\ stk' = SubSeq(stk, 1, Len(stk) - 1) /\ frames' = OpenBody("ifb", "then") /\ NewScope
           /\ UNCHANGED <<fn, nfn, labels, nvar>> /\ Rec("Then", "if")
Else    == /\ Enabled("if") /\ Top.k = "ifb" /\ Top.st = "then" /\ AtBase
           /\ frames' = SetTop([Top EXCEPT !.st = "else", !.n = 0])
           /\ IF Leak = "Else" THEN UNCHANGED <<scope, nscope, sdepth>>
              ELSE scope' = nscope + 1 /\ nscope' = nscope + 1 /\ UNCHANGED sdepth
           /\ UNCHANGED <<stk, fn, nfn, labels, nvar>> /\ Rec("Else", "")
\* closing: restore what the frame recorded
Restore(f) == scope' = f.oscope /\ (IF Leak = "Restore" THEN UNCHANGED sdepth ELSE sdepth' = f.odepth)
Trunc(f)   == IF Leak = "EndBlock" THEN stk ELSE SubSeq(stk, 1, f.base)
Close2(op, a) ==   \* closes the body frame and the statement frame below it; the statement is emitted in the enclosing frame
  LET outer == frames[Len(frames) - 1]
      fs == SubSeq(frames, 1, Len(frames) - 2) IN
  /\ stk' = Trunc(outer) /\ Restore(outer)
  /\ frames' = [fs EXCEPT ![RealIdxIn(fs)].n = @ + 1]
  /\ UNCHANGED <<nscope, fn, nfn, labels, nvar>> /\ Rec(op, a)
EndIf   == Enabled("if") /\ Top.k = "ifb" /\ AtBase /\ Close2("End", "if")
ThenFor == /\ Enabled("for") /\ Top.k = "for" /\ Top.st = "head" /\ Len(stk) = Base + 1 /\ stk[Len(stk)] \in {"bool", "none"}
           /\ Len(frames) < MaxNest + 1
           /\ stk' = SubSeq(stk, 1, Len(stk) - 1) /\ frames' = OpenBody("forb", "") /\ NewScope
           /\ UNCHANGED <<fn, nfn, labels, nvar>> /\ Rec("Then", "for")
Post    == /\ Enabled("for") /\ Top.k = "forb" /\ AtBase
           /\ LET outer == frames[Len(frames) - 1] IN
              /\ frames' = [Pop1 EXCEPT ![Len(frames) - 1] = [outer EXCEPT !.st = "post", !.n = 0]]
              /\ scope' = Top.oscope /\ sdepth' = Top.odepth
           /\ UNCHANGED <<stk, nscope, fn, nfn, labels, nvar>> /\ Rec("Post", "")
Close1(op, a) ==   \* closes the top frame; its statement is emitted in the enclosing real frame
  LET fs == Pop1 IN
  /\ stk' = Trunc(Top) /\ Restore(Top)
  /\ frames' = [fs EXCEPT ![RealIdxIn(fs)].n = @ + 1]
  /\ UNCHANGED <<nscope, fn, nfn, labels, nvar>> /\ Rec(op, a)
EndFor  == /\ Enabled("for")
           /\ \/ (Top.k = "forb" /\ AtBase /\ Close2("End", "for"))
              \/ (Top.k = "for" /\ Top.st = "post" /\ Top.n = 1 /\ AtBase /\ Close1("End", "for"))
ThenSwitch == /\ Enabled("switch") /\ Top.k = "switch" /\ Top.st = "head" /\ Len(stk) = Base + 1 /\ stk[Len(stk)] \in {"int", "none"}
              /\ stk' = SubSeq(stk, 1, Len(stk) - 1) /\ frames' = SetTop([Top EXCEPT !.st = stk[Len(stk)]])
              /\ NoCtx /\ Rec("Then", "switch")
OpenClause(k, st, op) == /\ AtBase /\ Len(frames) < MaxNest
                         /\ frames' = Append(frames, Frame(k, st)) /\ NewScope
                         /\ UNCHANGED <<stk, fn, nfn, labels, nvar>> /\ Rec(op, "")
Case    == Enabled("switch") /\ Top.k = "switch" /\ Top.st \in {"int", "none"} /\ OpenClause("case", "vals", "Case")
Default == Enabled("switch") /\ Top.k = "switch" /\ Top.st \in {"int", "none"} /\ OpenClause("case", "body", "DefaultThen")
ThenCase == /\ Enabled("switch") /\ Top.k = "case" /\ Top.st = "vals" /\ Len(stk) > Base
            /\ \A i \in (Base + 1)..Len(stk) : stk[i] = (IF frames[Len(frames) - 1].st = "int" THEN "int" ELSE "bool")
            /\ stk' = SubSeq(stk, 1, Base) /\ frames' = SetTop([Top EXCEPT !.st = "body"])
            /\ NoCtx /\ Rec("Then", "case")
Fallthrough == /\ Enabled("switch") /\ Top.k = "case" /\ Top.st = "body" /\ AtBase
               /\ UNCHANGED stk /\ frames' = CountStmt /\ NoCtx /\ Rec("Fallthrough", "")
EndClause == /\ Top.k \in {"case", "tcase", "comm"} /\ Top.st = "body" /\ AtBase
             /\ Enabled(IF Top.k = "case" THEN "switch" ELSE IF Top.k = "tcase" THEN "typeswitch" ELSE "select")
             /\ Close1("End", Top.k)
EndSwitch == /\ Enabled("switch") /\ Top.k = "switch" /\ Top.st \in {"int", "none"} /\ AtBase /\ Close1("End", "switch")
TypeAssertThen == /\ Enabled("typeswitch") /\ Top.k = "tsw" /\ Top.st = "head" /\ Len(stk) = Base + 1 /\ stk[Len(stk)] = "iface"
                  /\ stk' = SubSeq(stk, 1, Len(stk) - 1) /\ frames' = SetTop([Top EXCEPT !.st = "body"])
                  /\ NoCtx /\ Rec("TypeAssertThen", "")
TypeCase  == Enabled("typeswitch") /\ Top.k = "tsw" /\ Top.st = "body" /\ OpenClause("tcase", "vals", "TypeCase")
TypeDefault == Enabled("typeswitch") /\ Top.k = "tsw" /\ Top.st = "body" /\ OpenClause("tcase", "body", "TypeDefaultThen")
ThenTypeCase == /\ Enabled("typeswitch") /\ Top.k = "tcase" /\ Top.st = "vals" /\ Len(stk) > Base
                /\ \A i \in (Base + 1)..Len(stk) : stk[i] = "type"
                /\ stk' = SubSeq(stk, 1, Base) /\ frames' = SetTop([Top EXCEPT !.st = "body"])
                /\ NoCtx /\ Rec("Then", "tcase")
EndTypeSw == /\ Enabled("typeswitch") /\ Top.k = "tsw" /\ Top.st = "body" /\ AtBase /\ Close1("End", "typeswitch")
CommCase  == Enabled("select") /\ Top.k = "select" /\ OpenClause("comm", "head", "CommCase")
CommDefault == Enabled("select") /\ Top.k = "select" /\ OpenClause("comm", "body", "CommDefaultThen")
ThenComm  == /\ Enabled("select") /\ Top.k = "comm" /\ Top.st = "head" /\ AtBase
             /\ frames' = SetTop([Top EXCEPT !.st = "body", !.n = 0]) /\ UNCHANGED stk /\ NoCtx /\ Rec("Then", "comm")
EndSelect == /\ Enabled("select") /\ Top.k = "select" /\ AtBase /\ Close1("End", "select")
RangeThen == /\ Enabled("range") /\ Top.k = "range" /\ Top.st = "head" /\ Len(stk) = Base + 1 /\ stk[Len(stk)] = "slice"
             /\ stk' = SubSeq(stk, 1, Len(stk) - 1) /\ frames' = SetTop([Top EXCEPT !.st = "body", !.n = 0])
             /\ NoCtx /\ Rec("RangeAssignThen", "")
EndRange  == /\ Enabled("range") /\ Top.k = "range" /\ Top.st = "body" /\ AtBase /\ Close1("End", "range")
EndBlock  == /\ Enabled("block") /\ Top.k = "block" /\ AtBase /\ Close1("End", "block")
EndVBlock == /\ Enabled("vblock") /\ Top.k = "vblock" /\ AtBase
             /\ frames' = Pop1 /\ Restore(Top) /\ UNCHANGED <<stk, nscope, fn, nfn, labels, nvar>> /\ Rec("End", "vblock")

(* ---------------------------- functions and closures ---------------------------- *)
FuncStart == /\ Enabled("func") /\ Top.k = "pkg" /\ AtBase /\ Len(frames) < MaxNest
             /\ frames' = Append(frames, Frame("func", "")) /\ NewScope
             /\ fn' = nfn + 1 /\ nfn' = nfn + 1 /\ labels' = {}
             /\ UNCHANGED <<stk, nvar>> /\ Rec("NewFunc.BodyStart", "f" \o ToString(nfn + 1))
EndFunc   == /\ Enabled("func") /\ Top.k = "func" /\ AtBase
             /\ frames' = Pop1 /\ Restore(Top) /\ fn' = Top.ofn /\ labels' = Top.olabels
             /\ stk' = Trunc(Top) /\ UNCHANGED <<nscope, nfn, nvar>> /\ Rec("End", "func")
Closure   == /\ Enabled("closure") /\ ExprCtx /\ Len(frames) < MaxNest
             /\ (InFunc \/ InInit)
             /\ frames' = Append(frames, Frame("closure", "")) /\ NewScope
             /\ fn' = nfn + 1 /\ nfn' = nfn + 1 /\ labels' = {}
             /\ UNCHANGED <<stk, nvar>> /\ Rec("NewClosure.BodyStart", "")
EndClosure == /\ Enabled("closure") /\ Top.k = "closure" /\ AtBase
              /\ frames' = Pop1 /\ Restore(Top) /\ fn' = Top.ofn /\ labels' = Top.olabels
              /\ stk' = Append(Trunc(Top), "fn") /\ UNCHANGED <<nscope, nfn, nvar>> /\ Rec("End", "closure")
\* inline closure call: func(x int) int  (ar = 1, one result) or func() (ar = 0, no result)
InlineStart(ar) ==
  /\ Enabled("inline") /\ InFunc /\ ExprCtx /\ IsBody(Real) /\ Len(frames) < MaxNest /\ ~InInit
  /\ (ar = 1 => (Len(stk) > Base /\ stk[Len(stk)] = "int"))
  /\ LET f == [Frame("inline", "") EXCEPT !.ar = ar, !.nres = ar, !.base = Len(stk) - ar] IN
       frames' = Append(frames, f)
  /\ stk' = SubSeq(stk, 1, Len(stk) - ar)               \* the arguments are bound to fresh variables
  /\ NewScope /\ fn' = nfn + 1 /\ nfn' = nfn + 1 /\ labels' = {} /\ UNCHANGED nvar
  /\ Rec("CallInlineClosureStart", ToString(ar))
\* return inside an inline closure: assignment to the result variable(s) and a jump to the end label
ReturnInline == /\ Enabled("inline") /\ Top.k = "inline" /\ ~InInit
                /\ Len(stk) = Base + Top.nres /\ (Top.nres = 1 => stk[Len(stk)] = "int")
                /\ stk' = SubSeq(stk, 1, Base) /\ frames' = CountStmt /\ NoCtx /\ Rec("Return", ToString(Top.nres))
EndInline == /\ Enabled("inline") /\ Top.k = "inline" /\ AtBase
             /\ LET fs == Pop1 IN frames' = [fs EXCEPT ![RealIdxIn(fs)].n = @ + 1]
             /\ Restore(Top) /\ fn' = Top.ofn /\ labels' = Top.olabels
             /\ stk' = IF Top.nres = 1 THEN Append(Trunc(Top), "int") ELSE Trunc(Top)
             /\ UNCHANGED <<nscope, nfn, nvar>> /\ Rec("End", "inline")

(* ---------------------------- labels ---------------------------- *)
NewLabel(l) == /\ Enabled("label") /\ InFunc /\ StmtCtx /\ IsBody(Real) /\ l \notin labels
               /\ labels' = labels \cup {l} /\ UNCHANGED <<stk, frames, scope, sdepth, nscope, fn, nfn, nvar>>
               /\ Rec("NewLabel+Label", l)
Goto(l) == /\ Enabled("label") /\ InFunc /\ StmtCtx /\ IsBody(Real) /\ l \in labels
           /\ UNCHANGED stk /\ frames' = CountStmt /\ NoCtx /\ Rec("Goto", l)

Next ==
  \/ \E t \in ValTags : Val(t)
  \/ VarRefOp \/ AssignOp \/ Bin("+", "int", "int") \/ Bin("==", "int", "bool") \/ Unary
  \/ (\E f \in {"g0", "g1", "gv"} : ValFn(f)) \/ CallOp \/ EndStmt \/ ResetStmt \/ Return0
  \/ DefineStart \/ NewVarStart \/ EndInit \/ EndInitRejected
  \/ If \/ ThenIf \/ Else \/ EndIf \/ For \/ NoneOp \/ ThenFor \/ Post \/ EndFor
  \/ Switch \/ ThenSwitch \/ Case \/ Default \/ ThenCase \/ Fallthrough \/ EndClause \/ EndSwitch
  \/ TypeSw \/ (\E t \in {"iface", "slice", "type"} : ValX(t)) \/ TypeAssertThen \/ TypeCase \/ TypeDefault \/ ThenTypeCase \/ EndTypeSw
  \/ Select \/ CommCase \/ CommDefault \/ ThenComm \/ EndSelect
  \/ Range \/ RangeThen \/ EndRange \/ Block \/ EndBlock \/ VBlock \/ EndVBlock
  \/ FuncStart \/ EndFunc \/ Closure \/ EndClosure
  \/ (\E ar \in {0, 1} : InlineStart(ar)) \/ ReturnInline \/ EndInline
  \/ (\E l \in LabelU : NewLabel(l) \/ Goto(l))
Spec == Init /\ [][Next]_vars

-----------------------------------------------------------------------------
(* The balance law *)
Closers == {"End"}
\* stack never below the innermost base; bases are monotone along the frame stack
Balanced == /\ Len(stk) >= Base
            /\ \A i \in 1..(Len(frames) - 1) : frames[i].base <= frames[i + 1].base
\* after a statement-completing operation the stack is at the innermost base
StmtOps == {"EndStmt", "ResetStmt", "Assign", "EndInit", "Return", "Goto", "Fallthrough", "Post", "Else"}
StmtBoundary == (last \in StmtOps /\ ~InInit) => (last = "EndInit" \/ AtBase)
\* scope bookkeeping: depth equals the number of scope-opening frames, ids are unique per open scope
ScopeFrames == {i \in 1..Len(frames) : frames[i].k \notin {"pkg", "init"}}
DepthOK == sdepth = Cardinality(ScopeFrames)
\* the function and label context recorded by the innermost function-like frame is what End will restore
FnFrames == {i \in 1..Len(frames) : frames[i].k \in {"func", "closure", "inline"}}
FnOK == IF FnFrames = {} THEN fn = 0 ELSE fn # 0
\* action property: closing restores exactly what was recorded when the construct was opened
EndRestores ==
  [][ (last' = "End" /\ Len(frames') < Len(frames)) =>
        LET opened == frames[Len(frames') + 1] IN          \* the outermost frame removed by this step
          /\ scope' = opened.oscope /\ sdepth' = opened.odepth
          /\ (opened.k \in {"func", "closure", "inline"} => fn' = opened.ofn)
          /\ (opened.k \in {"func", "closure", "inline"} => labels' = opened.olabels)
          /\ Len(stk') = opened.base + (IF opened.k = "closure" THEN 1 ELSE IF opened.k = "inline" THEN opened.nres ELSE 0)
    ]_vars
\* generators
Complete == Len(frames) = 1 /\ AtBase
EmitAll  == (Len(hist) = MaxHist \/ (Complete /\ Len(hist) > 0)) => PrintT(ToJson(hist))
EmitFull == (Len(hist) = MaxHist) => PrintT(ToJson(hist))
EmitEdge == [][Len(hist') > Len(hist) => PrintT(ToJson(hist'))]_vars
=============================================================================
