------------------------------ MODULE GoTypes ------------------------------
(* A closed universe of Go types and constants, and the Go specification's
   judgements over it (properties C05, and the typing core of C01-C04, C14).

   Types are terms (records):
     [k |-> "basic",   n |-> "int" ...]                 predeclared typed types, incl. "unsafeptr"
     [k |-> "untyped", n |-> "bool"|"int"|"rune"|"float"|"complex"|"string"|"nil"]
     [k |-> "ptr"|"slice", e], [k |-> "array", len, e], [k |-> "map", key, e]
     [k |-> "chan", dir |-> "both"|"send"|"recv", e]
     [k |-> "func", ps, rs, va]          parameter / result type sequences, variadic flag
     [k |-> "struct", fs |-> Seq([n, t])]
     [k |-> "iface", ms]                 method-name set (every method has signature func())
     [k |-> "named", n, u, ms, pms]      defined type: name, underlying, value- and pointer-receiver methods
     [k |-> "alias", n, of]              alias declaration: identical to `of`
   Structural equality of normalised terms is type identity (defined types by name).

   Constants are exact and symbolic so that TLC (32-bit integers) can decide
   representability at every boundary up to 2^1024:
     [ck |-> "num", neg, e, d, frac, imag]   value  (-1)^neg * (2^e + d) [+ 1/2 if frac] [+ i if imag],
                                              e in Exps, d in {-1,0,1};  e = 0 gives 0,1,2
     [ck |-> "str"], [ck |-> "bool"], NoC (not a constant)
   For e >= 1 the magnitudes are ordered lexicographically by (e, d), which is all the
   range checks need.  Each rule below is one paragraph of the Go specification
   (Assignability, Representability, Comparison operators, Conversions, Constants). *)
EXTENDS Integers, Sequences, FiniteSets, TLC

B(n) == [k |-> "basic", n |-> n]
UT(n) == [k |-> "untyped", n |-> n]
Ptr(e) == [k |-> "ptr", e |-> e]
Slice(e) == [k |-> "slice", e |-> e]
Array(n, e) == [k |-> "array", len |-> n, e |-> e]
Map(key, e) == [k |-> "map", key |-> key, e |-> e]
Chan(d, e) == [k |-> "chan", dir |-> d, e |-> e]
Func(ps, rs, va) == [k |-> "func", ps |-> ps, rs |-> rs, va |-> va]
Struct(fs) == [k |-> "struct", fs |-> fs]
Iface(ms) == [k |-> "iface", ms |-> ms]
Named(n, u, ms, pms) == [k |-> "named", n |-> n, u |-> u, ms |-> ms, pms |-> pms]
Alias(n, of) == [k |-> "alias", n |-> n, of |-> of]

TInt == B("int")  TStr == B("string")  TBool == B("bool")  TF64 == B("float64")
IntKinds  == {"int", "int8", "int16", "int32", "int64", "uint", "uint8", "uint16", "uint32", "uint64", "uintptr"}
FloatKinds == {"float32", "float64"}
ComplexKinds == {"complex64", "complex128"}
BasicKinds == IntKinds \cup FloatKinds \cup ComplexKinds \cup {"bool", "string", "unsafeptr"}

(* ---------- identity, underlying, method sets ---------- *)
RECURSIVE Norm(_)
NormSeq(s) == [i \in 1..Len(s) |-> Norm(s[i])]
Norm(t) ==
  CASE t.k = "alias" -> Norm(t.of)
    [] t.k \in {"ptr", "slice"} -> [t EXCEPT !.e = Norm(t.e)]
    [] t.k = "array" -> [t EXCEPT !.e = Norm(t.e)]
    [] t.k = "map" -> [t EXCEPT !.key = Norm(t.key), !.e = Norm(t.e)]
    [] t.k = "chan" -> [t EXCEPT !.e = Norm(t.e)]
    [] t.k = "func" -> [t EXCEPT !.ps = NormSeq(t.ps), !.rs = NormSeq(t.rs)]
    [] t.k = "struct" -> [t EXCEPT !.fs = [i \in 1..Len(t.fs) |-> [t.fs[i] EXCEPT !.t = Norm(t.fs[i].t)]]]
    [] OTHER -> t
Identical(a, b) == Norm(a) = Norm(b)
Under(t) == LET n == Norm(t) IN IF n.k = "named" THEN n.u ELSE n
IsUntyped(t) == t.k = "untyped"
IsNamedType(t) == Norm(t).k \in {"named", "basic"}          \* "named types": predeclared and defined types
IsIface(t) == Under(t).k = "iface"
MethodSet(t) ==
  LET n == Norm(t) IN
  CASE n.k = "named" -> IF n.u.k = "iface" THEN n.u.ms ELSE n.ms
    [] n.k = "ptr" /\ Norm(n.e).k = "named" /\ Norm(n.e).u.k # "iface" -> Norm(n.e).ms \cup Norm(n.e).pms
    [] n.k = "iface" -> n.ms
    [] OTHER -> {}
Implements(V, I) == Under(I).ms \subseteq MethodSet(V)
UKind(t) == Under(t).n          \* for basic / untyped underlying
IsBasicU(t) == Under(t).k = "basic"
IsIntegerT(t) == (IsBasicU(t) /\ UKind(t) \in IntKinds) \/ (IsUntyped(t) /\ t.n \in {"int", "rune"})
IsFloatT(t) == (IsBasicU(t) /\ UKind(t) \in FloatKinds) \/ (IsUntyped(t) /\ t.n = "float")
IsComplexT(t) == (IsBasicU(t) /\ UKind(t) \in ComplexKinds) \/ (IsUntyped(t) /\ t.n = "complex")
IsNumericT(t) == IsIntegerT(t) \/ IsFloatT(t) \/ IsComplexT(t)
IsStringT(t) == (IsBasicU(t) /\ UKind(t) = "string") \/ (IsUntyped(t) /\ t.n = "string")
IsBoolT(t) == (IsBasicU(t) /\ UKind(t) = "bool") \/ (IsUntyped(t) /\ t.n = "bool")
Nillable(t) == Under(t).k \in {"ptr", "slice", "map", "chan", "func", "iface"} \/ (IsBasicU(t) /\ UKind(t) = "unsafeptr")

(* ---------- default types ---------- *)
Default(t) == IF ~IsUntyped(t) THEN t
              ELSE CASE t.n = "bool" -> B("bool") [] t.n = "int" -> B("int") [] t.n = "rune" -> B("int32")
                     [] t.n = "float" -> B("float64") [] t.n = "complex" -> B("complex128")
                     [] t.n = "string" -> B("string") [] OTHER -> t          \* untyped nil has no default

(* ---------- constants and representability ---------- *)
NoC == [ck |-> "none"]
Num(neg, e, d, frac, imag) == [ck |-> "num", neg |-> neg, e |-> e, d |-> d, frac |-> frac, imag |-> imag]
Exps == {0, 7, 8, 15, 16, 31, 32, 63, 64, 127, 128, 1023, 1024}
IsZero(c) == c.ck = "num" /\ c.e = 0 /\ c.d = -1 /\ ~c.frac /\ ~c.imag
\* magnitude (2^e + d) <= 2^E + D ?   (both with e, E >= 0, d, D in -1..1)
MagVal0(e, d) == 1 + d                         \* only for e = 0
MagLE(e, d, E, D) ==
  IF e = 0 /\ E = 0 THEN MagVal0(e, d) <= MagVal0(E, D)
  ELSE IF e = 0 THEN TRUE                      \* 0..2 <= 2^E + D for E >= 7
  ELSE IF E = 0 THEN FALSE
  ELSE e < E \/ (e = E /\ d <= D)
\* integer range of a basic integer kind: [-(2^lo), 2^hi - 1], lo = -1 meaning 0
Bits(n) == CASE n \in {"int8", "uint8"} -> 8 [] n \in {"int16", "uint16"} -> 16 [] n \in {"int32", "uint32"} -> 32 [] OTHER -> 64
Unsigned(n) == n \in {"uint", "uint8", "uint16", "uint32", "uint64", "uintptr"}
IntegralValue(c) == c.ck = "num" /\ ~c.frac /\ ~c.imag
InIntRange(c, n) ==
  /\ IntegralValue(c)
  /\ IF IsZero(c) THEN TRUE
     ELSE IF c.neg THEN ~Unsigned(n) /\ MagLE(c.e, c.d, Bits(n) - 1, 0)                 \* >= -2^(b-1)
     ELSE IF Unsigned(n) THEN MagLE(c.e, c.d, Bits(n), -1)                              \* <= 2^b - 1
     ELSE MagLE(c.e, c.d, Bits(n) - 1, -1)                                              \* <= 2^(b-1) - 1
\* floats: representable iff the magnitude rounds to a finite value: |x| < 2^128 (float32), 2^1024 (float64)
InFloatRange(c, n) == c.ck = "num" /\ ~c.imag /\ c.e < (IF n \in {"float32", "complex64"} THEN 128 ELSE 1024)
InComplexRange(c, n) == c.ck = "num" /\ c.e < (IF n = "complex64" THEN 128 ELSE 1024)
\* "a constant x is representable by a value of type T" (T's underlying type is basic)
Representable(c, T) ==
  IF ~IsBasicU(T) THEN FALSE
  ELSE LET n == UKind(T) IN
    CASE c.ck = "num" -> \/ (n \in IntKinds /\ InIntRange(c, n))
                         \/ (n \in FloatKinds /\ InFloatRange(c, n))
                         \/ (n \in ComplexKinds /\ InComplexRange(c, n))
      [] c.ck = "str" -> n = "string"
      [] c.ck = "bool" -> n = "bool"
      [] OTHER -> FALSE

(* ---------- assignability ---------- *)
\* x (of type V, constant c or NoC) is assignable to T
AssignableTo(V, T, c) ==
  LET v == Norm(V)  t == Norm(T) IN
  IF IsUntyped(t) THEN FALSE
  ELSE IF IsUntyped(v) THEN
         IF v.n = "nil" THEN Nillable(t)
         ELSE IF IsIface(t) THEN Under(t).ms = {} /\ (c = NoC \/ Representable(c, Default(v)))
                                                      \* converted to its default type, which must implement T (methodless only)
         ELSE IF c # NoC THEN Representable(c, t)
         ELSE (v.n = "bool" /\ IsBoolT(t))            \* untyped boolean value (result of a comparison)
              \/ (v.n \in {"int", "rune"} /\ IsNumericT(t) /\ IsBasicU(t))   \* untyped non-constant (non-constant shift): any numeric type
  ELSE \/ v = t
       \/ (Under(v) = Under(t) /\ (~IsNamedType(v) \/ ~IsNamedType(t)))
       \/ (IsIface(t) /\ Implements(v, t))
       \/ (Under(v).k = "chan" /\ Under(t).k = "chan" /\ Under(v).dir = "both"
           /\ Under(v).e = Under(t).e /\ (~IsNamedType(v) \/ ~IsNamedType(t)))

(* ---------- comparison ---------- *)
RECURSIVE Comparable(_)
Comparable(T) ==
  LET u == Under(T) IN
  CASE u.k = "basic" -> TRUE
    [] u.k \in {"ptr", "chan", "iface"} -> TRUE
    [] u.k = "array" -> Comparable(u.e)
    [] u.k = "struct" -> \A i \in 1..Len(u.fs) : Comparable(u.fs[i].t)
    [] OTHER -> FALSE                        \* slice, map, func
\* x == y : one operand assignable to the other's type, and the operands comparable (or a nil comparison)
CmpOK(x, y) ==
  IF IsUntyped(x.ty) /\ IsUntyped(y.ty) THEN
       IF x.ty.n = "nil" \/ y.ty.n = "nil" THEN FALSE                                   \* nil == nil, nil == 1
       ELSE (IsNumericT(x.ty) /\ IsNumericT(y.ty)) \/ x.ty.n = y.ty.n
  ELSE /\ (AssignableTo(x.ty, y.ty, x.c) \/ AssignableTo(y.ty, x.ty, y.c))
       /\ \/ (x.ty = UT("nil") \/ y.ty = UT("nil"))                                     \* assignability already required a nillable type
          \/ LET t == IF IsUntyped(x.ty) THEN y.ty ELSE x.ty
                 o == IF IsUntyped(x.ty) THEN x.ty ELSE y.ty IN
             Comparable(t) /\ (IsUntyped(o) \/ Comparable(o))

(* ---------- conversion ---------- *)
IsByteOrRuneSlice(t) == Under(t).k = "slice" /\ Norm(Under(t).e).k = "basic" /\ Norm(Under(t).e).n \in {"uint8", "int32"}
RECURSIVE StripTags(_)
StripTags(t) == t          \* struct tags are not part of this universe
ConvertibleTo(V, T, c) ==
  LET v == Norm(V)  t == Norm(T) IN
  IF IsUntyped(t) THEN FALSE
  ELSE IF c # NoC THEN          \* constant operand
       \/ (IsBasicU(t) /\ Representable(c, t))
       \/ (IsBasicU(t) /\ UKind(t) = "string" /\ c.ck = "num" /\ IsIntegerT(v) /\ IntegralValue(c))      \* string(65)
       \/ (IsIface(t) /\ AssignableTo(v, t, c))
       \/ (c.ck = "str" /\ IsByteOrRuneSlice(t))                                                          \* []byte("s")
       \/ (c.ck = "num" /\ IsComplexT(t) /\ IsBasicU(t) /\ InComplexRange(c, UKind(t)))
  ELSE IF IsUntyped(v) THEN AssignableTo(v, t, c)      \* untyped nil / untyped bool value
  ELSE \/ AssignableTo(v, t, NoC)
       \/ Under(v) = Under(t)
       \/ (v.k = "ptr" /\ t.k = "ptr" /\ Under(v.e) = Under(t.e))
       \/ ((IsIntegerT(v) \/ IsFloatT(v)) /\ (IsIntegerT(t) \/ IsFloatT(t)))
       \/ (IsComplexT(v) /\ IsComplexT(t))
       \/ (IsStringT(t) /\ (IsIntegerT(v) \/ IsByteOrRuneSlice(v)))
       \/ (IsStringT(v) /\ IsByteOrRuneSlice(t))
       \/ (Under(v).k = "slice" /\ Under(t).k = "array" /\ Under(v).e = Under(t).e)
       \/ (Under(v).k = "slice" /\ Under(t).k = "ptr" /\ Under(Under(t).e).k = "array" /\ Under(v).e = Under(Under(t).e).e)
       \/ (IsBasicU(v) /\ UKind(v) = "unsafeptr" /\ (Under(t).k = "ptr" \/ (IsBasicU(t) /\ UKind(t) = "uintptr")))
       \/ (IsBasicU(t) /\ UKind(t) = "unsafeptr" /\ (Under(v).k = "ptr" \/ (IsBasicU(v) /\ UKind(v) = "uintptr")))

(* ---------- the universe ---------- *)
MyInt    == Named("MyInt", TInt, {}, {})
MyIntM   == Named("MyIntM", TInt, {"M"}, {})               \* value-receiver method M
MyStr    == Named("MyStr", TStr, {}, {})
MyBool   == Named("MyBool", TBool, {}, {})
MyFloat  == Named("MyFloat", TF64, {}, {})
MySlice  == Named("MySlice", Slice(TInt), {}, {})
MyPtr    == Named("MyPtr", Ptr(TInt), {}, {})
MyMap    == Named("MyMap", Map(TStr, TInt), {}, {})
MyChan   == Named("MyChan", Chan("both", TInt), {}, {})
MyFunc   == Named("MyFunc", Func(<<>>, <<>>, FALSE), {}, {})
StructX  == Struct(<<[n |-> "X", t |-> TInt]>>)
MyStruct == Named("MyStruct", StructX, {}, {})
MyStructP == Named("MyStructP", StructX, {}, {"M"})       \* pointer-receiver method M
IfaceM   == Iface({"M"})
MyIface  == Named("MyIface", IfaceM, {}, {})
ErrorT   == Named("error", Iface({"Error"}), {}, {})
AInt     == Alias("AInt", TInt)
UBasic   == {B(n) : n \in BasicKinds}
UUntyped == {UT(n) : n \in {"bool", "int", "rune", "float", "complex", "string", "nil"}}
UComposite == {Ptr(TInt), Ptr(MyInt), Ptr(MyStructP), Slice(TInt), Slice(B("uint8")), Slice(AInt), Array(2, TInt), Array(3, TInt), Array(2, Slice(TInt)),
               Map(TStr, TInt), Chan("both", TInt), Chan("recv", TInt), Chan("send", TInt),
               Func(<<>>, <<>>, FALSE), Func(<<TInt>>, <<TInt>>, FALSE), Func(<<Slice(TInt)>>, <<>>, TRUE),
               Struct(<<>>), StructX, Struct(<<[n |-> "X", t |-> Slice(TInt)]>>), Iface({}), IfaceM}
UNamed == {MyInt, MyIntM, MyStr, MyBool, MyFloat, MySlice, MyPtr, MyMap, MyChan, MyFunc, MyStruct, MyStructP, MyIface, ErrorT, AInt}
Universe == UBasic \cup UUntyped \cup UComposite \cup UNamed
=============================================================================
