---------------------------- MODULE TypeSyntax ----------------------------
(* Type expressions round-trip (property C13).

   Type terms (GoTypes.tla's constructors, plus embedded fields, struct tags, interface
   methods and embedded interfaces, package-qualified names) are mapped to the token
   sequence Go's grammar requires (Tokens) and read back by a recursive-descent parser
   for Go's type syntax written here (Parse).  TLC checks Parse(Tokens(t)) = t for every
   term of the bounded grammar: the only place where Go's type syntax needs parentheses
   is a channel whose element type starts with the receive arrow
   (chan (<-chan T), chan<- (<-chan T)); with NoParens = TRUE (the pinned implementation's
   rule before the fix) TLC produces exactly that counterexample.

   The same terms are printed as JSON; the harness realises each as a go/types type,
   declares it through the builder in every syntactic position (variable, parameter,
   result, type definition, alias, field, across two files), writes the package, re-parses
   and re-checks it and compares the type read back with the original. *)
EXTENDS GoTypes, Json
CONSTANTS NoParens,   \* TRUE: never parenthesise a channel element (sabotage / the defect)
          Depth,      \* nesting depth of the enumerated terms
          Ctors,      \* constructors used above the leaves
          Leaves      \* leaf set name: "small" | "rich"

(* ---------- tokens ---------- *)
\* a token is a record: punctuation / keyword [k |-> "p", v], identifier [k |-> "id", v], struct tag [k |-> "tag", v], array length [k |-> "n", v]
P(x) == [k |-> "p", v |-> x]
Id(x) == [k |-> "id", v |-> x]
RECURSIVE Tokens(_), TokSeq(_, _)
StartsWithArrow(t) == t.k = "chan" /\ t.dir = "recv"
ElemTokens(t) == IF StartsWithArrow(t) /\ ~NoParens THEN <<P("(")>> \o Tokens(t) \o <<P(")")>> ELSE Tokens(t)
TokSeq(s, i) == IF i > Len(s) THEN <<>> ELSE (IF i > 1 THEN <<P(",")>> ELSE <<>>) \o Tokens(s[i]) \o TokSeq(s, i + 1)
RECURSIVE FieldToks(_, _), MethToks(_, _)
FieldToks(fs, i) ==
  IF i > Len(fs) THEN <<>>
  ELSE (IF i > 1 THEN <<P(";")>> ELSE <<>>)
       \o (IF fs[i].emb THEN <<>> ELSE <<Id(fs[i].n)>>) \o Tokens(fs[i].t)
       \o (IF fs[i].tag = "" THEN <<>> ELSE <<[k |-> "tag", v |-> fs[i].tag]>>) \o FieldToks(fs, i + 1)
MethToks(ms, i) ==      \* ms: sequence of [n, emb, t]
  IF i > Len(ms) THEN <<>>
  ELSE (IF i > 1 THEN <<P(";")>> ELSE <<>>)
       \o (IF ms[i].emb THEN Tokens(ms[i].t) ELSE <<Id(ms[i].n)>> \o Tail(Tokens(ms[i].t))) \o MethToks(ms, i + 1)     \* a method: its name and its signature (the function type without "func")
Tokens(t) ==
  CASE t.k = "basic" -> <<Id(t.n)>>
    [] t.k = "qual" -> <<Id(t.pkg), P("."), Id(t.n)>>
    [] t.k = "named" -> <<Id(t.n)>>
    [] t.k = "inst" -> (IF t.pkg = "" THEN <<>> ELSE <<Id(t.pkg), P(".")>>) \o <<Id(t.n), P("[")>> \o TokSeq(t.args, 1) \o <<P("]")>>     \* G[int], ax.G[T], P2[K, V]
    [] t.k = "ptr" -> <<P("*")>> \o Tokens(t.e)
    [] t.k = "slice" -> <<P("["), P("]")>> \o Tokens(t.e)
    [] t.k = "array" -> <<P("["), [k |-> "n", v |-> t.len], P("]")>> \o Tokens(t.e)
    [] t.k = "map" -> <<P("map"), P("[")>> \o Tokens(t.key) \o <<P("]")>> \o Tokens(t.e)
    [] t.k = "chan" -> (CASE t.dir = "both" -> <<P("chan")>> [] t.dir = "send" -> <<P("chan"), P("<-")>> [] OTHER -> <<P("<-"), P("chan")>>) \o ElemTokens(t.e)
    [] t.k = "func" ->
         <<P("func"), P("(")>>
         \o (IF t.va THEN TokSeq(SubSeq(t.ps, 1, Len(t.ps) - 1), 1) \o (IF Len(t.ps) > 1 THEN <<P(",")>> ELSE <<>>) \o <<P("...")>> \o Tokens(t.ps[Len(t.ps)].e)
             ELSE TokSeq(t.ps, 1))
         \o <<P(")")>>
         \o (IF Len(t.rs) = 0 THEN <<>> ELSE IF Len(t.rs) = 1 THEN Tokens(t.rs[1]) ELSE <<P("(")>> \o TokSeq(t.rs, 1) \o <<P(")")>>)
    [] t.k = "struct" -> <<P("struct"), P("{")>> \o FieldToks(t.fs, 1) \o <<P("}")>>
    [] t.k = "iface" -> <<P("interface"), P("{")>> \o MethToks(t.ms, 1) \o <<P("}")>>

(* ---------- a recursive-descent parser for Go's type syntax ---------- *)
\* every parse function returns [t |-> term, p |-> next position]
IsId(tok) == tok.k = "id"
IdOf(tok) == tok.v
Is(tok, x) == tok.k = "p" /\ tok.v = x
BasicNames == BasicKinds
At(ts, p) == IF p <= Len(ts) THEN ts[p] ELSE P("EOF")
RECURSIVE PType(_, _), PList(_, _, _), PFields(_, _, _), PMeths(_, _, _), PArgs(_, _, _), PSig(_, _)
\* type arguments up to "]"
PArgs(ts, p, acc) ==
  LET r == PType(ts, p) IN
  IF Is(At(ts, r.p), ",") THEN PArgs(ts, r.p + 1, Append(acc, r.t)) ELSE [l |-> Append(acc, r.t), p |-> r.p + 1]
StartsType(tok) == IsId(tok) \/ (tok.k = "p" /\ tok.v \in {"*", "[", "map", "chan", "<-", "func", "struct", "interface", "("})
\* comma separated types up to ")" ; returns [l |-> Seq(term), va |-> BOOLEAN, p]
PList(ts, p, acc) ==
  IF Is(At(ts, p), ")") THEN [l |-> acc, va |-> FALSE, p |-> p]
  ELSE IF Is(At(ts, p), "...") THEN LET r == PType(ts, p + 1) IN [l |-> Append(acc, Slice(r.t)), va |-> TRUE, p |-> r.p]
  ELSE LET r == PType(ts, p) IN
       IF Is(At(ts, r.p), ",") THEN PList(ts, r.p + 1, Append(acc, r.t)) ELSE [l |-> Append(acc, r.t), va |-> FALSE, p |-> r.p]
PFields(ts, p, acc) ==
  IF Is(At(ts, p), "}") THEN [l |-> acc, p |-> p + 1]
  ELSE IF Is(At(ts, p), ";") THEN PFields(ts, p + 1, acc)
  ELSE \* an identifier followed by a type start is a field name; otherwise the type itself is an embedded field
       LET named == IsId(At(ts, p)) /\ StartsType(At(ts, p + 1)) /\ ~Is(At(ts, p + 1), ".")   \* "id . id" is a qualified embedded type
           r == IF named THEN PType(ts, p + 1) ELSE PType(ts, p)
           hasTag == At(ts, r.p).k = "tag"
           tag == IF hasTag THEN At(ts, r.p).v ELSE ""
           nm == IF named THEN IdOf(At(ts, p)) ELSE "" IN
       PFields(ts, IF hasTag THEN r.p + 1 ELSE r.p, Append(acc, [n |-> nm, emb |-> ~named, t |-> r.t, tag |-> tag]))
PMeths(ts, p, acc) ==
  IF Is(At(ts, p), "}") THEN [l |-> acc, p |-> p + 1]
  ELSE IF Is(At(ts, p), ";") THEN PMeths(ts, p + 1, acc)
  ELSE IF IsId(At(ts, p)) /\ Is(At(ts, p + 1), "(") THEN LET r == PSig(ts, p + 1) IN PMeths(ts, r.p, Append(acc, [n |-> IdOf(At(ts, p)), emb |-> FALSE, t |-> r.t]))
  ELSE LET r == PType(ts, p) IN PMeths(ts, r.p, Append(acc, [n |-> "", emb |-> TRUE, t |-> r.t]))
\* a signature from its "(": parameters, then no result, one result type or a parenthesised result list
PSig(ts, p) ==
  LET ps == PList(ts, p + 1, <<>>)
      q == ps.p + 1                                    \* after ")"
  IN IF Is(At(ts, q), "(") THEN LET rs == PList(ts, q + 1, <<>>) IN [t |-> Func(ps.l, rs.l, ps.va), p |-> rs.p + 1]
     ELSE IF StartsType(At(ts, q)) THEN LET r == PType(ts, q) IN [t |-> Func(ps.l, <<r.t>>, ps.va), p |-> r.p]
     ELSE [t |-> Func(ps.l, <<>>, ps.va), p |-> q]
PType(ts, p) ==
  LET tok == At(ts, p) IN
  CASE Is(tok, "(") -> LET r == PType(ts, p + 1) IN [t |-> r.t, p |-> r.p + 1]
    [] Is(tok, "*") -> LET r == PType(ts, p + 1) IN [t |-> Ptr(r.t), p |-> r.p]
    [] Is(tok, "[") -> IF Is(At(ts, p + 1), "]") THEN LET r == PType(ts, p + 2) IN [t |-> Slice(r.t), p |-> r.p]
                    ELSE LET r == PType(ts, p + 3)
                             n == At(ts, p + 1) IN
                         [t |-> Array(n.v, r.t), p |-> r.p]
    [] Is(tok, "map") -> LET k == PType(ts, p + 2)  e == PType(ts, k.p + 1) IN [t |-> Map(k.t, e.t), p |-> e.p]
    [] Is(tok, "chan") -> IF Is(At(ts, p + 1), "<-") THEN LET r == PType(ts, p + 2) IN [t |-> Chan("send", r.t), p |-> r.p]
                       ELSE LET r == PType(ts, p + 1) IN [t |-> Chan("both", r.t), p |-> r.p]
    [] Is(tok, "<-") -> LET r == PType(ts, p + 2) IN [t |-> Chan("recv", r.t), p |-> r.p]      \* "<-" "chan" T
    [] Is(tok, "func") -> PSig(ts, p + 1)
    [] Is(tok, "struct") -> LET r == PFields(ts, p + 2, <<>>) IN [t |-> [k |-> "struct", fs |-> r.l], p |-> r.p]
    [] Is(tok, "interface") -> LET r == PMeths(ts, p + 2, <<>>) IN [t |-> [k |-> "iface", ms |-> r.l], p |-> r.p]
    [] IsId(tok) ->
         \* a type name followed by "[" is an instantiation (a field name followed by "[" is consumed by PFields before)
         IF Is(At(ts, p + 1), ".") THEN
              (IF Is(At(ts, p + 3), "[") THEN LET a == PArgs(ts, p + 4, <<>>) IN [t |-> [k |-> "inst", pkg |-> IdOf(tok), n |-> IdOf(At(ts, p + 2)), args |-> a.l], p |-> a.p]
               ELSE [t |-> [k |-> "qual", pkg |-> IdOf(tok), n |-> IdOf(At(ts, p + 2))], p |-> p + 3])
         ELSE IF IdOf(tok) \in BasicNames THEN [t |-> B(IdOf(tok)), p |-> p + 1]
         ELSE IF Is(At(ts, p + 1), "[") THEN LET a == PArgs(ts, p + 2, <<>>) IN [t |-> [k |-> "inst", pkg |-> "", n |-> IdOf(tok), args |-> a.l], p |-> a.p]
         ELSE [t |-> [k |-> "named", n |-> IdOf(tok)], p |-> p + 1]
    [] OTHER -> [t |-> [k |-> "error", at |-> p], p |-> p + 1]
Parse(ts) == LET r == PType(ts, 1) IN IF r.p = Len(ts) + 1 THEN r.t ELSE [k |-> "error", at |-> r.p]

(* ---------- the enumerated grammar ---------- *)
Q(pkg, n) == [k |-> "qual", pkg |-> pkg, n |-> n]
N(n) == [k |-> "named", n |-> n]
F(n, t, tag) == [n |-> n, emb |-> FALSE, t |-> t, tag |-> tag]
E(t) == [n |-> "", emb |-> TRUE, t |-> t, tag |-> ""]
M(n) == [n |-> n, emb |-> FALSE, t |-> Func(<<>>, <<>>, FALSE)]
MS(n, f) == [n |-> n, emb |-> FALSE, t |-> f]
EI(t) == [n |-> "", emb |-> TRUE, t |-> t]
Tags == {"", "k:v", "back`quote", "cr\rlf", "line\nfeed"}
LeafSet == IF Leaves = "small" THEN {B("int"), Chan("recv", B("int")), N("MyInt"), Q("ax", "T")}
           ELSE {B("int"), B("string"), B("uint8"), B("unsafeptr"), N("MyInt"), N("MyStruct"), N("MyIface"), N("error"), Q("ax", "T"), Q("bx", "T"), Q("ax", "I"),
                 Chan("recv", B("int")), Func(<<>>, <<>>, FALSE),
                 [k |-> "struct", fs |-> <<>>], [k |-> "iface", ms |-> <<>>]}
Apply(c, x, y) ==
  CASE c = "ptr" -> {Ptr(x)} [] c = "slice" -> {Slice(x)} [] c = "array" -> {Array(2, x)}
    [] c = "map" -> {Map(B("string"), x), Map(y, x)}
    [] c = "chan" -> {Chan("both", x), Chan("send", x), Chan("recv", x)}
    [] c = "func" -> {Func(<<x>>, <<>>, FALSE), Func(<<>>, <<x>>, FALSE), Func(<<x, y>>, <<x, y>>, FALSE), Func(<<y, Slice(x)>>, <<x>>, TRUE),
                      Func(<<>>, <<Func(<<>>, <<x>>, FALSE)>>, FALSE)}
    [] c = "struct" -> {[k |-> "struct", fs |-> <<F("A", x, "")>>], [k |-> "struct", fs |-> <<F("A", x, "k:v"), F("B", y, "")>>]}
                       \cup {[k |-> "struct", fs |-> <<F("A", x, tg)>>] : tg \in Tags}
                       \cup (IF x.k \in {"named", "qual"} THEN {[k |-> "struct", fs |-> <<E(x), F("B", y, "")>>]} ELSE {})
                       \cup (IF x.k \in {"named", "qual"} /\ x.n \notin {"MyIface", "I", "error"} THEN {[k |-> "struct", fs |-> <<E(Ptr(x))>>]} ELSE {})  \* no embedded pointer to an interface
    [] c = "inst" -> {[k |-> "inst", pkg |-> "", n |-> "G", args |-> <<x>>], [k |-> "inst", pkg |-> "ax", n |-> "G", args |-> <<x>>],
                      [k |-> "inst", pkg |-> "", n |-> "P2", args |-> <<y, x>>]}
    [] c = "iface" -> IF x.k \in {"named", "qual"} /\ x.n \in {"MyIface", "I", "error"}
                      THEN {[k |-> "iface", ms |-> <<EI(x), M("Zed")>>], [k |-> "iface", ms |-> <<M("Alpha"), EI(x)>>]}
                      ELSE {[k |-> "iface", ms |-> <<M("Alpha"), M("Beta")>>],
                            [k |-> "iface", ms |-> <<MS("Printf", Func(<<y, Slice(x)>>, <<>>, TRUE))>>],                 \* Printf(y, ...x)
                            [k |-> "iface", ms |-> <<MS("Get", Func(<<x>>, <<y, x>>, FALSE)), M("Zed")>>]}
    [] OTHER -> {}
RECURSIVE Terms(_)
Terms(d) == IF d = 0 THEN LeafSet
            ELSE LET sub == Terms(d - 1) IN sub \cup UNION {Apply(c, x, y) : c \in Ctors, x \in sub, y \in {B("int"), N("MyInt")}}
VARIABLE term
Init == term \in Terms(Depth)
Next == UNCHANGED term
RoundTrip == Parse(Tokens(term)) = term
Emit == PrintT(ToJson([t |-> term, toks |-> Tokens(term)]))
=============================================================================
