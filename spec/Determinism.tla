---------------------------- MODULE Determinism ----------------------------
(* Output is a deterministic function of the operation sequence (property C15).

   The builder keeps several *unordered* collections (Go maps) that are walked when a
   file is written: the per-file import table, the file table, the overload tables built
   while a package is imported, the set of extension-package dependencies reachable from
   exported signatures, the force-imported (blank) packages of a file, and the imports that
   share a base name (whose aliases are allocated lazily, per file, when a file is first
   rendered - in whatever order the file table is walked).  A walk over a map has no defined order, so the model lets every
   walk choose ANY permutation; two copies of the writer run on the same program with
   independent choices (self-composition) and must produce the same bytes.  A walk whose
   result is sorted before it is used is harmless; an unsorted one is a violation as soon
   as the collection has two elements.  Sorted[c] says what the implementation does for
   collection c (the extension-dependency list was unsorted in the pinned tree).

   A program is the vector of collection sizes; TLC enumerates all programs of the bound,
   checks OutputIndependentOfOrder and prints each program; the harness builds a real
   package with exactly those collection sizes 25 times in one process (Go randomises
   map iteration per loop) and in two fresh processes and compares every file byte for byte. *)
EXTENDS Integers, Sequences, FiniteSets, TLC, Json
CONSTANTS MaxItems, MaxMix, Sorted   \* Sorted: [Collections -> {"total", "bykey", "none"}]; MaxMix: collections with items per program
\* xgosame: extension dependencies that share their package name (v1/xt, v2/xt: different paths) - a walk sorted by a key on
\*          which items tie ("bykey": the package name) is as unordered as an unsorted one
\* ovref:   explicit overload families (XGoo_ constants) that list another family: the members of a family depend on which
\*          families were registered before it, so the registration walk must have a fixed order
Collections == {"imports", "files", "overloads", "xgodeps", "forced", "samebase", "xgosame", "ovref"}
TieOnKey == {"xgosame"}
VARIABLES size, perm1, perm2
vars == <<size, perm1, perm2>>
Perms(n) == {p \in [1..n -> 1..n] : \A i, j \in 1..n : i # j => p[i] # p[j]}
Ascending(p) == [i \in DOMAIN p |-> i]
\* what a writer emits for collection c given the permutation its walk happened to take
Emitted(c, p) == IF Sorted[c] = "total" \/ (Sorted[c] = "bykey" /\ c \notin TieOnKey) THEN Ascending(p) ELSE p
\* the first copy walks every collection in ascending order (without loss of generality: any two walks differ iff
\* one of them differs from the ascending one), the second copy's walks are free
PermRec(sz) == [imports : Perms(sz["imports"]), files : Perms(sz["files"]), overloads : Perms(sz["overloads"]), xgodeps : Perms(sz["xgodeps"]),
                forced : Perms(sz["forced"]), samebase : Perms(sz["samebase"]), xgosame : Perms(sz["xgosame"]), ovref : Perms(sz["ovref"])]
Init == /\ size \in {sz \in [Collections -> 0..MaxItems] : Cardinality({c \in Collections : sz[c] > 0}) <= MaxMix}
        /\ perm1 = [c \in Collections |-> [i \in 1..size[c] |-> i]]
        /\ perm2 \in PermRec(size)
Next == UNCHANGED vars
Out(perm) == [c \in Collections |-> Emitted(c, perm[c])]
OutputIndependentOfOrder == Out(perm1) = Out(perm2)
\* programs (size vectors) only
Emit == (\A c \in Collections : perm2[c] = Ascending(perm2[c])) => PrintT(ToJson(size))
=============================================================================
