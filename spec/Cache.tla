------------------------------ MODULE Cache ------------------------------
(* The export-data cache of goplus/gogen (packages/cache), property C20.

   The specification is shaped like the implementation: one action per step that
   Impl.Find / Impl.Prepare / Impl.Load / Impl.Save take and at which they observe
   or change something another party can see:

     FindLoad      val, ok := cache.Load(pkgPath)
     DirtyInvalid  pkg.hash == HashInvalid          (short-circuit: h is not called)
     DirtySelf     h(pkgPath, true) != pkg.hash
     DirtyDep      h(dep.path, false) != dep.hash   (one step per recorded dependency)
     DirtyOpen     os.Open(pkg.expfile)
     PrepCount     nlist++                          (before the listing is started: separately observable)
     PrepList      `go list -export`                (ok / fails / malformed output)
     PrepHashSelf  h(v.path, true)
     PrepHashDep   h(dep, false)                    (HashSkip results are not recorded)
     PrepStore     cache.Store
     Reload        cache.Load again; os.Open; return
     Return

   The environment is explicit: fp (what the fingerprint function reports now),
   onDisk (export files that exist), listMode (does `go list` work), diskFile (the
   saved cache file, possibly corrupted).  An export file is identified by
   <<package, its fingerprint, fingerprints of its tracked dependencies>> at the
   time it was listed.

   The property (FreshServe): a lookup that returns data without error returns an
   export file that is justified by what the call itself observed: either every
   fingerprint recorded with the entry was seen unchanged by this call, or the
   entry was (re)listed after the call began.  NoNeedlessList: an entry whose
   fingerprints are unchanged and whose file exists is served without listing.
   CorruptionIsErrorOrHarmless: loading a damaged cache file either reports an
   error or leaves only entries that the validation on lookup handles.

   Assumption (stated in DESIGN.md): the fingerprint function and `go list` see
   one consistent snapshot during one Prepare (AtomicPrepareEnv): fingerprints do
   not change between a listing and the hash calls that label its result. *)
EXTENDS Integers, Sequences, FiniteSets, TLC, Json

CONSTANTS Pkgs,          \* package paths
          Versions,      \* fingerprints (positive integers)
          Callers,       \* concurrent callers of Find
          DepsOf,        \* [Pkgs -> Seq(Pkgs)] dependency lists `go list` reports
          SkipDeps,      \* packages for which h(p, false) = HashSkip (not tracked as dependency)
          InvalidPkgs,   \* packages for which h(p, true) = HashInvalid (never cacheable)
          StaleBug,      \* TRUE: model the defect "dirty entry + failing list => old file served with nil error"
          MaxEnv, MaxCalls, MaxDisk,
          DiskOps,       \* which persistence / damage actions are enabled: subset of {"Save","Load","Restart","Cut","Garble"}
          Mode           \* "design": every interleaving; "gated": only interleavings the harness can force
                         \* (silent steps run eagerly, environment steps only when every active caller waits at a callback)

None    == [none |-> TRUE]
Skip    == 0     \* HashSkip  ""
Invalid == -1    \* HashInvalid "?"
Garbage == -2    \* a hash read from a damaged cache file: equals no fingerprint

VARIABLES
  fp, onDisk, listMode,                 \* environment
  cache, nlist, stamp,                  \* the cache object: [Pkgs -> None \cup Entry]
  diskFile,                             \* None or [entries : Seq([pkg, e]), bad : BOOLEAN]
  pc, tgt, val, obsSelf, obsDeps, lst, hself, hdeps, perr, start, ret,   \* per caller
  loadErr,                              \* result of the last Load ("none" before any)
  envSteps, ncalls, ndisk,              \* bounds
  hist                                  \* observation only: the behaviour so far, with predictions
vars == <<fp, onDisk, listMode, cache, nlist, stamp, diskFile, pc, tgt, val, obsSelf, obsDeps, lst, hself, hdeps,
          perr, start, ret, loadErr, envSteps, ncalls, ndisk, hist>>
View == <<fp, onDisk, listMode, cache, nlist, stamp, diskFile, pc, tgt, val, obsSelf, obsDeps, lst, hself, hdeps,
          perr, start, ret, loadErr, envSteps, ncalls, ndisk>>

DepsAB    == [p \in Pkgs |-> IF p = "a" THEN <<"b">> ELSE <<>>]
DepsChain == [p \in Pkgs |-> IF p = "a" THEN <<"b", "c">> ELSE IF p = "b" THEN <<"c">> ELSE <<>>]

H(p, self) == IF self /\ p \in InvalidPkgs THEN Invalid
              ELSE IF ~self /\ p \in SkipDeps THEN Skip ELSE fp[p]
Tracked(p) == SelectSeq(DepsOf[p], LAMBDA d : d \notin SkipDeps)
\* the export file `go list` produces for p now
ExportNow(p) == <<p, fp[p], [i \in 1..Len(Tracked(p)) |-> fp[Tracked(p)[i]]]>>
Upd(f, k, v) == [f EXCEPT ![k] = v]
Log(rec) == hist' = Append(hist, rec)

Init ==
  /\ fp = [p \in Pkgs |-> 1] /\ onDisk = {} /\ listMode = "ok"
  /\ cache = [p \in Pkgs |-> None] /\ nlist = 0 /\ stamp = 0 /\ diskFile = None
  /\ pc = [k \in Callers |-> "idle"] /\ tgt = [k \in Callers |-> CHOOSE p \in Pkgs : TRUE]
  /\ val = [k \in Callers |-> None] /\ obsSelf = [k \in Callers |-> 0] /\ obsDeps = [k \in Callers |-> <<>>]
  /\ lst = [k \in Callers |-> None] /\ hself = [k \in Callers |-> 0] /\ hdeps = [k \in Callers |-> <<>>]
  /\ perr = [k \in Callers |-> FALSE] /\ start = [k \in Callers |-> 0] /\ ret = [k \in Callers |-> None]
  /\ loadErr = "none" /\ envSteps = 0 /\ ncalls = 0 /\ ndisk = 0 /\ hist = <<>>

-----------------------------------------------------------------------------
(* Which steps are silent (not observable through a callback of the harness). *)
NextSilent(k) ==
  \/ pc[k] \in {"dirtyOpen", "prepCount", "prepStore", "reload", "done"}
  \/ pc[k] = "dirtySelf" /\ val[k].hash = Invalid
  \/ pc[k] = "dirtyDeps" /\ Len(obsDeps[k]) >= Len(val[k].deps)
  \/ pc[k] = "prepHashDeps" /\ Len(hdeps[k]) >= Len(DepsOf[tgt[k]])
AnySilent == \E k \in Callers : NextSilent(k)
InPrepare(k) == pc[k] \in {"prepHashSelf", "prepHashDeps", "prepStore"}
EnvAllowed == /\ envSteps < MaxEnv
              /\ \A k \in Callers : ~InPrepare(k)          \* AtomicPrepareEnv
              /\ (Mode = "gated" => ~AnySilent)
\* in gated mode a non-silent step of caller k is taken only when no silent step is pending
Gate(k) == Mode = "gated" => ~AnySilent
CallerUnch == UNCHANGED <<fp, onDisk, listMode, diskFile, loadErr, envSteps, ndisk>>

(* ------------------------------ environment ------------------------------ *)
EnvUnch == UNCHANGED <<cache, nlist, stamp, diskFile, pc, tgt, val, obsSelf, obsDeps, lst, hself, hdeps, perr, start, ret, loadErr, ncalls, ndisk>>
ChangeFp(p) == /\ EnvAllowed /\ \E v \in Versions \ {fp[p]} : (fp' = Upd(fp, p, v) /\ Log([a |-> "ChangeFp", p |-> p, v |-> v]))
               /\ envSteps' = envSteps + 1 /\ UNCHANGED <<onDisk, listMode>> /\ EnvUnch
DeleteExport(f) == /\ EnvAllowed /\ f \in onDisk /\ onDisk' = onDisk \ {f} /\ envSteps' = envSteps + 1
                   /\ Log([a |-> "DeleteExport", f |-> f]) /\ UNCHANGED <<fp, listMode>> /\ EnvUnch
SetListMode(m) == /\ EnvAllowed /\ m # listMode /\ listMode' = m /\ envSteps' = envSteps + 1
                  /\ Log([a |-> "SetListMode", m |-> m]) /\ UNCHANGED <<fp, onDisk>> /\ EnvUnch

(* ------------------------------ Find, step by step ------------------------------ *)
FindLoad(k, p) ==
  /\ pc[k] = "idle" /\ ncalls < MaxCalls /\ Gate(k) /\ ncalls' = ncalls + 1
  /\ tgt' = Upd(tgt, k, p) /\ val' = Upd(val, k, cache[p])
  /\ obsSelf' = Upd(obsSelf, k, 0) /\ obsDeps' = Upd(obsDeps, k, <<>>) /\ lst' = Upd(lst, k, None)
  /\ hself' = Upd(hself, k, 0) /\ hdeps' = Upd(hdeps, k, <<>>) /\ perr' = Upd(perr, k, FALSE)
  /\ ret' = Upd(ret, k, None) /\ start' = Upd(start, k, stamp)
  /\ pc' = Upd(pc, k, IF cache[p] = None THEN "prepCount" ELSE "dirtySelf")
  /\ Log([a |-> "Find", k |-> k, p |-> p])
  /\ UNCHANGED <<cache, nlist, stamp>> /\ CallerUnch
DirtyInvalid(k) ==
  /\ pc[k] = "dirtySelf" /\ val[k].hash = Invalid /\ pc' = Upd(pc, k, "prepCount")
  /\ Log([a |-> "silent", k |-> k, s |-> "DirtyInvalid"])
  /\ UNCHANGED <<cache, nlist, stamp, tgt, val, obsSelf, obsDeps, lst, hself, hdeps, perr, start, ret, ncalls>> /\ CallerUnch
DirtySelf(k) ==
  /\ pc[k] = "dirtySelf" /\ val[k].hash # Invalid /\ Gate(k)
  /\ LET h == H(tgt[k], TRUE) IN
       /\ obsSelf' = Upd(obsSelf, k, h)
       /\ pc' = Upd(pc, k, IF h # val[k].hash THEN "prepCount" ELSE "dirtyDeps")
       /\ Log([a |-> "h", k |-> k, p |-> tgt[k], self |-> TRUE, r |-> h])
  /\ UNCHANGED <<cache, nlist, stamp, tgt, val, obsDeps, lst, hself, hdeps, perr, start, ret, ncalls>> /\ CallerUnch
DirtyDep(k) ==
  /\ pc[k] = "dirtyDeps" /\ Len(obsDeps[k]) < Len(val[k].deps) /\ Gate(k)
  /\ LET i == Len(obsDeps[k]) + 1  d == val[k].deps[i]  h == H(d[1], FALSE) IN
       /\ obsDeps' = Upd(obsDeps, k, Append(obsDeps[k], h))
       /\ pc' = Upd(pc, k, IF h # d[2] THEN "prepCount" ELSE "dirtyDeps")
       /\ Log([a |-> "h", k |-> k, p |-> d[1], self |-> FALSE, r |-> h])
  /\ UNCHANGED <<cache, nlist, stamp, tgt, val, obsSelf, lst, hself, hdeps, perr, start, ret, ncalls>> /\ CallerUnch
DirtyDepsDone(k) ==
  /\ pc[k] = "dirtyDeps" /\ Len(obsDeps[k]) >= Len(val[k].deps) /\ pc' = Upd(pc, k, "dirtyOpen")
  /\ Log([a |-> "silent", k |-> k, s |-> "DirtyDepsDone"])
  /\ UNCHANGED <<cache, nlist, stamp, tgt, val, obsSelf, obsDeps, lst, hself, hdeps, perr, start, ret, ncalls>> /\ CallerUnch
DirtyOpen(k) ==
  /\ pc[k] = "dirtyOpen"
  /\ IF val[k].exp \in onDisk
       THEN /\ ret' = Upd(ret, k, [file |-> val[k].exp, err |-> FALSE, stamp |-> val[k].stamp, listed |-> FALSE])
            /\ pc' = Upd(pc, k, "done")
       ELSE /\ pc' = Upd(pc, k, "prepCount") /\ UNCHANGED ret
  /\ Log([a |-> "silent", k |-> k, s |-> "DirtyOpen"])
  /\ UNCHANGED <<cache, nlist, stamp, tgt, val, obsSelf, obsDeps, lst, hself, hdeps, perr, start, ncalls>> /\ CallerUnch
PrepCount(k) ==
  /\ pc[k] = "prepCount" /\ nlist' = nlist + 1 /\ pc' = Upd(pc, k, "prepList")
  /\ Log([a |-> "silent", k |-> k, s |-> "PrepCount"])
  /\ UNCHANGED <<cache, stamp, tgt, val, obsSelf, obsDeps, lst, hself, hdeps, perr, start, ret, ncalls>> /\ CallerUnch
PrepList(k) ==
  /\ pc[k] = "prepList" /\ Gate(k) /\ UNCHANGED nlist
  /\ IF listMode = "ok"
       THEN /\ onDisk' = onDisk \cup {ExportNow(tgt[k])}
            /\ lst' = Upd(lst, k, ExportNow(tgt[k])) /\ pc' = Upd(pc, k, "prepHashSelf") /\ UNCHANGED perr
       ELSE /\ perr' = Upd(perr, k, TRUE) /\ pc' = Upd(pc, k, "reload") /\ UNCHANGED <<onDisk, lst>>
  /\ Log([a |-> "list", k |-> k, p |-> tgt[k], mode |-> listMode])
  /\ UNCHANGED <<fp, listMode, diskFile, loadErr, envSteps, ndisk, cache, stamp, tgt, val, obsSelf, obsDeps, hself, hdeps, start, ret, ncalls>>
PrepHashSelf(k) ==
  /\ pc[k] = "prepHashSelf" /\ Gate(k)
  /\ hself' = Upd(hself, k, H(tgt[k], TRUE)) /\ pc' = Upd(pc, k, "prepHashDeps")
  /\ Log([a |-> "h", k |-> k, p |-> tgt[k], self |-> TRUE, r |-> H(tgt[k], TRUE)])
  /\ UNCHANGED <<cache, nlist, stamp, tgt, val, obsSelf, obsDeps, lst, hdeps, perr, start, ret, ncalls>> /\ CallerUnch
PrepHashDep(k) ==
  /\ pc[k] = "prepHashDeps" /\ Len(hdeps[k]) < Len(DepsOf[tgt[k]]) /\ Gate(k)
  /\ LET d == DepsOf[tgt[k]][Len(hdeps[k]) + 1] IN
       /\ hdeps' = Upd(hdeps, k, Append(hdeps[k], <<d, H(d, FALSE)>>))
       /\ Log([a |-> "h", k |-> k, p |-> d, self |-> FALSE, r |-> H(d, FALSE)])
  /\ UNCHANGED <<cache, nlist, stamp, pc, tgt, val, obsSelf, obsDeps, lst, hself, perr, start, ret, ncalls>> /\ CallerUnch
PrepHashDepsDone(k) ==
  /\ pc[k] = "prepHashDeps" /\ Len(hdeps[k]) >= Len(DepsOf[tgt[k]]) /\ pc' = Upd(pc, k, "prepStore")
  /\ Log([a |-> "silent", k |-> k, s |-> "PrepHashDepsDone"])
  /\ UNCHANGED <<cache, nlist, stamp, tgt, val, obsSelf, obsDeps, lst, hself, hdeps, perr, start, ret, ncalls>> /\ CallerUnch
PrepStore(k) ==
  /\ pc[k] = "prepStore"
  /\ cache' = Upd(cache, tgt[k], [exp |-> lst[k], hash |-> hself[k],
                                   deps |-> SelectSeq(hdeps[k], LAMBDA d : d[2] # Skip), stamp |-> stamp + 1])
  /\ stamp' = stamp + 1 /\ pc' = Upd(pc, k, "reload")
  /\ Log([a |-> "silent", k |-> k, s |-> "PrepStore"])
  /\ UNCHANGED <<nlist, tgt, val, obsSelf, obsDeps, lst, hself, hdeps, perr, start, ret, ncalls>> /\ CallerUnch
Reload(k) ==
  /\ pc[k] = "reload"
  /\ LET e == cache[tgt[k]] IN
     IF perr[k] /\ ~StaleBug
       THEN ret' = Upd(ret, k, [file |-> <<>>, err |-> TRUE, stamp |-> 0, listed |-> FALSE])
       ELSE IF e # None
         THEN ret' = Upd(ret, k, [file |-> e.exp, err |-> ~(e.exp \in onDisk), stamp |-> e.stamp, listed |-> ~perr[k]])
         ELSE ret' = Upd(ret, k, [file |-> <<>>, err |-> TRUE, stamp |-> 0, listed |-> FALSE])
  /\ pc' = Upd(pc, k, "done")
  /\ Log([a |-> "silent", k |-> k, s |-> "Reload"])
  /\ UNCHANGED <<cache, nlist, stamp, tgt, val, obsSelf, obsDeps, lst, hself, hdeps, perr, start, ncalls>> /\ CallerUnch
Return(k) ==
  /\ pc[k] = "done" /\ pc' = Upd(pc, k, "idle")
  /\ Log([a |-> "Return", k |-> k, file |-> ret[k].file, err |-> ret[k].err, nlist |-> nlist])
  /\ UNCHANGED <<cache, nlist, stamp, tgt, val, obsSelf, obsDeps, lst, hself, hdeps, perr, start, ret, ncalls>> /\ CallerUnch

(* ------------------------------ persistence ------------------------------ *)
AllIdle == \A k \in Callers : pc[k] = "idle"
Stored == {p \in Pkgs : cache[p] # None}
DiskUnch == UNCHANGED <<fp, onDisk, listMode, nlist, stamp, pc, tgt, val, obsSelf, obsDeps, lst, hself, hdeps, perr, start, ret, envSteps, ncalls>>
\* Save writes every entry (in an order the implementation does not fix) unless nothing was ever listed
Save ==
  /\ AllIdle /\ ndisk < MaxDisk /\ ndisk' = ndisk + 1
  /\ IF nlist = 0 THEN UNCHANGED diskFile
     ELSE diskFile' = [entries |-> [p \in Stored |-> cache[p]], bad |-> FALSE, garbled |-> {}]
  /\ Log([a |-> "Save", wrote |-> nlist # 0,
          snap |-> [p \in Stored |-> [exp |-> cache[p].exp, hash |-> cache[p].hash, deps |-> cache[p].deps]]])
  /\ UNCHANGED <<cache, loadErr>> /\ DiskUnch
\* damage: only the entries in S survive intact (the file is cut, a malformed line follows), or
\* the recorded hashes of the entries in G are damaged in a way that still parses
CorruptCut(S) ==
  /\ AllIdle /\ ndisk < MaxDisk /\ ndisk' = ndisk + 1 /\ diskFile # None /\ ~diskFile.bad
  /\ S \subseteq DOMAIN diskFile.entries /\ S # DOMAIN diskFile.entries
  /\ diskFile' = [entries |-> [p \in S |-> diskFile.entries[p]], bad |-> TRUE, garbled |-> diskFile.garbled \cap S]
  /\ Log([a |-> "CorruptCut", keep |-> S]) /\ UNCHANGED <<cache, loadErr>> /\ DiskUnch
CorruptGarble(p, what) ==
  /\ AllIdle /\ ndisk < MaxDisk /\ ndisk' = ndisk + 1 /\ diskFile # None
  /\ p \in DOMAIN diskFile.entries /\ p \notin diskFile.garbled
  /\ (what = "dep" => Len(diskFile.entries[p].deps) > 0)
  /\ diskFile' = [diskFile EXCEPT !.garbled = @ \cup {p},
                    !.entries[p] = IF what = "self" THEN [@ EXCEPT !.hash = Garbage]
                                   ELSE [@ EXCEPT !.deps[1] = <<@[1], Garbage>>]]
  /\ Log([a |-> "CorruptGarble", p |-> p, what |-> what]) /\ UNCHANGED <<cache, loadErr>> /\ DiskUnch
\* Load stores the entries that parse, in file order, and reports an error at the first malformed line
Load ==
  /\ AllIdle /\ ndisk < MaxDisk /\ ndisk' = ndisk + 1
  /\ IF diskFile = None THEN UNCHANGED cache /\ loadErr' = "ok"
     ELSE /\ cache' = [p \in Pkgs |-> IF p \in DOMAIN diskFile.entries THEN diskFile.entries[p] ELSE cache[p]]
          /\ loadErr' = IF diskFile.bad THEN "error" ELSE "ok"
  /\ Log([a |-> "Load", err |-> (diskFile # None /\ diskFile.bad)]) /\ UNCHANGED diskFile /\ DiskUnch
\* a new process: an empty cache object (then typically Load)
Restart ==
  /\ AllIdle /\ ndisk < MaxDisk /\ ndisk' = ndisk + 1
  /\ cache' = [p \in Pkgs |-> None] /\ nlist' = 0 /\ loadErr' = "none"
  /\ Log([a |-> "Restart"])
  /\ UNCHANGED <<fp, onDisk, listMode, stamp, diskFile, pc, tgt, val, obsSelf, obsDeps, lst, hself, hdeps, perr, start, ret, envSteps, ncalls>>

Disk == /\ MaxDisk > 0 /\ (Mode = "gated" => ~AnySilent)
        /\        \/ ("Save" \in DiskOps /\ Save) \/ ("Load" \in DiskOps /\ Load) \/ ("Restart" \in DiskOps /\ Restart)
        \/ ("Cut" \in DiskOps /\ \E S \in SUBSET Pkgs : CorruptCut(S))
        \/ ("Garble" \in DiskOps /\ \E p \in Pkgs, w \in {"self", "dep"} : CorruptGarble(p, w))
Env == (\E p \in Pkgs : ChangeFp(p)) \/ (\E f \in onDisk : DeleteExport(f)) \/ (\E m \in {"ok", "fail", "malformed"} : SetListMode(m))
CallerStep(k) == \/ \E p \in Pkgs : FindLoad(k, p)
                 \/ DirtyInvalid(k) \/ DirtySelf(k) \/ DirtyDep(k) \/ DirtyDepsDone(k) \/ DirtyOpen(k)
                 \/ PrepCount(k) \/ PrepList(k) \/ PrepHashSelf(k) \/ PrepHashDep(k) \/ PrepHashDepsDone(k) \/ PrepStore(k)
                 \/ Reload(k) \/ Return(k)
Next == Env \/ Disk \/ \E k \in Callers : CallerStep(k)
Spec == Init /\ [][Next]_vars

-----------------------------------------------------------------------------
(* Properties *)
IsFp(h) == h \in Versions
\* an entry produced by a listing is internally consistent: the file it names was built from the fingerprints it records
EntryConsistent ==
  \A p \in Pkgs : (cache[p] # None /\ IsFp(cache[p].hash) /\ \A i \in 1..Len(cache[p].deps) : IsFp(cache[p].deps[i][2])) =>
     /\ cache[p].exp[1] = p /\ cache[p].exp[2] = cache[p].hash
     /\ Len(cache[p].deps) = Len(cache[p].exp[3])
     /\ \A i \in 1..Len(cache[p].deps) : cache[p].deps[i][2] = cache[p].exp[3][i]
Justified(k) ==
  LET r == ret[k] IN
  (r # None /\ ~r.err) =>
     \/ r.stamp > start[k]                         \* (re)listed after this call began (by it or a concurrent caller)
     \/ /\ val[k] # None /\ r.file = val[k].exp
        /\ obsSelf[k] = val[k].hash
        /\ Len(obsDeps[k]) = Len(val[k].deps)
        /\ \A i \in 1..Len(obsDeps[k]) : obsDeps[k][i] = val[k].deps[i][2]
FreshServe == \A k \in Callers : pc[k] = "done" => Justified(k)
\* a served file names the target package and exists (it was opened)
ServedIsTarget == \A k \in Callers : (pc[k] = "done" /\ ~ret[k].err) => ret[k].file[1] = tgt[k]
\* a failed listing never yields data
ListFailureIsError == \A k \in Callers : (pc[k] = "done" /\ perr[k]) => ret[k].err
\* an unchanged entry is served without listing (action property)
NoNeedlessList ==
  [][\A k \in Callers : (pc[k] = "dirtyOpen" /\ pc'[k] = "done") => nlist' = nlist]_vars
\* damaged hashes never justify a serve: an entry with a Garbage hash is always found dirty
GarbageNeverServed ==
  \A k \in Callers : (pc[k] = "done" /\ ~ret[k].err /\ val[k] # None /\ ~(ret[k].stamp > start[k])) =>
      (IsFp(val[k].hash) /\ \A i \in 1..Len(val[k].deps) : IsFp(val[k].deps[i][2]))
TypeOK == /\ nlist \in 0..(MaxCalls + 1) /\ stamp \in 0..(MaxCalls + 1)
          /\ \A k \in Callers : pc[k] \in {"idle", "dirtySelf", "dirtyDeps", "dirtyOpen", "prepCount", "prepList", "prepHashSelf", "prepHashDeps", "prepStore", "reload", "done"}

(* Generators *)
Quiescent == \A k \in Callers : pc[k] = "idle"
\* simulation: print the behaviour whenever all calls are used up and every caller is idle
EmitDone == (Quiescent /\ ncalls = MaxCalls) => PrintT(ToJson(hist))
\* one line per transition of the reduced graph: shortest history to the source + the step
EmitEdge == [][Len(hist') > Len(hist) => PrintT(ToJson([pre |-> hist, step |-> hist'[Len(hist')]]))]_vars
=============================================================================
