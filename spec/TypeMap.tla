---------------------------- MODULE TypeMap ----------------------------
(* The type-keyed map (typeutil.Map) of goplus/gogen, property C19.

   Concrete state, shaped like the implementation (typeutil/map.go):
     table  : hash value -> bucket, a sequence of entries; a deleted entry is a
              Hole (tombstone) that is never compacted away, Set re-uses the LAST
              hole it passed while scanning the whole bucket;
     length : the entry counter kept by Set/Delete.
   Abstract state (what the property talks about):
     m      : identity class -> value or NoVal  (the reference association list
              under types.Identical).

   Keys are drawn from a *shape*: a finite set of key objects, each with an identity
   class (types.Identical) and a hash value, such that identical keys hash equally
   (the ASSUME; the harness binds it to the real hasher on real types) while
   different classes MAY collide.  Shape is substituted by the configuration.

   Two uses:
     - design check: the refinement invariants below, exhaustively (VIEW hides
       the observation variables);
     - generator: every transition of the reduced graph is printed as
       (shortest history to its source state, the step with all predicted
       observations) and replayed on the real map by the harness ("one
       implementation test per transition").
   Sabotage in {"none","StopAtFirstHole","IgnoreTombstone","NoLenDec"} makes the
   model wrong on purpose; TLC must then refute an invariant (vacuity guard). *)
EXTENDS Integers, Sequences, FiniteSets, TLC, Json

CONSTANTS Shape,      \* [class : [Keys -> STRING], hash : [Keys -> Nat]]
          Vals,       \* values stored
          Sabotage,   \* "none" for the real design
          MaxHist,    \* bound on the history length in the depth-exhaustive generator (0 = unbounded, use with VIEW)
          KeepHist    \* FALSE in trace validation (the history is the trace itself)

Keys    == DOMAIN Shape.class
ClassOf == Shape.class
HashOf  == Shape.hash
ASSUME HashRespectsIdentity == \A a, b \in Keys : ClassOf[a] = ClassOf[b] => HashOf[a] = HashOf[b]

Classes == {ClassOf[k] : k \in Keys}
Hashes  == {HashOf[k] : k \in Keys}
Hole    == [hole |-> TRUE]
NoVal   == "none"

VARIABLES table, length, m,   \* the machine
          hist, last          \* observation only: steps so far, last step with predictions
vars == <<table, length, m, hist, last>>
View == <<table, length, m>>

ShapeCollide ==      \* 3 classes, 2 hash values: class B collides with class A
  [class |-> [a1 |-> "A", a2 |-> "A", b1 |-> "B", c1 |-> "C", c2 |-> "C"],
   hash  |-> [a1 |-> 1,   a2 |-> 1,   b1 |-> 1,   c1 |-> 2,   c2 |-> 2]]
ShapeDistinct ==     \* 3 classes, 3 hash values
  [class |-> [a1 |-> "A", a2 |-> "A", b1 |-> "B", c1 |-> "C", c2 |-> "C"],
   hash  |-> [a1 |-> 1,   a2 |-> 1,   b1 |-> 3,   c1 |-> 2,   c2 |-> 2]]
ShapeAllCollide ==   \* 3 classes in ONE bucket (holes in the middle of a bucket)
  [class |-> [a1 |-> "A", a2 |-> "A", b1 |-> "B", c1 |-> "C", c2 |-> "C"],
   hash  |-> [a1 |-> 1,   a2 |-> 1,   b1 |-> 1,   c1 |-> 1,   c2 |-> 1]]
ShapeBig ==          \* thorough: 7 keys, 4 classes, 2 buckets
  [class |-> [a1 |-> "A", a2 |-> "A", b1 |-> "B", b2 |-> "B", c1 |-> "C", c2 |-> "C", d1 |-> "D"],
   hash  |-> [a1 |-> 1,   a2 |-> 1,   b1 |-> 1,   b2 |-> 1,   c1 |-> 2,   c2 |-> 2,   d1 |-> 2]]

Init == /\ table = [h \in Hashes |-> <<>>] /\ length = 0 /\ m = [c \in Classes |-> NoVal]
        /\ hist = <<>> /\ last = [op |-> "init"]

Ident(k, e) == e # Hole /\ ClassOf[k] = ClassOf[e.key]
\* index of the first entry identical to k in bucket b, or 0
Find(b, k) == IF \E i \in 1..Len(b) : Ident(k, b[i])
              THEN CHOOSE i \in 1..Len(b) : Ident(k, b[i]) /\ \A j \in 1..(i-1) : ~Ident(k, b[j]) ELSE 0
LastHole(b)  == IF \E i \in 1..Len(b) : b[i] = Hole
                THEN CHOOSE i \in 1..Len(b) : b[i] = Hole /\ \A j \in (i+1)..Len(b) : b[j] # Hole ELSE 0
FirstHole(b) == IF \E i \in 1..Len(b) : b[i] = Hole
                THEN CHOOSE i \in 1..Len(b) : b[i] = Hole /\ \A j \in 1..(i-1) : b[j] # Hole ELSE 0

AtIn(tbl, k) ==
  LET b == tbl[HashOf[k]]
      i == IF Sabotage = "IgnoreTombstone"
             THEN (IF \E j \in 1..Len(b) : b[j] # Hole THEN 1 ELSE 0)      \* wrong on purpose
             ELSE Find(b, k)
  IN IF i = 0 THEN NoVal ELSE IF b[i] = Hole THEN NoVal ELSE b[i].value
LiveIn(tbl, h) == {i \in 1..Len(tbl[h]) : tbl[h][i] # Hole}
LiveClassesIn(tbl) == UNION {{ClassOf[tbl[h][i].key] : i \in LiveIn(tbl, h)} : h \in Hashes}
\* everything the public API lets a client observe after a step
Obs(tbl, len) == [len |-> len, at |-> [k \in Keys |-> AtIn(tbl, k)], keys |-> LiveClassesIn(tbl)]

Record(step) == /\ last' = step
                /\ hist' = IF KeepHist THEN Append(hist, [op |-> step.op, k |-> step.k, v |-> step.v]) ELSE hist

Set(k, v) ==
  LET h == HashOf[k]  b == table[h]
      scan == IF Sabotage = "StopAtFirstHole" /\ FirstHole(b) # 0 THEN SubSeq(b, 1, FirstHole(b)) ELSE b
      i == Find(scan, k)
      hole == LastHole(scan)
      tbl2 == IF i # 0 THEN [table EXCEPT ![h][i].value = v]
              ELSE IF hole # 0 THEN [table EXCEPT ![h][hole] = [key |-> k, value |-> v]]
              ELSE [table EXCEPT ![h] = Append(b, [key |-> k, value |-> v])]
      len2 == IF i # 0 THEN length ELSE length + 1
  IN /\ table' = tbl2 /\ length' = len2
     /\ m' = [m EXCEPT ![ClassOf[k]] = v]
     /\ Record([op |-> "Set", k |-> k, v |-> v, ret |-> IF i # 0 THEN b[i].value ELSE NoVal, obs |-> Obs(tbl2, len2)])

Delete(k) ==
  LET h == HashOf[k]  b == table[h]  i == Find(b, k)
      tbl2 == IF i # 0 THEN [table EXCEPT ![h][i] = Hole] ELSE table
      len2 == IF i # 0 /\ Sabotage # "NoLenDec" THEN length - 1 ELSE length
  IN /\ table' = tbl2 /\ length' = len2
     /\ m' = [m EXCEPT ![ClassOf[k]] = NoVal]
     /\ Record([op |-> "Delete", k |-> k, v |-> NoVal, ret |-> IF i # 0 THEN "true" ELSE "false", obs |-> Obs(tbl2, len2)])

Next == /\ (MaxHist = 0 \/ Len(hist) < MaxHist)
        /\ \/ \E k \in Keys, v \in Vals : Set(k, v)
           \/ \E k \in Keys : Delete(k)
Spec == Init /\ [][Next]_vars

-------------------------------------------------------------------------
(* The property: the table refines a map over identity classes. *)
AbsOK   == \A k \in Keys : AtIn(table, k) = m[ClassOf[k]]
LenOK   == length = Cardinality({c \in Classes : m[c] # NoVal})
NoDup   == \A h \in Hashes : \A i, j \in LiveIn(table, h) : i # j => ClassOf[table[h][i].key] # ClassOf[table[h][j].key]
KeysOK  == LiveClassesIn(table) = {c \in Classes : m[c] # NoVal}
InBucket == \A h \in Hashes : \A i \in LiveIn(table, h) : HashOf[table[h][i].key] = h
\* tombstones are bounded: a bucket never grows beyond the number of classes hashing to it
Bounded == \A h \in Hashes : Len(table[h]) <= Cardinality({ClassOf[k] : k \in {x \in Keys : HashOf[x] = h}})
\* the last step's predicted observations are those of the abstract map
ObsOK   == last.op # "init" =>
             /\ last.obs.len = Cardinality({c \in Classes : m[c] # NoVal})
             /\ \A k \in Keys : last.obs.at[k] = m[ClassOf[k]]
             /\ last.obs.keys = {c \in Classes : m[c] # NoVal}

(* Generators. *)
\* one line per transition of the reduced graph: history of the source state + the step
EmitEdge == [][PrintT(ToJson([pre |-> hist, step |-> last']))]_vars
=========================================================================
