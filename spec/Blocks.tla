------------------------------- MODULE Blocks -------------------------------
(* The frame discipline of the CodeBuilder (property C16), at the grain of its two internal entry points:
   every construct - function body, closure, block, if / else, for, range, switch and its clauses, type switch,
   select - is opened by startBlockStmt and closed by endBlockStmt.  This is the projection of Builder.tla's
   frames onto what can be recorded from *any* execution without knowing the public operation that caused it:

     Open(kind)    a frame is pushed; its base is the operand-stack length at that moment, its scope is a new
                   scope whose depth is one more than the scope depth before
     Close         only the innermost frame can be closed, and at that moment the stack is back at the frame's
                   base (Balanced: no operand left behind or taken away)
     Closed        after the end the enclosing frame is current again: stack length = the base of the closed
                   frame, scope depth = the depth before it was opened (EndRestores)

   TLC checks the discipline on the generative model below (Next over abstract kinds and stack movements inside a
   frame) - WellNested, BaseMonotone - and, through BlockTrace, on executions recorded from the repository's own
   test suite built with -tags verif. *)
EXTENDS Integers, Sequences, TLC
CONSTANTS Kinds, MaxDepth, MaxLen
VARIABLES frames, len, depth
vars == <<frames, len, depth>>
Top == frames[Len(frames)]
Init == frames = <<>> /\ len = 0 /\ depth = 0
OpenK(k) == /\ Len(frames) < MaxDepth
            /\ frames' = Append(frames, [kind |-> k, base |-> len, depth |-> depth + 1, olddepth |-> depth])
            /\ depth' = depth + 1 /\ UNCHANGED len
Push == len < MaxLen /\ len' = len + 1 /\ UNCHANGED <<frames, depth>>
Pop == Len(frames) > 0 /\ len > Top.base /\ len' = len - 1 /\ UNCHANGED <<frames, depth>>
CloseTop == /\ Len(frames) > 0 /\ len = Top.base
            /\ frames' = SubSeq(frames, 1, Len(frames) - 1) /\ depth' = Top.olddepth /\ UNCHANGED len
Next == (\E k \in Kinds : OpenK(k)) \/ Push \/ Pop \/ CloseTop
Spec == Init /\ [][Next]_vars
WellNested == \A i \in 2..Len(frames) : frames[i].depth = frames[i].olddepth + 1 /\ frames[i].olddepth = frames[i - 1].depth
BaseMonotone == \A i \in 1..Len(frames) : frames[i].base <= len /\ (i > 1 => frames[i - 1].base <= frames[i].base)
=============================================================================
