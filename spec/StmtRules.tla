------------------------------- MODULE StmtRules -------------------------------
(* Typing rules of statement heads (properties C01 / C02: "statement condition / case / range / type-switch checks").

   The Go specification's demands on the operands of statements, as predicates over a small closed universe:

     cond      if x { } / for x { }          x is of boolean type (typed, defined or untyped)
     switch    switch [tag] { case a, b: }   tagless: every case is comparable with true (boolean or interface); tagged: every case is comparable with the tag
                                              (mutually assignable after the usual conversion of untyped constants); no two
                                              constant cases are equal (duplicate case)
     range     for [k[, v]] := range x       x is a slice, array, pointer to array, string, map (up to two variables), a channel
                                              that can be received from, an integer or an iterator function (up to as many
                                              variables as it yields)
     tswitch   switch x.(type) { case T, U: } x is of interface type; a concrete case type implements it; no duplicates
     assert    x.(T), v, ok := x.(T)          x is of interface type; a concrete T implements it (a method with a pointer receiver
                                              or another signature does not count)
     send      ch <- v                        ch can be sent to; v is assignable to its element type
     incdec    x++                            x is numeric

   Every point yields accept or reject with a reason; go/types on the same statement validates the model on every
   point; the harness builds the statement with the real CodeBuilder (C01: accepted although Go rejects; C02: rejected
   although valid). *)
EXTENDS Integers, Sequences, FiniteSets, TLC, Json

(* ---- operands: [src, cls, ty, cv]  cls in var | const | nil ---- *)
O(src, cls, ty, cv) == [src |-> src, cls |-> cls, ty |-> ty, cv |-> cv]
vb == O("vb", "var", "bool", 0)
vmb == O("vmb", "var", "MyBool", 0)
vi == O("vi", "var", "int", 0)
vs == O("vs", "var", "string", 0)
vmy == O("vmy", "var", "MyInt", 0)
vf == O("vf", "var", "float64", 0)
va == O("va", "var", "any", 0)
ctrue == O("true", "const", "utbool", 1)
c1 == O("1", "const", "utint", 1)
c2 == O("2", "const", "utint", 2)
c1f == O("1.0", "const", "utfloat", 1)
cf == O("1.5", "const", "utfloat", 15)
cs == O("\"s\"", "const", "utstring", 7)
nil == O("nil", "nil", "utnil", 0)
cmp == O("vi == 1", "var", "utbool", 0)        \* a comparison: untyped boolean, not constant
Under(t) == CASE t = "MyInt" -> "int" [] t = "MyBool" -> "bool" [] OTHER -> t
IsBoolean(o) == Under(o.ty) \in {"bool", "utbool"}
IsNumericT(t) == Under(t) \in {"int", "float64"}

(* ---- cond ---- *)
Cond(x) == IsBoolean(x)

(* ---- expression switch ---- *)
\* an untyped constant converted to type t: representable?
Repr(o, t) == CASE o.ty = "utint" -> IsNumericT(t)
                [] o.ty = "utfloat" -> Under(t) = "float64" \/ (Under(t) = "int" /\ o.src = "1.0")
                [] o.ty = "utstring" -> Under(t) = "string"
                [] o.ty = "utbool" -> Under(t) = "bool"
                [] OTHER -> FALSE
\* can a case value be compared with a tag of (typed) type t?
CaseOK(o, t) ==
  CASE o.cls = "nil" -> t = "any"
    [] o.cls = "const" -> t = "any" \/ Repr(o, t)
    [] OTHER -> \/ ((o.ty = t \/ t = "any" \/ o.ty = "any") /\ o.ty # "utbool")
                \/ (o.ty = "utbool" /\ (Under(t) = "bool" \/ t = "any"))
\* equal constant cases: same value once both are converted to the tag type (for an interface tag: also the same default type)
\* (boolean constants are not checked for duplicates: go/types compares integer, float and string values only)
SameCase(a, b, t) == /\ a.cls = "const" /\ b.cls = "const" /\ a.ty # "utbool" /\ b.ty # "utbool"
                     /\ IF t = "any" THEN a.ty = b.ty /\ a.cv = b.cv
                        ELSE \/ (a.ty \in {"utint", "utfloat"} /\ b.ty \in {"utint", "utfloat"} /\ ((a.src = "1.0" /\ b.src = "1") \/ (a.src = "1" /\ b.src = "1.0") \/ a.src = b.src))
                             \/ (a.ty = b.ty /\ a.cv = b.cv)
Switch(tag, cases) ==
  IF tag.cls = "none"
    THEN (IF \E i \in 1..Len(cases) : ~IsBoolean(cases[i]) /\ cases[i].ty # "any" THEN "case" ELSE "ok")     \* switch { case x } compares true == x
    ELSE IF \E i \in 1..Len(cases) : ~CaseOK(cases[i], tag.ty) THEN "case"
    ELSE IF \E i, j \in 1..Len(cases) : i < j /\ SameCase(cases[i], cases[j], tag.ty) THEN "dup"
    ELSE "ok"
NoTag == O("", "none", "", 0)

(* ---- range ---- *)
R(src, kind, maxvars) == [src |-> src, kind |-> kind, maxvars |-> maxvars]
Rangeables == {R("vsl", "slice", 2), R("varr", "array", 2), R("vparr", "ptrarray", 2), R("vs", "string", 2), R("vm", "map", 2), R("vch", "chan", 1),
               R("vrch", "recvchan", 1), R("vsch", "sendchan", -1), R("vi", "int", 1), R("5", "constint", 1), R("vb", "bool", -1), R("vS", "struct", -1),
               R("vpsl", "ptrslice", -1), R("vit1", "iter1", 1), R("vit2", "iter2", 2), R("vf", "float", -1)}
Range(x, nvars) == IF x.maxvars < 0 THEN "notrangeable" ELSE IF nvars > x.maxvars THEN "toomanyvars" ELSE "ok"

(* ---- type switch ---- *)
\* operand interfaces: any, error, Stringer; case types: int, string, error (interface), MyErr (has Error()), S (has String()), SE (has both),
\* PE (Error() on the pointer receiver: *PE implements error, PE does not), WE (Error(int) string: the wrong signature)
CaseTypes == {"int", "string", "error", "MyErr", "S", "SE", "Stringer", "PE", "*PE", "WE"}
Implements(t, iface) == CASE iface = "any" -> TRUE
                          [] iface = "error" -> t \in {"error", "MyErr", "SE", "*PE"}
                          [] iface = "Stringer" -> t \in {"S", "SE", "Stringer"}
                          [] OTHER -> FALSE
IsIfaceT(t) == t \in {"any", "error", "Stringer"}
TSwitch(x, cts) ==
  IF ~IsIfaceT(x.ty) THEN "notinterface"
  ELSE IF \E i \in 1..Len(cts) : ~IsIfaceT(cts[i]) /\ ~Implements(cts[i], x.ty) THEN "impossible"
  ELSE IF \E i, j \in 1..Len(cts) : i < j /\ cts[i] = cts[j] THEN "dup"
  ELSE "ok"
TAssert(x, t) ==
  IF ~IsIfaceT(x.ty) THEN "notinterface"
  ELSE IF ~IsIfaceT(t) /\ ~Implements(t, x.ty) THEN "impossible"
  ELSE "ok"
verr == O("verr", "var", "error", 0)
vstr == O("vstr", "var", "Stringer", 0)

(* ---- send, inc/dec ---- *)
Send(ch, v) == IF ch.kind \notin {"chan", "sendchan"} THEN "cannotsend"
               ELSE IF (v.cls = "var" /\ v.ty # "int") \/ (v.cls = "const" /\ ~Repr(v, "int")) \/ v.cls = "nil" THEN "value" ELSE "ok"
IncDec(x) == IF IsNumericT(x.ty) THEN "ok" ELSE "notnumeric"

(* ---- the grid ---- *)
RECURSIVE SeqsUpTo(_, _)
SeqsUpTo(A, n) == IF n = 0 THEN {<<>>} ELSE LET shorter == SeqsUpTo(A, n - 1) IN shorter \cup {Append(q, x) : q \in {r \in shorter : Len(r) = n - 1}, x \in A}
CondOps == {vb, vmb, vi, vs, ctrue, c1, nil, cmp, va}
CaseOps == {c1, c2, c1f, cf, cs, ctrue, nil, vi, vs, vmy, vb, va, cmp}
Points ==
  {[kind |-> "cond", ctx |-> c, x |-> x] : c \in {"if", "for"}, x \in CondOps}
  \cup {[kind |-> "switch", tag |-> t, cases |-> cs2] : t \in {NoTag, vi, vs, vmy, vf, va, vb}, cs2 \in SeqsUpTo(CaseOps, 2) \ {<<>>}}
  \cup {[kind |-> "range", x |-> x, nvars |-> n] : x \in Rangeables, n \in 0..2}
  \cup {[kind |-> "tswitch", x |-> x, cts |-> c] : x \in {va, verr, vstr, vi}, c \in SeqsUpTo(CaseTypes, 2) \ {<<>>}}
  \cup {[kind |-> "assert", x |-> x, t |-> t, form |-> f] : x \in {va, verr, vstr, vi}, t \in CaseTypes, f \in {"single", "commaok"}}
  \cup {[kind |-> "send", ch |-> ch, v |-> v] : ch \in {x \in Rangeables : x.kind \in {"chan", "recvchan", "sendchan", "int", "slice"}}, v \in {c1, cf, cs, vi, vs, nil}}
  \cup {[kind |-> "incdec", x |-> x] : x \in {vi, vf, vs, vb, vmy}}
VARIABLE pt
Init == pt \in Points
Next == UNCHANGED pt
Res == CASE pt.kind = "cond" -> (IF Cond(pt.x) THEN "ok" ELSE "notboolean")
         [] pt.kind = "switch" -> Switch(pt.tag, pt.cases)
         [] pt.kind = "range" -> Range(pt.x, pt.nvars)
         [] pt.kind = "tswitch" -> TSwitch(pt.x, pt.cts)
         [] pt.kind = "send" -> Send(pt.ch, pt.v)
         [] pt.kind = "assert" -> TAssert(pt.x, pt.t)
         [] OTHER -> IncDec(pt.x)
\* laws: adding a case never turns a rejected switch into an accepted one; fewer loop variables never hurt
Monotone == /\ (pt.kind = "switch" /\ Len(pt.cases) = 2 /\ Res = "ok") => Switch(pt.tag, <<pt.cases[1]>>) = "ok"
            /\ (pt.kind = "range" /\ pt.nvars > 0 /\ Res = "ok") => Range(pt.x, pt.nvars - 1) = "ok"
\* a type that can be asserted is a possible type-switch case and the other way round
AssertIsCase == pt.kind = "assert" => (Res = "ok" <=> TSwitch(pt.x, <<pt.t>>) = "ok")
Emit == PrintT(ToJson([pt |-> pt, res |-> Res]))
=============================================================================
