------------------------------ MODULE Select ------------------------------
(* Go's selector rules (property C08), transcribed from the Go specification
   ("Selectors", "Struct types: promoted fields", "Method sets") as the recursive
   operator Look: breadth-first by embedding depth; at the shallowest depth at which
   the name occurs exactly one field or method must carry it (more than one: the
   selector is ambiguous, also when the same type is reached twice at that depth);
   a type already seen at a shallower depth is not revisited; promotion passes
   through embedded pointers; a pointer-receiver method needs an addressable or
   pointer operand; unexported members of another package are invisible.

   A type graph is a function from up to four struct type names (R > A > B > C by rank:
   value embedding only downwards, pointer embedding anywhere, so cycles occur only
   through pointers) to a definition [fields, meth]:
     fields : sequence of <= 2 entries, each the plain field x or an embedded T / *T
     meth   : "none" | "val" | "ptr"   a method named x with value / pointer receiver
   QT is the set of type names that live in another package (their member x is not
   visible from the selecting package).

   TLC enumerates graphs (exhaustively for small families, random initial states in
   simulation mode for the large one) and prints, per graph, the verdict of every
   selector x / A / B / C on a value, an addressable value and a pointer.  The harness
   realises the graph with go/types objects, asks the real CodeBuilder.Member and
   compares kind, resolved object and type; types.LookupFieldOrMethod validates this
   transcription on every printed lookup. *)
EXTENDS Integers, Sequences, FiniteSets, TLC, Json
CONSTANTS TN,        \* type names in use, subset of {"R","A","B","C"}; "R" is the operand's type
          MaxFields, \* 1 or 2
          QChoices,  \* set of possible QT values, e.g. {{}, {"B"}}
          PlainTypes, \* types of the plain field x, e.g. {"int"} or {"int","string"}
          Naming     \* "std": the member x is unexported and the type names (= names of embedded fields) are exported;
                     \* "dual": the member is exported (realised as X) and the type names are not (a, b, c): then an embedded
                     \* field of a type of the other package cannot be *named* from outside, but promotion through it still works

Rank(t) == CASE t = "R" -> 4 [] t = "A" -> 3 [] t = "B" -> 2 [] OTHER -> 1
Plain == {[emb |-> FALSE, name |-> "x", ty |-> t, to |-> "", ptr |-> FALSE] : t \in PlainTypes}
Emb(from) == {[emb |-> TRUE, name |-> t, ty |-> "", to |-> t, ptr |-> p] : t \in TN, p \in BOOLEAN}
OKField(from, f) == ~f.emb \/ f.ptr \/ Rank(f.to) < Rank(from)
FieldsOf(from) == {f \in Plain \cup Emb(from) : OKField(from, f)}
FSeqs(from) == {<<>>} \cup {<<f>> : f \in FieldsOf(from)}
               \cup (IF MaxFields < 2 THEN {} ELSE
                     {p \in {<<f, h>> : f \in FieldsOf(from), h \in FieldsOf(from)} : p[1].name # p[2].name})
HasPlainX(fs) == \E i \in 1..Len(fs) : fs[i].name = "x"
\* a struct may not have both a field and a method named x
TypeDefs(from) == {[fields |-> fs, meth |-> m] : fs \in FSeqs(from), m \in {"none", "val", "ptr"}}
                  \ {d \in [fields : FSeqs(from), meth : {"val", "ptr"}] : HasPlainX(d.fields)}

(* ---------- the lookup ---------- *)
Visible(Q, t, sel) == IF sel = "x" THEN (Naming = "dual" \/ t \notin Q) ELSE (Naming = "std" \/ t \notin Q)
Children(G, e) == {[t |-> G[e.t].fields[i].to, path |-> Append(e.path, i), ind |-> e.ind \/ G[e.t].fields[i].ptr, mult |-> e.mult]
                     : i \in {j \in 1..Len(G[e.t].fields) : G[e.t].fields[j].emb}}
Consolidate(S) == {LET grp == {e \in S : e.t = t}  rep == CHOOSE e \in grp : TRUE IN
                     [rep EXCEPT !.mult = rep.mult \/ Cardinality(grp) > 1] : t \in {e.t : e \in S}}
RECURSIVE Look(_, _, _, _, _, _)
Look(G, Q, cur, seen, sel, addr) ==
  LET active == {e \in cur : e.t \notin seen}
      mh == IF sel = "x" THEN {e \in active : G[e.t].meth # "none" /\ Visible(Q, e.t, sel)} ELSE {}
      fh == {p \in (active \ mh) \X (1..2) : /\ p[2] <= Len(G[p[1].t].fields)
                                             /\ G[p[1].t].fields[p[2]].name = sel
                                             /\ Visible(Q, p[1].t, sel)}
      n  == Cardinality(mh) + Cardinality(fh)
  IN IF active = {} THEN [k |-> "none"]
     ELSE IF n = 0 THEN Look(G, Q, Consolidate(UNION {Children(G, e) : e \in active}), seen \cup {e.t : e \in active}, sel, addr)
     ELSE IF n > 1 \/ (\E e \in mh : e.mult) \/ (\E p \in fh : p[1].mult) THEN [k |-> "ambiguous"]
     ELSE IF mh # {} THEN LET e == CHOOSE e \in mh : TRUE IN
            IF G[e.t].meth = "ptr" /\ ~e.ind /\ ~addr THEN [k |-> "needaddr"]
            ELSE [k |-> "method", owner |-> e.t, path |-> e.path, ind |-> e.ind]
     ELSE LET p == CHOOSE p \in fh : TRUE IN
            [k |-> "field", owner |-> p[1].t, path |-> Append(p[1].path, p[2]), ind |-> p[1].ind]
Lookup(G, Q, isPtr, addr, sel) == Look(G, Q, {[t |-> "R", path |-> <<>>, ind |-> isPtr, mult |-> FALSE]}, {}, sel, addr)

(* ---------- enumeration ---------- *)
VARIABLES g, q
Defs(t) == IF t \in TN THEN TypeDefs(t) ELSE {[fields |-> <<>>, meth |-> "none"]}
Init == g \in [R : Defs("R"), A : Defs("A"), B : Defs("B"), C : Defs("C")] /\ q \in QChoices
Next == UNCHANGED <<g, q>>
Spec == Init /\ [][Next]_<<g, q>>
\* sampling of the large families: one long behaviour, a fresh random graph per step (tlc -simulate num=1 -depth N)
\* (an operator with a parameter: TLC evaluates a definition without parameters once and may reuse the value, which made the
\*  "random" graphs of a behaviour repeat)
RandGOf(x) == [R |-> RandomElement(Defs("R")), A |-> RandomElement(Defs("A")), B |-> RandomElement(Defs("B")), C |-> RandomElement(Defs("C"))]
SimInit == g = RandGOf(0) /\ q = RandomElement(QChoices)
SimNext == g' = RandGOf(g) /\ q' = RandomElement(QChoices)
Sels == {"x"} \cup (TN \ {"R"})
Res == [s \in Sels |-> [f \in {"v", "a", "p"} |-> Lookup(g, q, f = "p", f = "a", s)]]
\* model-level laws of the transcription
Laws ==
  /\ \A s \in Sels : (Res[s]["v"].k = "field") => (Res[s]["a"] = Res[s]["v"])             \* addressability only matters for methods
  /\ \A s \in Sels : (Res[s]["a"].k \in {"field", "method"} /\ Res[s]["p"].k \in {"field", "method"})
        => Res[s]["a"].owner = Res[s]["p"].owner                                        \* a pointer operand finds the same member
  /\ \A s \in Sels : Res[s]["a"].k # "needaddr" /\ Res[s]["p"].k # "needaddr"
Emit == PrintT(ToJson([g |-> g, q |-> q, res |-> Res, naming |-> Naming]))
=============================================================================
