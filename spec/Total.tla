------------------------------- MODULE Total -------------------------------
(* Every operation terminates promptly and never fails with a run-time fault (property C17).

   The builder's operations must be *total*: for every operation of the alphabet and every
   class of operand that can be on the stack (well-typed or not, extreme constants, absent
   optional configuration) the outcome is either success or a reported error - never a Go
   run-time fault, a foreign panic, unbounded time or memory.  The specification contributes
   the complete cross product (operation x operand classes x configuration) as its state
   space; the only prediction is Outcome \in {"ok", "reported"}, which is what the isolated
   worker checks on the real code with a deadline and an address-space limit per operation.
   Arity says how many operands an operation consumes; Coverage is the measured denominator. *)
EXTENDS Integers, Sequences, FiniteSets, TLC, Json
Ops1 == {"UnaryOp-", "UnaryOp^", "UnaryOp!", "UnaryOp<-", "Star", "Elem", "IncDec", "MemberVal", "MemberRef", "TypeAssert", "Call0", "Convert",
         "len", "cap", "Index0", "EndStmt", "Return1", "Defer", "Go", "RangeThen", "IfThen", "SwitchThen", "ZeroConv",
         "MemberAlias", "MemberAutoProp", "TypeAssert2", "IndexRef0", "ElemRef", "StructLit1", "ArrayLit1", "TypeSwitchThen", "ForThen", "InlineClosure1", "Instantiate", "DefineVar", "CallEllipsis1", "new", "make", "panic"}
Ops2 == {"BinaryOp+", "BinaryOp/", "BinaryOp%", "BinaryOp<<", "BinaryOp>>", "BinaryOp==", "BinaryOp<", "BinaryOp&&", "BinaryOp&^",
         "Assign", "AssignOp+=", "AssignOp<<=", "Send", "Index", "Slice", "Call1", "append", "copy", "MapLit", "SliceLit", "CaseThen",
         "Slice3", "StructLitKV", "ArrayLitKV", "SliceLitKV", "IndexRef", "Call2", "Return2", "AssignMulti", "CommCaseSend", "RangeAssign", "delete", "complex", "min"}
Operands == {"int", "int8", "uint", "float", "string", "bool", "slice", "array", "map", "chan", "ptr", "func", "struct", "iface", "named",
             "c0", "c1", "cneg", "cfloat", "cstring", "cbool", "crune", "nil", "c2p40", "c2p63", "c2p64", "c2p100", "chuge", "cbigshift", "type", "ref", "tuple2", "novalue",
             "cyc", "cycptr", "recslice"}   \* values whose types are recursive: A{*B}, B{*A} (embedding cycle through pointers), *A, type L []L
\* "src": every operand and operation carries a source node (as a compiler front end passes them) and no NodeInterpreter is
\* configured: reporting an error then renders source text through the default interpreter
Configs == {"default", "recorder", "noskip", "src"}
Arity(op) == IF op \in Ops1 THEN 1 ELSE 2
VARIABLE pt
Init == pt \in ([op : Ops1, x : Operands, y : {"-"}, cfg : Configs] \cup [op : Ops2, x : Operands, y : Operands, cfg : {"default", "noskip", "src"}])
Next == UNCHANGED pt
\* the property at the level of the model: the outcome set does not depend on the point
Outcomes(p) == {"ok", "reported"}
Total == Outcomes(pt) = {"ok", "reported"}
Emit == PrintT(ToJson(pt))
=============================================================================
