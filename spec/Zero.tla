------------------------------- MODULE Zero -------------------------------
(* Synthesised zero values (property C14).

   For a type T the builder must produce an expression e that
     TypedOK     is accepted where a T is expected          (var _ T = e, argument, return value)
     InferredOK  has static type exactly T when nothing else fixes its type   (x := e)
   Go's zero-value *forms* and the static type each has on its own:
     "0" -> untyped int, "false" -> untyped bool, `""` -> untyped string, "nil" -> untyped nil
     (x := nil is not valid Go), "T{}" and "T(0)" / "T(nil)" -> T.
   DemandedForms(T) are the forms that satisfy both demands.  ImplForm(T) is the form the
   pinned implementation chooses (read from Package.Zero): the bare literal of the
   *underlying* type.  TLC evaluates both on every type of the universe: where ImplForm(T)
   is not demanded, the model predicts a deviation of the named class UntypedZeroForm, so
   the harness can attribute what it observes on the real code to that class and report
   anything else as a violation. *)
EXTENDS GoTypes, Json
Forms == {"0", "false", "str", "nil", "composite", "conv"}
\* static type of a form standing alone
FormType(f, T) == CASE f = "0" -> UT("int") [] f = "false" -> UT("bool") [] f = "str" -> UT("string") [] f = "nil" -> UT("nil") [] OTHER -> T
ZeroConst(f) == CASE f = "0" -> Num(FALSE, 0, -1, FALSE, FALSE) [] f = "false" -> [ck |-> "bool"] [] f = "str" -> [ck |-> "str"] [] OTHER -> NoC
\* which forms denote the zero value of T at all
Denotes(f, T) ==
  LET u == Under(T) IN
  CASE f = "0" -> IsNumericT(T) /\ IsBasicU(T)
    [] f = "false" -> IsBoolT(T)
    [] f = "str" -> IsStringT(T)
    [] f = "nil" -> Nillable(T)
    [] f = "composite" -> u.k \in {"struct", "array"}
    [] f = "conv" -> u.k \notin {"struct", "array"}
    [] OTHER -> FALSE
TypedOK(f, T) == Denotes(f, T) /\ AssignableTo(FormType(f, T), T, ZeroConst(f))
InferredOK(f, T) == Denotes(f, T) /\ f # "nil" /\ Identical(Default(FormType(f, T)), T)
DemandedForms(T) == {f \in Forms : TypedOK(f, T) /\ InferredOK(f, T)}
\* the pinned implementation's choice
ImplForm(T) ==
  LET u == Under(T) IN
  IF u.k = "basic" THEN (IF u.n = "bool" THEN "false" ELSE IF u.n = "string" THEN "str" ELSE IF u.n = "unsafeptr" THEN "nil" ELSE "0")
  ELSE IF u.k \in {"iface", "map", "slice", "ptr", "func", "chan"} THEN "nil"
  ELSE "composite"
VARIABLE t
Typed == Universe \ UUntyped
Extra == {Named("Hidden", Struct(<<[n |-> "x", t |-> TInt]>>), {}, {}),
          Array(2, MyStruct), Struct(<<[n |-> "S", t |-> MyStruct]>>), Ptr(MyStruct), Slice(MyStruct), Map(TStr, MyStruct),
          Named("MyArr", Array(2, TInt), {}, {})}
Init == t \in Typed \cup Extra
Next == UNCHANGED t
\* every type has at least one form that meets both demands (the property is satisfiable)
Satisfiable == DemandedForms(t) # {}
Verdict == [t |-> t, impl |-> ImplForm(t), demanded |-> DemandedForms(t),
            implTypedOK |-> TypedOK(ImplForm(t), t), implInferredOK |-> InferredOK(ImplForm(t), t),
            implInferredType |-> IF ImplForm(t) = "nil" THEN UT("nil") ELSE Default(FormType(ImplForm(t), t))]
Emit == PrintT(ToJson(Verdict))
=============================================================================
