------------------------------- MODULE Overload -------------------------------
(* Overload resolution (property C06): the candidate loop of matchFuncCall.

   An overload family is a sequence of candidate signatures (index order = the __0, __1, ... or
   XGoo_ order).  A call tries the candidates in order; each try matches the arguments one by one
   against the parameter types and may *rewrite* an argument in place while doing so:

     init0/init1  implicit conversion through T_Init__k  (vi -> Big_Init__0(vi) for a Big parameter)
     inst         a generic function value is instantiated for a func-typed parameter (Id -> Id[int])
     narrow       a single-candidate overload family used as a value is replaced by its candidate

   When a later parameter of the same candidate fails, the loop must restore the arguments
   (backupArgs / restoreArgs) before trying the next candidate; otherwise the next candidate sees
   rewritten arguments: it may wrongly fail, wrongly succeed, or succeed with residue in the call it
   emits.  The model runs the loop step by step (Backup, MatchArg, Fail, Succeed) with the constant
   Restore (FALSE = sabotage, TLC must then find a violation) and checks against the functional
   definition of "first applicable candidate, built as if it were the only one":

     FirstApplicable   the chosen index is the least i with Applicable(fam[i], call); reject iff none
     NoResidue         the emitted arguments are those of matching the chosen candidate on pristine arguments
     ResultType        the result type is the chosen candidate's (instantiated) result type

   Applicability is Go's call rule (assignability per parameter, variadic and f(xs...) forms,
   inference for generic candidates) plus the documented T_Init conversion; the Go part (GoOK) is
   validated against go/types for every (signature, call) pair by the harness. *)
EXTENDS Integers, Sequences, FiniteSets, TLC, Json
CONSTANTS SigIds,      \* candidate signatures to draw families from (indices into Sig)
          MaxFam,      \* family length 1..MaxFam
          Forms,       \* argument forms
          MaxArgs,     \* call length 0..MaxArgs
          Restore,     \* TRUE: the loop restores the arguments after a failed candidate
          FamFilter    \* "all" | "threshold": only families <<string, .., string, int, .., int>> (long families: the index
                       \* order beyond ten members, where the index suffix is no longer a decimal digit)

(* ---- signatures ---- *)
S(ps, var, gen) == [ps |-> ps, var |-> var, gen |-> gen]
Sig(i) ==
  CASE i = 1 -> S(<<"int">>, FALSE, "")
    [] i = 2 -> S(<<"float64">>, FALSE, "")
    [] i = 3 -> S(<<"string">>, FALSE, "")
    [] i = 4 -> S(<<"any">>, FALSE, "")
    [] i = 5 -> S(<<"MyInt">>, FALSE, "")
    [] i = 6 -> S(<<"Big">>, FALSE, "")
    [] i = 7 -> S(<<"int", "int">>, FALSE, "")
    [] i = 8 -> S(<<"Big", "string">>, FALSE, "")          \* rewrites argument 1, may fail on argument 2
    [] i = 9 -> S(<<"int">>, TRUE, "")                     \* (...int)
    [] i = 10 -> S(<<"string", "int">>, TRUE, "")          \* (string, ...int)
    [] i = 11 -> S(<<"any">>, TRUE, "")                    \* (...any)
    [] i = 12 -> S(<<"T">>, FALSE, "T1")                   \* [T any](T) T
    [] i = 13 -> S(<<"[]T">>, FALSE, "SL")                 \* [T any]([]T) T
    [] i = 14 -> S(<<>>, FALSE, "")
    [] i = 15 -> S(<<"fii">>, FALSE, "")                   \* (func(int) int)
    [] i = 16 -> S(<<"sl">>, FALSE, "")                    \* ([]int)
    [] i = 17 -> S(<<"T", "T">>, FALSE, "CMP2")            \* [T comparable](T, T) T
    [] i = 18 -> S(<<"fii", "string">>, FALSE, "")         \* rewrites argument 1 (inst / narrow), may fail on argument 2
    [] i = 19 -> S(<<"any", "string">>, FALSE, "")         \* shows residue: accepts whatever argument 1 has become
    [] i = 20 -> S(<<"any", "int">>, FALSE, "")
    [] i = 21 -> S(<<"Big", "Big">>, FALSE, "")            \* two rewrites
IsGeneric(i) == Sig(i).gen # ""

(* ---- arguments ---- *)
Arg(f) == [f |-> f, m |-> "none"]
\* the form an argument behaves as after a rewrite
Eff(a) == IF a.m \in {"init0", "init1"} THEN "vbig" ELSE IF a.m \in {"inst", "narrow"} THEN "vfii" ELSE a.f
GoAssign(f, ty) ==
  CASE ty = "int" -> f \in {"c1", "vi", "ti"}
    [] ty = "float64" -> f \in {"c1", "c15", "vf"}
    [] ty = "string" -> f \in {"cs", "vs", "ts"}
    [] ty = "MyInt" -> f \in {"c1", "vmy"}
    [] ty = "Big" -> f = "vbig"
    [] ty = "sl" -> f \in {"vsl", "nil"}
    [] ty = "any" -> f # "gid"                     \* a generic function cannot be used without instantiation
    [] ty = "fii" -> f \in {"nil", "vfii", "gid", "ov1"}
    [] OTHER -> FALSE                              \* []E for E # int, uninferred T
\* one argument against one parameter type: [ok, a] with the rewritten argument (the rewrite of an overloaded
\* function value happens before the check and therefore also when the check fails)
\* d = TRUE adds the deviations of the pinned implementation that the harness attributes findings to:
\*   KF-C06-1  an uninstantiated generic function value is accepted where an interface is expected
\*   KF-C06-2  the T_Init conversion is "applied" to a value of a multi-value call, where it cannot be emitted
\*   KF-C06-3  (DevAbort) a generic candidate [T any](T) given a multi-value call aborts the whole resolution
AssignD(f, ty, d) == GoAssign(f, ty) \/ (d /\ f = "gid" /\ ty = "any")
MatchArg(a, ty, d) ==
  LET f == Eff(a) IN
  IF AssignD(f, ty, d)
    THEN [ok |-> TRUE, a |-> [a EXCEPT !.m = IF f = "gid" /\ ty = "fii" THEN "inst" ELSE IF f = "ov1" THEN "narrow" ELSE @]]
    ELSE IF ty = "Big" /\ GoAssign(f, "int") /\ (f # "ti" \/ d) THEN [ok |-> TRUE, a |-> [a EXCEPT !.m = "init0"]]
    ELSE IF ty = "Big" /\ GoAssign(f, "string") /\ (f # "ts" \/ d) THEN [ok |-> TRUE, a |-> [a EXCEPT !.m = "init1"]]
    ELSE [ok |-> FALSE, a |-> [a EXCEPT !.m = IF f = "ov1" THEN "narrow" ELSE @]]
\* the same without the T_Init extension: Go's own rule
GoMatchArg(a, ty) == GoAssign(Eff(a), ty)

(* ---- inference for generic candidates (on the current arguments) ---- *)
DefType(f) == CASE f \in {"c1", "ti"} -> "int" [] f = "ts" -> "string" [] f = "c15" -> "float64" [] f = "cs" -> "string" [] f = "vi" -> "int" [] f = "vf" -> "float64"
                [] f = "vs" -> "string" [] f = "vmy" -> "MyInt" [] f = "vsl" -> "sl" [] f = "vbig" -> "Big" [] f = "vfii" -> "fii" [] OTHER -> "fail"
Untyped(f) == f \in {"c1", "c15", "cs", "nil"}
Comparable(t) == t \notin {"sl", "fii", "fail"}
Infer(s, fs) ==
  CASE s.gen = "T1" -> IF Len(fs) = 1 THEN DefType(fs[1]) ELSE "fail"
    [] s.gen = "SL" -> IF Len(fs) = 1 /\ fs[1] = "vsl" THEN "int" ELSE "fail"
    [] s.gen = "CMP2" ->
         IF Len(fs) # 2 THEN "fail"
         ELSE LET a == fs[1]
                  b == fs[2]
                  t == IF ~Untyped(a) /\ ~Untyped(b) THEN (IF DefType(a) = DefType(b) THEN DefType(a) ELSE "fail")
                       ELSE IF ~Untyped(a) THEN DefType(a)
                       ELSE IF ~Untyped(b) THEN DefType(b)
                       ELSE IF a = "nil" \/ b = "nil" THEN "fail"
                       ELSE IF a = "cs" /\ b = "cs" THEN "string"
                       ELSE IF a = "cs" \/ b = "cs" THEN "fail"
                       ELSE IF a = "c15" \/ b = "c15" THEN "float64" ELSE "int" IN
              IF Comparable(t) THEN t ELSE "fail"
    [] OTHER -> ""
Subst(p, t) == IF p = "T" THEN t ELSE IF p = "[]T" THEN (IF t = "int" THEN "sl" ELSE "sl_" \o t) ELSE p
SliceTy(e) == IF e = "int" THEN "sl" ELSE "sl_" \o e

(* ---- arity, parameter type at a position ---- *)
ArityOK(s, n, ell) == IF s.var THEN (IF ell THEN n = Len(s.ps) ELSE n >= Len(s.ps) - 1) ELSE (~ell /\ n = Len(s.ps))
ParamAt(s, j, ell, bind) ==
  LET np == Len(s.ps)
      raw == IF s.var /\ j >= np THEN (IF ell THEN SliceTy(s.ps[np]) ELSE s.ps[np]) ELSE s.ps[j] IN
  Subst(raw, bind)

(* ---- functional definition: one candidate on given arguments ---- *)
RECURSIVE MatchFrom(_, _, _, _, _, _)
MatchFrom(s, as, j, ell, bind, d) ==
  IF j > Len(as) THEN [ok |-> TRUE, args |-> as]
  ELSE LET r == MatchArg(as[j], ParamAt(s, j, ell, bind), d) IN
       IF r.ok THEN MatchFrom(s, [as EXCEPT ![j] = r.a], j + 1, ell, bind, d) ELSE [ok |-> FALSE, args |-> [as EXCEPT ![j] = r.a]]
EffForms(as) == [k \in 1..Len(as) |-> Eff(as[k])]
Bind(s, as) == IF s.gen = "" THEN "" ELSE Infer(s, EffForms(as))
TryD(s, as, ell, d) ==
  IF ~ArityOK(s, Len(as), ell) \/ Bind(s, as) = "fail" THEN [ok |-> FALSE, args |-> as]
  ELSE MatchFrom(s, as, 1, ell, Bind(s, as), d)
Try(s, as, ell) == TryD(s, as, ell, FALSE)
\* f(g()) with a two-value call g() (int, string) as the only argument: the values are the arguments (Go's special call form);
\* they cannot be rewritten, so the T_Init conversion does not apply to them
Pristine(call) == IF call = <<"tup">> THEN <<Arg("ti"), Arg("ts")>> ELSE [k \in 1..Len(call) |-> Arg(call[k])]
Applicable(s, call, ell) == Try(s, Pristine(call), ell).ok
\* Go's own rule (no T_Init): validated against go/types
RECURSIVE GoFrom(_, _, _, _, _)
GoFrom(s, as, j, ell, bind) == IF j > Len(as) THEN TRUE ELSE GoMatchArg(as[j], ParamAt(s, j, ell, bind)) /\ GoFrom(s, as, j + 1, ell, bind)
GoOK(s, call, ell) == LET as == Pristine(call) IN ArityOK(s, Len(as), ell) /\ Bind(s, as) # "fail" /\ GoFrom(s, as, 1, ell, Bind(s, as))
ResType(s, idx, as) == IF s.gen = "" THEN "R" \o ToString(idx - 1) ELSE Bind(s, as)

(* ---- the loop as the code runs it ---- *)
VARIABLES fam, call, ell, args, backup, i, j, bind, phase, result
vars == <<fam, call, ell, args, backup, i, j, bind, phase, result>>
RECURSIVE SeqsUpTo(_, _)
SeqsUpTo(A, n) == IF n = 0 THEN {<<>>} ELSE LET shorter == SeqsUpTo(A, n - 1) IN shorter \cup {Append(q, x) : q \in {r \in shorter : Len(r) = n - 1}, x \in A}
Families == SeqsUpTo(SigIds, MaxFam) \ {<<>>}
Calls == {c \in SeqsUpTo(Forms, MaxArgs) : (\E k \in 1..Len(c) : c[k] = "tup") => c = <<"tup">>}
HasGeneric(f) == \E k \in 1..Len(f) : IsGeneric(f[k])
Exotic(c) == \E k \in 1..Len(c) : c[k] \in {"gid", "ov1"}
Threshold(f) == \E k \in 0..Len(f) : \A m \in 1..Len(f) : f[m] = (IF m <= k THEN 3 ELSE 1)
Init == /\ fam \in Families /\ call \in Calls
        /\ (FamFilter = "threshold" => Threshold(fam))
        /\ ~(HasGeneric(fam) /\ Exotic(call))      \* function-valued arguments to generic candidates are outside the fragment (see C07)
        /\ ell \in (IF Len(call) > 0 /\ call[Len(call)] = "vsl" THEN BOOLEAN ELSE {FALSE})
        /\ args = Pristine(call) /\ backup = <<>> /\ i = 0 /\ j = 0 /\ bind = "" /\ phase = "start" /\ result = [idx |-> 0]
Backup == /\ phase = "start" /\ backup' = args /\ i' = 1 /\ j' = 0 /\ phase' = "try" /\ UNCHANGED <<fam, call, ell, args, bind, result>>
Cand == Sig(fam[i])
\* entering a candidate: arity and inference on the arguments as they are now
Enter == /\ phase = "try" /\ j = 0
         /\ IF ArityOK(Cand, Len(args), ell) /\ Bind(Cand, args) # "fail"
              THEN j' = 1 /\ phase' = "try" /\ bind' = Bind(Cand, args)
              ELSE j' = 0 /\ phase' = "fail" /\ bind' = ""
         /\ UNCHANGED <<fam, call, ell, args, backup, i, result>>
Step == /\ phase = "try" /\ j >= 1 /\ j <= Len(args)
        /\ LET r == MatchArg(args[j], ParamAt(Cand, j, ell, bind), FALSE) IN
             /\ args' = [args EXCEPT ![j] = r.a]
             /\ IF r.ok THEN j' = j + 1 /\ phase' = "try" ELSE j' = 0 /\ phase' = "fail"
        /\ UNCHANGED <<fam, call, ell, backup, i, bind, result>>
Fail == /\ phase = "fail"
        /\ args' = IF Restore THEN backup ELSE args
        /\ IF i < Len(fam) THEN i' = i + 1 /\ phase' = "try" /\ UNCHANGED result
                           ELSE i' = i /\ phase' = "done" /\ result' = [idx |-> 0]
        /\ j' = 0 /\ UNCHANGED <<fam, call, ell, backup, bind>>
Succeed == /\ phase = "try" /\ j = Len(args) + 1
           /\ result' = [idx |-> i, args |-> args, res |-> IF Cand.gen = "" THEN "R" \o ToString(i - 1) ELSE bind]
           /\ phase' = "done" /\ UNCHANGED <<fam, call, ell, args, backup, i, j, bind>>
Next == Backup \/ Enter \/ Step \/ Fail \/ Succeed
Spec == Init /\ [][Next]_vars

(* ---- the property on the model ---- *)
ApplicableIdx == {k \in 1..Len(fam) : Applicable(Sig(fam[k]), call, ell)}
First == IF ApplicableIdx = {} THEN 0 ELSE CHOOSE k \in ApplicableIdx : \A m \in ApplicableIdx : k <= m
FirstApplicable == phase = "done" => result.idx = First
NoResidue == (phase = "done" /\ result.idx > 0) => result.args = Try(Sig(fam[result.idx]), Pristine(call), ell).args
ResultType == (phase = "done" /\ result.idx > 0) => result.res = ResType(Sig(fam[result.idx]), result.idx, Pristine(call))
Muts(as) == [k \in 1..Len(as) |-> as[k].m]
DevIdx == {k \in 1..Len(fam) : TryD(Sig(fam[k]), Pristine(call), ell, TRUE).ok}
DevFirst == IF DevIdx = {} THEN 0 ELSE CHOOSE k \in DevIdx : \A m \in DevIdx : k <= m
Outcome == [fam |-> fam, call |-> call, ell |-> ell, idx |-> First,
            muts |-> IF First = 0 THEN <<>> ELSE Muts(Try(Sig(fam[First]), Pristine(call), ell).args),
            res |-> IF First = 0 THEN "" ELSE ResType(Sig(fam[First]), First, Pristine(call)),
            devidx |-> DevFirst,
            devabort |-> (call = <<"tup">> /\ \E k \in 1..Len(fam) : Sig(fam[k]).gen = "T1" /\ DevFirst # 0 /\ k < DevFirst),
            devmuts |-> IF DevFirst = 0 THEN <<>> ELSE Muts(TryD(Sig(fam[DevFirst]), Pristine(call), ell, TRUE).args),
            goapp |-> [k \in 1..Len(fam) |-> GoOK(Sig(fam[k]), call, ell)],
            xapp |-> [k \in 1..Len(fam) |-> Applicable(Sig(fam[k]), call, ell)]]
Emit == phase = "done" => PrintT(ToJson(Outcome))
=============================================================================
