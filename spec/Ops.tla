------------------------------- MODULE Ops -------------------------------
(* Operator typing and constant folding (properties C01-C04 on expressions).

   The Go specification's rules for unary and binary operators, shifts and conversions over
   an operand pool of typed variables, typed constants and untyped constants of every kind
   (incl. nil): implicit conversion of untyped operands (go/types implicitTypeAndValue),
   representability, operator applicability per type class, zero divisors, exact constant
   folding over rationals (integer division truncates toward zero), typed results must be
   representable (overflow is rejected), shift-count rules, constant conversions.
   Every point yields either Ok(type, constant-or-none) or Err(reason).  TLC evaluates every
   point of the grid; the harness builds the same expression with the real CodeBuilder and
   compares acceptance (C01: unsound acceptance, C02: spurious rejection), the reported type
   (C03) and the folded constant (C04); types.Eval on the same text validates this calculus
   on every point.  int8/uint8 carry the range arithmetic (TLC integers are 32-bit); "int" and
   MyInt are treated as wide enough for every value of the pool. *)
EXTENDS Integers, Sequences, FiniteSets, TLC, Json
\* ---------- rationals ----------
RECURSIVE Gcd(_, _)
Abs(x) == IF x < 0 THEN -x ELSE x
Gcd(a, b) == IF b = 0 THEN a ELSE Gcd(b, a % b)
Norm(n, d) == LET g == Gcd(Abs(n), Abs(d))  s == IF d < 0 THEN -1 ELSE 1 IN [n |-> (s * n) \div g, d |-> (s * d) \div g]
Q(n) == [n |-> n, d |-> 1]
IsInt(q) == q.d = 1
RAdd(a, b) == Norm(a.n * b.d + b.n * a.d, a.d * b.d)
RSub(a, b) == Norm(a.n * b.d - b.n * a.d, a.d * b.d)
RMul(a, b) == Norm(a.n * b.n, a.d * b.d)
RQuo(a, b) == Norm(a.n * b.d, a.d * b.n)
TruncDiv(a, b) == LET q == Abs(a) \div Abs(b) IN IF (a < 0) # (b < 0) THEN -q ELSE q     \* Go: truncation toward zero
TruncRem(a, b) == a - b * TruncDiv(a, b)
RLess(a, b) == a.n * b.d < b.n * a.d
\* ---------- types ----------
Typed == {"int", "int8", "uint8", "float64", "string", "bool", "MyInt"}
Untyped == {"utint", "utrune", "utfloat", "utstring", "utbool", "utnil"}
Under(t) == IF t = "MyInt" THEN "int" ELSE t
IsUntyped(t) == t \in Untyped
IsInteger(t) == Under(t) \in {"int", "int8", "uint8", "utint", "utrune"}
IsFloat(t) == Under(t) \in {"float64", "utfloat"}
IsNumeric(t) == IsInteger(t) \/ IsFloat(t)
IsString(t) == Under(t) \in {"string", "utstring"}
IsBool(t) == Under(t) \in {"bool", "utbool"}
Range(t) == CASE Under(t) = "int8" -> <<-128, 127>> [] Under(t) = "uint8" -> <<0, 255>> [] OTHER -> <<-1000000, 1000000>>  \* int: model-wide
NoC == [k |-> "none"]
NumC(q) == [k |-> "num", q |-> q]
StrC(s) == [k |-> "str", s |-> s]
BoolC(b) == [k |-> "bool", b |-> b]
Err(w) == [ok |-> FALSE, why |-> w]
Ok(t, c) == [ok |-> TRUE, ty |-> t, c |-> c]
\* representability of a constant in a typed basic type
Representable(c, t) ==
  CASE c.k = "num" -> \/ (IsInteger(t) /\ IsInt(c.q) /\ c.q.n >= Range(t)[1] /\ c.q.n <= Range(t)[2])
                      \/ IsFloat(t)
    [] c.k = "str" -> IsString(t)
    [] c.k = "bool" -> IsBool(t)
    [] OTHER -> FALSE
UKindRank(t) == CASE t = "utint" -> 1 [] t = "utrune" -> 2 [] t = "utfloat" -> 3 [] OTHER -> 0
\* implicit conversion of untyped operand x to the type of the other operand (go/types implicitTypeAndValue)
Convert(x, target) ==
  IF ~IsUntyped(x.ty) THEN Ok(x.ty, x.c)
  ELSE IF IsUntyped(target) THEN
         IF IsNumeric(x.ty) /\ IsNumeric(target) THEN Ok(IF UKindRank(x.ty) >= UKindRank(target) THEN x.ty ELSE target, x.c)
         ELSE IF x.ty = target THEN Ok(x.ty, x.c) ELSE Err("mismatched")
  ELSE IF x.ty = "utnil" THEN Err("mismatched")            \* no nillable type in this universe
  ELSE IF x.c = NoC THEN (IF (IsBool(x.ty) /\ IsBool(target)) THEN Ok(target, NoC) ELSE Err("mismatched"))
  ELSE IF Representable(x.c, target) THEN Ok(target, x.c)
  ELSE IF (IsNumeric(x.ty) /\ IsNumeric(target)) THEN Err("notrepresentable") ELSE Err("mismatched")
MayConvert(x, y) ==
  IF ~IsUntyped(x.ty) /\ ~IsUntyped(y.ty) THEN FALSE
  ELSE IF IsBool(x.ty) # IsBool(y.ty) THEN FALSE
  ELSE IF IsString(x.ty) # IsString(y.ty) THEN FALSE
  ELSE IF x.ty = "utnil" \/ y.ty = "utnil" THEN FALSE   \* nothing nillable here; nil op nil handled below
  ELSE TRUE
Arith == {"+", "-", "*", "/", "%"}
Bit == {"&", "|", "^", "&^"}
Cmp == {"==", "!=", "<", "<=", ">", ">="}
Logic == {"&&", "||"}
OpDefined(op, t) ==
  CASE op = "+" -> IsNumeric(t) \/ IsString(t)
    [] op \in {"-", "*", "/"} -> IsNumeric(t)
    [] op = "%" -> IsInteger(t)
    [] op \in Bit -> IsInteger(t)
    [] op \in Logic -> IsBool(t)
    [] OTHER -> FALSE
Fold(op, t, a, b) ==   \* both constants, same (converted) type t
  CASE op = "+" /\ a.k = "str" -> StrC(a.s \o b.s)
    [] op = "+" -> NumC(RAdd(a.q, b.q))
    [] op = "-" -> NumC(RSub(a.q, b.q))
    [] op = "*" -> NumC(RMul(a.q, b.q))
    [] op = "/" -> IF IsInteger(t) THEN NumC(Q(TruncDiv(a.q.n, b.q.n))) ELSE NumC(RQuo(a.q, b.q))
    [] op = "%" -> NumC(Q(TruncRem(a.q.n, b.q.n)))
    [] op = "&&" -> BoolC(a.b /\ b.b)
    [] op = "||" -> BoolC(a.b \/ b.b)
    [] OTHER -> [k |-> "skip"]
CmpFold(op, a, b) ==
  IF a.k = "bool" THEN BoolC(IF op = "==" THEN a.b = b.b ELSE a.b # b.b)
  ELSE IF a.k = "str" THEN (IF op = "==" THEN BoolC(a.s = b.s) ELSE IF op = "!=" THEN BoolC(a.s # b.s) ELSE [k |-> "skip"])
  ELSE BoolC(CASE op = "==" -> a.q = b.q [] op = "!=" -> a.q # b.q [] op = "<" -> RLess(a.q, b.q)
               [] op = "<=" -> ~RLess(b.q, a.q) [] op = ">" -> RLess(b.q, a.q) [] OTHER -> ~RLess(a.q, b.q))
Binary(op, x0, y0) ==
  IF x0.ty = "utnil" /\ y0.ty = "utnil" THEN Err(IF op \in Cmp THEN "nilnil" ELSE "opundefined")
  ELSE
  LET may == MayConvert(x0, y0)
      cx == IF may THEN Convert(x0, y0.ty) ELSE Ok(x0.ty, x0.c)
      cy == IF may THEN Convert(y0, x0.ty) ELSE Ok(y0.ty, y0.c)
  IN IF ~cx.ok THEN cx ELSE IF ~cy.ok THEN cy
     ELSE LET tx == cx.ty  ty == cy.ty IN
       IF tx # ty THEN Err("mismatched")
       ELSE IF op \in Cmp THEN
              IF op \in {"==", "!="} \/ IsNumeric(tx) \/ IsString(tx)
                THEN Ok("utbool", IF cx.c # NoC /\ cy.c # NoC THEN CmpFold(op, cx.c, cy.c) ELSE NoC)
                ELSE Err("opundefined")
       ELSE IF ~OpDefined(op, tx) THEN Err("opundefined")
       ELSE IF op \in {"/", "%"} /\ cy.c # NoC /\ cy.c.k = "num" /\ cy.c.q.n = 0 /\ (cx.c # NoC \/ IsInteger(tx)) THEN Err("divzero")
       ELSE IF cx.c # NoC /\ cy.c # NoC THEN
              LET v == Fold(op, tx, cx.c, cy.c) IN
              IF v.k = "num" /\ ~IsUntyped(tx) /\ ~Representable(v, tx) THEN Err("overflow") ELSE Ok(tx, v)
       ELSE Ok(tx, NoC)

\* ---------- unary ----------
RECURSIVE Pow2(_)
Pow2(n) == IF n = 0 THEN 1 ELSE 2 * Pow2(n - 1)
IsUnsigned(t) == Under(t) = "uint8"
Unary(op, x) ==
  IF x.ty = "utnil" THEN Err("opundefined")
  ELSE IF op \in {"+", "-"} /\ ~IsNumeric(x.ty) THEN Err("opundefined")
  ELSE IF op = "!" /\ ~IsBool(x.ty) THEN Err("opundefined")
  ELSE IF op = "^" /\ ~IsInteger(x.ty) THEN Err("opundefined")
  ELSE IF x.c = NoC THEN Ok(x.ty, NoC)
  ELSE LET v == CASE op = "+" -> x.c
                  [] op = "-" -> NumC(Norm(0 - x.c.q.n, x.c.q.d))
                  [] op = "!" -> BoolC(~x.c.b)
                  [] OTHER -> IF IsUnsigned(x.ty) THEN NumC(Q(255 - x.c.q.n)) ELSE NumC(Q(0 - x.c.q.n - 1))
       IN IF v.k = "num" /\ ~IsUntyped(x.ty) /\ ~Representable(v, x.ty) THEN Err("overflow") ELSE Ok(x.ty, v)
\* ---------- constant shifts (both operands constant) and shifts of typed integer variables ----------
FloorDiv(a, b) == IF a >= 0 THEN a \div b ELSE 0 - ((0 - a + b - 1) \div b)
Shift(op, x, y) ==
  LET yIntConst == y.c # NoC /\ y.c.k = "num" /\ IsInt(y.c.q)
      yOK == IF y.c # NoC THEN (IsNumeric(y.ty) /\ yIntConst /\ (IsUntyped(y.ty) \/ IsInteger(y.ty))) ELSE IsInteger(y.ty)
  IN IF ~yOK THEN Err("badcount")
     ELSE IF y.c # NoC /\ y.c.q.n < 0 THEN Err("negcount")
     ELSE IF x.c = NoC THEN (IF IsInteger(x.ty) THEN Ok(x.ty, NoC) ELSE Err("shiftedoperand"))
     ELSE IF ~(x.c.k = "num" /\ IsNumeric(x.ty) /\ IsInt(x.c.q) /\ (IsUntyped(x.ty) \/ IsInteger(x.ty))) THEN Err("shiftedoperand")
     ELSE IF y.c = NoC /\ ~IsUntyped(x.ty) THEN Ok(x.ty, NoC)                          \* typed constant << variable: a non-constant value of the constant's type
     ELSE IF y.c = NoC THEN [ok |-> TRUE, ty |-> "skip", c |-> [k |-> "skip"]]       \* untyped const << variable: context dependent, out of trial
     ELSE LET rt == IF IsInteger(x.ty) THEN x.ty ELSE "utint"
              s == y.c.q.n
          IN IF s > 1074 THEN Err("hugecount")
             ELSE IF s > 20 THEN (IF x.c.q.n = 0 \/ op = ">>" THEN Ok(rt, NumC(Q(IF op = ">>" /\ x.c.q.n < 0 THEN -1 ELSE 0)))
                                  ELSE IF IsUntyped(rt) THEN Ok(rt, [k |-> "skip"]) ELSE Err("overflow"))
             ELSE LET v == NumC(Q(IF op = "<<" THEN x.c.q.n * Pow2(s) ELSE FloorDiv(x.c.q.n, Pow2(s)))) IN
                  IF ~IsUntyped(rt) /\ ~Representable(v, rt) THEN Err("overflow") ELSE Ok(rt, v)
\* ---------- conversions T(x) ----------
Conv(t, x) ==
  IF x.ty = "utnil" THEN Err("nil")
  ELSE IF x.c # NoC THEN
      IF x.c.k = "num" /\ IsString(t) THEN (IF IsInteger(x.ty) THEN Ok(t, [k |-> "skip"]) ELSE Err("notconvertible"))
      ELSE IF Representable(x.c, t) THEN Ok(t, x.c)
      ELSE Err(IF x.c.k = "num" /\ IsNumeric(t) THEN "notrepresentable" ELSE "notconvertible")
  ELSE IF IsNumeric(x.ty) /\ IsNumeric(t) THEN Ok(t, NoC)
  ELSE IF IsInteger(x.ty) /\ IsString(t) THEN Ok(t, NoC)
  ELSE IF Under(x.ty) = Under(t) THEN Ok(t, NoC)
  ELSE Err("notconvertible")

\* ---------- operand pool ----------
V(t) == [ty |-> t, c |-> NoC, src |-> "v_" \o t]
Pool == {V(t) : t \in Typed} \cup
  { [ty |-> "int8", c |-> NumC(Q(100)), src |-> "c_i8"], [ty |-> "uint8", c |-> NumC(Q(200)), src |-> "c_u8"],
    [ty |-> "int", c |-> NumC(Q(7)), src |-> "c_int"], [ty |-> "MyInt", c |-> NumC(Q(3)), src |-> "c_my"],
    [ty |-> "MyInt", c |-> NumC(Q(7)), src |-> "AMy(7)"],          \* a constant conversion to an alias of the defined type MyInt
    [ty |-> "utint", c |-> NumC(Q(0)), src |-> "0"], [ty |-> "utint", c |-> NumC(Q(1)), src |-> "1"],
    [ty |-> "utint", c |-> NumC(Q(-1)), src |-> "(-1)"], [ty |-> "utint", c |-> NumC(Q(300)), src |-> "300"],
    [ty |-> "utfloat", c |-> NumC(Norm(3, 2)), src |-> "1.5"], [ty |-> "utfloat", c |-> NumC(Q(2)), src |-> "2.0"],
    [ty |-> "utfloat", c |-> NumC(Q(0)), src |-> "0.0"],
    [ty |-> "utrune", c |-> NumC(Q(97)), src |-> "'a'"], [ty |-> "utstring", c |-> StrC("s"), src |-> "\"s\""],
    [ty |-> "utbool", c |-> BoolC(TRUE), src |-> "true"], [ty |-> "utnil", c |-> NoC, src |-> "nil"] }
AllOps == Arith \cup Bit \cup Cmp \cup Logic
CONSTANT Family   \* "binary" | "unary" | "shift" | "conv" | "nested"
\* nested: (a op1 b) op2 c - the result of one operator (its type, its constant value, typed or untyped) as operand of the next
NOps == {"+", "/", "%", "==", "<", "&&"}
NPool == {p \in Pool : p.src \in {"v_int", "v_int8", "v_float64", "v_string", "v_bool", "v_MyInt", "c_i8", "c_int", "1", "300", "1.5", "2.0", "'a'", "\"s\"", "true"}}
VARIABLE pt
Dummy == CHOOSE p \in Pool : p.src = "0"
Init == pt \in (CASE Family = "binary" -> AllOps \X Pool \X Pool
                  [] Family = "unary" -> {"u+", "u-", "u^", "u!"} \X Pool \X {Dummy}
                  [] Family = "shift" -> {"<<", ">>"} \X Pool \X Pool
                  [] Family = "nested" -> NOps \X NOps \X NPool \X NPool \X NPool
                  [] OTHER -> {"conv"} \X Pool \X {V(t) : t \in Typed})
Next == UNCHANGED pt
Inner == Binary(pt[1], pt[3], pt[4])
InnerText == "(" \o pt[3].src \o " " \o pt[1] \o " " \o pt[4].src \o ")"
InnerOperand == [ty |-> Inner.ty, c |-> Inner.c, src |-> InnerText]
Unmodelled(r) == r.ok /\ (r.ty = "skip" \/ (r.c # NoC /\ r.c.k = "skip"))
Res == CASE Family = "nested" -> (IF ~Inner.ok \/ Unmodelled(Inner) THEN Inner ELSE Binary(pt[2], InnerOperand, pt[5]))
         [] Family = "binary" -> Binary(pt[1], pt[2], pt[3])
         [] Family = "unary" -> Unary(SubSeq(pt[1], 2, 2), pt[2])
         [] Family = "conv" -> Conv(pt[3].ty, pt[2])
         [] OTHER -> Shift(pt[1], pt[2], pt[3])
\* laws of the calculus, checked on every point
Laws == Family = "nested" \/
  /\ (Family = "binary" /\ pt[1] \in {"==", "!=", "+", "*", "&", "|", "^", "&&", "||"}) =>
        LET a == Binary(pt[1], pt[2], pt[3])  b == Binary(pt[1], pt[3], pt[2]) IN a.ok = b.ok        \* acceptance of commutative operators is symmetric
  /\ (Res.ok /\ Res.c # NoC /\ Res.c.k = "num" /\ ~IsUntyped(Res.ty) /\ Res.ty # "skip") => Representable(Res.c, Res.ty)   \* typed results are in range
  /\ (Res.ok /\ Res.c # NoC /\ Res.c.k # "skip") => (pt[2].c # NoC /\ (Family \in {"unary", "conv"} \/ pt[3].c # NoC))              \* constant only from constants
Emit == IF Family = "nested"
        THEN PrintT(ToJson([op |-> pt[2], x |-> InnerText, y |-> pt[5].src, iop |-> pt[1], ix |-> pt[3].src, iy |-> pt[4].src, inner |-> Inner, r |-> Res]))
        ELSE PrintT(ToJson([op |-> pt[1], x |-> pt[2].src, y |-> IF Family = "conv" THEN pt[3].ty ELSE pt[3].src, r |-> Res]))
====