------------------------------ MODULE Shared ------------------------------
(* Independent packages can be built concurrently (property C18).

   K builders, each with its own package object and importer, execute programs made of
   *features* (short fixed builder snippets).  All builders share the package-level objects
   of the library: singleton identifier nodes (true, false, nil, _, append, len, cap, new,
   make, iota), the helper statements of the range-over-enumerator lowering, the constraint
   terms and shared type objects.  A package may customise its *own* builtin-type-info table
   (feature btiadd: Package.BuiltinTI(T).AddMethods) and may be configured with its own big-number
   types (every builder is): neither may be visible to another package (feature btiuse looks the
   added method up and must not find it).  Reads[f] is the set of shared objects feature f touches
   (read from the code); Writes[f] must be empty for the property to hold: the mutation
   sites of the library (CheckParenExpr on a selector, setDenoted, overload selector rewrite,
   import renaming) only ever receive nodes a builder created itself.

   TLC explores every interleaving of the builders' steps and checks
     NoSharedWrite   no step writes a shared object
     RaceFree        no two builders access the same object with at least one write
   and prints every program tuple; the harness (a) runs every feature alone between two deep
   snapshots of the shared objects (a write is detected without needing a lucky schedule),
   (b) runs the program tuples on unsynchronised goroutines under the race detector and
   compares each package's bytes with its sequential build.  Mutating makes a feature write
   (sabotage: TLC must refute both invariants). *)
EXTENDS Integers, Sequences, FiniteSets, TLC, Json
CONSTANTS Builders, ProgLen, Mutating
Features == {"nil", "bool", "builtins", "iota", "blank", "rangeudt", "operators", "import", "paren", "btimethod", "closure", "lits", "btiadd", "btiuse"}
FeatSeq == <<"nil", "bool", "builtins", "iota", "blank", "rangeudt", "operators", "import", "paren", "btimethod", "closure", "lits", "btiadd", "btiuse">>
Idx(f) == CHOOSE i \in 1..Len(FeatSeq) : FeatSeq[i] = f
Reads == [f \in Features |->
  CASE f = "nil" -> {"identNil"} [] f = "bool" -> {"identTrue", "identFalse"}
    [] f = "builtins" -> {"identAppend", "identLen", "identCap", "identNew", "identMake"}
    [] f = "iota" -> {"identIota"} [] f = "blank" -> {"underscore"}
    [] f = "rangeudt" -> {"identXgoOk", "identXgoIt", "stmtXGoOkDecl", "stmtBreakIfNotXGoOk", "exprIterNext"}
    [] f = "operators" -> {"constraints"} [] f \in {"btimethod", "btiadd", "btiuse"} -> {"tyChan", "tySlice"}
    [] OTHER -> {}]
Writes == [f \in Features |-> IF f \in Mutating THEN Reads[f] \cup {"identNil"} ELSE {}]
VARIABLES prog, pc, acc
vars == <<prog, pc, acc>>
Progs == [1..ProgLen -> Features]
\* programs are ordered tuples up to symmetry of the builders
Init == /\ prog \in [Builders -> Progs] /\ pc = [b \in Builders |-> 1] /\ acc = {}
        /\ \A b1, b2 \in Builders : b1 < b2 => Idx(prog[b1][1]) <= Idx(prog[b2][1])
Step(b) == /\ pc[b] <= ProgLen
           /\ LET f == prog[b][pc[b]] IN
              acc' = acc \cup {<<b, o, "r">> : o \in Reads[f]} \cup {<<b, o, "w">> : o \in Writes[f]}
           /\ pc' = [pc EXCEPT ![b] = @ + 1] /\ UNCHANGED prog
Next == \E b \in Builders : Step(b)
Spec == Init /\ [][Next]_vars
NoSharedWrite == \A a \in acc : a[3] = "r"
RaceFree == \A a1, a2 \in acc : (a1[1] # a2[1] /\ a1[2] = a2[2]) => (a1[3] = "r" /\ a2[3] = "r")
Done == \A b \in Builders : pc[b] > ProgLen
Emit == Done => PrintT(ToJson(prog))
=============================================================================
