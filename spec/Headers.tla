------------------------------- MODULE Headers -------------------------------
(* Expressions in statement headers (property C02; mechanism "parenthesisation of composite
   literals in statement headers").

   A front end hands the builder an expression tree operation by operation; the builder decides
   where the printed text needs protective parentheses.  The Go specification (Composite literals):

     "A parsing ambiguity arises when a composite literal using the TypeName form of the
      LiteralType appears as an operand between the keyword and the opening brace of the block
      of an if, for, or switch statement, and the composite literal is not enclosed in
      parentheses, square brackets, or curly braces."

   Exposed(e) transcribes "appears as an operand ... not enclosed" over expression trees;
   Ambiguous(ctx, e) is the rule.  The state space is every placement of every expression tree of
   the grammar below in every statement context.  For each point the model says whether the text
   without protective parentheses is ambiguous (validated against go/parser by the harness) - the
   program itself is valid Go either way, so the builder must accept it and emit text that parses
   back to the same tree (C02). *)
EXTENDS Integers, Sequences, TLC, Json
CONSTANTS MaxChain

(* ---- expression trees ---- *)
Var(n) == [k |-> "var", n |-> n]
IntL(v) == [k |-> "int", v |-> v]
StrL == [k |-> "str"]
Lit(t) == [k |-> "lit", t |-> t]                    \* TypeName form: N{v: 1}, image.Point{X: 1}
Addr(x) == [k |-> "addr", x |-> x]
Sel(x, n) == [k |-> "sel", x |-> x, n |-> n]
Call(f, args) == [k |-> "call", f |-> f, args |-> args]
Index(x, i) == [k |-> "index", x |-> x, i |-> i]
SliceOf(x) == [k |-> "slice", x |-> x]               \* x[0:1]
Bin(op, a, b) == [k |-> "bin", op |-> op, a |-> a, b |-> b]
Not(x) == [k |-> "not", x |-> x]
SliceLit == [k |-> "slicelit"]                       \* []N{{v: 1}}            (literal type is not a type name)
MapLit == [k |-> "maplit"]                           \* map[string]N{"a": {v: 1}}
AnonLit == [k |-> "anonlit"]                         \* struct{ok bool; v int}{true, 1}
FuncCall == [k |-> "funccall"]                       \* func() N { return N{v: 1} }()

(* ---- the Go rule ---- *)
\* a unary or binary expression used as the operand of a selector, call, index or slice is necessarily written
\* in parentheses (precedence), which encloses whatever it contains
Primary(x) == x.k \notin {"addr", "not", "bin"}
RECURSIVE Exposed(_)
Exposed(e) ==
  CASE e.k = "lit" -> TRUE
    [] e.k \in {"addr", "not"} -> Exposed(e.x)
    [] e.k \in {"sel", "slice"} -> Primary(e.x) /\ Exposed(e.x)
    [] e.k = "call" -> Primary(e.f) /\ Exposed(e.f)  \* arguments are enclosed in parentheses
    [] e.k = "index" -> Primary(e.x) /\ Exposed(e.x) \* the index is enclosed in brackets
    [] e.k = "bin" -> Exposed(e.a) \/ Exposed(e.b)
    [] OTHER -> FALSE                                \* variables, basic literals, literals of non-name types (elements in braces), function literals
HeaderCtx == {"if-cond", "if-init", "elseif-cond", "for-cond", "for-init", "for-post", "switch-tag", "switch-init", "tswitch-x", "range-x", "switch-tag-self"}
PlainCtx == {"case-expr", "assign", "return", "call-stmt"}
Ambiguous(ctx, e) == ctx \in HeaderCtx /\ Exposed(e)

(* ---- grammar: base, chain of steps, final ---- *)
\* class of the value an expression denotes: N (struct N), PN (*N), Pt (image.Point), A (anonymous struct)
Bases == {<<"N", Lit("N")>>, <<"PN", Addr(Lit("N"))>>, <<"N", Var("vn")>>, <<"N", Index(SliceLit, IntL(0))>>, <<"N", Index(MapLit, StrL)>>,
          <<"N", FuncCall>>, <<"Pt", Lit("Pt")>>, <<"A", AnonLit>>, <<"G", Lit("G")>>}       \* G: an instantiated generic type G[int]{v: 1} (an index expression as literal type)
\* steps keep or change the class
Steps(c) == CASE c \in {"N", "PN"} -> {<<"N", "M">>, <<"PN", "p">>}
              [] c = "Pt" -> {<<"Pt", "Add">>}
              [] OTHER -> {}
ApplyStep(e, s) == CASE s = "M" -> Call(Sel(e, "M"), <<>>)
                     [] s = "p" -> Sel(e, "p")
                     [] s = "Add" -> Call(Sel(e, "Add"), <<Var("pt")>>)
RECURSIVE Chains(_, _, _)
Chains(c, e, n) == {<<c, e>>} \cup (IF n = 0 THEN {} ELSE UNION {Chains(s[1], ApplyStep(e, s[2]), n - 1) : s \in Steps(c)})
\* finals: <<kind of the result, name>>
Finals(c) == CASE c \in {"N", "PN"} -> {<<"bool", "ok">>, <<"bool", "eqL">>, <<"bool", "eqR">>, <<"bool", "not">>, <<"bool", "andR">>, <<"bool", "idxin">>,
                                         <<"int", "v">>, <<"int", "plus">>, <<"int", "arr0">>, <<"slice", "arr">>, <<"slice", "arrslice">>, <<"any", "e">>}
                                        \cup (IF c = "N" THEN {<<"bool", "callarg">>, <<"int", "callint">>} ELSE {})
               [] c = "Pt" -> {<<"bool", "Eq">>, <<"bool", "XeqL">>, <<"int", "X">>}
               [] c = "A" -> {<<"bool", "ok">>, <<"bool", "eqL">>, <<"bool", "eqR">>, <<"int", "v">>}
               [] c = "G" -> {<<"bool", "ok">>, <<"bool", "eqL">>, <<"bool", "eqR">>, <<"bool", "not">>, <<"bool", "andR">>, <<"int", "v">>, <<"int", "plus">>, <<"self", "self">>}
ApplyFinal(e, f) ==
  CASE f = "ok" -> Sel(e, "ok")
    [] f = "eqL" -> Bin("==", Sel(e, "v"), IntL(1))
    [] f = "eqR" -> Bin("==", IntL(1), Sel(e, "v"))
    [] f = "not" -> Not(Sel(e, "ok"))
    [] f = "andR" -> Bin("&&", Var("p"), Sel(e, "ok"))
    [] f = "idxin" -> Index(Var("bs"), Sel(e, "v"))
    [] f = "callarg" -> Call(Var("fb"), <<e>>)
    [] f = "callint" -> Call(Var("fi"), <<e>>)
    [] f = "v" -> Sel(e, "v")
    [] f = "plus" -> Bin("+", Sel(e, "v"), IntL(1))
    [] f = "arr0" -> Index(Sel(e, "arr"), IntL(0))
    [] f = "arr" -> Sel(e, "arr")
    [] f = "arrslice" -> SliceOf(Sel(e, "arr"))
    [] f = "e" -> Sel(e, "e")
    [] f = "Eq" -> Call(Sel(e, "Eq"), <<Var("pt")>>)
    [] f = "XeqL" -> Bin("==", Sel(e, "X"), IntL(1))
    [] f = "X" -> Sel(e, "X")
    [] f = "self" -> e
Exprs == UNION {UNION {{<<f[1], ApplyFinal(ce[2], f[2])>> : f \in Finals(ce[1])} : ce \in Chains(b[1], b[2], MaxChain)} : b \in Bases}
\* the kind of expression a context takes
Wants(ctx) == CASE ctx \in {"if-cond", "elseif-cond", "for-cond", "return", "call-stmt"} -> "bool"
                [] ctx \in {"if-init", "for-init", "for-post", "switch-tag", "switch-init", "case-expr", "assign"} -> "int"
                [] ctx = "tswitch-x" -> "any"
                [] ctx = "range-x" -> "slice"
                [] ctx = "switch-tag-self" -> "self"        \* the literal itself is the tag: switch (G[int]{v: 1}) { }  (class G only: N is not comparable)

VARIABLE pt
Init == pt \in UNION {{<<ctx, ke[2]>> : ke \in {x \in Exprs : x[1] = Wants(ctx)}} : ctx \in HeaderCtx \cup PlainCtx}
Next == UNCHANGED pt
\* laws of the rule: parenthesising removes the ambiguity; plain contexts are never ambiguous; a variable is never exposed
Paren(e) == [k |-> "paren", x |-> e]
Laws == /\ ~Exposed(Paren(pt[2]))
        /\ (pt[1] \in PlainCtx => ~Ambiguous(pt[1], pt[2]))
        /\ ~Exposed(Var("vn"))
Emit == PrintT(ToJson([ctx |-> pt[1], e |-> pt[2], amb |-> Ambiguous(pt[1], pt[2]), header |-> pt[1] \in HeaderCtx]))
=============================================================================
