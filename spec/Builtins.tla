------------------------------ MODULE Builtins ------------------------------
(* The predeclared functions (properties C01-C04, C17): len cap new make append copy delete complex real imag
   min max clear close panic and unsafe.Sizeof / Alignof / Offsetof.

   The Go specification's rules for each of them as an operator over a small closed universe of operands:
   which calls are valid, the type of the result, whether the result is a constant and then its exact value.
   Every point yields Ok(type, constant) or Err(reason).  TLC evaluates every point of the grid; go/types on the
   same call validates the model on every point (validity, type and constant value); the harness builds the
   call with the real CodeBuilder: acceptance (C01 / C02), reported type (C03), carried constant (C04),
   totality (C17). *)
EXTENDS Integers, Sequences, FiniteSets, TLC, Json

(* ---- operands ---- *)
\* k: "var" typed variable | "const" untyped constant (ck: int float complex string; value n/d, complex: n/d + in/1 i)
\*    "tconst" typed constant | "nil" | "type" a type operand (make, new)
Op(src, k, ty, ck, n, d) == [src |-> src, k |-> k, ty |-> ty, ck |-> ck, n |-> n, d |-> d]
V(src, ty) == Op(src, "var", ty, "", 0, 1)
Cn(src, ck, n, d) == Op(src, "const", "", ck, n, d)
TC(src, ty, ck, n, d) == Op(src, "tconst", ty, ck, n, d)
Ty(t) == Op(t, "type", t, "", 0, 1)
Nil == Op("nil", "nil", "", "", 0, 1)
c0 == Cn("0", "int", 0, 1)
c1 == Cn("1", "int", 1, 1)
c2 == Cn("2", "int", 2, 1)
c300 == Cn("300", "int", 300, 1)
cneg == Cn("-1", "int", -1, 1)
cf == Cn("1.5", "float", 3, 2)
cf1 == Cn("1.0", "float", 1, 1)
ci == Cn("2i", "complex", 0, 1)            \* imaginary part 2 (the only complex constant: handled by name)
cs == Cn("\"s\"", "string", 1, 1)           \* for strings n is the length
cabc == Cn("\"abc\"", "string", 3, 1)
k8 == TC("k8", "int8", "int", 100, 1)
kf == TC("kf", "float64", "float", 5, 2)
kstr == TC("kstr", "string", "string", 2, 1)      \* "hi"
vi == V("vi", "int")
vi8 == V("vi8", "int8")
vu == V("vu", "uint")
vmy == V("vmy", "MyInt")
vf == V("vf", "float64")
vf2 == V("vf2", "float64")
vc == V("vc", "complex128")
vs == V("vs", "string")
vb == V("vb", "[]uint8")
vsl == V("vsl", "[]int")
vss == V("vss", "[]string")
vmysl == V("vmysl", "MySlice")
varr == V("varr", "[2]int")
vparr == V("vparr", "*[2]int")
vm == V("vm", "map[string]int")
vch == V("vch", "chan int")
vrch == V("vrch", "<-chan int")
vsch == V("vsch", "chan<- int")
vpi == V("vpi", "*int")
va == V("va", "any")
vbool == V("vbool", "bool")
vS == V("vS", "S")                          \* struct { a int8; b int64; c string }

(* ---- types ---- *)
Kind(t) == CASE t \in {"int", "int8", "uint", "MyInt"} -> "integer"
             [] t = "float64" -> "float"
             [] t = "complex128" -> "complex"
             [] t = "string" -> "string"
             [] t \in {"[]int", "MySlice", "[]uint8", "[]string"} -> "slice"
             [] t = "[2]int" -> "array"
             [] t = "*[2]int" -> "ptrarray"
             [] t = "map[string]int" -> "map"
             [] t \in {"chan int", "<-chan int", "chan<- int"} -> "chan"
             [] t = "any" -> "iface"
             [] OTHER -> "other"
Elem(t) == CASE t \in {"[]int", "MySlice"} -> "int" [] t = "[]uint8" -> "uint8" [] t = "[]string" -> "string" [] OTHER -> ""
IsConst(o) == o.k \in {"const", "tconst"}
IsNum(o) == IsConst(o) /\ o.ck \in {"int", "float"}
IsIntegral(o) == IsNum(o) /\ o.d = 1
\* is the untyped constant o representable in type t
Repr(o, t) == CASE t \in {"int", "MyInt", "uint"} -> IsIntegral(o) /\ (t = "uint" => o.n >= 0)
                [] t = "int8" -> IsIntegral(o) /\ o.n >= -128 /\ o.n <= 127
                [] t = "uint8" -> IsIntegral(o) /\ o.n >= 0 /\ o.n <= 255
                [] t = "float64" -> IsNum(o)
                [] t = "complex128" -> IsNum(o) \/ o.ck = "complex"
                [] t = "string" -> o.ck = "string"
                [] t = "any" -> TRUE
                [] OTHER -> FALSE
Nillable(t) == Kind(t) \in {"slice", "map", "chan", "iface", "ptrarray"} \/ t = "*int"
Assignable(o, t) == CASE o.k \in {"var", "tconst"} -> o.ty = t \/ t = "any"
                      [] o.k = "nil" -> Nillable(t)
                      [] o.k = "const" -> Repr(o, t)
                      [] OTHER -> FALSE

(* ---- results ---- *)
\* cv: <<>> not constant | <<"num", n, d>> | <<"str", len>> | <<"cplx", rn, rd, in, id>> | <<"p2m", w, k>> = 2^w - k;  ut: the result is an untyped constant
\* (ty is then the default type)
Err(w) == [ok |-> FALSE, why |-> w, ty |-> "", cv |-> <<>>, ut |-> FALSE]
Ok(t) == [ok |-> TRUE, why |-> "", ty |-> t, cv |-> <<>>, ut |-> FALSE]
OkC(t, cv, ut) == [ok |-> TRUE, why |-> "", ty |-> t, cv |-> cv, ut |-> ut]
Stmt == Ok("")

(* ---- len, cap ---- *)
LenCap(fn, x) ==
  CASE x.k = "const" /\ x.ck = "string" /\ fn = "len" -> OkC("int", <<"num", x.n, 1>>, FALSE)
    [] x.k = "tconst" /\ x.ck = "string" /\ fn = "len" -> OkC("int", <<"num", x.n, 1>>, FALSE)
    [] x.k = "var" /\ Kind(x.ty) \in {"array", "ptrarray"} -> OkC("int", <<"num", 2, 1>>, FALSE)
    [] x.k = "var" /\ Kind(x.ty) \in {"slice", "chan"} -> Ok("int")
    [] x.k = "var" /\ Kind(x.ty) \in {"string", "map"} /\ fn = "len" -> Ok("int")
    [] OTHER -> Err("badarg")

(* ---- new, make ---- *)
New(t) == Ok("*" \o t.ty)
SizeErr(o) == CASE o.k = "var" -> IF Kind(o.ty) = "integer" THEN "" ELSE "size"
                [] IsConst(o) -> IF ~IsIntegral(o) THEN "size" ELSE IF o.n < 0 THEN "negsize" ELSE ""
                [] OTHER -> "size"
Make(t, sz) ==
  LET kd == Kind(t.ty)
      maxn == CASE kd = "slice" -> 2 [] kd \in {"map", "chan"} -> 1 [] OTHER -> -1 IN
  IF maxn < 0 THEN Err("cannotmake")
  ELSE IF kd = "slice" /\ Len(sz) = 0 THEN Err("missinglen")
  ELSE IF Len(sz) > maxn THEN Err("toomany")
  ELSE IF \E i \in 1..Len(sz) : SizeErr(sz[i]) # "" THEN Err(SizeErr(sz[CHOOSE i \in 1..Len(sz) : SizeErr(sz[i]) # ""]))
  ELSE IF Len(sz) = 2 /\ IsConst(sz[1]) /\ IsConst(sz[2]) /\ sz[1].n > sz[2].n THEN Err("lencap")
  ELSE Ok(t.ty)

(* ---- append, copy, delete, clear, close, panic ---- *)
IsStringOp(o) == (o.k = "var" /\ o.ty = "string") \/ (IsConst(o) /\ o.ck = "string")
AppendB(s, xs, spread) ==
  IF s.k # "var" \/ Kind(s.ty) # "slice" THEN Err("notslice")
  ELSE IF spread THEN
         LET x == xs[1] IN
         IF s.ty = "[]uint8" /\ IsStringOp(x) THEN Ok(s.ty)
         ELSE IF x.k = "nil" \/ (x.k = "var" /\ Kind(x.ty) = "slice" /\ Elem(x.ty) = Elem(s.ty)) THEN Ok(s.ty)
         ELSE Err("spread")
  ELSE IF \E i \in 1..Len(xs) : ~Assignable(xs[i], Elem(s.ty)) THEN Err("elem")
  ELSE Ok(s.ty)
Copy(dst, src) ==
  IF dst.k = "var" /\ dst.ty = "[]uint8" /\ IsStringOp(src) THEN Ok("int")
  ELSE IF dst.k = "var" /\ src.k = "var" /\ Kind(dst.ty) = "slice" /\ Kind(src.ty) = "slice" /\ Elem(dst.ty) = Elem(src.ty) THEN Ok("int")
  ELSE Err("copy")
Delete(m, key) == IF m.k # "var" \/ Kind(m.ty) # "map" THEN Err("notmap") ELSE IF ~Assignable(key, "string") THEN Err("key") ELSE Stmt
Clear(x) == IF x.k = "var" /\ Kind(x.ty) \in {"map", "slice"} THEN Stmt ELSE Err("clear")
Close(x) == IF x.k = "var" /\ x.ty \in {"chan int", "chan<- int"} THEN Stmt ELSE Err("close")
Panic(x) == Stmt

(* ---- complex, real, imag ---- *)
Complex(r, i) ==
  LET fl(o) == o.k \in {"var", "tconst"} /\ o.ty = "float64" IN
  CASE r.k = "const" /\ i.k = "const" /\ IsNum(r) /\ IsNum(i) -> OkC("complex128", <<"cplx", r.n, r.d, i.n, i.d>>, TRUE)
    [] fl(r) /\ fl(i) -> IF r.k = "tconst" /\ i.k = "tconst" THEN OkC("complex128", <<"cplx", r.n, r.d, i.n, i.d>>, FALSE) ELSE Ok("complex128")
    [] fl(r) /\ i.k = "const" /\ IsNum(i) -> IF r.k = "tconst" THEN OkC("complex128", <<"cplx", r.n, r.d, i.n, i.d>>, FALSE) ELSE Ok("complex128")
    [] r.k = "const" /\ IsNum(r) /\ fl(i) -> IF i.k = "tconst" THEN OkC("complex128", <<"cplx", r.n, r.d, i.n, i.d>>, FALSE) ELSE Ok("complex128")
    [] OTHER -> Err("complex")
RealImag(fn, c) ==
  CASE c.k = "var" /\ c.ty = "complex128" -> Ok("float64")
    [] c.k = "const" /\ IsNum(c) -> OkC("float64", IF fn = "real" THEN <<"num", c.n, c.d>> ELSE <<"num", 0, 1>>, TRUE)
    [] c.k = "const" /\ c.ck = "complex" -> OkC("float64", IF fn = "real" THEN <<"num", 0, 1>> ELSE <<"num", 2, 1>>, TRUE)
    [] OTHER -> Err("notcomplex")

(* ---- min, max ---- *)
Ordered(o) == CASE o.k = "var" -> Kind(o.ty) \in {"integer", "float", "string"}
                [] IsConst(o) -> o.ck \in {"int", "float", "string"}
                [] OTHER -> FALSE
Typed(o) == o.k \in {"var", "tconst"}
\* string order: the operands are "abc" < "hi" < "s" (kstr stands for "hi")
StrRank(o) == CASE o.src = "\"abc\"" -> 1 [] o.src = "kstr" -> 2 [] OTHER -> 3
LessC(a, b) == IF a.ck = "string" THEN StrRank(a) < StrRank(b) ELSE a.n * b.d < b.n * a.d
RECURSIVE Best(_, _, _)
Best(fn, xs, i) == IF i = Len(xs) THEN xs[i]
                   ELSE LET r == Best(fn, xs, i + 1) IN
                        IF fn = "min" THEN (IF LessC(r, xs[i]) THEN r ELSE xs[i]) ELSE (IF LessC(xs[i], r) THEN r ELSE xs[i])
CvOf(o) == IF o.ck = "string" THEN <<"str", o.n>> ELSE <<"num", o.n, o.d>>
MinMax(fn, xs) ==
  LET typed == {i \in 1..Len(xs) : Typed(xs[i])}
      allc == \A i \in 1..Len(xs) : IsConst(xs[i]) IN
  IF \E i \in 1..Len(xs) : ~Ordered(xs[i]) THEN Err("notordered")
  ELSE IF typed # {} THEN
         LET t == xs[CHOOSE i \in typed : TRUE].ty IN
         IF \E i \in typed : xs[i].ty # t THEN Err("mismatch")
         ELSE IF \E i \in 1..Len(xs) : xs[i].k = "const" /\ ~Repr(xs[i], t) THEN Err("mismatch")
         ELSE IF allc THEN OkC(t, CvOf(Best(fn, xs, 1)), FALSE) ELSE Ok(t)
  ELSE \* untyped constants only
       IF \E i, j \in 1..Len(xs) : (xs[i].ck = "string") # (xs[j].ck = "string") THEN Err("mismatch")
       ELSE LET dt == IF xs[1].ck = "string" THEN "string" ELSE IF \E i \in 1..Len(xs) : xs[i].ck = "float" THEN "float64" ELSE "int" IN
            OkC(dt, CvOf(Best(fn, xs, 1)), TRUE)

(* ---- unsafe.Sizeof / Alignof / Offsetof (gc, 64 bit) ---- *)
SizeOf(t) == CASE t \in {"int", "uint", "MyInt", "float64", "*int", "*[2]int", "map[string]int", "chan int", "<-chan int", "chan<- int"} -> 8
               [] t = "int8" -> 1 [] t = "bool" -> 1
               [] t \in {"string", "complex128", "any", "[2]int"} -> 16
               [] t \in {"[]int", "MySlice", "[]uint8", "[]string"} -> 24
               [] t = "S" -> 32
               [] OTHER -> 0
AlignOf(t) == IF t \in {"int8", "bool"} THEN 1 ELSE 8
Unsafe(fn, x) ==
  CASE fn = "Offsetof" -> Err("notselector")       \* the selector forms are separate points (field operands below)
    [] x.k = "var" -> OkC("uintptr", <<"num", IF fn = "Sizeof" THEN SizeOf(x.ty) ELSE AlignOf(x.ty), 1>>, FALSE)
    [] x.k = "tconst" -> OkC("uintptr", <<"num", IF fn = "Sizeof" THEN SizeOf(x.ty) ELSE AlignOf(x.ty), 1>>, FALSE)
    [] x.k = "const" -> OkC("uintptr", <<"num", CASE x.ck = "string" -> (IF fn = "Sizeof" THEN 16 ELSE 8) [] x.ck = "complex" -> (IF fn = "Sizeof" THEN 16 ELSE 8) [] OTHER -> 8, 1>>, FALSE)
    [] OTHER -> Err("unsafe")
\* fields of vS: a int8 @0, b int64 @8, c string @16
Field(f) == Op("vS." \o f, "field", CASE f = "a" -> "int8" [] f = "b" -> "int64" [] OTHER -> "string", "", CASE f = "a" -> 0 [] f = "b" -> 8 [] OTHER -> 16, 1)
UnsafeField(fn, x) == OkC("uintptr", <<"num", CASE fn = "Offsetof" -> x.n [] fn = "Sizeof" -> (CASE x.ty = "int8" -> 1 [] x.ty = "int64" -> 8 [] OTHER -> 16) [] OTHER -> (IF x.ty = "int8" THEN 1 ELSE 8), 1>>, FALSE)

(* ---- ^x of an unsigned typed constant: the complement within the width of the type (2^w - 1 - x, written 2^w - (x + 1)) ---- *)
\* operands [src, "uconst", type, "int", value, width]; unsafe.Sizeof and friends are uintptr constants
UC(src, t, w, n) == Op(src, "uconst", t, "int", n, w)
UConsts == {UC("uint8(1)", "uint8", 8, 1), UC("uint16(1)", "uint16", 16, 1), UC("uint32(5)", "uint32", 32, 5), UC("uint64(1)", "uint64", 64, 1),
            UC("uint(0)", "uint", 64, 0), UC("uintptr(1)", "uintptr", 64, 1), UC("unsafe.Sizeof(vi)", "uintptr", 64, 8), UC("unsafe.Alignof(vi8)", "uintptr", 64, 1)}
Compl(x) == OkC(x.ty, <<"p2m", x.d, x.n + 1>>, FALSE)

(* ---- the grid ---- *)
RECURSIVE SeqsUpTo(_, _)
SeqsUpTo(A, n) == IF n = 0 THEN {<<>>} ELSE LET shorter == SeqsUpTo(A, n - 1) IN shorter \cup {Append(q, x) : q \in {r \in shorter : Len(r) = n - 1}, x \in A}
Vars == {vi, vi8, vu, vmy, vf, vc, vs, vb, vsl, vss, vmysl, varr, vparr, vm, vch, vrch, vsch, vpi, va, vbool, vS}
Types == {Ty("[]int"), Ty("MySlice"), Ty("map[string]int"), Ty("chan int"), Ty("int"), Ty("[2]int"), Ty("*int")}
Sizes == {c1, c2, cneg, cf1, cf, cs, vi, vu, vf, k8}
AppVals == {c1, c300, cf, cs, vi, vs, vmy, vsl, vmysl, vb, Nil, va}
CopyOps == {vsl, vmysl, vb, vss, varr, vs, cs, Nil, vm}
CplxOps == {c1, cf, cs, vf, vf2, vi, vc, kf, k8}
MinOps == {c1, c2, cf, cs, cabc, vi, vf, vs, vmy, vc, vsl, k8, kf, kstr, Nil}
P(fn, args, spread) == [fn |-> fn, args |-> args, spread |-> spread]
Points ==
  {P(fn, <<x>>, FALSE) : fn \in {"len", "cap"}, x \in Vars \cup {c1, cs, cabc, kstr, Nil}}
  \cup {P("new", <<t>>, FALSE) : t \in Types}
  \cup {P("make", <<t>> \o sz, FALSE) : t \in Types, sz \in SeqsUpTo(Sizes, 3)}
  \cup {P("append", <<s>> \o xs, FALSE) : s \in {vsl, vmysl, vb, vss, varr, vs, Nil}, xs \in SeqsUpTo(AppVals, 2)}
  \cup {P("append", <<s, x>>, TRUE) : s \in {vsl, vmysl, vb, vss, varr, vs, Nil}, x \in AppVals \cup {cabc, vss}}
  \cup {P("copy", <<d, s>>, FALSE) : d \in CopyOps, s \in CopyOps}
  \cup {P("delete", <<m, key>>, FALSE) : m \in {vm, vsl, vi}, key \in {cs, c1, vs, vi, Nil, va, kstr}}
  \cup {P("complex", <<r, i>>, FALSE) : r \in CplxOps, i \in CplxOps}
  \cup {P(fn, <<c>>, FALSE) : fn \in {"real", "imag"}, c \in {vc, vf, vi, c1, cf, ci, cs, kf}}
  \cup {P(fn, xs, FALSE) : fn \in {"min", "max"}, xs \in SeqsUpTo(MinOps, 3) \ {<<>>}}
  \cup {P("clear", <<x>>, FALSE) : x \in {vm, vsl, vmysl, varr, vparr, vs, vi, Nil}}
  \cup {P("close", <<x>>, FALSE) : x \in {vch, vrch, vsch, vi, Nil}}
  \cup {P("panic", <<x>>, FALSE) : x \in {c1, cs, Nil, vi, va}}
  \cup {P(fn, <<x>>, FALSE) : fn \in {"Sizeof", "Alignof"}, x \in Vars \cup {c1, cf, cs, k8, kf}}
  \cup {P(fn, <<Field(f)>>, FALSE) : fn \in {"Sizeof", "Alignof", "Offsetof"}, f \in {"a", "b", "c"}}
  \cup {P("compl", <<x>>, FALSE) : x \in UConsts}
VARIABLE pt
Init == pt \in Points
Next == UNCHANGED pt
Res == LET a == pt.args IN
       CASE pt.fn \in {"len", "cap"} -> LenCap(pt.fn, a[1])
         [] pt.fn = "new" -> New(a[1])
         [] pt.fn = "make" -> Make(a[1], SubSeq(a, 2, Len(a)))
         [] pt.fn = "append" -> AppendB(a[1], SubSeq(a, 2, Len(a)), pt.spread)
         [] pt.fn = "copy" -> Copy(a[1], a[2])
         [] pt.fn = "delete" -> Delete(a[1], a[2])
         [] pt.fn = "complex" -> Complex(a[1], a[2])
         [] pt.fn \in {"real", "imag"} -> RealImag(pt.fn, a[1])
         [] pt.fn \in {"min", "max"} -> MinMax(pt.fn, a)
         [] pt.fn = "clear" -> Clear(a[1])
         [] pt.fn = "close" -> Close(a[1])
         [] pt.fn = "panic" -> Panic(a[1])
         [] pt.fn = "compl" -> Compl(a[1])
         [] a[1].k = "field" -> UnsafeField(pt.fn, a[1])
         [] OTHER -> Unsafe(pt.fn, a[1])
\* laws: a constant result needs constant operands (len / cap of arrays and the unsafe functions excepted); min <= max;
\* appending never changes the type of the slice
ConstNeedsConst == (Res.ok /\ Res.cv # <<>> /\ pt.fn \in {"min", "max", "complex", "real", "imag"}) => \A i \in 1..Len(pt.args) : IsConst(pt.args[i])
MinLeMax == (pt.fn = "min" /\ Res.ok /\ Res.cv # <<>> /\ Res.cv[1] = "num") =>
              LET mx == MinMax("max", pt.args).cv IN Res.cv[2] * mx[3] <= mx[2] * Res.cv[3]
AppendKeepsType == (pt.fn = "append" /\ Res.ok) => Res.ty = pt.args[1].ty
Emit == PrintT(ToJson([pt |-> pt, ok |-> Res.ok, why |-> Res.why, ty |-> Res.ty, cv |-> Res.cv, ut |-> Res.ut]))
=============================================================================
