------------------------------- MODULE Infer -------------------------------
(* Generic inference and instantiation (property C07): a fragment of Go's type-argument inference.

   Type terms are records; a signature has type parameters with constraints and parameter types
   that mention them at depth (slices, maps, pointers, function types, variadic).  Infer follows
   the Go specification / go/types (1.21+) in its order:

     0  explicit type arguments (a prefix of the type-parameter list) are bound first
     1  every *typed* argument whose parameter type mentions a type parameter is unified with it.
        Unification is inexact at the top: a defined type and a type literal match when the defined
        type's underlying type matches, and a type parameter already bound to a literal type is
        re-bound to the defined type; below the top constructor it is exact
     2  core types: for S ~[]E, a bound S gives E
     3  untyped constants: a still unbound type parameter used bare as parameter type takes the
        default type of the largest kind among its untyped constant arguments (mixing numeric and
        string kinds fails); untyped nil contributes nothing
     4  every type parameter must be bound ("cannot infer T")
     5  every type argument must satisfy its constraint
     6  the arguments must be assignable to the instantiated parameter types

   The outcome of a point is the vector of type arguments or "fail".  The harness validates the
   outcome of every point against go/types (Info.Instances of a one-line call) - the fragment's
   reference semantics *is* go/types - and replays it through the real CodeBuilder. *)
EXTENDS Integers, Sequences, FiniteSets, TLC, Json
CONSTANTS SigIds, Forms, ExplNames, MaxExpl, MaxVariadic, FvSigs, TypeInst, PvSigs

(* ---- types ---- *)
B(n) == [k |-> "b", n |-> n]
Nm(n, u) == [k |-> "n", n |-> n, u |-> u]
SlT(e) == [k |-> "sl", e |-> e]
MapT(key, v) == [k |-> "map", key |-> key, v |-> v]
PtrT(e) == [k |-> "ptr", e |-> e]
FnT(ps, r) == [k |-> "fn", ps |-> ps, r |-> r]
TP(i) == [k |-> "tp", i |-> i]
NoT == [k |-> "none"]
TInt == B("int")
TF64 == B("float64")
TStr == B("string")
MyInt == Nm("MyInt", TInt)
MySl == Nm("MySl", SlT(TInt))
MyLab == Nm("MyLab", TStr)             \* the only type of the universe with a method: func (MyLab) String() string
Under(t) == IF t.k = "n" THEN t.u ELSE t
HasName(t) == t.k \in {"b", "n", "tp"}
RECURSIVE HasTP(_)
HasTP(t) == CASE t.k = "tp" -> TRUE
              [] t.k \in {"sl", "ptr"} -> HasTP(t.e)
              [] t.k = "map" -> HasTP(t.key) \/ HasTP(t.v)
              [] t.k = "fn" -> HasTP(t.r) \/ \E j \in 1..Len(t.ps) : HasTP(t.ps[j])
              [] OTHER -> FALSE

ExplT(n) == CASE n = "int" -> TInt [] n = "float64" -> TF64 [] n = "string" -> TStr [] n = "MyInt" -> MyInt [] n = "MySl" -> MySl [] n = "MyLab" -> MyLab [] n = "[]int" -> SlT(TInt)
             [] n = "[]string" -> SlT(TStr) [] n = "[]float64" -> SlT(TF64)
ExplTypes == {ExplT(n) : n \in ExplNames}

(* ---- argument forms ---- *)
FormType(f) == CASE f = "vi" -> TInt [] f = "vf" -> TF64 [] f = "vs" -> TStr [] f = "vmy" -> MyInt [] f = "vsl" -> SlT(TInt) [] f = "vmysl" -> MySl
                 [] f = "vslf" -> SlT(TF64) [] f = "vm" -> MapT(TStr, TInt) [] f = "vpi" -> PtrT(TInt) [] f = "vfis" -> FnT(<<TInt>>, TStr)
                 [] f = "vfii" -> FnT(<<TInt>>, TInt) [] OTHER -> NoT
UntypedConst(f) == f \in {"c1", "c15", "cs"}
IsTyped(f) == FormType(f) # NoT

(* ---- signatures: tps = constraints of the type parameters, ps = parameter types, var = variadic ---- *)
Sg(tps, ps, var) == [tps |-> tps, ps |-> ps, var |-> var]
Sig(i) ==
  CASE i = 1 -> Sg(<<"any">>, <<TP(1)>>, FALSE)                                           \* Id[T any](x T)
    [] i = 2 -> Sg(<<"comparable">>, <<TP(1), TP(1)>>, FALSE)                             \* Eq[T comparable](a, b T)
    [] i = 3 -> Sg(<<"num">>, <<TP(1)>>, TRUE)                                            \* Sum[T int|float64](xs ...T)
    [] i = 4 -> Sg(<<"any", "any">>, <<SlT(TP(1)), FnT(<<TP(1)>>, TP(2))>>, FALSE)         \* Map[T, U any](s []T, f func(T) U)
    [] i = 5 -> Sg(<<"comparable", "any">>, <<MapT(TP(1), TP(2))>>, FALSE)                 \* Keys[K comparable, V any](m map[K]V)
    [] i = 6 -> Sg(<<"any">>, <<PtrT(TP(1))>>, FALSE)                                     \* Ptr[T any](p *T)
    [] i = 7 -> Sg(<<"core", "any">>, <<TP(1)>>, FALSE)                                   \* Sl[S ~[]E, E any](s S)
    [] i = 8 -> Sg(<<"any", "any">>, <<TP(1), TP(2)>>, FALSE)                             \* Two[T, U any](a T, b U)
    [] i = 9 -> Sg(<<"any", "any">>, <<TP(1)>>, FALSE)                                    \* Conv[T, U any](a T)      U only explicitly
    [] i = 10 -> Sg(<<"aint">>, <<TP(1)>>, FALSE)                                         \* Ai[T ~int](a T)
    [] i = 11 -> Sg(<<"any">>, <<SlT(TP(1)), TP(1)>>, TRUE)                               \* App[T any](s []T, xs ...T)
    [] i = 12 -> Sg(<<"any">>, <<TP(1), TP(1)>>, FALSE)                                   \* Same[T any](a, b T)
    [] i = 13 -> Sg(<<"any">>, <<FnT(<<TP(1)>>, TP(1)), TP(1)>>, FALSE)                   \* Fn[T any](f func(T) T, x T)
    [] i = 14 -> Sg(<<"core", "num">>, <<TP(1), TP(2)>>, FALSE)                           \* SlE[S ~[]E, E int|float64](s S, e E)
    [] i = 15 -> Sg(<<"any", "any">>, <<TP(2)>>, TRUE)                                    \* Collect[R, T any](xs ...T)   also reachable as XGox_ function: Collect(R, xs...)
    [] i = 16 -> Sg(<<"any", "any">>, <<TP(2)>>, FALSE)                                   \* Cast[R, T any](x T)
    [] i = 17 -> Sg(<<"any">>, <<>>, FALSE)                                               \* Mk[R any]()
    [] i = 18 -> Sg(<<"any", "any">>, <<TP(2), TP(1)>>, TRUE)                             \* Gather[T, U any](u U, xs ...T)   T only explicitly when xs is empty; also XGox_: Gather(T, u, xs...)
    [] i = 20 -> Sg(<<"stringer">>, <<TInt>>, FALSE)                                        \* Show[T Stringer](x int)   T only explicitly; the constraint has a method
    [] i = 19 -> Sg(<<"comparable">>, <<MapT(TP(1), TInt), TP(1)>>, TRUE)                    \* KeysX[K comparable](m map[K]int, extra ...K)   K occurs besides the variadic tail only as a map key
NTP(s) == Len(s.tps)

(* ---- unification ---- *)
Fail == <<>>                          \* a binding vector is never empty (every signature has a type parameter)
Failed(bd) == Len(bd) = 0
InexactPair(a, b) == (a.k = "n" /\ ~HasName(b) /\ a.u = b) \/ (b.k = "n" /\ ~HasName(a) /\ b.u = a)
RECURSIVE Unify(_, _, _, _, _), UnifySeq(_, _, _, _, _)
\* x: parameter-side type (may contain type parameters), y: argument type; exact: below the top constructor
\* ne: number of explicit type arguments (an explicit type argument is never re-bound)
Unify(bd, x, y, exact, ne) ==
  IF Failed(bd) THEN bd
  ELSE IF x.k = "tp" THEN
    LET cur == bd[x.i] IN
    IF cur = NoT THEN [bd EXCEPT ![x.i] = y]
    ELSE IF cur = y THEN bd
    ELSE IF ~exact /\ InexactPair(cur, y) THEN (IF y.k = "n" /\ x.i > ne THEN [bd EXCEPT ![x.i] = y] ELSE bd)
    ELSE Fail
  ELSE IF ~HasTP(x) THEN (IF x = y \/ (~exact /\ InexactPair(x, y)) THEN bd ELSE Fail)
  ELSE LET yy == IF ~exact /\ y.k = "n" /\ ~HasName(x) THEN y.u ELSE y IN
       IF yy.k # x.k THEN Fail
       ELSE CASE x.k \in {"sl", "ptr"} -> Unify(bd, x.e, yy.e, TRUE, ne)
              [] x.k = "map" -> Unify(Unify(bd, x.key, yy.key, TRUE, ne), x.v, yy.v, TRUE, ne)
              [] x.k = "fn" -> IF Len(x.ps) # Len(yy.ps) THEN Fail ELSE Unify(UnifySeq(bd, x.ps, yy.ps, 1, ne), x.r, yy.r, TRUE, ne)
              [] OTHER -> Fail
UnifySeq(bd, xs, ys, j, ne) == IF j > Len(xs) THEN bd ELSE UnifySeq(Unify(bd, xs[j], ys[j], TRUE, ne), xs, ys, j + 1, ne)

(* ---- the inference steps ---- *)
\* parameter type of argument position j (variadic tail repeats the last parameter)
\* ell: the call is f(a, xs...): the last argument stands for the whole variadic parameter
ParAtE(s, j, ell) == IF ell /\ j = Len(s.ps) THEN SlT(s.ps[j]) ELSE IF s.var /\ j >= Len(s.ps) THEN s.ps[Len(s.ps)] ELSE s.ps[j]
ParAt(s, j) == ParAtE(s, j, FALSE)
ArityOKE(s, n, ell) == IF s.var THEN (IF ell THEN n = Len(s.ps) ELSE n >= Len(s.ps) - 1) ELSE (~ell /\ n = Len(s.ps))
ArityOK(s, n) == ArityOKE(s, n, FALSE)
RECURSIVE TypedArgs(_, _, _, _, _, _)
TypedArgs(bd, s, args, j, ne, ell) ==
  IF j > Len(args) \/ Failed(bd) THEN bd
  ELSE IF IsTyped(args[j]) /\ HasTP(ParAtE(s, j, ell)) THEN TypedArgs(Unify(bd, ParAtE(s, j, ell), FormType(args[j]), FALSE, ne), s, args, j + 1, ne, ell)
  ELSE TypedArgs(bd, s, args, j + 1, ne, ell)
\* S ~[]E is type parameter 1 with element type parameter 2 in the signatures that use it
CoreStep(bd, s, ne) ==
  IF Failed(bd) \/ s.tps[1] # "core" \/ bd[1] = NoT THEN bd
  ELSE Unify(bd, SlT(TP(2)), bd[1], FALSE, ne)
KindRank(f) == CASE f = "c1" -> 1 [] f = "c15" -> 2 [] OTHER -> 0
UntypedForE(s, args, i, ell) == {j \in 1..Len(args) : UntypedConst(args[j]) /\ ParAtE(s, j, ell) = TP(i)}
UntypedFor(s, args, i) == UntypedForE(s, args, i, FALSE)
UntypedStepE(bd, s, args, ell) ==
  IF Failed(bd) THEN bd
  ELSE LET pick(i) ==
             LET U == UntypedForE(s, args, i, ell) IN
             IF bd[i] # NoT \/ U = {} THEN bd[i]
             ELSE IF \A j \in U : args[j] = "cs" THEN TStr
             ELSE IF \E j \in U : args[j] = "cs" THEN [k |-> "mixed"]
             ELSE IF \E j \in U : args[j] = "c15" THEN TF64 ELSE TInt
           nb == [i \in 1..NTP(s) |-> pick(i)] IN
       IF \E i \in 1..NTP(s) : nb[i] = [k |-> "mixed"] THEN Fail ELSE nb
AllBound(bd, s) == \A i \in 1..NTP(s) : bd[i] # NoT
Comparable(t) == Under(t).k \notin {"sl", "map", "fn"}
Satisfies(bd, s, i) ==
  LET t == bd[i]
      c == s.tps[i] IN
  CASE c = "any" -> TRUE
    [] c = "comparable" -> Comparable(t)
    [] c = "num" -> t \in {TInt, TF64}
    [] c = "aint" -> Under(t) = TInt
    [] c = "stringer" -> t = MyLab                                                       \* a constraint with a method: interface{ String() string }
    [] c = "core" -> Under(t) = SlT(bd[2])
RECURSIVE Subst(_, _)
Subst(t, bd) == CASE t.k = "tp" -> bd[t.i]
                  [] t.k = "sl" -> SlT(Subst(t.e, bd))
                  [] t.k = "ptr" -> PtrT(Subst(t.e, bd))
                  [] t.k = "map" -> MapT(Subst(t.key, bd), Subst(t.v, bd))
                  [] t.k = "fn" -> FnT([j \in 1..Len(t.ps) |-> Subst(t.ps[j], bd)], Subst(t.r, bd))
                  [] OTHER -> t
AssignableTo(f, p) ==
  IF IsTyped(f) THEN LET a == FormType(f) IN a = p \/ (Under(a) = Under(p) /\ (~HasName(a) \/ ~HasName(p)))
  ELSE CASE f = "c1" -> Under(p) \in {TInt, TF64}
         [] f = "c15" -> Under(p) = TF64
         [] f = "cs" -> Under(p) = TStr
         [] f = "nil" -> Under(p).k \in {"sl", "map", "ptr", "fn"}
         [] OTHER -> FALSE
InferE(s, expl, args, ell) ==
  IF ~ArityOKE(s, Len(args), ell) THEN Fail
  ELSE LET bd0 == [i \in 1..NTP(s) |-> IF i <= Len(expl) THEN expl[i] ELSE NoT]
           bd1 == TypedArgs(bd0, s, args, 1, Len(expl), ell)
           bd2 == CoreStep(bd1, s, Len(expl))
           bd3 == UntypedStepE(bd2, s, args, ell) IN
       IF Failed(bd3) THEN Fail
       ELSE IF ~AllBound(bd3, s) THEN Fail
       ELSE IF \E i \in 1..NTP(s) : ~Satisfies(bd3, s, i) THEN Fail
       ELSE IF \E j \in 1..Len(args) : ~AssignableTo(args[j], Subst(ParAtE(s, j, ell), bd3)) THEN Fail
       ELSE bd3
Infer(s, expl, args) == InferE(s, expl, args, FALSE)

(* ---- a generic function with an explicit prefix of type arguments used as a plain value: v := F[X] ---- *)
\* no function arguments and no target type: the remaining type arguments can only come from core types (S ~[]E gives E);
\* every type argument, also an inferred one, must satisfy its constraint
InferPV(s, expl) ==
  LET bd0 == [i \in 1..NTP(s) |-> IF i <= Len(expl) THEN expl[i] ELSE NoT]
      bd2 == CoreStep(bd0, s, Len(expl)) IN
  IF Failed(bd2) \/ ~AllBound(bd2, s) THEN Fail
  ELSE IF \E i \in 1..NTP(s) : ~Satisfies(bd2, s, i) THEN Fail
  ELSE bd2

(* ---- a generic function value (with an explicit prefix) used where a function type is expected ---- *)
\* the remaining type arguments come from unifying the function's parameter and result types with the target's (exactly)
FSg(tps, ps, r) == [tps |-> tps, ps |-> ps, r |-> r]
FSig(i) == CASE i = 1 -> FSg(<<"any", "any">>, <<TP(2)>>, TP(1))                      \* Conv[To, From any](From) To
             [] i = 2 -> FSg(<<"any">>, <<TP(1)>>, TP(1))                              \* Same1[T any](T) T
             [] i = 3 -> FSg(<<"any", "any">>, <<TP(1)>>, TP(2))                       \* Map1[T, U any](T) U
             [] i = 4 -> FSg(<<"comparable", "any">>, <<TP(1), TP(2)>>, TP(2))          \* PairV[K comparable, V any](K, V) V
             [] i = 5 -> FSg(<<"num">>, <<SlT(TP(1))>>, TP(1))                         \* SumS[T int|float64]([]T) T
Targets == {FnT(<<TInt>>, TStr), FnT(<<TInt>>, TInt), FnT(<<TStr>>, TInt), FnT(<<TInt, TStr>>, TStr), FnT(<<SlT(TInt)>>, TInt), FnT(<<SlT(TStr)>>, TStr), FnT(<<MySl>>, TInt)}
InferFV(f, expl, target) ==
  IF Len(f.ps) # Len(target.ps) THEN Fail
  ELSE LET bd0 == [i \in 1..Len(f.tps) |-> IF i <= Len(expl) THEN expl[i] ELSE NoT]
           bd1 == UnifySeq(bd0, f.ps, target.ps, 1, Len(f.tps))          \* explicit arguments are never re-bound: treat all as fixed once bound (exact mode)
           bd2 == Unify(bd1, f.r, target.r, TRUE, Len(f.tps)) IN
       IF Failed(bd2) \/ \E i \in 1..Len(f.tps) : bd2[i] = NoT THEN Fail
       ELSE IF \E i \in 1..Len(f.tps) : ~Satisfies(bd2, [tps |-> f.tps], i) THEN Fail
       ELSE bd2

(* ---- instantiation of generic types, also through an overloaded type name (T__0, T__1: the first that instantiates) ---- *)
\* a generic type is the list of its constraints
TSig(i) == CASE i = 1 -> <<"any">>                         \* G[T any]
             [] i = 2 -> <<"comparable">>                  \* GC[T comparable]
             [] i = 3 -> <<"num">>                         \* GN[T int|float64]
             [] i = 4 -> <<"comparable", "any">>           \* P2[K comparable, V any]
             [] i = 5 -> <<"aint">>                        \* GA[T ~int]
             [] i = 6 -> <<"core", "any">>                 \* GS[S ~[]E, E any]
InstTypes == {TInt, TF64, TStr, MyInt, MySl, SlT(TInt), FnT(<<TInt>>, TInt), MapT(TStr, TInt)}
\* one candidate: the right number of type arguments, each satisfying its constraint
TInstOK(cs, targs) == Len(targs) = Len(cs) /\ \A i \in 1..Len(cs) : Satisfies(targs, [tps |-> cs], i)
\* an overloaded type name: index of the first candidate that instantiates, 0 if none
TFirst(fam, targs) == LET ok == {k \in 1..Len(fam) : TInstOK(TSig(fam[k]), targs)} IN IF ok = {} THEN 0 ELSE CHOOSE k \in ok : \A m \in ok : k <= m
TFams == {<<i>> : i \in 1..6} \cup {<<1, 4>>, <<4, 1>>, <<2, 1>>, <<3, 5>>, <<5, 3>>, <<6, 4>>}

(* ---- laws checked by TLC on every point ---- *)
VARIABLES pt, ell
RECURSIVE SeqsUpTo(_, _)
SeqsUpTo(A, n) == IF n = 0 THEN {<<>>} ELSE LET shorter == SeqsUpTo(A, n - 1) IN shorter \cup {Append(q, x) : q \in {r \in shorter : Len(r) = n - 1}, x \in A}
Min(a, b) == IF a < b THEN a ELSE b
ArgLists(s) == LET lo == IF s.var THEN Len(s.ps) - 1 ELSE Len(s.ps)
                   hi == IF s.var THEN Len(s.ps) - 1 + MaxVariadic ELSE Len(s.ps) IN
               {q \in SeqsUpTo(Forms, hi) : Len(q) >= lo}
EllOK(s, a) == s.var /\ Len(a) = Len(s.ps) /\ a[Len(a)] \in {"vsl", "vmysl", "vslf"}
CallPoints == UNION {{[kind |-> "call", sig |-> i, expl |-> e, args |-> a] :
                        e \in SeqsUpTo(ExplTypes, Min(MaxExpl, NTP(Sig(i)))), a \in ArgLists(Sig(i))} : i \in SigIds}
FvPoints == IF FvSigs = {} THEN {} ELSE
            UNION {{[kind |-> "fv", sig |-> i, expl |-> e, target |-> t] : e \in SeqsUpTo(ExplTypes, Len(FSig(i).tps)), t \in Targets} : i \in FvSigs}
TiPoints == IF ~TypeInst THEN {} ELSE {[kind |-> "ti", fam |-> f, targs |-> a] : f \in TFams, a \in SeqsUpTo(InstTypes, 2) \ {<<>>}}      \* G[] is not syntax
PvPoints == IF PvSigs = {} THEN {} ELSE
            UNION {{[kind |-> "pv", sig |-> i, expl |-> e] : e \in SeqsUpTo(ExplTypes, NTP(Sig(i))) \ {<<>>}} : i \in PvSigs}
Init == /\ pt \in CallPoints \cup FvPoints \cup TiPoints \cup PvPoints
        /\ ell \in (IF pt.kind = "call" /\ EllOK(Sig(pt.sig), pt.args) THEN BOOLEAN ELSE {FALSE})
Next == UNCHANGED <<pt, ell>>
Res == IF pt.kind = "ti" THEN (IF TFirst(pt.fam, pt.targs) = 0 THEN Fail ELSE pt.targs) ELSE IF pt.kind = "fv" THEN InferFV(FSig(pt.sig), pt.expl, pt.target)
       ELSE IF pt.kind = "pv" THEN InferPV(Sig(pt.sig), pt.expl) ELSE InferE(Sig(pt.sig), pt.expl, pt.args, ell)
NTPof == IF pt.kind = "ti" THEN Len(pt.targs) ELSE IF pt.kind = "fv" THEN Len(FSig(pt.sig).tps) ELSE NTP(Sig(pt.sig))
\* the explicit prefix is respected; the result satisfies the constraints; substitution is idempotent (no type parameter left)
ExplicitRespected == (pt.kind # "ti" /\ ~Failed(Res)) => \A i \in 1..Len(pt.expl) : Res[i] = pt.expl[i]
InferredSatisfies == (pt.kind # "ti" /\ ~Failed(Res)) => \A i \in 1..NTPof : Satisfies(Res, IF pt.kind = "fv" THEN [tps |-> FSig(pt.sig).tps] ELSE Sig(pt.sig), i) /\ ~HasTP(Res[i])
\* unification does not depend on the order of the arguments for the symmetric signature Same[T](a, b T), up to the choice named/literal
Symmetric == (pt.kind = "call" /\ pt.sig = 12 /\ Len(pt.args) = 2 /\ ~ell) =>
               Failed(Res) = Failed(Infer(Sig(12), pt.expl, <<pt.args[2], pt.args[1]>>))
RECURSIVE TypeStr(_)
RECURSIVE Join(_, _)
Join(ss, j) == IF j > Len(ss) THEN "" ELSE IF j = Len(ss) THEN ss[j] ELSE ss[j] \o ", " \o Join(ss, j + 1)
TypeStr(t) == CASE t.k = "b" -> t.n [] t.k = "n" -> "ov." \o t.n [] t.k = "sl" -> "[]" \o TypeStr(t.e) [] t.k = "ptr" -> "*" \o TypeStr(t.e)
                [] t.k = "map" -> "map[" \o TypeStr(t.key) \o "]" \o TypeStr(t.v)
                [] t.k = "fn" -> "func(" \o Join([j \in 1..Len(t.ps) |-> TypeStr(t.ps[j])], 1) \o ") " \o TypeStr(t.r)
                [] OTHER -> "?"
Emit == IF pt.kind = "ti"
        THEN PrintT(ToJson([kind |-> "ti", fam |-> pt.fam, expl |-> [j \in 1..Len(pt.targs) |-> TypeStr(pt.targs[j])], first |-> TFirst(pt.fam, pt.targs), ok |-> TFirst(pt.fam, pt.targs) # 0]))
        ELSE PrintT(ToJson([kind |-> pt.kind, sig |-> pt.sig, expl |-> [j \in 1..Len(pt.expl) |-> TypeStr(pt.expl[j])],
                       args |-> IF pt.kind \in {"fv", "pv"} THEN <<>> ELSE pt.args, ell |-> ell,
                       target |-> IF pt.kind = "fv" THEN TypeStr(pt.target) ELSE "",
                       ok |-> ~Failed(Res), targs |-> IF Failed(Res) THEN <<>> ELSE [i \in 1..NTPof |-> TypeStr(Res[i])]]))
=============================================================================
