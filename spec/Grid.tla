------------------------------- MODULE Grid -------------------------------
(* Judgement grids over GoTypes.tla (property C05): TLC is the evaluator of the
   assignability / convertibility / comparability / default judgements on every point
   of the closed universe, checks the meta-properties the Go specification implies
   (comparison is symmetric, identical types are mutually assignable, assignable implies
   convertible, representability is an interval in the value, defaults are idempotent),
   and prints the verdicts, which the harness compares with the real predicates of
   goplus/gogen and (to validate this transcription) with go/types. *)
EXTENDS GoTypes, Json
CONSTANT Mode      \* "types": pairs of universe types (non-constant operands); "consts": constant x target type

\* ---------- constant pool: every boundary of every integer / float range, zero, +-1, fractions, imaginary ----------
\* beyond 512 bits an untyped *integer* constant is not a legal Go program (implementation restriction) and a float
\* constant is rounded to 512 bits of mantissa: the exponents 1023 / 1024 occur only as float kinds with d = 0
Mags == {m \in {<<e, d>> : e \in Exps, d \in {-1, 0, 1}} : m[1] > 511 => m[2] = 0}
IntConsts == {Num(neg, m[1], m[2], FALSE, FALSE) : neg \in BOOLEAN, m \in Mags} \ {Num(TRUE, 0, -1, FALSE, FALSE)}
FracConsts == {Num(neg, e, 0, TRUE, FALSE) : neg \in BOOLEAN, e \in {0, 7, 63}}        \* 1.5, 128.5, 2^63 + 0.5
ImagConsts == {Num(FALSE, e, -1, FALSE, TRUE) : e \in {0, 7}}                           \* 0+1i, 127+1i
KindsOf(c) == IF c.ck = "str" THEN {"string"} ELSE IF c.ck = "bool" THEN {"bool"}
              ELSE IF c.imag THEN {"complex"} ELSE IF c.frac \/ c.e > 511 THEN {"float", "complex"}
              ELSE {"int", "rune", "float", "complex"}
Consts == IntConsts \cup FracConsts \cup ImagConsts \cup {[ck |-> "str"], [ck |-> "bool"]}
\* untyped constant operands: (kind, value); a rune constant must be a valid integer magnitude for rendering
ConstOperands == {[ty |-> UT(k), c |-> c] : c \in Consts, k \in {"int", "rune", "float", "complex", "string", "bool"}} 
UConstOperands == {o \in ConstOperands : o.ty.n \in KindsOf(o.c)}
\* typed constants (for conversions): const c T = v with v representable in T
TypedConstTypes == {B("int"), B("int8"), B("uint8"), B("uint16"), B("int64"), B("uint64"), B("float32"), B("float64"), B("complex128"), MyInt, MyFloat}
TConstOperands == {[ty |-> t, c |-> c] : t \in TypedConstTypes, c \in IntConsts \cup FracConsts} 
\* a typed floating-point constant holds the *rounded* value: only values exact in float32 are used for them
ExactInFloat(c) == c.e <= 16 \/ (c.d = 0 /\ ~c.frac)
TypedConstOperands == {o \in TConstOperands : Representable(o.c, o.ty) /\ ((IsFloatT(o.ty) \/ IsComplexT(o.ty)) => ExactInFloat(o.c))}

VARIABLE pt
Typed == Universe \ UUntyped
InitTypes == pt \in [v : Universe \ {UT("int"), UT("rune"), UT("float"), UT("complex"), UT("string")}, t : Typed]
InitConsts == pt \in [x : UConstOperands \cup TypedConstOperands, t : Typed]
Init == IF Mode = "types" THEN InitTypes ELSE InitConsts
Next == UNCHANGED pt
Spec == Init /\ [][Next]_pt

Opnd(t) == [ty |-> t, c |-> NoC]
VerdictTypes == [v |-> pt.v, t |-> pt.t,
                 asg |-> AssignableTo(pt.v, pt.t, NoC),
                 conv |-> ConvertibleTo(pt.v, pt.t, NoC),
                 cmp |-> CmpOK(Opnd(pt.v), Opnd(pt.t)),
                 dflt |-> Default(pt.v)]
VerdictConsts == [x |-> pt.x, t |-> pt.t,
                  asg |-> AssignableTo(pt.x.ty, pt.t, pt.x.c),
                  conv |-> ConvertibleTo(pt.x.ty, pt.t, pt.x.c),
                  cmp |-> CmpOK(pt.x, Opnd(pt.t))]
Emit == PrintT(ToJson(IF Mode = "types" THEN VerdictTypes ELSE VerdictConsts))

(* ---------- meta-properties (checked on every point) ---------- *)
LawsTypes ==
  /\ CmpOK(Opnd(pt.v), Opnd(pt.t)) = CmpOK(Opnd(pt.t), Opnd(pt.v))                          \* CmpSymmetric
  /\ (Identical(pt.v, pt.t) => AssignableTo(pt.v, pt.t, NoC))                               \* IdenticalImpliesAssignable
  /\ (AssignableTo(pt.v, pt.t, NoC) => ConvertibleTo(pt.v, pt.t, NoC))                      \* AssignableImpliesConvertible
  /\ Default(Default(pt.v)) = Default(pt.v)                                                 \* DefaultIdempotent
  /\ (IsUntyped(pt.v) \/ Default(pt.v) = pt.v)
LawsConsts ==
  /\ CmpOK(pt.x, Opnd(pt.t)) = CmpOK(Opnd(pt.t), pt.x)
  /\ (AssignableTo(pt.x.ty, pt.t, pt.x.c) /\ ~IsIface(pt.t) /\ IsUntyped(pt.x.ty) => Representable(pt.x.c, pt.t))
  \* representability is an interval: a non-negative integral constant representable in an integer type stays
  \* representable when its magnitude shrinks
  /\ \A m \in Mags :
       (pt.x.c.ck = "num" /\ IntegralValue(pt.x.c) /\ ~pt.x.c.neg /\ IsBasicU(pt.t) /\ UKind(pt.t) \in IntKinds
        /\ Representable(pt.x.c, pt.t) /\ MagLE(m[1], m[2], pt.x.c.e, pt.x.c.d))
       => Representable(Num(FALSE, m[1], m[2], FALSE, FALSE), pt.t)
Laws == IF Mode = "types" THEN LawsTypes ELSE LawsConsts
=============================================================================
