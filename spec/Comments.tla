------------------------------ MODULE Comments ------------------------------
(* The statement-comment protocol (property C12, last sentence: "A comment group attached to a
   statement is printed exactly once for that statement, directly before it").

   CodeBuilder.SetComments(g, once) arms a comment group; the next statement that is *emitted*
   (emitStmt) takes it; with once the group is disarmed, otherwise it stays armed and every
   later emitted statement takes it too, until SetComments(nil).  Emission order is not source
   order: a simple statement is emitted where it is built, the initialiser of an if header when it
   is complete, but an if / for statement itself only when it is closed (End) - after the statements
   of its body.  A pending label wraps the statement after the comment was attached to it.

   The model runs this protocol over statement-level operations; every statement carries a unique
   marker.  Att is the resulting attachment list <<marker, comment>>.  The harness replays the
   operations on the real CodeBuilder, writes the package, parses the text with comments and reads
   off which statement each printed comment directly precedes: the two lists must be equal. *)
EXTENDS Integers, Sequences, FiniteSets, TLC, Json
CONSTANTS MaxOps, MaxNest, MaxComments

VARIABLES open,      \* stack of open compound statements: [k: "if" | "for", m: marker]
          pend,      \* armed comment: [c: id, once: BOOLEAN] or NoC
          lab,       \* a label is pending
          att,       \* attachments so far
          hist, nm, nc
vars == <<open, pend, lab, att, hist, nm, nc>>
NoC == [c |-> 0, once |-> FALSE]
Init == open = <<>> /\ pend = NoC /\ lab = FALSE /\ att = <<>> /\ hist = <<>> /\ nm = 1 /\ nc = 1
Log(op, a) == hist' = Append(hist, <<op, a>>)
\* a statement with marker m is emitted now
Emit(m) == /\ att' = IF pend.c = 0 THEN att ELSE Append(att, <<m, pend.c>>)
           /\ pend' = IF pend.once THEN NoC ELSE pend
           /\ lab' = FALSE
Room == Len(hist) < MaxOps
Simple(k) == /\ Room /\ k \in {"call", "def"} /\ Emit(nm) /\ nm' = nm + 1 /\ UNCHANGED <<open, nc>> /\ Log(k, nm)
\* if c {  /  for c {   : nothing is emitted yet
Open(k) == /\ Room /\ k \in {"if", "for"} /\ Len(open) < MaxNest /\ ~lab
           /\ open' = Append(open, [k |-> k, m |-> nm]) /\ nm' = nm + 1 /\ UNCHANGED <<pend, lab, att, nc>> /\ Log(k, nm)
\* if v := j; c {     : the initialiser (marker nm) is emitted when complete, the if statement (marker nm + 1) at End
OpenInit == /\ Room /\ Len(open) < MaxNest /\ ~lab
            /\ Emit(nm) /\ open' = Append(open, [k |-> "if", m |-> nm + 1]) /\ nm' = nm + 2 /\ UNCHANGED nc /\ Log("ifinit", nm)
Close == /\ Len(open) > 0 /\ ~lab
         /\ Emit(open[Len(open)].m) /\ open' = SubSeq(open, 1, Len(open) - 1) /\ UNCHANGED <<nm, nc>> /\ Log("end", open[Len(open)].m)
Label == /\ Room /\ ~lab /\ lab' = TRUE /\ UNCHANGED <<open, pend, att, nm, nc>> /\ Log("label", nm)
SetC(once) == /\ Room /\ nc <= MaxComments /\ pend' = [c |-> nc, once |-> once] /\ nc' = nc + 1
              /\ UNCHANGED <<open, lab, att, nm>> /\ Log(IF once THEN "once" ELSE "sticky", nc)
Clear == /\ Room /\ pend.c # 0 /\ pend' = NoC /\ UNCHANGED <<open, lab, att, nm, nc>> /\ Log("clear", 0)
Next == \/ \E k \in {"call", "def"} : Simple(k)
        \/ \E k \in {"if", "for"} : Open(k)
        \/ OpenInit \/ Close \/ Label
        \/ \E o \in BOOLEAN : SetC(o)
        \/ Clear
Spec == Init /\ [][Next]_vars
\* the property on the model: a statement takes at most one comment group, a `once` group goes to at most one statement
AtMostOnePerStmt == \A i, j \in 1..Len(att) : att[i][1] = att[j][1] => i = j
OnceIsOnce == \A i, j \in 1..Len(att) : (att[i][2] = att[j][2] /\ i # j) => \E h \in 1..Len(hist) : hist[h] = <<"sticky", att[i][2]>>
Done == Len(open) = 0 /\ ~lab /\ Len(hist) > 0 /\ hist[Len(hist)][1] \notin {"once", "sticky", "clear", "label"}
EmitInv == (Done /\ (Len(hist) = MaxOps \/ Len(hist) = MaxOps - 1) /\ nc > 1) => PrintT(ToJson([kind |-> "comments", ops |-> hist, att |-> att]))
=============================================================================
