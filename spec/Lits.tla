------------------------------- MODULE Lits -------------------------------
(* Composite literals and primary expressions (properties C01-C04, expression kinds beyond operators).

   The Go specification's rules for
     slice / array literals   element assignability; keys must be constant, representable as int, non-negative,
                              in range for arrays, not duplicated; too many elements for an array
     map literals             key and value assignability; duplicate constant keys
     struct literals          positional: exactly the fields, in order; keyed: field exists, not duplicated; assignability
     index expressions        a[i]: slice, array, pointer to array, string (byte result), map (key assignability);
                              the index is of integer type or an untyped constant representable as int; constant
                              indices are non-negative and in range for arrays and constant strings
     slice expressions        a[lo:hi], a[lo:hi:max]: operand kinds (no 3-index slices of strings), index rules,
                              constant indices ordered and in range
     indirection              *p: pointer operands only
   as operators over a small closed universe.  Every point yields Ok(type) or Err(reason); TLC evaluates every
   point of the grid, go/types on the same text validates the model on every point, and the harness builds the
   expression with the real CodeBuilder: acceptance (C01 / C02) and reported type (C03). *)
EXTENDS Integers, Sequences, FiniteSets, TLC, Json
CONSTANTS MaxElems

(* ---- operand pool ---- *)
\* k: "const" (untyped constant: kind ck in int|float|string, numeric value n/d), "var" (typed variable), "nil"
Cn(src, ck, n, d) == [src |-> src, k |-> "const", ck |-> ck, n |-> n, d |-> d, ty |-> ""]
V(src, ty) == [src |-> src, k |-> "var", ck |-> "", n |-> 0, d |-> 1, ty |-> ty]
Nil == [src |-> "nil", k |-> "nil", ck |-> "", n |-> 0, d |-> 1, ty |-> ""]
c0 == Cn("0", "int", 0, 1)
c1 == Cn("1", "int", 1, 1)
c2 == Cn("2", "int", 2, 1)
c5 == Cn("5", "int", 5, 1)
cneg == Cn("-1", "int", -1, 1)
c300 == Cn("300", "int", 300, 1)
cf == Cn("1.5", "float", 3, 2)
cf1 == Cn("1.0", "float", 1, 1)
cs == Cn("\"s\"", "string", 0, 1)
ct == Cn("\"t\"", "string", 1, 1)           \* n distinguishes the two string constants
vi == V("vi", "int")
vi8 == V("vi8", "int8")
vs == V("vs", "string")
vmy == V("vmy", "MyInt")
vf == V("vf", "float64")
va == V("va", "any")
Values == {c1, c300, cf, cf1, cs, vi, vi8, vs, vmy, va, Nil}
Indices == {c0, c1, c2, c5, cneg, cf1, cf, cs, vi, vi8, vmy, vs, vf}

(* ---- judgements ---- *)
IsIntegral(o) == o.k = "const" /\ o.ck \in {"int", "float"} /\ o.d = 1
Under(t) == IF t = "MyInt" THEN "int" ELSE t
Nillable(t) == t \in {"any", "[]int", "map[string]int", "*int", "*[2]int"}
Assignable(o, t) ==
  CASE o.k = "var" -> o.ty = t \/ t = "any"
    [] o.k = "nil" -> Nillable(t)
    [] OTHER ->        \* untyped constant
         CASE t = "any" -> TRUE
           [] Under(t) = "int" -> IsIntegral(o)
           [] t = "int8" -> IsIntegral(o) /\ o.n >= -128 /\ o.n <= 127
           [] t = "float64" -> o.ck \in {"int", "float"}
           [] t = "string" -> o.ck = "string"
           [] OTHER -> FALSE
\* an index / key of a slice or array literal, an index or slice bound
IndexTyped(o) == o.k = "var" /\ Under(o.ty) \in {"int", "int8"}
ConstIndex(o) == IsIntegral(o)
IndexOK(o) == IndexTyped(o) \/ ConstIndex(o)
Err(w) == [ok |-> FALSE, why |-> w, ty |-> ""]
Ok(t) == [ok |-> TRUE, why |-> "", ty |-> t]

(* ---- slice / array literals ---- *)
\* elems: sequence of [key: operand or Nil-marker "nokey", val: operand]
NoKey == [src |-> "", k |-> "nokey", ck |-> "", n |-> 0, d |-> 1, ty |-> ""]
\* the index each element gets (Go: key, or previous index + 1); -1 marks an invalid key
RECURSIVE Positions(_, _, _)
Positions(elems, i, prev) ==
  IF i > Len(elems) THEN <<>>
  ELSE LET kx == elems[i].key
           pos == IF kx.k = "nokey" THEN prev + 1 ELSE IF ConstIndex(kx) /\ kx.n >= 0 THEN kx.n ELSE -1 IN
       <<pos>> \o Positions(elems, i + 1, IF pos < 0 THEN prev ELSE pos)
ListLit(elemTy, alen, elems) ==         \* alen = -1: slice
  LET ps == Positions(elems, 1, -1) IN
  IF \E i \in 1..Len(elems) : elems[i].key.k # "nokey" /\ ~ConstIndex(elems[i].key) THEN Err("badkey")
  ELSE IF \E i \in 1..Len(elems) : ps[i] < 0 THEN Err("negkey")
  ELSE IF alen >= 0 /\ \E i \in 1..Len(elems) : ps[i] >= alen THEN Err("outofrange")
  ELSE IF \E i, j \in 1..Len(elems) : i < j /\ ps[i] = ps[j] THEN Err("dupkey")
  ELSE IF \E i \in 1..Len(elems) : ~Assignable(elems[i].val, elemTy) THEN Err("elem")
  ELSE Ok(IF alen >= 0 THEN "[2]" \o elemTy ELSE "[]" \o elemTy)

(* ---- open arrays: [...]T{..}; the length is the largest position + 1 and becomes part of the type ---- *)
RECURSIVE MaxOf(_, _)
MaxOf(ps, i) == IF i > Len(ps) THEN -1 ELSE LET r == MaxOf(ps, i + 1) IN IF ps[i] > r THEN ps[i] ELSE r
ArrTy(n, e) == "[" \o ToString(n) \o "]" \o e
\* use: "none" the literal itself; "elem" [][L]T{literal}: only an array of the same length is assignable; "index" literal[L-1]
OpenArr(elemTy, elems, use, L) ==
  LET lit == ListLit(elemTy, -1, elems)
      N == MaxOf(Positions(elems, 1, -1), 1) + 1 IN
  IF ~lit.ok THEN lit
  ELSE CASE use = "elem" -> IF N = L THEN Ok("[]" \o ArrTy(L, elemTy)) ELSE Err("lenmismatch")
         [] use = "index" -> IF L - 1 >= N THEN Err("outofrange") ELSE Ok(elemTy)
         [] OTHER -> Ok(ArrTy(N, elemTy))

(* ---- map literals ---- *)
\* duplicate constant keys: equal after conversion to the key type (for an interface key type the untyped constants
\* take their default types first: 1 and 1.0 are different keys of a map[any]..)
SameConst(a, b, kt) == /\ a.k = "const" /\ b.k = "const" /\ (kt = "any" => a.ck = b.ck)
                       /\ \/ (a.ck \in {"int", "float"} /\ b.ck \in {"int", "float"} /\ a.n * b.d = b.n * a.d)
                          \/ (a.ck = "string" /\ b.ck = "string" /\ a.n = b.n)
MapLit(kt, vt, elems) ==
  IF \E i \in 1..Len(elems) : ~Assignable(elems[i].key, kt) THEN Err("key")
  ELSE IF \E i \in 1..Len(elems) : ~Assignable(elems[i].val, vt) THEN Err("elem")
  ELSE IF \E i, j \in 1..Len(elems) : i < j /\ SameConst(elems[i].key, elems[j].key, kt) THEN Err("dupkey")
  ELSE Ok("map[" \o kt \o "]" \o vt)

(* ---- struct literals: S struct{ a int; b string } ---- *)
FieldTy(f) == IF f = "a" THEN "int" ELSE "string"
StructPos(vals) == IF Len(vals) = 0 THEN Ok("S")
                   ELSE IF Len(vals) # 2 THEN Err("count")
                   ELSE IF ~Assignable(vals[1], "int") \/ ~Assignable(vals[2], "string") THEN Err("elem") ELSE Ok("S")
StructKeyed(fs, vals) == IF \E i, j \in 1..Len(fs) : i < j /\ fs[i] = fs[j] THEN Err("dupfield")
                         ELSE IF \E i \in 1..Len(fs) : ~Assignable(vals[i], FieldTy(fs[i])) THEN Err("elem") ELSE Ok("S")

(* ---- index expressions ---- *)
\* operands: [src, kind, elem, len]   len = -1: unknown at compile time
X(src, kind, elem, len) == [src |-> src, kind |-> kind, elem |-> elem, len |-> len]
xsl == X("vsl", "slice", "int", -1)
xarr == X("varr", "array", "int", 2)
xparr == X("vparr", "ptrarray", "int", 2)
xstr == X("vs", "string", "uint8", -1)
xcstr == X("\"abc\"", "conststring", "uint8", 3)
xmap == X("vm", "map", "int", -1)
xint == X("vi", "other", "", -1)
xpi == X("vpi", "ptr", "int", -1)
Indexables == {xsl, xarr, xparr, xstr, xcstr, xmap, xint, xpi}
Index(x, i) ==
  CASE x.kind = "map" -> IF Assignable(i, "string") THEN Ok("int") ELSE Err("key")
    [] x.kind \in {"other", "ptr"} -> Err("notindexable")
    [] OTHER -> IF ~IndexOK(i) THEN Err("badindex")
                ELSE IF ConstIndex(i) /\ i.n < 0 THEN Err("negindex")
                ELSE IF ConstIndex(i) /\ x.len >= 0 /\ i.n >= x.len THEN Err("outofrange")
                ELSE Ok(x.elem)

(* ---- slice expressions ---- *)
None == [src |-> "", k |-> "none", ck |-> "", n |-> 0, d |-> 1, ty |-> ""]
Bounds == {None, c0, c1, c2, c5, cneg, cf, vi, vs}
Given(b) == b.k # "none"
Slice(x, lo, hi, mx) ==
  IF x.kind \in {"map", "other", "ptr"} THEN Err("notsliceable")
  ELSE IF Given(mx) /\ x.kind \in {"string", "conststring"} THEN Err("3indexstring")
  ELSE IF \E b \in {lo, hi, mx} : Given(b) /\ ~IndexOK(b) THEN Err("badindex")
  ELSE IF \E b \in {lo, hi, mx} : Given(b) /\ ConstIndex(b) /\ b.n < 0 THEN Err("negindex")
  ELSE IF x.len >= 0 /\ \E b \in {lo, hi, mx} : Given(b) /\ ConstIndex(b) /\ b.n > x.len THEN Err("outofrange")
  ELSE IF Given(lo) /\ Given(hi) /\ ConstIndex(lo) /\ ConstIndex(hi) /\ lo.n > hi.n THEN Err("inverted")
  ELSE IF Given(hi) /\ Given(mx) /\ ConstIndex(hi) /\ ConstIndex(mx) /\ hi.n > mx.n THEN Err("inverted")
  ELSE IF Given(lo) /\ Given(mx) /\ ConstIndex(lo) /\ ConstIndex(mx) /\ lo.n > mx.n THEN Err("inverted")
  ELSE Ok(IF x.kind \in {"string", "conststring"} THEN "string" ELSE "[]" \o x.elem)

(* ---- indirection ---- *)
Star(x) == IF x.kind = "ptr" THEN Ok(x.elem) ELSE IF x.kind = "ptrarray" THEN Ok("[2]int") ELSE Err("notpointer")

(* ---- conversions to composite types: T(x) ---- *)
\* the type must be written in parentheses when it starts with * or <- or is a function type without result
\* (that is a matter of the text; here: which conversions are valid)
ConvTargets == {"*int", "<-chan int", "chan<- int", "chan int", "func()", "func() int", "[]int", "map[string]int", "any", "*[2]int"}
ConvSources == {Nil, V("vpi", "*int"), V("vch", "chan int"), V("vsl", "[]int"), V("vparr", "*[2]int"), vi}
NillableT(t) == t # "int"        \* every conversion target above can hold nil
Conv2(t, o) ==
  CASE o.k = "nil" -> IF NillableT(t) THEN Ok(t) ELSE Err("nilconv")
    [] t = "any" -> Ok(t)
    [] o.ty = t -> Ok(t)
    [] o.ty = "chan int" /\ t \in {"<-chan int", "chan<- int"} -> Ok(t)
    [] o.ty = "[]int" /\ t = "*[2]int" -> Ok(t)              \* slice to array pointer (Go 1.17)
    [] OTHER -> Err("notconvertible")

(* ---- the grid ---- *)
RECURSIVE SeqsUpTo(_, _)
SeqsUpTo(A, n) == IF n = 0 THEN {<<>>} ELSE LET shorter == SeqsUpTo(A, n - 1) IN shorter \cup {Append(q, x) : q \in {r \in shorter : Len(r) = n - 1}, x \in A}
Keys == {NoKey, c0, c1, c2, cneg, cf1, cf, vi, cs}
ListElems == SeqsUpTo([key : Keys, val : {c1, c300, cf, cs, vi, vmy, Nil}], MaxElems)
MapElems == SeqsUpTo([key : {c1, cf1, cs, ct, vs, vi, Nil}, val : {c1, cs, vi, vs}], MaxElems)
OpenElems == SeqsUpTo([key : {NoKey, c0, c1, c2}, val : {c1, cs}], MaxElems + 1)
Points ==
  {[kind |-> "openarr", ety |-> e, elems |-> es, use |-> u[1], l |-> u[2]] : e \in {"int", "string"}, es \in OpenElems,
       u \in {<<"none", 0>>} \cup ({"elem"} \X (1..4))}
  \cup {[kind |-> "list", ety |-> e, alen |-> a, elems |-> es] : e \in {"int", "int8", "string", "any"}, a \in {-1, 2}, es \in ListElems}
  \cup {[kind |-> "map", kt |-> kv[1], vt |-> kv[2], elems |-> es] : kv \in {<<"string", "int">>, <<"int", "string">>, <<"any", "any">>}, es \in MapElems}
  \cup {[kind |-> "structpos", vals |-> vs2] : vs2 \in SeqsUpTo(Values, 3)}
  \cup {[kind |-> "structkey", fs |-> f, vals |-> v] : f \in {<<"a">>, <<"b">>, <<"a", "b">>, <<"b", "a">>, <<"a", "a">>}, v \in SeqsUpTo({c1, cs, vi, vs, cf}, 2)}
  \cup {[kind |-> "index", x |-> x, i |-> i] : x \in Indexables, i \in Indices}
  \cup {[kind |-> "slice", x |-> x, lo |-> lo, hi |-> hi, mx |-> mx] : x \in Indexables \ {xpi}, lo \in Bounds, hi \in Bounds, mx \in {None, c2, c5, vi}}
  \cup {[kind |-> "star", x |-> x] : x \in Indexables}
  \cup {[kind |-> "conv", t |-> t, o |-> o] : t \in ConvTargets, o \in ConvSources}
VARIABLE pt
\* a[lo::max] is not syntax (the middle index is required in a 3-index slice)
Init == pt \in {p \in Points : (p.kind = "structkey" => Len(p.fs) = Len(p.vals)) /\ (p.kind = "slice" => (Given(p.mx) => Given(p.hi)))}
Next == UNCHANGED pt
Res == CASE pt.kind = "list" -> ListLit(pt.ety, pt.alen, pt.elems)
         [] pt.kind = "openarr" -> OpenArr(pt.ety, pt.elems, pt.use, pt.l)
         [] pt.kind = "map" -> MapLit(pt.kt, pt.vt, pt.elems)
         [] pt.kind = "structpos" -> StructPos(pt.vals)
         [] pt.kind = "structkey" -> StructKeyed(pt.fs, pt.vals)
         [] pt.kind = "index" -> Index(pt.x, pt.i)
         [] pt.kind = "slice" -> Slice(pt.x, pt.lo, pt.hi, pt.mx)
         [] pt.kind = "conv" -> Conv2(pt.t, pt.o)
         [] OTHER -> Star(pt.x)
\* laws: an open array is assignable to exactly one length and its valid constant indices are exactly those below it
OpenLength == (pt.kind = "openarr" /\ pt.use = "elem" /\ Res.ok) => (OpenArr(pt.ety, pt.elems, "index", pt.l).ok /\ ~OpenArr(pt.ety, pt.elems, "index", pt.l + 1).ok)
\* laws: an accepted literal has the literal's type; dropping the last element of an accepted list / map literal keeps it accepted
TypeIsLiteralType == (Res.ok /\ pt.kind = "list") => Res.ty = (IF pt.alen >= 0 THEN "[2]" ELSE "[]") \o pt.ety
PrefixClosed == (Res.ok /\ pt.kind \in {"list", "map"} /\ Len(pt.elems) > 0) =>
                  LET es == SubSeq(pt.elems, 1, Len(pt.elems) - 1) IN
                  IF pt.kind = "list" THEN ListLit(pt.ety, pt.alen, es).ok ELSE MapLit(pt.kt, pt.vt, es).ok
Emit == PrintT(ToJson([pt |-> pt, ok |-> Res.ok, why |-> Res.why, ty |-> Res.ty]))
=============================================================================
