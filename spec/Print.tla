------------------------------- MODULE Print -------------------------------
(* Printing is lossless (property C12): expressions.

   A syntax tree without parentheses and positions (what a builder holds) is printed as

     Tokens(t)   the token sequence Go's grammar needs: parentheses exactly where operator precedence
                 (binary operators are left associative, five precedence levels), unary operands and
                 primary-expression operands require them
     Layout(ts)  the decision where a blank must separate two adjacent tokens so that they do not
                 lex as a different token: + +, - -, / *, < -, < <-, & &, & ^   (go/printer's mayCombine)

   and read back by Lex (maximal munch over adjacent unseparated tokens) and Parse (a
   precedence-climbing parser for Go's expression syntax written here).  TLC checks
   Parse(Lex(Layout(Tokens(t)))) = t for every tree of the bounded grammar.  With NoBlank = TRUE
   (sabotage: no separating blanks) and with NoParens = TRUE (sabotage: no precedence parentheses)
   TLC must produce counterexamples (- -x lexes as --x; (x + y) * z prints as x + y * z).

   Every tree is printed as JSON with its token sequence; the harness turns it into a go/ast tree
   without positions and parentheses, prints it with the repository's forked printer
   (VerifFormatNode), scans the text with go/scanner and compares it with the predicted token
   sequence, parses it back and compares the tree, and checks that the text is a fixed point of
   go/format. *)
EXTENDS Integers, Sequences, TLC, Json
CONSTANTS Ids, BinOps, UnOps, Suffixes, Depth, NoBlank, NoParens

(* ---- trees ---- *)
Id(n) == [k |-> "id", n |-> n]
Bin(op, a, b) == [k |-> "bin", op |-> op, a |-> a, b |-> b]
Un(op, a) == [k |-> "un", op |-> op, a |-> a]
Call(f, arg) == [k |-> "call", a |-> f, b |-> arg]
Idx(a, i) == [k |-> "idx", a |-> a, b |-> i]
Sel(a) == [k |-> "sel", a |-> a]
Prec(op) == CASE op = "||" -> 1 [] op = "&&" -> 2 [] op \in {"==", "<"} -> 3 [] op \in {"+", "-", "|", "^"} -> 4 [] OTHER -> 5     \* * / << & &^

(* ---- tokens ---- *)
Op(v) == [k |-> "op", v |-> v]
Pn(v) == [k |-> "p", v |-> v]
Nm(v) == [k |-> "id", v |-> v]
Wrap(ts) == <<Pn("(")>> \o ts \o <<Pn(")")>>
RECURSIVE Tokens(_)
Operand(t, need) == IF need /\ ~NoParens THEN Wrap(Tokens(t)) ELSE Tokens(t)
Tokens(t) ==
  CASE t.k = "id" -> <<Nm(t.n)>>
    [] t.k = "bin" -> Operand(t.a, t.a.k = "bin" /\ Prec(t.a.op) < Prec(t.op)) \o <<Op(t.op)>> \o Operand(t.b, t.b.k = "bin" /\ Prec(t.b.op) <= Prec(t.op))
    [] t.k = "un" -> <<Op(t.op)>> \o Operand(t.a, t.a.k = "bin")
    [] t.k = "call" -> Operand(t.a, t.a.k \in {"bin", "un"}) \o <<Pn("(")>> \o Tokens(t.b) \o <<Pn(")")>>
    [] t.k = "idx" -> Operand(t.a, t.a.k \in {"bin", "un"}) \o <<Pn("[")>> \o Tokens(t.b) \o <<Pn("]")>>
    [] t.k = "sel" -> Operand(t.a, t.a.k \in {"bin", "un"}) \o <<Pn("."), Nm("m")>>

(* ---- layout: where a blank is indispensable ---- *)
First(tok) == IF tok.k = "op" THEN (CASE tok.v = "<-" -> "<" [] tok.v = "&^" -> "&" [] tok.v = "<<" -> "<" [] tok.v = "&&" -> "&" [] tok.v = "||" -> "|" [] tok.v = "==" -> "=" [] OTHER -> tok.v) ELSE "other"
MayCombine(a, b) == /\ a.k = "op"
                    /\ \/ a.v = "+" /\ First(b) = "+"
                       \/ a.v = "-" /\ First(b) = "-"
                       \/ a.v = "/" /\ First(b) = "*"
                       \/ a.v = "<" /\ First(b) \in {"-", "<"}
                       \/ a.v = "&" /\ First(b) \in {"&", "^"}
\* Layout(ts)[i] = TRUE: a blank follows token i
Layout(ts) == [i \in 1..Len(ts) |-> i < Len(ts) /\ ~NoBlank /\ MayCombine(ts[i], ts[i + 1])]

(* ---- lexer: unseparated operator characters are munched maximally ---- *)
Merge(a, b) == CASE a.v = "+" /\ b.v = "+" -> <<Op("++")>>
                 [] a.v = "-" /\ b.v = "-" -> <<Op("--")>>
                 [] a.v = "/" /\ b.v = "*" -> <<Op("/*")>>
                 [] a.v = "<" /\ b.v = "-" -> <<Op("<-")>>
                 [] a.v = "<" /\ b.v = "<-" -> <<Op("<<"), Op("-")>>
                 [] a.v = "&" /\ b.v = "&" -> <<Op("&&")>>
                 [] a.v = "&" /\ b.v = "^" -> <<Op("&^")>>
                 [] OTHER -> <<a, b>>
RECURSIVE Lex(_, _, _)
Lex(ts, lay, i) ==
  IF i > Len(ts) THEN <<>>
  ELSE IF i < Len(ts) /\ ~lay[i] /\ ts[i].k = "op" /\ ts[i + 1].k = "op" /\ MayCombine(ts[i], ts[i + 1])
       THEN Merge(ts[i], ts[i + 1]) \o Lex(ts, lay, i + 2)
       ELSE <<ts[i]>> \o Lex(ts, lay, i + 1)

(* ---- parser: precedence climbing; every function returns [t, p] (p = 0: error) ---- *)
Err == [t |-> Id("?"), p |-> 0]
IsTok(ts, p, k, v) == p >= 1 /\ p <= Len(ts) /\ ts[p].k = k /\ ts[p].v = v
BinaryOps == {"||", "&&", "==", "<", "+", "-", "|", "^", "*", "/", "<<", "&", "&^"}
UnaryOps == {"-", "+", "!", "^", "&", "<-", "*"}
RECURSIVE PExpr(_, _, _), PUnary(_, _), PPrimary(_, _), PSuffix(_, _, _), PBinLoop(_, _, _, _)
PPrimary(ts, p) ==
  IF p < 1 \/ p > Len(ts) THEN Err
  ELSE IF ts[p].k = "id" THEN PSuffix(ts, Id(ts[p].v), p + 1)
  ELSE IF IsTok(ts, p, "p", "(") THEN
    LET e == PExpr(ts, p + 1, 1) IN
    IF e.p = 0 \/ ~IsTok(ts, e.p, "p", ")") THEN Err ELSE PSuffix(ts, e.t, e.p + 1)
  ELSE Err
PSuffix(ts, x, p) ==
  IF IsTok(ts, p, "p", "(") THEN
    LET a == PExpr(ts, p + 1, 1) IN IF a.p = 0 \/ ~IsTok(ts, a.p, "p", ")") THEN Err ELSE PSuffix(ts, Call(x, a.t), a.p + 1)
  ELSE IF IsTok(ts, p, "p", "[") THEN
    LET a == PExpr(ts, p + 1, 1) IN IF a.p = 0 \/ ~IsTok(ts, a.p, "p", "]") THEN Err ELSE PSuffix(ts, Idx(x, a.t), a.p + 1)
  ELSE IF IsTok(ts, p, "p", ".") THEN
    (IF p + 1 <= Len(ts) /\ ts[p + 1].k = "id" THEN PSuffix(ts, Sel(x), p + 2) ELSE Err)
  ELSE [t |-> x, p |-> p]
PUnary(ts, p) ==
  IF p >= 1 /\ p <= Len(ts) /\ ts[p].k = "op" /\ ts[p].v \in UnaryOps
    THEN LET a == PUnary(ts, p + 1) IN IF a.p = 0 THEN Err ELSE [t |-> Un(ts[p].v, a.t), p |-> a.p]
    ELSE PPrimary(ts, p)
PBinLoop(ts, lhs, p, minPrec) ==
  IF p >= 1 /\ p <= Len(ts) /\ ts[p].k = "op" /\ ts[p].v \in BinaryOps /\ Prec(ts[p].v) >= minPrec
    THEN LET r == PExpr(ts, p + 1, Prec(ts[p].v) + 1) IN
         IF r.p = 0 THEN Err ELSE PBinLoop(ts, Bin(ts[p].v, lhs, r.t), r.p, minPrec)
    ELSE [t |-> lhs, p |-> p]
PExpr(ts, p, minPrec) == LET l == PUnary(ts, p) IN IF l.p = 0 THEN Err ELSE PBinLoop(ts, l.t, l.p, minPrec)
Parse(ts) == LET r == PExpr(ts, 1, 1) IN IF r.p = Len(ts) + 1 THEN r.t ELSE Id("?")

(* ---- the bounded grammar ---- *)
RECURSIVE Trees(_)
Trees(d) == IF d = 0 THEN {Id(n) : n \in Ids}
            ELSE LET S == Trees(d - 1) IN
                 S \cup {Bin(op, a, b) : op \in BinOps, a \in S, b \in S} \cup {Un(op, a) : op \in UnOps, a \in S}
                   \cup (IF "call" \in Suffixes THEN {Call(a, b) : a \in S, b \in {Id(n) : n \in Ids}} ELSE {})
                   \cup (IF "idx" \in Suffixes THEN {Idx(a, b) : a \in S, b \in {Id(n) : n \in Ids}} ELSE {})
                   \cup (IF "sel" \in Suffixes THEN {Sel(a) : a \in S} ELSE {})
VARIABLE t
Init == t \in Trees(Depth)
Next == UNCHANGED t
Printed == Lex(Tokens(t), Layout(Tokens(t)), 1)
RoundTrip == Parse(Printed) = t
\* the blank decisions are minimal: a blank is demanded only where two operator tokens would combine
MinimalBlanks == \A i \in 1..Len(Tokens(t)) : Layout(Tokens(t))[i] => (Tokens(t)[i].k = "op" /\ Tokens(t)[i + 1].k = "op")
Emit == PrintT(ToJson([tree |-> t, tokens |-> [i \in 1..Len(Tokens(t)) |-> Tokens(t)[i].v], blanks |-> Layout(Tokens(t))]))
=============================================================================
