----------------------------- MODULE BlockTrace -----------------------------
(* Trace validation for C16: block events recorded from real executions (VERIF_TRACE_FILE, hook verifTrace) are
   checked against Blocks' frame discipline.  Every event is fully logged (kind, stack length, base, scope depth),
   so the search is linear; acceptance = TLC's search depth reaches Len(Trace) + 1 (checked by the harness).
   Events of different builders are grouped by the harness; a "reset" event starts a fresh builder (tests that end in
   a reported error leave constructs open). *)
EXTENDS Blocks, Json
VARIABLE l
Trace == ndJsonDeserialize("trace.ndjson")
tvars == <<vars, l>>
Ev == Trace[l]
TraceInit == Init /\ l = 1
\* the recorded base of a new frame is the stack length at that moment; nested frames start at or above their parent's base
TraceOpen == /\ l <= Len(Trace) /\ Ev.ev = "open"
             /\ Ev.len = Ev.base
             /\ (Len(frames) > 0 => Ev.base >= Top.base /\ Ev.depth = Top.depth + 1)
             \* the scope depth outside the outermost construct of a builder is not recorded: -1 = unknown
             /\ frames' = Append(frames, [kind |-> Ev.kind, base |-> Ev.base, depth |-> Ev.depth, olddepth |-> IF Len(frames) > 0 THEN Ev.depth - 1 ELSE -1])
             /\ len' = Ev.len /\ depth' = Ev.depth /\ l' = l + 1
\* only the innermost frame closes, with the stack back at its base
TraceClose == /\ l <= Len(Trace) /\ Ev.ev = "close" /\ Len(frames) > 0
              /\ Ev.kind = Top.kind /\ Ev.base = Top.base /\ Ev.depth = Top.depth
              /\ Ev.len = Top.base
              /\ len' = Ev.len /\ UNCHANGED <<frames, depth>> /\ l' = l + 1
\* afterwards the enclosing context is current again: stack length and scope depth as before the construct
TraceClosed == /\ l <= Len(Trace) /\ Ev.ev = "closed" /\ Len(frames) > 0
               /\ Ev.len = Top.base /\ (Top.olddepth >= 0 => Ev.depth = Top.olddepth)
               \* (the context that is current again may be an initialiser context - var x = func() {..}() - which is entered
               \*  without startBlockStmt and therefore not a recorded frame: its kind and base are not compared)
               /\ frames' = SubSeq(frames, 1, Len(frames) - 1) /\ len' = Ev.len /\ depth' = Ev.depth /\ l' = l + 1
TraceReset == /\ l <= Len(Trace) /\ Ev.ev = "reset" /\ frames' = <<>> /\ len' = 0 /\ depth' = 0 /\ l' = l + 1
TraceNext == TraceOpen \/ TraceClose \/ TraceClosed \/ TraceReset
TraceSpec == TraceInit /\ [][TraceNext]_tvars
=============================================================================
