----------------------------- MODULE TypeParams -----------------------------
(* Type parameter lists of generic type declarations (property C12, printing).

   type G[P C] T   is ambiguous when P C can be read as an expression: the parser then takes [P C] for an array length
   (type G [P*int]T).  The Go syntax: a constraint that starts with * (or a parenthesis) combines with the name, unless
   one of the terms of the union can only be a type element (~T, a type literal such as []T); gofmt writes the
   single type parameter of such a declaration with a trailing comma, [P *int | string,].  With two or more type
   parameters, and for the type parameters of a function, there is no ambiguity.

     NeedsComma(c, n)   n = 1 type parameter and its constraint c = t1 | t2 | ... starts with * and no ti is a type element

   The harness validates NeedsComma against go/parser (the text without the comma parses as an array type exactly
   then), declares every point through the builder, writes the package and reads it back: the type parameter list, its
   constraint and the declared struct type must survive, and the text must be a gofmt fixed point. *)
EXTENDS Integers, Sequences, FiniteSets, TLC, Json
CONSTANTS MaxTerms
Terms == {"int", "*int", "~int", "string", "*string", "~string", "[]int"}
Base(t) == IF t \in {"int", "*int", "~int", "[]int"} THEN "int" ELSE "string"
Star(t) == t \in {"*int", "*string"}
TypeElem(t) == t \in {"~int", "~string", "[]int"}
RECURSIVE SeqsUpTo(_, _)
SeqsUpTo(A, n) == IF n = 0 THEN {<<>>} ELSE LET shorter == SeqsUpTo(A, n - 1) IN shorter \cup {Append(q, x) : q \in {r \in shorter : Len(r) = n - 1}, x \in A}
\* well-formed unions: no term twice, T and ~T of one base do not overlap
WellFormed(c) == /\ \A i, j \in 1..Len(c) : i < j => c[i] # c[j]
                 /\ \A i, j \in 1..Len(c) : ~(c[i] = Base(c[i]) /\ c[j] = "~" \o Base(c[i]))
Constraints == {c \in SeqsUpTo(Terms, MaxTerms) : Len(c) > 0 /\ WellFormed(c)}
NeedsComma(c, n) == n = 1 /\ Star(c[1]) /\ \A i \in 1..Len(c) : ~TypeElem(c[i])
VARIABLE pt
Init == pt \in [c : Constraints, n : {1, 2}]
Next == UNCHANGED pt
\* laws: a second type parameter or a type-element term removes the ambiguity; a constraint not starting with * never needs it
Laws == /\ (pt.n = 2 => ~NeedsComma(pt.c, pt.n))
        /\ (~Star(pt.c[1]) => ~NeedsComma(pt.c, pt.n))
        /\ ((\E i \in 1..Len(pt.c) : TypeElem(pt.c[i])) => ~NeedsComma(pt.c, pt.n))
Emit == PrintT(ToJson([c |-> pt.c, n |-> pt.n, comma |-> NeedsComma(pt.c, pt.n)]))
=============================================================================
