------------------------- MODULE TypeMapTrace -------------------------
(* Trace validation for C19: executions recorded from the real typeutil.Map
   (random Set/Delete sequences over real types realising Shape, with the
   result of every call and At/Len/Keys observed after it) are checked against
   TypeMap's actions.  Every event is fully logged, so the search is linear;
   acceptance = TLC's search depth reaches Len(Trace)+1 (checked by the harness).
   Many traces are concatenated; a "Reset" event starts a fresh map. *)
EXTENDS TypeMap
VARIABLE l
Trace == ndJsonDeserialize("trace.ndjson")
tvars == <<vars, l>>
ToSet(s) == {s[i] : i \in DOMAIN s}
TraceInit == Init /\ l = 1
Ev == Trace[l]
Matches(e) == /\ last'.ret = e.ret
              /\ last'.obs.len = e.len
              /\ last'.obs.keys = ToSet(e.keys)
              /\ \A k \in Keys : last'.obs.at[k] = e.at[k]
TraceSet    == l <= Len(Trace) /\ Ev.op = "Set"    /\ Set(Ev.k, Ev.v) /\ Matches(Ev) /\ l' = l + 1
TraceDelete == l <= Len(Trace) /\ Ev.op = "Delete" /\ Delete(Ev.k)    /\ Matches(Ev) /\ l' = l + 1
TraceReset  == /\ l <= Len(Trace) /\ Ev.op = "Reset" /\ l' = l + 1
               /\ table' = [h \in Hashes |-> <<>>] /\ length' = 0 /\ m' = [c \in Classes |-> NoVal]
               /\ hist' = <<>> /\ last' = [op |-> "init"]
TraceNext == TraceSet \/ TraceDelete \/ TraceReset
TraceSpec == TraceInit /\ [][TraceNext]_tvars
=======================================================================
