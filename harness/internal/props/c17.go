package props

// C17 — every operation terminates promptly and never fails with a run-time fault.
//
// spec/Total.tla contributes the complete cross product operation x operand classes x
// configuration (well-typed or not, extreme constants, absent optional configuration) with
// the only prediction Outcome \in {ok, reported}.  Every point is executed on the real
// CodeBuilder in an isolated child process with an address-space limit and a per-operation
// deadline; a recovered runtime.Error, a foreign panic (go/constant, math/big), a timeout,
// memory exhaustion or the death of the worker is a fault (a dying point is re-run alone in
// a fresh worker before it is reported).  The expression points of Ops.tla contribute too.

import (
	"bufio"
	"encoding/json"
	"fmt"
	"go/ast"
	"go/token"
	"go/types"
	"io"
	"os"
	"os/exec"
	"runtime/debug"
	"strings"
	"sync/atomic"
	"syscall"
	"time"

	"github.com/goplus/gogen"

	"verif/harness/internal/ev"
	"verif/harness/internal/tlc"
)

func init() { Registry["C17"] = runC17 }

type totPoint struct {
	Op  string `json:"op"`
	X   string `json:"x"`
	Y   string `json:"y"`
	Cfg string `json:"cfg"`
}

func (p totPoint) key() string { return p.Op + "(" + p.X + "," + p.Y + ")/" + p.Cfg }

type totRecorder struct{}

func (totRecorder) Member(id ast.Node, obj types.Object) {}
func (totRecorder) Call(fn ast.Node, obj types.Object)   {}

type totWorld struct {
	pkg *gogen.Package
	cb  *gogen.CodeBuilder
	n   int
	npush int
	src bool // configuration "src": operands and operations carry source nodes
}

// srcNode makes a source node with a position for the k-th operand / the operation of a point
func (w *totWorld) srcNode(k int) []ast.Node {
	if !w.src {
		return nil
	}
	return []ast.Node{&ast.Ident{NamePos: token.Pos(10 + 10*k), Name: fmt.Sprintf("src%d", k)}}
}

func newTotWorld(cfg string) *totWorld {
	fset, imp := sharedImporter()
	// a client that collects errors renders them: a fault while rendering is a fault of the operation that reported
	c := &gogen.Config{Fset: fset, Importer: imp, HandleErr: func(e error) { _ = e.Error() }}
	switch cfg {
	case "recorder":
		c.Recorder = totRecorder{}
	case "noskip":
		c.NoSkipConstant = true
	}
	w := &totWorld{src: cfg == "src"}
	w.pkg = gogen.NewPackage("", "p", c)
	pkg := w.pkg
	ti := types.Typ[types.Int]
	my := pkg.NewType("MyInt").InitType(pkg, ti)
	vars := map[string]types.Type{
		"vint": ti, "vint8": types.Typ[types.Int8], "vuint": types.Typ[types.Uint], "vfloat": types.Typ[types.Float64], "vstring": types.Typ[types.String],
		"vbool": types.Typ[types.Bool], "vslice": types.NewSlice(ti), "varray": types.NewArray(ti, 3), "vmap": types.NewMap(types.Typ[types.String], ti),
		"vchan": types.NewChan(types.SendRecv, ti), "vptr": types.NewPointer(ti),
		"vfunc":   types.NewSignatureType(nil, nil, nil, types.NewTuple(types.NewParam(token.NoPos, pkg.Types, "a", ti)), types.NewTuple(types.NewParam(token.NoPos, pkg.Types, "", ti)), false),
		"vstruct": types.NewStruct([]*types.Var{types.NewField(token.NoPos, pkg.Types, "X", ti, false)}, nil), "viface": types.NewInterfaceType(nil, nil), "vnamed": my,
	}
	for n, t := range vars {
		pkg.NewVar(token.NoPos, t, n)
	}
	// recursive type shapes: type A struct{*B; x int}; type B struct{*A; y int}; type L []L
	ta, tb, tl := pkg.NewType("CycA"), pkg.NewType("CycB"), pkg.NewType("RecL")
	na, nb := ta.Type(), tb.Type()
	ta.InitType(pkg, types.NewStruct([]*types.Var{types.NewField(token.NoPos, pkg.Types, "CycB", types.NewPointer(nb), true), types.NewField(token.NoPos, pkg.Types, "x", ti, false)}, nil))
	tb.InitType(pkg, types.NewStruct([]*types.Var{types.NewField(token.NoPos, pkg.Types, "CycA", types.NewPointer(na), true), types.NewField(token.NoPos, pkg.Types, "y", ti, false)}, nil))
	nl := tl.InitType(pkg, types.NewSlice(tl.Type()))
	pkg.NewVar(token.NoPos, na, "vcyc")
	pkg.NewVar(token.NoPos, types.NewPointer(na), "vcycptr")
	pkg.NewVar(token.NoPos, nl, "vrecslice")
	terr := types.Universe.Lookup("error").Type()
	pkg.NewFunc(nil, "f2", nil, types.NewTuple(types.NewParam(token.NoPos, pkg.Types, "", ti), types.NewParam(token.NoPos, pkg.Types, "", terr)), false).
		BodyStart(pkg).Val(0).Val(nil).Return(2).End()
	pkg.NewFunc(nil, "f0", nil, nil, false).BodyStart(pkg).End()
	pkg.NewFunc(nil, "f2args", types.NewTuple(types.NewParam(token.NoPos, pkg.Types, "a", ti), types.NewParam(token.NoPos, pkg.Types, "b", types.Typ[types.String])), nil, false).BodyStart(pkg).End()
	return w
}

func (w *totWorld) push(cls string) {
	cb := w.cb
	w.npush++
	sn := w.srcNode(w.npush)
	ref := func(n string) types.Object { return w.pkg.Types.Scope().Lookup(n) }
	lit := func(s string) { cb.Val(&ast.BasicLit{Kind: token.INT, Value: s}, sn...) }
	switch cls {
	case "int", "int8", "uint", "float", "string", "bool", "slice", "array", "map", "chan", "ptr", "func", "struct", "iface", "named", "cyc", "cycptr", "recslice":
		cb.Val(ref("v"+cls), sn...)
	case "c0":
		cb.Val(0, sn...)
	case "c1":
		cb.Val(1, sn...)
	case "cneg":
		cb.Val(-1, sn...)
	case "cfloat":
		cb.Val(&ast.BasicLit{Kind: token.FLOAT, Value: "1.5"}, sn...)
	case "cstring":
		cb.Val("s", sn...)
	case "cbool":
		cb.Val(true, sn...)
	case "crune":
		cb.Val('a', sn...)
	case "nil":
		cb.Val(nil, sn...)
	case "c2p40":
		lit("1099511627776") // as a shift count it asks for 2^40 bits (128 GB)
	case "c2p63":
		lit("9223372036854775808")
	case "c2p64":
		lit("18446744073709551616")
	case "c2p100":
		lit("1267650600228229401496703205376")
	case "chuge":
		lit("1" + strings.Repeat("0", 10000))
	case "cbigshift":
		lit("4611686018427387904") // 2^62: as a shift count it asks for 2^62 bits
	case "type":
		cb.Typ(types.Typ[types.Int], sn...)
	case "ref":
		cb.VarRef(ref("vint"), sn...)
	case "tuple2":
		cb.Val(ref("f2")).CallWith(0, 0, 0, sn...)
	case "novalue":
		cb.Val(ref("f0")).CallWith(0, 0, 0, sn...)
	default:
		panic("harness: unknown operand class " + cls)
	}
}

var totTok = map[string]token.Token{"+": token.ADD, "/": token.QUO, "%": token.REM, "<<": token.SHL, ">>": token.SHR, "==": token.EQL, "<": token.LSS, "&&": token.LAND, "&^": token.AND_NOT,
	"-": token.SUB, "^": token.XOR, "!": token.NOT, "<-": token.ARROW, "+=": token.ADD_ASSIGN, "<<=": token.SHL_ASSIGN}

// exec runs one point; returns outcome "ok" | "reported" | "fault" and a message.
func (w *totWorld) exec(p totPoint) (outcome, msg string) {
	pkg := w.pkg
	w.n++
	ti := types.Typ[types.Int]
	defer func() {
		if e := recover(); e != nil {
			outcome = "reported"
			if err, isErr := e.(error); isErr {
				if _, rt := e.(interface{ RuntimeError() }); !rt {
					// the client reads the reported error: a fault while rendering it (fmt would swallow it) is a fault
					func() {
						defer func() {
							if e2 := recover(); e2 != nil {
								outcome, msg = "fault", fmt.Sprintf("rendering the reported %T: %v", err, e2)
							}
						}()
						msg = err.Error()
					}()
					if outcome == "fault" {
						return
					}
				}
			}
			msg = fmt.Sprint(e)
			if _, ok := e.(interface{ RuntimeError() }); ok {
				outcome = "fault"
			} else if s, ok := e.(string); ok && isForeignPanic(s) {
				outcome = "fault"
			} else if strings.HasPrefix(msg, "harness:") {
				outcome = "harness"
			}
		}
	}()
	res := types.NewTuple(types.NewParam(token.NoPos, pkg.Types, "", ti))
	w.cb = pkg.NewFunc(nil, fmt.Sprintf("t%d", w.n), nil, res, false).BodyStart(pkg)
	cb := w.cb
	bi := pkg.Builtin()
	ref := func(n string) types.Object { return pkg.Types.Scope().Lookup(n) }
	op := p.Op
	switch {
	case strings.HasPrefix(op, "UnaryOp"):
		w.push(p.X)
		cb.UnaryOp(totTok[op[7:]], w.srcNode(0)...)
	case strings.HasPrefix(op, "BinaryOp"):
		w.push(p.X)
		w.push(p.Y)
		cb.BinaryOp(totTok[op[8:]], w.srcNode(0)...)
	case strings.HasPrefix(op, "AssignOp"):
		w.push(p.X)
		w.push(p.Y)
		cb.AssignOp(totTok[op[8:]], w.srcNode(0)...)
	default:
		switch op {
		case "Star":
			w.push(p.X)
			cb.Star()
		case "Elem":
			w.push(p.X)
			cb.Elem()
		case "IncDec":
			w.push(p.X)
			cb.IncDec(token.INC)
		case "MemberVal":
			w.push(p.X)
			cb.MemberVal("Foo", 0)
		case "MemberRef":
			w.push(p.X)
			cb.MemberRef("Foo")
		case "TypeAssert":
			w.push(p.X)
			cb.TypeAssert(ti, 0)
		case "Call0":
			w.push(p.X)
			cb.Call(0)
		case "Convert":
			cb.Typ(ti)
			w.push(p.X)
			cb.Call(1)
		case "len", "cap":
			cb.Val(bi.Ref(op))
			w.push(p.X)
			cb.Call(1)
		case "Index0":
			w.push(p.X)
			cb.Val(0).Index(1, 0)
		case "EndStmt":
			w.push(p.X)
			cb.EndStmt()
		case "Return1":
			w.push(p.X)
			cb.Return(1)
		case "Defer":
			w.push(p.X)
			cb.Defer()
		case "Go":
			w.push(p.X)
			cb.Go()
		case "RangeThen":
			cb.ForRange("k", "v")
			w.push(p.X)
			cb.RangeAssignThen(token.NoPos).End()
		case "IfThen":
			cb.If()
			w.push(p.X)
			cb.Then().End()
		case "SwitchThen":
			cb.Switch()
			w.push(p.X)
			cb.Then().End()
		case "ZeroConv":
			w.push(p.X)
			cb.Call(0)
		case "MemberAlias":
			w.push(p.X)
			cb.Member("foo", 0, gogen.MemberFlagMethodAlias)
		case "MemberAutoProp":
			w.push(p.X)
			cb.Member("foo", 0, gogen.MemberFlagAutoProperty)
		case "TypeAssert2":
			w.push(p.X)
			cb.TypeAssert(ti, 2)
		case "IndexRef0":
			w.push(p.X)
			cb.Val(0).IndexRef(1)
		case "ElemRef":
			w.push(p.X)
			cb.ElemRef()
		case "StructLit1":
			w.push(p.X)
			cb.StructLit(ref("vstruct").Type(), 1, false)
		case "ArrayLit1":
			w.push(p.X)
			cb.ArrayLit(types.NewArray(ti, 2), 1)
		case "TypeSwitchThen":
			cb.TypeSwitch("t")
			w.push(p.X)
			cb.TypeAssertThen().End()
		case "ForThen":
			cb.For()
			w.push(p.X)
			cb.Then().End()
		case "InlineClosure1":
			par := types.NewParam(token.NoPos, pkg.Types, "a", ti)
			sig := types.NewSignatureType(nil, nil, nil, types.NewTuple(par), types.NewTuple(types.NewParam(token.NoPos, pkg.Types, "", ti)), false)
			w.push(p.X)
			cb.CallInlineClosureStart(sig, 1, false).Val(par).Return(1).End()
		case "Instantiate":
			w.push(p.X)
			cb.Typ(ti).Index(1, 0)
		case "DefineVar":
			cb.DefineVarStart(token.NoPos, "d")
			w.push(p.X)
			cb.EndInit(1)
		case "CallEllipsis1":
			cb.Val(bi.Ref("append")).Val(ref("vslice"))
			w.push(p.X)
			cb.Call(2, true)
		case "new", "make", "panic":
			cb.Val(bi.Ref(op))
			w.push(p.X)
			cb.Call(1)
		case "Slice3":
			w.push(p.X)
			w.push(p.Y)
			cb.Val(1).Val(2).Slice(true)
		case "StructLitKV":
			s2 := types.NewStruct([]*types.Var{types.NewField(token.NoPos, pkg.Types, "A", ti, false), types.NewField(token.NoPos, pkg.Types, "B", types.Typ[types.String], false)}, nil)
			cb.Val(0)
			w.push(p.X)
			cb.Val(1)
			w.push(p.Y)
			cb.StructLit(s2, 4, true)
		case "ArrayLitKV":
			w.push(p.X)
			w.push(p.Y)
			cb.ArrayLit(types.NewArray(ti, 2), 2, true)
		case "SliceLitKV":
			w.push(p.X)
			w.push(p.Y)
			cb.SliceLit(types.NewSlice(ti), 2, true)
		case "IndexRef":
			w.push(p.X)
			w.push(p.Y)
			cb.IndexRef(1)
		case "Call2":
			cb.Val(ref("f2args"))
			w.push(p.X)
			w.push(p.Y)
			cb.Call(2)
		case "Return2":
			w.push(p.X)
			w.push(p.Y)
			cb.Return(2)
		case "AssignMulti":
			cb.VarRef(ref("vint")).VarRef(ref("vstring"))
			w.push(p.X)
			w.push(p.Y)
			cb.Assign(2, 2)
		case "CommCaseSend":
			cb.Select().CommCase()
			w.push(p.X)
			w.push(p.Y)
			cb.Send().Then().End().End()
		case "RangeAssign":
			cb.ForRange()
			w.push(p.X)
			w.push(p.Y)
			cb.RangeAssignThen(token.NoPos).End()
		case "delete", "complex", "min":
			cb.Val(bi.Ref(op))
			w.push(p.X)
			w.push(p.Y)
			cb.Call(2)
		case "Assign":
			w.push(p.X)
			w.push(p.Y)
			cb.Assign(1)
		case "Send":
			w.push(p.X)
			w.push(p.Y)
			cb.Send()
		case "Index":
			w.push(p.X)
			w.push(p.Y)
			cb.Index(1, 0)
		case "Slice":
			w.push(p.X)
			w.push(p.Y)
			cb.None().Slice(false)
		case "Call1":
			w.push(p.X)
			w.push(p.Y)
			cb.Call(1)
		case "append", "copy":
			cb.Val(bi.Ref(op))
			w.push(p.X)
			w.push(p.Y)
			cb.Call(2)
		case "MapLit":
			w.push(p.X)
			w.push(p.Y)
			cb.MapLit(types.NewMap(types.Typ[types.String], ti), 2)
		case "SliceLit":
			w.push(p.X)
			w.push(p.Y)
			cb.SliceLit(types.NewSlice(ti), 2)
		case "CaseThen":
			cb.Switch()
			w.push(p.X)
			cb.Then().Case()
			w.push(p.Y)
			cb.Then().End().End()
		default:
			panic("harness: unknown op " + op)
		}
	}
	return "ok", ""
}

// totChild: points on stdin; "S i" before and "D i outcome msg" after every point.
func totChild() {
	var lim syscall.Rlimit
	lim.Cur, lim.Max = 6<<30, 6<<30
	syscall.Setrlimit(syscall.RLIMIT_AS, &lim)
	debug.SetMaxStack(128 << 20) // unbounded recursion dies in about a second instead of after growing a 1 GB stack
	sc := bufio.NewScanner(os.Stdin)
	sc.Buffer(make([]byte, 1<<20), 1<<20)
	out := bufio.NewWriter(os.Stdout)
	worlds := map[string]*totWorld{}
	i := 0
	for sc.Scan() {
		var p totPoint
		if json.Unmarshal(sc.Bytes(), &p) != nil {
			continue
		}
		fmt.Fprintf(out, "S %d\n", i)
		out.Flush()
		w := worlds[p.Cfg]
		if w == nil {
			w = newTotWorld(p.Cfg)
			worlds[p.Cfg] = w
		}
		t0 := selfCPU()
		outcome, msg := w.exec(p)
		if outcome != "ok" {
			delete(worlds, p.Cfg) // the package may be left in a half-built state
		}
		msg = strings.ReplaceAll(msg, "\n", " ")
		if len(msg) > 200 {
			msg = msg[:200]
		}
		fmt.Fprintf(out, "D %d %s %d %s\n", i, outcome, (selfCPU() - t0).Milliseconds(), msg)
		out.Flush()
		i++
	}
	os.Exit(0)
}

func totGroup(c string) string {
	switch c {
	case "int", "int8", "uint", "float", "string", "bool", "slice", "array", "map", "chan", "ptr", "func", "struct", "iface", "named":
		return "variable"
	case "c0", "c1", "cneg", "cfloat", "cstring", "cbool", "crune":
		return "untyped-constant"
	case "c2p63", "c2p64", "c2p100", "chuge", "cbigshift":
		return "huge-constant"
	case "c2p40":
		return "constant-2^40"
	case "cyc", "cycptr", "recslice":
		return "recursive-type"
	case "-":
		return "-"
	}
	return c // nil, type, ref, tuple2, novalue
}

func totMsgClass(m string) string {
	switch {
	case strings.Contains(m, "nil pointer"):
		return "nil-dereference"
	case strings.Contains(m, "interface conversion"):
		return "failed-type-assertion"
	case strings.Contains(m, "index out of range") || strings.Contains(m, "slice bounds"):
		return "index-out-of-range"
	case strings.Contains(m, "no answer within") || strings.Contains(m, "worker died"):
		return "resource-exhaustion-or-hang"
	case strings.Contains(m, "took "):
		return "slow"
	}
	return "foreign-panic(go/constant,math/big)"
}

type totResult struct {
	outcome, msg string
	ms           int64
}

// totRunBatch runs points in one child; returns results for the points it finished and the index where it died (-1 = none).
// selfCPU is the CPU time this process has used (user + system): the cost of an operation is measured in CPU time so that a
// loaded machine does not make operations look slow
func selfCPU() time.Duration {
	var ru syscall.Rusage
	syscall.Getrusage(syscall.RUSAGE_SELF, &ru)
	return time.Duration(ru.Utime.Nano() + ru.Stime.Nano())
}

// procCPU is the CPU time used so far by a process and the children it has waited for (/proc/<pid>/stat, 100 ticks per second)
func procCPU(pid int) time.Duration {
	b, err := os.ReadFile(fmt.Sprintf("/proc/%d/stat", pid))
	if err != nil {
		return 0
	}
	st := string(b)
	if i := strings.LastIndex(st, ")"); i >= 0 {
		st = st[i+1:]
	}
	f := strings.Fields(st) // f[0] is the state: utime, stime, cutime, cstime are fields 14-17 of the line = f[11..14]
	if len(f) < 15 {
		return 0
	}
	var ticks int64
	for _, x := range f[11:15] {
		var v int64
		fmt.Sscan(x, &v)
		ticks += v
	}
	return time.Duration(ticks) * 10 * time.Millisecond
}

func totRunBatch(points []totPoint, perOp time.Duration) ([]totResult, int, string) {
	exe, _ := os.Executable()
	cmd := exec.Command(exe, "C17", "emit")
	stdin, _ := cmd.StdinPipe()
	stdout, _ := cmd.StdoutPipe()
	var stderr strings.Builder
	cmd.Stderr = &stderr
	if err := cmd.Start(); err != nil {
		return nil, 0, err.Error()
	}
	go func() {
		w := bufio.NewWriter(stdin)
		for _, p := range points {
			b, _ := json.Marshal(p)
			w.Write(b)
			w.WriteByte('\n')
		}
		w.Flush()
		stdin.Close()
	}()
	results := make([]totResult, 0, len(points))
	lines := make(chan string, 64)
	go func() {
		rd := bufio.NewReaderSize(stdout, 1<<20)
		for {
			l, err := rd.ReadString('\n')
			if l != "" {
				lines <- strings.TrimRight(l, "\n")
			}
			if err != nil {
				close(lines)
				return
			}
		}
	}()
	died, why := -1, ""
	cur := -1
	// the deadline is about the operation, not about the machine: when the worker (with the children it waited for) has used
	// little CPU since its last answer, it is being starved by other load and gets more time (hard cap 15 deadlines)
	lastLine, lastCPU := time.Now(), procCPU(cmd.Process.Pid)
loop:
	for {
		select {
		case l, ok := <-lines:
			if !ok {
				break loop
			}
			lastLine, lastCPU = time.Now(), procCPU(cmd.Process.Pid)
			f := strings.SplitN(l, " ", 5)
			switch f[0] {
			case "S":
				fmt.Sscan(f[1], &cur)
			case "D":
				r := totResult{outcome: f[2]}
				fmt.Sscan(f[3], &r.ms)
				if len(f) > 4 {
					r.msg = f[4]
				}
				results = append(results, r)
				cur = -1
			}
		case <-time.After(perOp):
			if used := procCPU(cmd.Process.Pid) - lastCPU; used < perOp/2 && time.Since(lastLine) < 15*perOp {
				continue
			}
			cmd.Process.Kill()
			died, why = cur, fmt.Sprintf("no answer within %v (non-termination or runaway allocation)", perOp)
			break loop
		}
	}
	err := cmd.Wait()
	if died < 0 && len(results) < len(points) {
		died = len(results)
		why = fmt.Sprintf("worker died: %v; %s", err, firstLines(stderr.String(), 3))
	}
	io.Copy(io.Discard, stdout)
	return results, died, why
}

func runC17(tier, replay string) {
	if tier == "emit" {
		totChild()
	}
	run := ev.Start("C17", tier, "exploration")
	var points []totPoint
	if replay != "" {
		var bp biPoint
		if loadReplay(replay, &bp) == nil && bp.Pt.Fn != "" { // a call of a predeclared function (Builtins.tla)
			biCheck(run, []biPoint{bp}, "C17")
			run.Sample(bp.text())
			run.Finish()
		}
		var p totPoint
		if err := loadReplay(replay, &p); err != nil {
			run.Infra(err)
		}
		points = []totPoint{p}
	} else {
		res, err := tlc.Run(tlc.Opts{SpecDir: SpecDir, Module: "Total", Cfg: "INIT Init\nNEXT Next\nINVARIANTS Total Emit\nCHECK_DEADLOCK FALSE\n", Workers: 4, Heavy: true, Timeout: 20 * time.Minute,
			OnJSON: func(l string) {
				var p totPoint
				if json.Unmarshal([]byte(l), &p) == nil && p.Op != "" {
					points = append(points, p)
				}
			}})
		if err != nil {
			run.Infra(err)
		}
		if res.Violation {
			run.Infra(fmt.Errorf("Total.tla: %s", res.ErrText))
		}
		run.Set("tlc_states", res.Distinct)
	}
	if tier == "quick" && replay == "" {
		// quick: the default and the src configuration for binary points, every configuration for unary points
		var keep []totPoint
		for _, p := range points {
			if p.Y == "-" || p.Cfg == "default" || p.Cfg == "src" {
				keep = append(keep, p)
			}
		}
		points = keep
	}
	if len(points) == 0 {
		run.Infra(fmt.Errorf("Total.tla produced no point"))
	}
	counts := map[string]int64{}
	var slowest int64
	slowKey := ""
	skipped := 0
	report := func(p totPoint, kind, msg string) {
		cls := fmt.Sprintf("%s/%s [%s, %s] %s", kind, p.Op, totGroup(p.X), totGroup(p.Y), totMsgClass(msg))
		run.Fail(cls, fmt.Sprintf("%s on operands (%s, %s) in configuration %s: %s", p.Op, p.X, p.Y, p.Cfg, msg), p)
	}
	// batches in parallel children
	const batch = 3000
	type job struct{ from, to int }
	var jobs []job
	for i := 0; i < len(points); i += batch {
		j := job{i, i + batch}
		if j.to > len(points) {
			j.to = len(points)
		}
		jobs = append(jobs, j)
	}
	type done struct {
		j       job
		results []totResult
		died    []int
		why     []string
	}
	outc := make(chan done, len(jobs))
	sem := make(chan struct{}, 6)
	var deaths int32
	const maxDeaths = 12
	for _, j := range jobs {
		go func(j job) {
			sem <- struct{}{}
			defer func() { <-sem }()
			d := done{j: j, results: make([]totResult, j.to-j.from)}
			pos := j.from
			for pos < j.to {
				if atomic.LoadInt32(&deaths) >= maxDeaths {
					// enough confirmed worker deaths to fail the run: the remaining points of this job are not executed
					for k := pos; k < j.to; k++ {
						d.results[k-j.from] = totResult{outcome: "skipped"}
					}
					break
				}
				rs, died, why := totRunBatch(points[pos:j.to], 20*time.Second)
				copy(d.results[pos-j.from:], rs)
				if died < 0 {
					break
				}
				// confirm the dying point alone in a fresh worker
				idx := pos + died
				if idx >= j.to {
					break
				}
				_, died2, why2 := totRunBatch(points[idx:idx+1], 20*time.Second)
				if died2 >= 0 {
					atomic.AddInt32(&deaths, 1)
					d.died = append(d.died, idx)
					d.why = append(d.why, why+" / alone: "+why2)
					d.results[idx-j.from] = totResult{outcome: "fatal", msg: why2}
				} else {
					d.results[idx-j.from] = totResult{outcome: "flaky-death", msg: why}
				}
				pos = idx + 1
			}
			outc <- d
		}(j)
	}
	for range jobs {
		d := <-outc
		for i, r := range d.results {
			p := points[d.j.from+i]
			if r.outcome == "skipped" {
				skipped++
				continue
			}
			run.Eval(p.key())
			counts[r.outcome]++
			if r.ms > slowest {
				slowest, slowKey = r.ms, p.key()
			}
			switch r.outcome {
			case "fault":
				report(p, "run-time-fault", r.msg)
			case "fatal":
				report(p, "process-fatal", r.msg)
			case "harness":
				run.Infra(fmt.Errorf("harness cannot realise %v: %s", p, r.msg))
			case "flaky-death", "":
				run.Infra(fmt.Errorf("worker died on %v but the point survives alone: %s", p, r.msg))
			default:
				if r.ms > 5000 {
					report(p, "slow-operation", fmt.Sprintf("took %d ms of CPU time", r.ms))
				}
			}
		}
	}
	if skipped > 0 {
		run.Set("not_executed", fmt.Sprintf("%d points were not executed: the run stopped after %d confirmed worker deaths", skipped, maxDeaths))
		if atomic.LoadInt32(&deaths) < maxDeaths {
			run.Infra(fmt.Errorf("%d points skipped without the death limit being reached", skipped))
		}
	}
	if replay == "" { // the calls of predeclared functions of Builtins.tla (valid and invalid): every one ends in ok or a reported error
		biRun(run, "C17")
	}
	run.Sample(map[string]any{"point": points[len(points)/3], "meaning": "operation applied to operand classes in a configuration; outcome must be ok or a reported error"})
	run.Set("outcomes", counts)
	run.Set("slowest_operation_ms", slowest)
	run.Set("slowest_operation", slowKey)
	run.Set("rule", "a case = one point of Total.tla's cross product (operation x operand classes x configuration) executed in an isolated worker (6 GB address space, 20 s deadline); distinct = distinct point")
	run.Assume("time and memory are monitored, not modelled: a fault is a recovered runtime.Error, a foreign panic, a deadline miss or worker death confirmed by re-running the point alone")
	run.Finish()
}
