package props

// C13 — type expressions round-trip: printed types denote the identical type.
//
// spec/TypeSyntax.tla maps type terms to the token sequence Go's grammar requires and parses
// them back with a recursive-descent parser for Go's type syntax written in TLA+; TLC checks
// Parse(Tokens(t)) = t on every term of the bounded grammar (and refutes it when channel
// elements are never parenthesised).  The same terms are realised as go/types types,
// declared through the builder as a variable (file A), a type definition and an alias
// (file B), written, re-parsed and re-checked with the same importer; the type read back
// must equal the original (structural comparison: local defined types by name, imported
// ones by object, struct tags byte-exact, method sets as sets).

import (
	"bytes"
	"encoding/json"
	"fmt"
	"go/ast"
	"go/parser"
	"go/token"
	"go/types"
	"os"
	"sort"
	"strings"
	"sync"
	"time"

	"github.com/goplus/gogen"

	"verif/harness/internal/ev"
	"verif/harness/internal/tlc"
)

func init() { Registry["C13"] = runC13 }

// sTerm is a term of TypeSyntax.tla
type sTerm struct {
	K    string   `json:"k"`
	N    string   `json:"n,omitempty"`
	Pkg  string   `json:"pkg,omitempty"`
	E    *sTerm   `json:"e,omitempty"`
	Len  int      `json:"len,omitempty"`
	Key  *sTerm   `json:"key,omitempty"`
	Dir  string   `json:"dir,omitempty"`
	Ps   []sTerm  `json:"ps,omitempty"`
	Rs   []sTerm  `json:"rs,omitempty"`
	Va   bool     `json:"va,omitempty"`
	Fs   []sField `json:"fs,omitempty"`
	Ms   []sMeth  `json:"ms,omitempty"`
	Args []sTerm  `json:"args,omitempty"`
}
type sField struct {
	N   string `json:"n"`
	Emb bool   `json:"emb"`
	T   sTerm  `json:"t"`
	Tag string `json:"tag"`
}
type sMeth struct {
	N   string `json:"n"`
	Emb bool   `json:"emb"`
	T   sTerm  `json:"t"`
}

func (t sTerm) String() string {
	switch t.K {
	case "basic":
		if t.N == "unsafeptr" {
			return "unsafe.Pointer"
		}
		return t.N
	case "qual":
		return t.Pkg + "." + t.N
	case "named":
		return t.N
	case "inst":
		var as []string
		for _, a := range t.Args {
			as = append(as, a.String())
		}
		q := ""
		if t.Pkg != "" {
			q = t.Pkg + "."
		}
		return q + t.N + "[" + strings.Join(as, ", ") + "]"
	case "ptr":
		return "*" + t.E.String()
	case "slice":
		return "[]" + t.E.String()
	case "array":
		return fmt.Sprintf("[%d]%s", t.Len, t.E)
	case "map":
		return "map[" + t.Key.String() + "]" + t.E.String()
	case "chan":
		e := t.E.String()
		if t.E.K == "chan" && t.E.Dir == "recv" {
			e = "(" + e + ")"
		}
		switch t.Dir {
		case "send":
			return "chan<- " + e
		case "recv":
			return "<-chan " + e
		}
		return "chan " + e
	case "func":
		var ps, rs []string
		for i, p := range t.Ps {
			s := p.String()
			if t.Va && i == len(t.Ps)-1 {
				s = "..." + p.E.String()
			}
			ps = append(ps, s)
		}
		for _, r := range t.Rs {
			rs = append(rs, r.String())
		}
		s := "func(" + strings.Join(ps, ", ") + ")"
		if len(rs) == 1 {
			s += " " + rs[0]
		} else if len(rs) > 1 {
			s += " (" + strings.Join(rs, ", ") + ")"
		}
		return s
	case "struct":
		var fs []string
		for _, f := range t.Fs {
			s := f.T.String()
			if !f.Emb {
				s = f.N + " " + s
			}
			if f.Tag != "" {
				s += fmt.Sprintf(" %q", f.Tag)
			}
			fs = append(fs, s)
		}
		return "struct{" + strings.Join(fs, "; ") + "}"
	case "iface":
		var ms []string
		for _, m := range t.Ms {
			if m.Emb {
				ms = append(ms, m.T.String())
			} else {
				ms = append(ms, m.N+strings.TrimPrefix(m.T.String(), "func"))
			}
		}
		return "interface{" + strings.Join(ms, "; ") + "}"
	}
	return "?" + t.K
}

// constructor class of a term for finding keys
func (t sTerm) shape() string {
	inner := ""
	switch {
	case t.K == "inst":
		inner = "(" + t.Pkg + t.N + ":" + t.Args[len(t.Args)-1].K + ")"
	case t.E != nil:
		inner = "(" + t.E.K + ")"
	case t.K == "struct" && len(t.Fs) > 0:
		inner = "(" + t.Fs[0].T.K
		if t.Fs[0].Emb {
			inner += ",embedded"
		}
		switch {
		case strings.Contains(t.Fs[0].Tag, "`"):
			inner += ",tag-with-backquote"
		case strings.Contains(t.Fs[0].Tag, "\r"):
			inner += ",tag-with-CR"
		case strings.Contains(t.Fs[0].Tag, "\n"):
			inner += ",tag-with-LF"
		case t.Fs[0].Tag != "":
			inner += ",tag"
		}
		inner += ")"
	}
	return t.K + inner
}

type c13World struct {
	ax, bx *types.Package
}

func newC13World() *c13World {
	w := &c13World{}
	mk := func(path string) *types.Package {
		p := types.NewPackage(path, "x")
		tn := types.NewTypeName(token.NoPos, p, "T", nil)
		types.NewNamed(tn, types.NewStruct(nil, nil), nil)
		p.Scope().Insert(tn)
		in := types.NewTypeName(token.NoPos, p, "I", nil)
		m := types.NewFunc(token.NoPos, p, "M", types.NewSignatureType(nil, nil, nil, nil, nil, false))
		types.NewNamed(in, types.NewInterfaceType([]*types.Func{m}, nil).Complete(), nil)
		p.Scope().Insert(in)
		// type G[T any] struct{ V T }
		gn := types.NewTypeName(token.NoPos, p, "G", nil)
		gnamed := types.NewNamed(gn, nil, nil)
		tp := types.NewTypeParam(types.NewTypeName(token.NoPos, p, "T", nil), types.Universe.Lookup("any").Type())
		gnamed.SetTypeParams([]*types.TypeParam{tp})
		gnamed.SetUnderlying(types.NewStruct([]*types.Var{types.NewField(token.NoPos, p, "V", tp, false)}, nil))
		p.Scope().Insert(gn)
		p.MarkComplete()
		return p
	}
	w.ax, w.bx = mk("a/x"), mk("b/x")
	return w
}

type c13Importer struct {
	w    *c13World
	base types.Importer
}

func (i c13Importer) Import(path string) (*types.Package, error) {
	switch path {
	case "a/x":
		return i.w.ax, nil
	case "b/x":
		return i.w.bx, nil
	case "unsafe":
		return types.Unsafe, nil
	}
	return i.base.Import(path)
}

// realise builds the go/types type of a term inside the builder's package (local named types come from `local`).
func (w *c13World) realise(t sTerm, pkg *types.Package, local map[string]types.Type) types.Type {
	switch t.K {
	case "basic":
		return types.Typ[basicByName[t.N]]
	case "qual":
		p := w.ax
		if t.Pkg == "bx" {
			p = w.bx
		}
		return p.Scope().Lookup(t.N).Type()
	case "named":
		if t.N == "error" {
			return types.Universe.Lookup("error").Type()
		}
		return local[t.N]
	case "inst":
		gen := local[t.N]
		if t.Pkg == "ax" {
			gen = w.ax.Scope().Lookup(t.N).Type()
		}
		var args []types.Type
		for _, a := range t.Args {
			args = append(args, w.realise(a, pkg, local))
		}
		inst, err := types.Instantiate(nil, gen, args, true)
		if err != nil {
			panic("harness: cannot instantiate " + t.String() + ": " + err.Error())
		}
		return inst
	case "ptr":
		return types.NewPointer(w.realise(*t.E, pkg, local))
	case "slice":
		return types.NewSlice(w.realise(*t.E, pkg, local))
	case "array":
		return types.NewArray(w.realise(*t.E, pkg, local), int64(t.Len))
	case "map":
		return types.NewMap(w.realise(*t.Key, pkg, local), w.realise(*t.E, pkg, local))
	case "chan":
		d := types.SendRecv
		if t.Dir == "send" {
			d = types.SendOnly
		} else if t.Dir == "recv" {
			d = types.RecvOnly
		}
		return types.NewChan(d, w.realise(*t.E, pkg, local))
	case "func":
		var ps, rs []*types.Var
		for _, p := range t.Ps {
			ps = append(ps, types.NewParam(token.NoPos, pkg, "", w.realise(p, pkg, local)))
		}
		for _, r := range t.Rs {
			rs = append(rs, types.NewParam(token.NoPos, pkg, "", w.realise(r, pkg, local)))
		}
		return types.NewSignatureType(nil, nil, nil, types.NewTuple(ps...), types.NewTuple(rs...), t.Va)
	case "struct":
		var fs []*types.Var
		var tags []string
		for _, f := range t.Fs {
			ft := w.realise(f.T, pkg, local)
			name := f.N
			if f.Emb {
				bt := ft
				if p, ok := bt.(*types.Pointer); ok {
					bt = p.Elem()
				}
				name = bt.(*types.Named).Obj().Name()
			}
			fs = append(fs, types.NewField(token.NoPos, pkg, name, ft, f.Emb))
			tags = append(tags, f.Tag)
		}
		return types.NewStruct(fs, tags)
	case "iface":
		var ms []*types.Func
		var es []types.Type
		for _, m := range t.Ms {
			if m.Emb {
				es = append(es, w.realise(m.T, pkg, local))
			} else {
				sig, _ := w.realise(m.T, pkg, local).(*types.Signature)
				if sig == nil {
					panic("harness: a method needs a signature")
				}
				ms = append(ms, types.NewFunc(token.NoPos, pkg, m.N, sig))
			}
		}
		return types.NewInterfaceType(ms, es).Complete()
	}
	panic("cannot realise " + t.K)
}

// sameType compares a type of the builder's universe with a type read back from the written package.
func sameType(a, b types.Type, depth int) string {
	if depth > 12 {
		return ""
	}
	a, b = types.Unalias(a), types.Unalias(b)
	switch x := a.(type) {
	case *types.Basic:
		y, ok := b.(*types.Basic)
		if !ok || x.Kind() != y.Kind() {
			return fmt.Sprintf("%v vs %v", a, b)
		}
	case *types.Named:
		y, ok := b.(*types.Named)
		if !ok {
			return fmt.Sprintf("%v vs %v", a, b)
		}
		xo, yo := x.Obj(), y.Obj()
		xp, yp := "", ""
		if xo.Pkg() != nil {
			xp = xo.Pkg().Path()
		}
		if yo.Pkg() != nil {
			yp = yo.Pkg().Path()
		}
		local := func(p string) bool { return p == "" || p == "p" }
		if xo.Name() != yo.Name() || (xp != yp && !(local(xp) && local(yp))) {
			return fmt.Sprintf("named %s.%s vs %s.%s", xp, xo.Name(), yp, yo.Name())
		}
		xa, ya := x.TypeArgs(), y.TypeArgs()
		if xa.Len() != ya.Len() {
			return fmt.Sprintf("type arguments of %v vs %v", a, b)
		}
		for i := 0; i < xa.Len(); i++ {
			if d := sameType(xa.At(i), ya.At(i), depth+1); d != "" {
				return "type argument: " + d
			}
		}
	case *types.Pointer:
		y, ok := b.(*types.Pointer)
		if !ok {
			return fmt.Sprintf("%v vs %v", a, b)
		}
		return sameType(x.Elem(), y.Elem(), depth+1)
	case *types.Slice:
		y, ok := b.(*types.Slice)
		if !ok {
			return fmt.Sprintf("%v vs %v", a, b)
		}
		return sameType(x.Elem(), y.Elem(), depth+1)
	case *types.Array:
		y, ok := b.(*types.Array)
		if !ok || x.Len() != y.Len() {
			return fmt.Sprintf("%v vs %v", a, b)
		}
		return sameType(x.Elem(), y.Elem(), depth+1)
	case *types.Map:
		y, ok := b.(*types.Map)
		if !ok {
			return fmt.Sprintf("%v vs %v", a, b)
		}
		if d := sameType(x.Key(), y.Key(), depth+1); d != "" {
			return d
		}
		return sameType(x.Elem(), y.Elem(), depth+1)
	case *types.Chan:
		y, ok := b.(*types.Chan)
		if !ok || x.Dir() != y.Dir() {
			return fmt.Sprintf("channel %v vs %v", a, b)
		}
		return sameType(x.Elem(), y.Elem(), depth+1)
	case *types.Signature:
		y, ok := b.(*types.Signature)
		if !ok || x.Variadic() != y.Variadic() || x.Params().Len() != y.Params().Len() || x.Results().Len() != y.Results().Len() {
			return fmt.Sprintf("signature %v vs %v", a, b)
		}
		for i := 0; i < x.Params().Len(); i++ {
			if d := sameType(x.Params().At(i).Type(), y.Params().At(i).Type(), depth+1); d != "" {
				return d
			}
		}
		for i := 0; i < x.Results().Len(); i++ {
			if d := sameType(x.Results().At(i).Type(), y.Results().At(i).Type(), depth+1); d != "" {
				return d
			}
		}
	case *types.Struct:
		y, ok := b.(*types.Struct)
		if !ok || x.NumFields() != y.NumFields() {
			return fmt.Sprintf("struct %v vs %v", a, b)
		}
		for i := 0; i < x.NumFields(); i++ {
			fx, fy := x.Field(i), y.Field(i)
			if fx.Name() != fy.Name() || fx.Embedded() != fy.Embedded() {
				return fmt.Sprintf("field %s(embedded=%v) vs %s(embedded=%v)", fx.Name(), fx.Embedded(), fy.Name(), fy.Embedded())
			}
			if x.Tag(i) != y.Tag(i) {
				return fmt.Sprintf("tag %q vs %q", x.Tag(i), y.Tag(i))
			}
			if d := sameType(fx.Type(), fy.Type(), depth+1); d != "" {
				return d
			}
		}
	case *types.Interface:
		y, ok := b.(*types.Interface)
		if !ok || x.NumMethods() != y.NumMethods() {
			return fmt.Sprintf("interface %v vs %v", a, b)
		}
		names := func(i *types.Interface) []string {
			var n []string
			for k := 0; k < i.NumMethods(); k++ {
				n = append(n, i.Method(k).Name())
			}
			sort.Strings(n)
			return n
		}
		if strings.Join(names(x), ",") != strings.Join(names(y), ",") {
			return fmt.Sprintf("method sets %v vs %v", names(x), names(y))
		}
		for k := 0; k < x.NumMethods(); k++ { // (both complete: methods sorted by name) every method has the same signature
			if d := sameType(x.Method(k).Type(), y.Method(k).Type(), depth+1); d != "" {
				return fmt.Sprintf("method %s: %s", x.Method(k).Name(), d)
			}
		}
	default:
		if a.String() != b.String() {
			return fmt.Sprintf("%v vs %v", a, b)
		}
	}
	return ""
}

// c13Check declares a batch of terms through the builder and reads them back.
func c13Check(run *ev.Run, terms []sTerm, conf string) {
	w := newC13World()
	fset, base := sharedImporter()
	_ = fset
	imp := c13Importer{w, base}
	var errs []string
	pkg := gogen.NewPackage("", "p", &gogen.Config{Fset: token.NewFileSet(), Importer: imp, HandleErr: func(e error) { errs = append(errs, e.Error()) }})
	ti := types.Typ[types.Int]
	local := map[string]types.Type{}
	// local defined types used by the terms
	local["MyInt"] = pkg.NewType("MyInt").InitType(pkg, ti)
	local["MyStruct"] = pkg.NewType("MyStruct").InitType(pkg, types.NewStruct([]*types.Var{types.NewField(token.NoPos, pkg.Types, "X", ti, false)}, nil))
	mM := types.NewFunc(token.NoPos, pkg.Types, "M", types.NewSignatureType(nil, nil, nil, nil, nil, false))
	local["MyIface"] = pkg.NewType("MyIface").InitType(pkg, types.NewInterfaceType([]*types.Func{mM}, nil).Complete())
	// local generic types: type G[T any] struct{ V T };  type P2[K comparable, V any] map[K]V
	{
		tp := types.NewTypeParam(types.NewTypeName(token.NoPos, pkg.Types, "T", nil), types.Universe.Lookup("any").Type())
		local["G"] = pkg.NewType("G").InitType(pkg, types.NewStruct([]*types.Var{types.NewField(token.NoPos, pkg.Types, "V", tp, false)}, nil), tp)
		tk := types.NewTypeParam(types.NewTypeName(token.NoPos, pkg.Types, "K", nil), types.Universe.Lookup("comparable").Type())
		tv := types.NewTypeParam(types.NewTypeName(token.NoPos, pkg.Types, "V", nil), types.Universe.Lookup("any").Type())
		local["P2"] = pkg.NewType("P2").InitType(pkg, types.NewMap(tk, tv), tk, tv)
	}
	orig := make([]types.Type, len(terms))
	failed := make([]string, len(terms))
	for i, t := range terms {
		func() {
			defer func() {
				if e := recover(); e != nil {
					failed[i] = fmt.Sprint(e)
				}
			}()
			T := w.realise(t, pkg.Types, local)
			orig[i] = T
			pkg.SetCurFile("", true)
			pkg.NewVar(token.NoPos, T, fmt.Sprintf("v%d", i))
			pkg.SetCurFile("b.go", true)
			pkg.NewType(fmt.Sprintf("X%d", i)).InitType(pkg, T)
			pkg.AliasType(fmt.Sprintf("Y%d", i), T)
			// a function with the type in parameter and result position, declared without body
			sig := types.NewSignatureType(nil, nil, nil, types.NewTuple(types.NewParam(token.NoPos, pkg.Types, "a", T)),
				types.NewTuple(types.NewParam(token.NoPos, pkg.Types, "", T)), false)
			pkg.NewFuncDecl(token.NoPos, fmt.Sprintf("f%d", i), sig)
		}()
	}
	pkg.SetCurFile("", true)
	var afs []*ast.File
	tfset := token.NewFileSet()
	var text strings.Builder
	for _, f := range []string{"", "b.go"} {
		var buf bytes.Buffer
		if err := gogen.WriteTo(&buf, pkg, f); err != nil {
			run.Fail("write-failed", err.Error(), terms)
			return
		}
		name := f
		if name == "" {
			name = "a.go"
		}
		pf, err := parser.ParseFile(tfset, name, buf.Bytes(), 0)
		if err != nil {
			run.Fail("output-does-not-parse", err.Error()+"\n"+buf.String(), nil)
			return
		}
		afs = append(afs, pf)
		text.WriteString(buf.String())
	}
	var terrs []types.Error
	conf2 := types.Config{Importer: imp, Error: func(e error) {
		if te, ok := e.(types.Error); ok {
			terrs = append(terrs, te)
		}
	}}
	rp, _ := conf2.Check("p", tfset, afs, nil)
	// errors are attributed to the declaration they name
	errFor := func(i int) string {
		for _, te := range terrs {
			m := te.Msg
			pos := tfset.Position(te.Pos)
			src := strings.Split(text.String(), "\n")
			_ = src
			for _, nm := range []string{fmt.Sprintf("v%d ", i), fmt.Sprintf("X%d ", i), fmt.Sprintf("Y%d ", i), fmt.Sprintf("f%d(", i)} {
				if lineOf(afs, tfset, pos, nm) {
					return m
				}
			}
		}
		return ""
	}
	for i, t := range terms {
		run.Eval(t.String())
		key := func(kind string) string { return kind + "/" + t.shape() }
		if failed[i] != "" {
			run.Fail(key("builder-failed"), fmt.Sprintf("declaring %s: %s [%s]", t, failed[i], conf), map[string]any{"term": t})
			continue
		}
		if m := errFor(i); m != "" {
			run.Fail(key("output-ill-typed"), fmt.Sprintf("type %s: go/types rejects the written declaration: %s [%s]", t, m, conf), map[string]any{"term": t})
			continue
		}
		for _, pos := range []struct{ name, what string }{{fmt.Sprintf("v%d", i), "var"}, {fmt.Sprintf("X%d", i), "typedef"}, {fmt.Sprintf("Y%d", i), "alias"}, {fmt.Sprintf("f%d", i), "param"}} {
			o := rp.Scope().Lookup(pos.name)
			if o == nil {
				run.Fail(key("declaration-missing/"+pos.what), fmt.Sprintf("%s of type %s is not in the written package [%s]", pos.name, t, conf), map[string]any{"term": t})
				break
			}
			got := o.Type()
			switch pos.what {
			case "typedef":
				got = got.Underlying()
				if d := sameType(orig[i].Underlying(), got, 0); d != "" {
					run.Fail(key("read-back-differs/"+pos.what), fmt.Sprintf("type %s read back as %v: %s [%s]", t, got, d, conf), map[string]any{"term": t})
				}
				continue
			case "param":
				sig := got.(*types.Signature)
				if d := sameType(orig[i], sig.Params().At(0).Type(), 0); d != "" {
					run.Fail(key("read-back-differs/param"), fmt.Sprintf("type %s read back as %v: %s [%s]", t, sig.Params().At(0).Type(), d, conf), map[string]any{"term": t})
				}
				if d := sameType(orig[i], sig.Results().At(0).Type(), 0); d != "" {
					run.Fail(key("read-back-differs/result"), fmt.Sprintf("type %s read back as %v: %s [%s]", t, sig.Results().At(0).Type(), d, conf), map[string]any{"term": t})
				}
				continue
			}
			if d := sameType(orig[i], got, 0); d != "" {
				run.Fail(key("read-back-differs/"+pos.what), fmt.Sprintf("type %s read back as %v: %s [%s]", t, got, d, conf), map[string]any{"term": t})
			}
		}
	}
	if len(errs) > 0 {
		run.Fail("builder-reported-error", strings.Join(errs, "; "), nil)
	}
}

// mentionsImport reports whether a term names a type of an imported package
func (t sTerm) mentionsImport() bool {
	if t.K == "qual" || (t.K == "inst" && t.Pkg != "") {
		return true
	}
	for _, x := range []*sTerm{t.E, t.Key} {
		if x != nil && x.mentionsImport() {
			return true
		}
	}
	for _, l := range [][]sTerm{t.Ps, t.Rs, t.Args} {
		for _, x := range l {
			if x.mentionsImport() {
				return true
			}
		}
	}
	for _, f := range t.Fs {
		if f.T.mentionsImport() {
			return true
		}
	}
	for _, m := range t.Ms {
		if m.T.mentionsImport() {
			return true
		}
	}
	return false
}

// c13CheckLocal: the terms that name a type of an imported package, declared as the type of a local variable in a
// function body in which local types called like the imported packages (type x int; type x1 = int) are in scope: the
// package qualification must still denote the package.
func c13CheckLocal(run *ev.Run, terms []sTerm, conf string) {
	var sel []sTerm
	for _, t := range terms {
		if t.mentionsImport() {
			sel = append(sel, t)
		}
	}
	if len(sel) == 0 {
		return
	}
	w := newC13World()
	_, base := sharedImporter()
	imp := c13Importer{w, base}
	var errs []string
	pkg := gogen.NewPackage("", "p", &gogen.Config{Fset: token.NewFileSet(), Importer: imp, HandleErr: func(e error) { errs = append(errs, e.Error()) }})
	ti := types.Typ[types.Int]
	local := map[string]types.Type{}
	local["MyInt"] = pkg.NewType("MyInt").InitType(pkg, ti)
	local["MyStruct"] = pkg.NewType("MyStruct").InitType(pkg, types.NewStruct([]*types.Var{types.NewField(token.NoPos, pkg.Types, "X", ti, false)}, nil))
	mM := types.NewFunc(token.NoPos, pkg.Types, "M", types.NewSignatureType(nil, nil, nil, nil, nil, false))
	local["MyIface"] = pkg.NewType("MyIface").InitType(pkg, types.NewInterfaceType([]*types.Func{mM}, nil).Complete())
	{
		tp := types.NewTypeParam(types.NewTypeName(token.NoPos, pkg.Types, "T", nil), types.Universe.Lookup("any").Type())
		local["G"] = pkg.NewType("G").InitType(pkg, types.NewStruct([]*types.Var{types.NewField(token.NoPos, pkg.Types, "V", tp, false)}, nil), tp)
		tk := types.NewTypeParam(types.NewTypeName(token.NoPos, pkg.Types, "K", nil), types.Universe.Lookup("comparable").Type())
		tv := types.NewTypeParam(types.NewTypeName(token.NoPos, pkg.Types, "V", nil), types.Universe.Lookup("any").Type())
		local["P2"] = pkg.NewType("P2").InitType(pkg, types.NewMap(tk, tv), tk, tv)
	}
	orig := make([]types.Type, len(sel))
	failed := make([]string, len(sel))
	for i, t := range sel {
		func() {
			defer func() {
				if e := recover(); e != nil {
					failed[i] = fmt.Sprint(e)
					pkg.CB().ResetStmt()
				}
			}()
			orig[i] = w.realise(t, pkg.Types, local)
			cb := pkg.NewFunc(nil, fmt.Sprintf("g%d", i), nil, nil, false).BodyStart(pkg)
			defs := cb.NewTypeDefs()
			// (the imported packages a/x and b/x are both called x: one of them is written x, the other x1)
			if i%2 == 0 {
				defs.NewType("x").InitType(pkg, ti)
				defs.AliasType("x1", ti)
			} else {
				defs.AliasType("x", ti)
				defs.NewType("x1").InitType(pkg, ti)
			}
			defs.Complete()
			cb.NewVar(orig[i], fmt.Sprintf("l%d", i))
			cb.End()
		}()
	}
	var buf bytes.Buffer
	if err := gogen.WriteTo(&buf, pkg, ""); err != nil {
		run.Fail("write-failed", err.Error(), sel)
		return
	}
	if os.Getenv("VERIF_DEBUG") != "" {
		fmt.Println(buf.String())
	}
	tfset := token.NewFileSet()
	pf, err := parser.ParseFile(tfset, "a.go", buf.Bytes(), 0)
	if err != nil {
		run.Fail("output-does-not-parse", err.Error()+"\n"+buf.String(), nil)
		return
	}
	info := &types.Info{Defs: map[*ast.Ident]types.Object{}}
	var terrs []types.Error
	conf2 := types.Config{Importer: imp, Error: func(e error) {
		if te, ok := e.(types.Error); ok && !te.Soft {
			terrs = append(terrs, te)
		}
	}}
	conf2.Check("p", tfset, []*ast.File{pf}, info)
	got := map[string]types.Type{}
	for id, o := range info.Defs {
		if o != nil && strings.HasPrefix(id.Name, "l") {
			got[id.Name] = o.Type()
		}
	}
	fnOf := func(te types.Error) string { // the function whose body holds the error
		ln := tfset.Position(te.Pos).Line
		for _, d := range pf.Decls {
			if fd, ok := d.(*ast.FuncDecl); ok && tfset.Position(fd.Pos()).Line <= ln && ln <= tfset.Position(fd.End()).Line {
				return fd.Name.Name
			}
		}
		return ""
	}
	for i, t := range sel {
		run.Eval("local:" + t.String())
		key := func(kind string) string { return kind + "/" + t.shape() }
		rp := map[string]any{"term": t, "local": true}
		if failed[i] != "" {
			run.Fail(key("builder-failed"), fmt.Sprintf("declaring a local variable of type %s: %s [%s]", t, failed[i], conf), rp)
			continue
		}
		bad := ""
		for _, te := range terrs {
			if fnOf(te) == fmt.Sprintf("g%d", i) {
				bad = te.Msg
				break
			}
		}
		if bad != "" {
			run.Fail(key("output-ill-typed/local-after-shadowing-type"), fmt.Sprintf("type %s of a local variable declared after local types x, x1: go/types rejects the written function: %s [%s]", t, bad, conf), rp)
			continue
		}
		g := got[fmt.Sprintf("l%d", i)]
		if g == nil {
			run.Fail(key("declaration-missing/local"), fmt.Sprintf("l%d of type %s is not in the written function [%s]", i, t, conf), rp)
			continue
		}
		if d := sameType(orig[i], g, 0); d != "" {
			run.Fail(key("read-back-differs/local-after-shadowing-type"), fmt.Sprintf("type %s read back as %v: %s [%s]", t, g, d, conf), rp)
		}
	}
	if len(errs) > 0 {
		run.Fail("builder-reported-error", strings.Join(errs, "; "), nil)
	}
}

// lineOf reports whether the source line at pos declares the given name.
func lineOf(afs []*ast.File, fset *token.FileSet, pos token.Position, name string) bool {
	for _, f := range afs {
		if fset.Position(f.Pos()).Filename != pos.Filename {
			continue
		}
		for _, d := range f.Decls {
			s, e := fset.Position(d.Pos()), fset.Position(d.End())
			if pos.Line < s.Line || pos.Line > e.Line {
				continue
			}
			switch x := d.(type) {
			case *ast.GenDecl:
				for _, sp := range x.Specs {
					ss, se := fset.Position(sp.Pos()), fset.Position(sp.End())
					if pos.Line < ss.Line || pos.Line > se.Line {
						continue
					}
					switch y := sp.(type) {
					case *ast.ValueSpec:
						for _, n := range y.Names {
							if n.Name+" " == name {
								return true
							}
						}
					case *ast.TypeSpec:
						if y.Name.Name+" " == name {
							return true
						}
					}
				}
			case *ast.FuncDecl:
				if x.Name.Name+"(" == name {
					return true
				}
			}
		}
	}
	return false
}

func runC13(tier, replay string) {
	run := ev.Start("C13", tier, "model_checking")
	if replay != "" {
		var r struct {
			Term  sTerm `json:"term"`
			Local bool  `json:"local"`
		}
		if err := loadReplay(replay, &r); err != nil {
			run.Infra(err)
		}
		if r.Local {
			c13CheckLocal(run, []sTerm{r.Term}, "replay")
		} else {
			c13Check(run, []sTerm{r.Term}, "replay")
		}
		run.Eval("x")
		run.Set("states", 1)
		run.Set("transitions", 1)
		run.Set("traces_validated_against_impl", 1)
		run.Sample(r.Term.String())
		run.Finish()
	}
	cfg := func(noParens bool, depth int, ctors, leaves string, emit bool) string {
		s := fmt.Sprintf("INIT Init\nNEXT Next\nCONSTANTS\n  NoParens = %s\n  Depth = %d\n  Ctors = %s\n  Leaves = %q\n", strings.ToUpper(fmt.Sprint(noParens)), depth, ctors, leaves)
		s += "INVARIANTS RoundTrip"
		if emit {
			s += " Emit"
		}
		return s + "\nCHECK_DEADLOCK FALSE\n"
	}
	all := `{"ptr","slice","array","map","chan","func","struct","iface","inst"}`
	type conf struct{ name, cfg string }
	confs := []conf{
		{"all-constructors-depth1-rich-leaves", cfg(false, 1, all, "rich", true)},
		{"all-constructors-depth2-small-leaves", cfg(false, 2, all, "small", true)},
	}
	if tier == "thorough" {
		confs = []conf{
			{"all-constructors-depth2-rich-leaves", cfg(false, 2, all, "rich", true)},
			{"binding-sensitive-depth3", cfg(false, 3, `{"chan","func","ptr","slice","inst"}`, "small", true)},
		}
	}
	var states, transitions, total int64
	t0 := time.Now()
	for _, c := range confs {
		var batch []sTerm
		var wg sync.WaitGroup
		sem := make(chan struct{}, 12)
		var n int64
		flush := func(b []sTerm) {
			wg.Add(1)
			sem <- struct{}{}
			go func() { defer func() { <-sem; wg.Done() }(); c13Check(run, b, c.name); c13CheckLocal(run, b, c.name) }()
		}
		res, err := tlc.Run(tlc.Opts{SpecDir: SpecDir, Module: "TypeSyntax", Cfg: c.cfg, Workers: tierWorkers(tier), Heavy: true, HeapMB: 8192, Timeout: 40 * time.Minute,
			OnJSON: func(l string) {
				var x struct {
					T sTerm `json:"t"`
				}
				if json.Unmarshal([]byte(l), &x) != nil || x.T.K == "" {
					return
				}
				batch = append(batch, x.T)
				n++
				if len(batch) >= 150 {
					flush(batch)
					batch = nil
				}
				if n == 300 {
					run.Sample(map[string]any{"configuration": c.name, "type": x.T.String()})
				}
			}})
		if err != nil {
			run.Infra(err)
		}
		if res.Violation {
			run.Infra(fmt.Errorf("TypeSyntax.tla: Parse(Tokens(t)) # t in %s (specification defect):\n%s", c.name, res.ErrText))
		}
		if len(batch) > 0 {
			flush(batch)
		}
		wg.Wait()
		if n == 0 {
			run.Infra(fmt.Errorf("configuration %s generated no term", c.name))
		}
		states += res.Distinct
		transitions += res.Generated
		total += n
		run.Set("conf_"+c.name, fmt.Sprintf("%d type terms, %.1fs since start", n, time.Since(t0).Seconds()))
	}
	// vacuity guard: without parentheses around channel elements the model itself must fail
	{
		res, err := tlc.Run(tlc.Opts{SpecDir: SpecDir, Module: "TypeSyntax", Cfg: cfg(true, 2, `{"chan"}`, "small", false), Workers: 1, Timeout: 10 * time.Minute})
		if err != nil {
			run.Infra(err)
		}
		if !res.Violation {
			run.Infra(fmt.Errorf("vacuity: NoParens=TRUE is not refuted by TLC"))
		}
		run.Set("sabotaged_model_refuted", "NoParens (chan (<-chan T) printed without parentheses)")
	}
	run.Set("states", states)
	run.Set("transitions", transitions)
	run.Set("traces_validated_against_impl", total*4)
	run.Set("rule", "a case = one type term declared through the builder as variable, type definition, alias and parameter/result across two files, written, re-parsed, re-checked and compared with the original; distinct = distinct term")
	run.Assume("interface methods all have the signature func(); named types of imported packages are compared by object, local defined types by name")
	run.Finish()
}
