package props

// Realisation of GoTypes.tla terms (types and symbolic constants) as go/types objects,
// Go source text and go/constant values.  Shared by C05, C14, C13 and the typed builder
// properties.

import (
	"encoding/json"
	"fmt"
	"go/ast"
	"go/constant"
	"go/parser"
	"go/token"
	"go/types"
	"math/big"
	"sort"
	"strings"
)

// TTerm is a type term of GoTypes.tla.
type TTerm struct {
	K   string   `json:"k"`
	N   string   `json:"n,omitempty"`
	E   *TTerm   `json:"e,omitempty"`
	Len int      `json:"len,omitempty"`
	Key *TTerm   `json:"key,omitempty"`
	Dir string   `json:"dir,omitempty"`
	Ps  []TTerm  `json:"ps,omitempty"`
	Rs  []TTerm  `json:"rs,omitempty"`
	Va  bool     `json:"va,omitempty"`
	Fs  []TField `json:"fs,omitempty"`
	Ms  []string `json:"ms,omitempty"`
	Pms []string `json:"pms,omitempty"`
	U   *TTerm   `json:"u,omitempty"`
	Of  *TTerm   `json:"of,omitempty"`
}

type TField struct {
	N string `json:"n"`
	T TTerm  `json:"t"`
}

// CTerm is a symbolic constant of GoTypes.tla.
type CTerm struct {
	CK   string `json:"ck"`
	Neg  bool   `json:"neg"`
	E    int    `json:"e"`
	D    int    `json:"d"`
	Frac bool   `json:"frac"`
	Imag bool   `json:"imag"`
}

// Src renders a type term as Go source (named types and aliases by name).
func (t TTerm) Src() string {
	switch t.K {
	case "basic":
		if t.N == "unsafeptr" {
			return "unsafe.Pointer"
		}
		return t.N
	case "untyped":
		return "untyped " + t.N
	case "ptr":
		return "*" + t.E.Src()
	case "slice":
		return "[]" + t.E.Src()
	case "array":
		return fmt.Sprintf("[%d]%s", t.Len, t.E.Src())
	case "map":
		return "map[" + t.Key.Src() + "]" + t.E.Src()
	case "chan":
		switch t.Dir {
		case "send":
			return "chan<- " + t.E.Src()
		case "recv":
			return "<-chan " + t.E.Src()
		}
		return "chan " + t.E.Src()
	case "func":
		var ps, rs []string
		for i, p := range t.Ps {
			s := p.Src()
			if t.Va && i == len(t.Ps)-1 {
				s = "..." + p.E.Src()
			}
			ps = append(ps, s)
		}
		for _, r := range t.Rs {
			rs = append(rs, r.Src())
		}
		out := "func(" + strings.Join(ps, ", ") + ")"
		if len(rs) == 1 {
			out += " " + rs[0]
		} else if len(rs) > 1 {
			out += " (" + strings.Join(rs, ", ") + ")"
		}
		return out
	case "struct":
		var fs []string
		for _, f := range t.Fs {
			fs = append(fs, f.N+" "+f.T.Src())
		}
		return "struct{" + strings.Join(fs, "; ") + "}"
	case "iface":
		ms := append([]string{}, t.Ms...)
		sort.Strings(ms)
		for i := range ms {
			ms[i] += "()"
		}
		return "interface{" + strings.Join(ms, "; ") + "}"
	case "named", "alias":
		return t.N
	}
	return "?" + t.K
}

// universeSrc is the fixture package realising the named part of GoTypes.tla's universe.
const universeSrc = `package u
import "unsafe"
var _ unsafe.Pointer
type MyInt int
type MyIntM int
func (MyIntM) M() {}
type MyStr string
type MyBool bool
type MyFloat float64
type MySlice []int
type MyPtr *int
type MyMap map[string]int
type MyChan chan int
type MyFunc func()
type MyStruct struct{ X int }
type MyStructP struct{ X int }
func (*MyStructP) M() {}
type MyIface interface{ M() }
type AInt = int
`

// TWorld realises terms inside one types.Package.
type TWorld struct {
	Pkg   *types.Package
	cache map[string]types.Type
}

// NewTWorld type-checks the fixture universe into pkg (or a fresh package if nil).
func NewTWorld() (*TWorld, error) {
	fset := token.NewFileSet()
	f, err := parser.ParseFile(fset, "u.go", universeSrc, 0)
	if err != nil {
		return nil, err
	}
	conf := types.Config{Importer: unsafeOnly{}}
	pkg, err := conf.Check("u", fset, []*ast.File{f}, nil)
	if err != nil {
		return nil, err
	}
	return &TWorld{Pkg: pkg, cache: map[string]types.Type{}}, nil
}

type unsafeOnly struct{}

func (unsafeOnly) Import(path string) (*types.Package, error) {
	if path == "unsafe" {
		return types.Unsafe, nil
	}
	return nil, fmt.Errorf("no package %s", path)
}

var basicByName = map[string]types.BasicKind{
	"bool": types.Bool, "int": types.Int, "int8": types.Int8, "int16": types.Int16, "int32": types.Int32, "int64": types.Int64,
	"uint": types.Uint, "uint8": types.Uint8, "uint16": types.Uint16, "uint32": types.Uint32, "uint64": types.Uint64, "uintptr": types.Uintptr,
	"float32": types.Float32, "float64": types.Float64, "complex64": types.Complex64, "complex128": types.Complex128,
	"string": types.String, "unsafeptr": types.UnsafePointer,
}
var untypedByName = map[string]types.BasicKind{
	"bool": types.UntypedBool, "int": types.UntypedInt, "rune": types.UntypedRune, "float": types.UntypedFloat,
	"complex": types.UntypedComplex, "string": types.UntypedString, "nil": types.UntypedNil,
}

// Type realises a term.
func (w *TWorld) Type(t TTerm) types.Type {
	switch t.K {
	case "basic":
		return types.Typ[basicByName[t.N]]
	case "untyped":
		return types.Typ[untypedByName[t.N]]
	case "named", "alias":
		if t.N == "error" {
			return types.Universe.Lookup("error").Type()
		}
		o := w.Pkg.Scope().Lookup(t.N)
		if o == nil {
			panic("universe lacks " + t.N)
		}
		return o.Type()
	}
	key := t.Src()
	if c, ok := w.cache[key]; ok {
		return c
	}
	var r types.Type
	switch t.K {
	case "ptr":
		r = types.NewPointer(w.Type(*t.E))
	case "slice":
		r = types.NewSlice(w.Type(*t.E))
	case "array":
		r = types.NewArray(w.Type(*t.E), int64(t.Len))
	case "map":
		r = types.NewMap(w.Type(*t.Key), w.Type(*t.E))
	case "chan":
		d := types.SendRecv
		if t.Dir == "send" {
			d = types.SendOnly
		} else if t.Dir == "recv" {
			d = types.RecvOnly
		}
		r = types.NewChan(d, w.Type(*t.E))
	case "func":
		var ps, rs []*types.Var
		for _, p := range t.Ps {
			ps = append(ps, types.NewParam(token.NoPos, w.Pkg, "", w.Type(p)))
		}
		for _, x := range t.Rs {
			rs = append(rs, types.NewParam(token.NoPos, w.Pkg, "", w.Type(x)))
		}
		r = types.NewSignatureType(nil, nil, nil, types.NewTuple(ps...), types.NewTuple(rs...), t.Va)
	case "struct":
		var fs []*types.Var
		for _, f := range t.Fs {
			fs = append(fs, types.NewField(token.NoPos, w.Pkg, f.N, w.Type(f.T), false))
		}
		r = types.NewStruct(fs, nil)
	case "iface":
		var ms []*types.Func
		names := append([]string{}, t.Ms...)
		sort.Strings(names)
		for _, m := range names {
			ms = append(ms, types.NewFunc(token.NoPos, w.Pkg, m, types.NewSignatureType(nil, nil, nil, nil, nil, false)))
		}
		r = types.NewInterfaceType(ms, nil).Complete()
	default:
		panic("cannot realise " + t.K)
	}
	w.cache[key] = r
	return r
}

// Big returns the exact integer part (-1)^neg * (2^e + d).
func (c CTerm) Big() *big.Int {
	v := new(big.Int).Lsh(big.NewInt(1), uint(c.E))
	v.Add(v, big.NewInt(int64(c.D)))
	if c.Neg {
		v.Neg(v)
	}
	return v
}

// Value is the exact go/constant value of the symbolic constant, of the given untyped kind
// ("int","rune","float","complex","string","bool").
func (c CTerm) Value(kind string) constant.Value {
	switch c.CK {
	case "str":
		return constant.MakeString("s")
	case "bool":
		return constant.MakeBool(true)
	}
	v := constant.Make(c.Big())
	if c.Frac {
		half := constant.BinaryOp(constant.MakeInt64(1), token.QUO, constant.MakeInt64(2))
		if c.Neg {
			v = constant.BinaryOp(v, token.SUB, half)
		} else {
			v = constant.BinaryOp(v, token.ADD, half)
		}
	}
	if c.Imag {
		v = constant.BinaryOp(v, token.ADD, constant.MakeImag(constant.MakeInt64(1)))
	}
	switch kind {
	case "float":
		v = constant.ToFloat(v)
	case "complex":
		v = constant.ToComplex(v)
	}
	return v
}

// Src renders the constant as an untyped Go constant expression of the given kind.
func (c CTerm) Src(kind string) string {
	switch c.CK {
	case "str":
		return `"s"`
	case "bool":
		return "true"
	}
	s := c.Big().String()
	if c.E > 511 { // only as a float: an integer literal of this size is not legal Go
		s = fmt.Sprintf("0x1p%d", c.E)
		if c.Neg {
			s = "-" + s
		}
	}
	if c.Frac {
		if c.Neg {
			s = "(" + s + " - 0.5)"
		} else {
			s = "(" + s + " + 0.5)"
		}
	}
	if c.Imag {
		s = "(" + s + " + 1i)"
	}
	switch kind {
	case "rune":
		return "('\\x00' + " + s + ")"
	case "float":
		if !c.Frac {
			return "(" + s + " + 0.0)"
		}
	case "complex":
		if !c.Imag {
			return "(" + s + " + 0i)"
		}
	}
	return "(" + s + ")"
}

// Desc is a short description for messages and keys.
func (c CTerm) Desc() string {
	switch c.CK {
	case "str":
		return `"s"`
	case "bool":
		return "true"
	case "none":
		return "-"
	}
	s := ""
	if c.Neg {
		s = "-"
	}
	switch {
	case c.E == 0:
		s += fmt.Sprint(1 + c.D)
	case c.D == 0:
		s += fmt.Sprintf("2^%d", c.E)
	case c.D > 0:
		s += fmt.Sprintf("(2^%d+1)", c.E)
	default:
		s += fmt.Sprintf("(2^%d-1)", c.E)
	}
	if c.Frac {
		s += ".5"
	}
	if c.Imag {
		s += "+1i"
	}
	return s
}

func mustJSON(v any) string { b, _ := json.Marshal(v); return string(b) }
