package props

// C04 (C01 / C02) on literals with a unit (spec/Units.tla): CodeBuilder.ValWithUnit.  T = go/types on the constant
// conversion T(literal * factor) (S = T on every distinct (type, literal, unit) or exit 2); G = every history of
// Units.tla replayed on one real package (the parsed unit table is cached per type and package).

import (
	"encoding/json"
	"fmt"
	"go/ast"
	"go/constant"
	"go/parser"
	"go/token"
	"go/types"
	"math/big"
	"strconv"
	"strings"
	"time"

	"github.com/goplus/gogen"

	"verif/harness/internal/ev"
	"verif/harness/internal/tlc"
)

type unDec struct {
	M int `json:"m"`
	E int `json:"e"`
}

func (d unDec) rat() *big.Rat {
	r := new(big.Rat).SetInt64(int64(d.M))
	p := new(big.Int).Exp(big.NewInt(10), big.NewInt(int64(abs(d.E))), nil)
	if d.E >= 0 {
		return r.Mul(r, new(big.Rat).SetInt(p))
	}
	return r.Quo(r, new(big.Rat).SetInt(p))
}

func abs(x int) int {
	if x < 0 {
		return -x
	}
	return x
}

type unOp struct {
	T   string `json:"t"`
	L   string `json:"l"`
	U   string `json:"u"`
	Res struct {
		Ok  bool   `json:"ok"`
		Why string `json:"why"`
		V   unDec  `json:"v"`
	} `json:"res"`
	Factor unDec `json:"factor"`
}

func (o unOp) text() string { return fmt.Sprintf("%s%s as %s", o.L, o.U, o.T) }
func (o unOp) key() string  { return o.T + "|" + o.L + "|" + o.U }
func (o unOp) litKind() string {
	if strings.ContainsAny(o.L, ".e") {
		return "FLOAT"
	}
	return "INT"
}

const unFixture = `package un

type Dist int
type Secs float64
type Plain int

const XGou_Dist = "mm=1,cm=10,m=1000"
const XGou_Secs = "s=1,ms=0.001,us=0.000001"
`

var unGoType = map[string]string{"Duration": "time.Duration", "Dist": "un.Dist", "Secs": "un.Secs", "Plain": "un.Plain", "int": "int"}

type unImporter struct {
	un   *types.Package
	base types.Importer
}

func (i unImporter) Import(path string) (*types.Package, error) {
	if path == "un" {
		return i.un, nil
	}
	return i.base.Import(path)
}

func unCheckFixture() (*types.Package, error) {
	fset := token.NewFileSet()
	f, err := parser.ParseFile(fset, "un.go", unFixture, 0)
	if err != nil {
		return nil, err
	}
	return (&types.Config{}).Check("un", fset, []*ast.File{f}, nil)
}

// unValueEqual compares a constant with the specification's decimal: exactly for integer types, as float64 for float types
// (go/types rounds a typed floating-point constant to its type)
func unValueEqual(v constant.Value, want *big.Rat, float bool) bool {
	if v == nil || v.Kind() == constant.Unknown {
		return false
	}
	if float {
		f, _ := constant.Float64Val(v)
		w, _ := want.Float64()
		return f == w
	}
	s := biRat(v)
	return s == want.String()
}

// T: go/types on T(literal * factor) for every distinct point the specification accepts or rejects as truncated
func unReference(unPkg *types.Package, base types.Importer, ops []unOp) error {
	var b strings.Builder
	b.WriteString("package q\nimport \"time\"\nimport \"un\"\nvar _ time.Duration\nvar _ un.Dist\nfunc body() {\n")
	first := strings.Count(b.String(), "\n") + 1
	var sel []unOp
	for _, o := range ops {
		if o.Res.Ok || o.Res.Why == "truncated" {
			sel = append(sel, o)
			fmt.Fprintf(&b, "_ = %s(%s * %de%d)\n", unGoType[o.T], o.L, o.Factor.M, o.Factor.E)
		}
	}
	b.WriteString("}\n")
	fset := token.NewFileSet()
	f, err := parser.ParseFile(fset, "q.go", b.String(), 0)
	if err != nil {
		return fmt.Errorf("reference does not parse: %v", err)
	}
	bad := map[int]string{}
	info := &types.Info{Types: map[ast.Expr]types.TypeAndValue{}}
	conf := types.Config{Importer: unImporter{unPkg, base}, Error: func(e error) {
		if te, ok := e.(types.Error); ok {
			ln := fset.Position(te.Pos).Line
			if bad[ln] == "" {
				bad[ln] = te.Msg
			}
		}
	}}
	conf.Check("q", fset, []*ast.File{f}, info)
	body := f.Decls[len(f.Decls)-1].(*ast.FuncDecl).Body.List
	if len(body) != len(sel) {
		return fmt.Errorf("reference: %d statements for %d points", len(body), len(sel))
	}
	for i, o := range sel {
		msg, isBad := bad[first+i]
		if isBad == o.Res.Ok {
			return fmt.Errorf("Units.tla disagrees with go/types (specification defect, not a verdict): %s: S ok=%v %s, T ok=%v %s", o.text(), o.Res.Ok, o.Res.Why, !isBad, msg)
		}
		if !isBad {
			tv := info.Types[body[i].(*ast.AssignStmt).Rhs[0]]
			if !unValueEqual(tv.Value, o.Res.V.rat(), o.T == "Secs") {
				return fmt.Errorf("Units.tla disagrees with go/types on the value (specification defect, not a verdict): %s: S %s, T %v", o.text(), o.Res.V.rat(), tv.Value)
			}
		}
	}
	return nil
}

type unG struct {
	rejected bool
	msg      string
	fault    string
	cv       constant.Value
	text     string
	ty       string
}

type unWorld struct {
	pkg  *gogen.Package
	errs []string
	un   gogen.PkgRef
}

func newUnWorld(unPkg *types.Package, base types.Importer) *unWorld {
	fset, _ := sharedImporter()
	w := &unWorld{}
	w.pkg = gogen.NewPackage("", "p", &gogen.Config{Fset: fset, Importer: unImporter{unPkg, base}, HandleErr: func(e error) { w.errs = append(w.errs, e.Error()) }})
	w.un = w.pkg.Import("un")
	w.pkg.NewFunc(nil, "body", nil, nil, false).BodyStart(w.pkg)
	return w
}

func (w *unWorld) typ(n string) types.Type {
	switch n {
	case "Duration":
		return w.pkg.Import("time").Ref("Duration").Type()
	case "int":
		return types.Typ[types.Int]
	}
	return w.un.Ref(n).Type()
}

func (w *unWorld) lit(o unOp) (g unG) {
	cb := w.pkg.CB()
	w.errs = nil
	defer func() {
		if e := recover(); e != nil {
			g.rejected, g.msg = true, fmt.Sprint(e)
			if _, rt := e.(interface{ RuntimeError() }); rt || isForeignPanic(g.msg) {
				g.fault = g.msg
			}
			cb.ResetStmt()
		}
	}()
	kind := token.INT
	if o.litKind() == "FLOAT" {
		kind = token.FLOAT
	}
	cb.ValWithUnit(&ast.BasicLit{Kind: kind, Value: o.L}, w.typ(o.T), o.U)
	el := cb.InternalStack().Pop()
	cb.ResetStmt()
	if len(w.errs) > 0 {
		g.rejected, g.msg = true, strings.Join(w.errs, "; ")
		return g
	}
	g.cv = el.CVal
	if el.Type != nil {
		g.ty = types.TypeString(el.Type, func(p *types.Package) string { return p.Name() })
	}
	if x, ok := el.Val.(ast.Expr); ok {
		g.text = types.ExprString(x)
	}
	return g
}

// the emitted literal denotes the value
func unTextEqual(text string, want *big.Rat, float bool) bool {
	if float {
		f, err := strconv.ParseFloat(text, 64)
		w, _ := want.Float64()
		return err == nil && f == w
	}
	i, ok := new(big.Int).SetString(text, 0)
	return ok && want.IsInt() && i.Cmp(want.Num()) == 0
}

func unRun(run *ev.Run, tier, prop string) (int64, int64, int64) {
	maxOps := 2
	if tier == "thorough" {
		maxOps = 3
	}
	lits := `{"5","0","30","2.5","1.5","0.25","1e3"}`
	if tier == "thorough" {
		lits = `{"5","2.5","0.25","1e3"}`
	}
	var hists [][]unOp
	res, err := tlc.Run(tlc.Opts{SpecDir: SpecDir, Module: "Units", Workers: 4, Heavy: true, Timeout: 20 * time.Minute,
		Cfg: fmt.Sprintf("SPECIFICATION Spec\nCONSTANTS\n  MaxOps = %d\n  TypeNames = {\"Duration\",\"Dist\",\"Secs\",\"Plain\",\"int\"}\n  Lits = %s\nINVARIANTS IntegralClosed ZeroIsZero Stateless Emit\nCHECK_DEADLOCK FALSE\n", maxOps, lits),
		OnJSON: func(l string) {
			var h []unOp
			if json.Unmarshal([]byte(l), &h) == nil && len(h) > 0 {
				hists = append(hists, h)
			}
		}})
	if err != nil {
		run.Infra(err)
	}
	if res.Violation {
		run.Infra(fmt.Errorf("Units.tla violates its laws:\n%s", res.ErrText))
	}
	if len(hists) == 0 {
		run.Infra(fmt.Errorf("Units.tla generated no history"))
	}
	unCheck(run, hists, prop)
	run.Set("unit_literal_histories", fmt.Sprintf("%d histories of %d literals with a unit (Units.tla), each replayed on one package", len(hists), maxOps))
	return res.Distinct, res.Generated, int64(len(hists))
}

func unCheck(run *ev.Run, hists [][]unOp, prop string) {
	_, base := sharedImporter()
	unPkg, err := unCheckFixture()
	if err != nil {
		run.Infra(err)
	}
	seen := map[string]bool{}
	var distinct []unOp
	for _, h := range hists {
		for _, o := range h {
			if !seen[o.key()] {
				seen[o.key()] = true
				distinct = append(distinct, o)
			}
		}
	}
	if err := unReference(unPkg, base, distinct); err != nil {
		run.Infra(err)
	}
	gPkg, err := unCheckFixture()
	if err != nil {
		run.Infra(err)
	}
	parallelN(8, len(hists), func(hi int) {
		h := hists[hi]
		w := newUnWorld(gPkg, base)
		id := ""
		firstKind := map[string]string{} // per type: the kind of the first literal lowered in this package
		for _, o := range h {
			id += o.key() + ";"
			if firstKind[o.T] == "" {
				firstKind[o.T] = o.litKind()
			}
			g := w.lit(o)
			cls := fmt.Sprintf("unit-literal/%s/%s-literal*%s", o.T, o.litKind(), o.U)
			if firstKind[o.T] != o.litKind() {
				cls += "/after-a-" + firstKind[o.T] + "-literal-of-the-type"
			}
			desc := fmt.Sprintf("%s (history %v): Units.tla = go/types: ok=%v %s %s; builder: rejected=%v value %v text `%s` %s", o.text(), histText(h), o.Res.Ok, o.Res.Why, o.Res.V.rat(), g.rejected, g.cv, g.text, firstLines(g.msg, 1))
			switch {
			case g.fault != "":
				if prop == "C17" || (prop == "C02" && o.Res.Ok) || (prop == "C01" && !o.Res.Ok) {
					run.Fail("fault/"+cls, desc, h)
				}
			case !o.Res.Ok && !g.rejected:
				if prop == "C01" {
					run.Fail("accepted-although-"+o.Res.Why+"/"+cls, desc, h)
				}
				if prop == "C04" && o.Res.Why == "truncated" {
					run.Fail("folded-although-truncated/"+cls, desc, h)
				}
			case o.Res.Ok && g.rejected:
				if prop == "C02" {
					run.Fail("rejected-valid/"+cls, desc, h)
				}
			case o.Res.Ok && !g.rejected:
				want := o.Res.V.rat()
				float := o.T == "Secs"
				if prop == "C04" && !unValueEqual(g.cv, want, float) {
					run.Fail("value-differs/"+cls, desc, h)
				}
				if (prop == "C02" || prop == "C04") && !unTextEqual(g.text, want, float) {
					run.Fail("emitted-literal-differs/"+cls, desc, h)
				}
				if prop == "C03" && g.ty != unGoType[o.T] {
					run.Fail("type "+unGoType[o.T]+" reported as "+g.ty+" [unit-literal]", desc, h)
				}
			}
		}
		run.Eval("units:" + id)
	})
}

func histText(h []unOp) string {
	var s []string
	for _, o := range h {
		s = append(s, o.L+o.U+":"+o.T)
	}
	return strings.Join(s, ", ")
}
