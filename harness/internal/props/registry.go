// Package props holds one driver per property.
package props

import (
	"encoding/json"
	"fmt"
	"os"
	"path/filepath"
	"runtime"
	"sync"

	"verif/harness/internal/ev"
)

// Registry maps a property id to its driver: f(tier, replayFile).
var Registry = map[string]func(tier, replay string){}

// SpecDir is where the TLA+ modules live.
var SpecDir = filepath.Join(ev.Root, "spec")

// readCfg reads a configuration file from spec/cfg.
func readCfg(name string) string {
	b, err := os.ReadFile(filepath.Join(SpecDir, "cfg", name))
	if err != nil {
		fmt.Printf("INFRA-FAILURE cannot read cfg %s: %v\n", name, err)
		os.Exit(2)
	}
	return string(b)
}

// loadReplay reads the "case" member of a replay file.
func loadReplay(path string, into any) error {
	b, err := os.ReadFile(path)
	if err != nil {
		return err
	}
	var doc struct {
		Case json.RawMessage `json:"case"`
	}
	if err := json.Unmarshal(b, &doc); err != nil {
		return err
	}
	return json.Unmarshal(doc.Case, into)
}

// parallel runs f(i) for i in [0,n) on all cores.
func parallel(n int, f func(i int)) {
	w := runtime.NumCPU()
	if w > n {
		w = n
	}
	if w < 1 {
		w = 1
	}
	var wg sync.WaitGroup
	ch := make(chan int, 256)
	for k := 0; k < w; k++ {
		wg.Add(1)
		go func() {
			defer wg.Done()
			for i := range ch {
				f(i)
			}
		}()
	}
	for i := 0; i < n; i++ {
		ch <- i
	}
	close(ch)
	wg.Wait()
}

// parallelN runs f(i) for i in [0,n) on w goroutines.
func parallelN(w, n int, f func(i int)) {
	if w > n {
		w = n
	}
	if w < 1 {
		w = 1
	}
	var wg sync.WaitGroup
	ch := make(chan int, 256)
	for k := 0; k < w; k++ {
		wg.Add(1)
		go func() {
			defer wg.Done()
			for i := range ch {
				f(i)
			}
		}()
	}
	for i := 0; i < n; i++ {
		ch <- i
	}
	close(ch)
	wg.Wait()
}

func tierWorkers(tier string) int {
	if tier == "thorough" {
		return runtime.NumCPU()
	}
	return 4
}
