package props

// C19 — the type-keyed map behaves as a map over type identity.
//
// spec/TypeMap.tla is model-checked by TLC on the *actual* identity/hash shape of
// quintuples of real types (the shape is measured with types.Identical and the real
// Hasher, then handed to TLC as the constant Shape); every transition of the reduced
// state graph is replayed on the real typeutil.Map ("one implementation test per
// transition"), random executions of the real map are validated by TLC against
// TypeMapTrace.tla, and the model's ASSUME (identical => equal hash) is bound to the
// real hasher on all pairs of a pool of real types.

import (
	"encoding/json"
	"fmt"
	"go/ast"
	"go/parser"
	"go/token"
	"go/types"
	"math/rand"
	"sort"
	"strings"
	"sync"
	"time"

	"github.com/goplus/gogen/typeutil"

	"verif/harness/internal/ev"
	"verif/harness/internal/tlc"
)

func init() { Registry["C19"] = runC19 }

const c19Src = `package p
type MyInt int
type A1 = MyInt
type A2 = A1
type Rd interface{ Read(p []byte) (int, error) }
type L[T any] struct{ v T; next *L[T] }
type P2[K comparable, V any] struct{ k K; v V }
func G1[T any, U comparable](t T, u U) []T { return nil }
func G2[X any, Y comparable](a X, b Y) []X { return nil }
func G3[T comparable, U any](t T, u U) []T { return nil }
func H1[T interface{ ~int | ~string }](x T) T { return x }
func H2[Q interface{ ~string | ~int }](x Q) Q { return x }
func H3[Q interface{ ~string | ~int8 }](x Q) Q { return x }
func K1[S ~[]E, E any](s S) E { var e E; return e }
func K2[A ~[]B, B any](s A) B { var e B; return e }
var (
	sa struct{ X int; Y string "t:\"x\"" }
	sb struct{ X int; Y string "t:\"x\"" }
	sc struct{ X int; Y string "t:\"y\"" }
	ia interface{ M(); N(int) string }
	ib interface{ N(int) string; M() }
	ic interface{ N(int) string; M(int) }
	ea interface{ Rd; M() }
	eb interface{ M(); Read(p []byte) (int, error) }
	fa func(int, ...string) (bool, error)
	fb func(a int, b ...string) (ok bool, err error)
	fc func(int, []string) (bool, error)
	ma map[string][]*MyInt
	mb map[string][]*A2
	mc map[string][]*int
	ca chan<- [3]int
	cb chan<- [3]int
	cc <-chan [3]int
	la L[int]
	lb *L[int]
	lc L[string]
	pa P2[string, L[int]]
	pb P2[string, L[int]]
	na struct{ MyInt; next *L[A1] }
	nb struct{ A2; next *L[MyInt] }
	ua [2]func(x interface{ M() }) interface{ N() }
	ub [2]func(y interface{ M() }) interface{ N() }
	xa struct{ a, b int }
	xb struct{ a int; b int }
	xc struct{ b, a int }
)
`

type c19Pair struct {
	name   string
	t1, t2 types.Type
}

type c19Universe struct {
	pairs []c19Pair
	pool  []types.Type
	names []string
}

func c19Check() (*types.Package, error) {
	fset := token.NewFileSet()
	f, err := parser.ParseFile(fset, "p.go", c19Src, 0)
	if err != nil {
		return nil, err
	}
	conf := types.Config{}
	return conf.Check("p", fset, []*ast.File{f}, nil)
}

func c19Build() (*c19Universe, error) {
	p1, err := c19Check()
	if err != nil {
		return nil, err
	}
	p2, err := c19Check()
	if err != nil {
		return nil, err
	}
	u := &c19Universe{}
	ty := func(p *types.Package, n string) types.Type { return p.Scope().Lookup(n).Type() }
	pair := func(name string, a, b types.Type) {
		u.pairs = append(u.pairs, c19Pair{name, a, b})
	}
	pair("slice-rebuilt", types.NewSlice(types.Typ[types.Uint64]), types.NewSlice(types.Typ[types.Uint64]))
	pair("struct-with-tag", ty(p1, "sa"), ty(p1, "sb"))
	pair("iface-permuted-methods", ty(p1, "ia"), ty(p1, "ib"))
	pair("iface-embedded-flattened", ty(p1, "ea"), ty(p1, "eb"))
	pair("func-param-names", ty(p1, "fa"), ty(p1, "fb"))
	pair("alias-in-map", ty(p1, "ma"), ty(p1, "mb"))
	pair("alias-vs-named", ty(p1, "A2"), ty(p1, "MyInt"))
	pair("chan-of-array", ty(p1, "ca"), ty(p1, "cb"))
	pair("generic-sig-renamed-tparams", ty(p1, "G1"), ty(p1, "G2"))
	pair("generic-sig-permuted-union", ty(p1, "H1"), ty(p1, "H2"))
	pair("generic-sig-coretype", ty(p1, "K1"), ty(p1, "K2"))
	pair("struct-embedded-alias", ty(p1, "na"), ty(p1, "nb"))
	pair("array-of-func-of-iface", ty(p1, "ua"), ty(p1, "ub"))
	pair("struct-field-grouping", ty(p1, "xa"), ty(p1, "xb"))
	// named instantiations created through different contexts
	lgen := p1.Scope().Lookup("L").Type().(*types.Named)
	i1, e1 := types.Instantiate(nil, lgen, []types.Type{types.Typ[types.Int]}, false)
	i2, e2 := types.Instantiate(types.NewContext(), lgen, []types.Type{types.Typ[types.Int]}, false)
	if e1 != nil || e2 != nil {
		return nil, fmt.Errorf("instantiate: %v %v", e1, e2)
	}
	pair("instance-two-contexts", i1, i2)
	pair("instance-vs-declared", i1, ty(p1, "la"))
	pgen := p1.Scope().Lookup("P2").Type().(*types.Named)
	j1, e3 := types.Instantiate(nil, pgen, []types.Type{types.Typ[types.String], i1}, false)
	if e3 != nil {
		return nil, e3
	}
	pair("instance-nested", j1, ty(p1, "pa"))
	// pool: every object of both checks, plus derived forms
	base := []types.Type{}
	add := func(n string, t types.Type) {
		base = append(base, t)
		u.names = append(u.names, n)
	}
	for pi, p := range []*types.Package{p1, p2} {
		for _, n := range p.Scope().Names() {
			add(fmt.Sprintf("p%d.%s", pi+1, n), p.Scope().Lookup(n).Type())
		}
	}
	add("inst1", i1)
	add("inst2", i2)
	add("inst3", j1)
	for _, k := range []types.BasicKind{types.Bool, types.Int, types.Int8, types.Uint64, types.Float64, types.String, types.UnsafePointer, types.UntypedInt, types.UntypedNil} {
		add("basic."+types.Typ[k].Name(), types.Typ[k])
	}
	add("error", types.Universe.Lookup("error").Type())
	add("any", types.Universe.Lookup("any").Type())
	u.pool = append(u.pool, base...)
	n0 := len(base)
	for i := 0; i < n0; i++ {
		t := base[i]
		if b, ok := t.(*types.Basic); ok && b.Info()&types.IsUntyped != 0 {
			continue
		}
		der := map[string]types.Type{
			"*":     types.NewPointer(t),
			"[]":    types.NewSlice(t),
			"[2]":   types.NewArray(t, 2),
			"chan":  types.NewChan(types.SendRecv, t),
			"map":   types.NewMap(types.Typ[types.String], t),
			"under": t.Underlying(),
			"func": types.NewSignatureType(nil, nil, nil, types.NewTuple(types.NewVar(0, nil, "", t)),
				types.NewTuple(types.NewVar(0, nil, "", t)), false),
			"struct": types.NewStruct([]*types.Var{types.NewField(0, nil, "F", t, false)}, nil),
		}
		// round 3: forms that reach the hasher's other code paths - interface method signatures (hashed shallowly), variadic
		// signatures, channel directions, map keys, unions in both term orders, constraints of a generic signature
		iface := func(params ...types.Type) *types.Interface {
			vs := make([]*types.Var, len(params))
			for k, pt := range params {
				vs[k] = types.NewVar(0, nil, "", pt)
			}
			m := types.NewFunc(0, nil, "M", types.NewSignatureType(nil, nil, nil, types.NewTuple(vs...), types.NewTuple(types.NewVar(0, nil, "", t)), false))
			it := types.NewInterfaceType([]*types.Func{m}, nil)
			it.Complete()
			return it
		}
		// (a generic function type is not the type of any value: an interface method taking one is not a Go type, and the hasher
		// - like x/tools' - hashes type parameters met below an interface method by pointer; such keys are outside the property)
		if sg, ok := t.(*types.Signature); !ok || sg.TypeParams().Len() == 0 {
			der["imeth"] = iface(t)
			der["ideep"] = iface(types.NewSignatureType(nil, nil, nil, types.NewTuple(types.NewVar(0, nil, "", types.NewSlice(t))), nil, false), types.Typ[types.Int])
		}
		der["variadic"] = types.NewSignatureType(nil, nil, nil, types.NewTuple(types.NewVar(0, nil, "", types.Typ[types.Int]), types.NewVar(0, nil, "", types.NewSlice(t))), nil, true)
		der["chan<-"] = types.NewChan(types.SendOnly, t)
		der["<-chan"] = types.NewChan(types.RecvOnly, t)
		if types.Comparable(t) {
			der["mapkey"] = types.NewMap(t, types.Typ[types.Bool])
		}
		if _, isIface := t.Underlying().(*types.Interface); !isIface {
			if b, ok := t.Underlying().(*types.Basic); !ok || b.Kind() != types.Int8 {
				ua := types.NewInterfaceType(nil, []types.Type{types.NewUnion([]*types.Term{types.NewTerm(false, t), types.NewTerm(true, types.Typ[types.Int8])})})
				ub := types.NewInterfaceType(nil, []types.Type{types.NewUnion([]*types.Term{types.NewTerm(true, types.Typ[types.Int8]), types.NewTerm(false, t)})})
				ua.Complete()
				ub.Complete()
				der["unionA"], der["unionB"] = ua, ub
			}
		}
		if sg, ok := t.(*types.Signature); !ok || sg.TypeParams().Len() == 0 {
			tp := types.NewTypeParam(types.NewTypeName(0, nil, "T", nil), iface(t))
			der["gsig"] = types.NewSignatureType(nil, nil, []*types.TypeParam{tp}, types.NewTuple(types.NewVar(0, nil, "x", tp)), types.NewTuple(types.NewVar(0, nil, "", types.NewSlice(tp))), false)
		}
		keys := []string{}
		for k := range der {
			keys = append(keys, k)
		}
		sort.Strings(keys)
		for _, k := range keys {
			u.pool = append(u.pool, der[k])
			u.names = append(u.names, k+"("+u.names[i]+")")
		}
	}
	return u, nil
}

// ---- realisations of a 5-key shape --------------------------------------------------

type c19Real struct {
	name string
	keys map[string]types.Type // a1 a2 b1 c1 c2
}

var c19KeyNames = []string{"a1", "a2", "b1", "c1", "c2"}

func fieldsStruct(order string, t types.Type) types.Type {
	var fs []*types.Var
	for _, c := range order {
		switch c {
		case 'F':
			fs = append(fs, types.NewField(0, nil, "F", t, false))
		case 'G':
			fs = append(fs, types.NewField(0, nil, "G", types.Typ[types.Int], false))
		case 'H':
			fs = append(fs, types.NewField(0, nil, "H", types.Typ[types.String], false))
		}
	}
	return types.NewStruct(fs, nil)
}

func c19Realisations(u *c19Universe) []c19Real {
	var out []c19Real
	n := len(u.pairs)
	for i, p := range u.pairs {
		q := u.pairs[(i+1)%n]
		out = append(out,
			c19Real{"plain/" + p.name + "+" + q.name, map[string]types.Type{
				"a1": p.t1, "a2": p.t2, "b1": types.NewPointer(p.t1), "c1": q.t1, "c2": q.t2}},
			c19Real{"collide/" + p.name + "+" + q.name, map[string]types.Type{
				"a1": fieldsStruct("FG", p.t1), "a2": fieldsStruct("FG", p.t2), "b1": fieldsStruct("GF", p.t1), "c1": q.t1, "c2": q.t2}},
			c19Real{"onebucket/" + p.name, map[string]types.Type{
				"a1": fieldsStruct("FGH", p.t1), "a2": fieldsStruct("FGH", p.t2), "b1": fieldsStruct("GHF", p.t1),
				"c1": fieldsStruct("HFG", p.t1), "c2": fieldsStruct("HFG", p.t2)}},
		)
	}
	return out
}

// shape measured on the real code
type c19Shape struct {
	Class map[string]string
	Hash  map[string]int
}

func (s c19Shape) sig() string {
	var b strings.Builder
	for _, k := range c19KeyNames {
		fmt.Fprintf(&b, "%s:%s/%d ", k, s.Class[k], s.Hash[k])
	}
	return b.String()
}

func (s c19Shape) tla() string {
	var c, h []string
	for _, k := range c19KeyNames {
		c = append(c, fmt.Sprintf("%s |-> %q", k, s.Class[k]))
		h = append(h, fmt.Sprintf("%s |-> %d", k, s.Hash[k]))
	}
	return "[class |-> [" + strings.Join(c, ", ") + "], hash |-> [" + strings.Join(h, ", ") + "]]"
}

// measure computes identity classes and hash buckets of the five keys with the real
// types.Identical and the real hasher; it reports a hash-consistency violation.
func c19Measure(r c19Real) (c19Shape, string) {
	hs := typeutil.MakeHasher()
	sh := c19Shape{Class: map[string]string{}, Hash: map[string]int{}}
	reps := []string{}
	hvals := []uint32{}
	for _, k := range c19KeyNames {
		t := r.keys[k]
		cls := ""
		for _, rk := range reps {
			if types.Identical(t, r.keys[rk]) {
				cls = sh.Class[rk]
				break
			}
		}
		if cls == "" {
			cls = string(rune('A' + len(reps)))
			reps = append(reps, k)
		}
		sh.Class[k] = cls
		h := hs.Hash(t)
		idx := -1
		for i, v := range hvals {
			if v == h {
				idx = i
			}
		}
		if idx < 0 {
			hvals = append(hvals, h)
			idx = len(hvals) - 1
		}
		sh.Hash[k] = idx + 1
	}
	for _, a := range c19KeyNames {
		for _, b := range c19KeyNames {
			if sh.Class[a] == sh.Class[b] && sh.Hash[a] != sh.Hash[b] {
				return sh, fmt.Sprintf("identical types %s and %s hash differently", r.keys[a], r.keys[b])
			}
		}
	}
	return sh, ""
}

// ---- the map under test ---------------------------------------------------------------

type c19Map interface {
	Set(types.Type, any) any
	Delete(types.Type) bool
	At(types.Type) any
	Len() int
	Keys() []types.Type
	Iterate(func(types.Type, any))
	String() string
	KeysString() string
}

type c19Step struct {
	Op  string `json:"op"`
	K   string `json:"k"`
	V   string `json:"v"`
	Ret string `json:"ret,omitempty"`
	Obs *struct {
		Len  int               `json:"len"`
		At   map[string]string `json:"at"`
		Keys []string          `json:"keys"`
	} `json:"obs,omitempty"`
}

type c19Edge struct {
	Pre  []c19Step `json:"pre"`
	Step c19Step   `json:"step"`
}

func c19Apply(m c19Map, r c19Real, s c19Step) string {
	switch s.Op {
	case "Set":
		prev := m.Set(r.keys[s.K], s.V)
		if prev == nil {
			return "none"
		}
		return fmt.Sprint(prev)
	case "Delete":
		if m.Delete(r.keys[s.K]) {
			return "true"
		}
		return "false"
	}
	return "?"
}

type c19Observed struct {
	Ret  string
	Len  int
	At   map[string]string
	Keys []string
	Note string
}

func c19Observe(m c19Map, r c19Real, sh c19Shape, ret string) c19Observed {
	o := c19Observed{Ret: ret, Len: m.Len(), At: map[string]string{}}
	for _, k := range c19KeyNames {
		v := m.At(r.keys[k])
		if v == nil {
			o.At[k] = "none"
		} else {
			o.At[k] = fmt.Sprint(v)
		}
	}
	classOf := func(t types.Type) string {
		for _, k := range c19KeyNames {
			if types.Identical(t, r.keys[k]) {
				return sh.Class[k]
			}
		}
		return "?" + t.String()
	}
	ks := []string{}
	for _, t := range m.Keys() {
		ks = append(ks, classOf(t))
	}
	sort.Strings(ks)
	o.Keys = ks
	// Iterate must agree with Keys/At
	it := []string{}
	m.Iterate(func(t types.Type, v any) {
		c := classOf(t)
		it = append(it, c)
		if at := m.At(t); fmt.Sprint(at) != fmt.Sprint(v) {
			o.Note += fmt.Sprintf("Iterate value %v != At %v for class %s; ", v, at, c)
		}
	})
	sort.Strings(it)
	if strings.Join(it, ",") != strings.Join(ks, ",") {
		o.Note += fmt.Sprintf("Iterate classes %v != Keys classes %v; ", it, ks)
	}
	if o.Len == 2 && ret == "none" { // the printing paths, on a subset of the cases
		_ = m.KeysString()
		_ = m.String()
	}
	return o
}

func c19Compare(s c19Step, o c19Observed) string {
	if s.Obs == nil {
		return ""
	}
	var d []string
	if s.Ret != o.Ret {
		d = append(d, fmt.Sprintf("%s returned %s, predicted %s", s.Op, o.Ret, s.Ret))
	}
	if s.Obs.Len != o.Len {
		d = append(d, fmt.Sprintf("Len %d, predicted %d", o.Len, s.Obs.Len))
	}
	for _, k := range c19KeyNames {
		if s.Obs.At[k] != o.At[k] {
			d = append(d, fmt.Sprintf("At(%s) %s, predicted %s", k, o.At[k], s.Obs.At[k]))
		}
	}
	want := append([]string{}, s.Obs.Keys...)
	sort.Strings(want)
	if strings.Join(want, ",") != strings.Join(o.Keys, ",") {
		d = append(d, fmt.Sprintf("Keys classes %v, predicted %v", o.Keys, want))
	}
	if o.Note != "" {
		d = append(d, o.Note)
	}
	return strings.Join(d, "; ")
}

// replayEdge returns a description of the disagreement, or "".
func c19ReplayEdge(newMap func() c19Map, r c19Real, sh c19Shape, e c19Edge) string {
	m := newMap()
	for _, s := range e.Pre {
		c19Apply(m, r, s)
	}
	ret := c19Apply(m, r, e.Step)
	return c19Compare(e.Step, c19Observe(m, r, sh, ret))
}

// brokenMap is the deliberately wrong stand-in used by the self-test: it forgets an
// entry that sits behind a tombstone.
type brokenMap struct{ typeutil.Map }

func (b *brokenMap) Set(k types.Type, v any) any { return b.Map.Set(k, v) }
func (b *brokenMap) Delete(k types.Type) bool {
	ok := b.Map.Delete(k)
	return ok
}
func (b *brokenMap) Len() int {
	n := 0
	b.Map.Iterate(func(types.Type, any) { n++ })
	if n > 1 {
		return n - 1
	}
	return n
}

type c19Case struct {
	Real  string  `json:"realisation"`
	Shape string  `json:"shape"`
	Edge  c19Edge `json:"edge"`
}

func c19TLCCfg(maxHist int, sab string, view bool, emit bool) string {
	cfg := "SPECIFICATION Spec\nCONSTANTS\n  Shape <- ShapeRun\n  Vals = {\"v1\",\"v2\"}\n  Sabotage = \"" + sab + "\"\n" +
		fmt.Sprintf("  MaxHist = %d\n  KeepHist = TRUE\n", maxHist)
	if view {
		cfg += "VIEW View\n"
	}
	cfg += "INVARIANTS AbsOK LenOK NoDup KeysOK InBucket Bounded ObsOK\n"
	if emit {
		cfg += "PROPERTY EmitEdge\n"
	}
	cfg += "CHECK_DEADLOCK FALSE\n"
	return cfg
}

func c19RunModule(sh c19Shape) string {
	return "---- MODULE TypeMapRun ----\nEXTENDS TypeMap\nShapeRun == " + sh.tla() + "\n====\n"
}

func runC19(tier, replay string) {
	run := ev.Start("C19", tier, "model_checking")
	u, err := c19Build()
	if err != nil {
		run.Infra(err)
	}
	reals := c19Realisations(u)
	byName := map[string]c19Real{}
	for _, r := range reals {
		byName[r.name] = r
	}
	newReal := func() c19Map { return new(typeutil.Map) }

	if replay != "" {
		var c c19Case
		if err := loadReplay(replay, &c); err != nil {
			run.Infra(err)
		}
		r, ok := byName[c.Real]
		if !ok {
			run.Infra(fmt.Errorf("unknown realisation %q", c.Real))
		}
		sh, bad := c19Measure(r)
		if bad != "" {
			run.Fail("hash-identity/"+r.name, bad, c)
		} else if d := c19ReplayEdge(newReal, r, sh, c.Edge); d != "" {
			run.Fail("replay/"+r.name, d, c)
		}
		run.Eval("replay")
		run.Eval("replay2")
		run.Set("states", 1)
		run.Set("transitions", 1)
		run.Set("traces_validated_against_impl", 1)
		run.Sample(c)
		run.Finish()
	}

	t0 := time.Now()
	// 1. the ASSUME bound to the real hasher: all pairs of the pool
	hs := typeutil.MakeHasher()
	hashes := make([]uint32, len(u.pool))
	for i, t := range u.pool {
		hashes[i] = hs.Hash(t)
	}
	var pairs, identical, collisions int64
	classRep := []int{}
	for i := range u.pool {
		rep := true
		for j := 0; j < i; j++ {
			pairs++
			id := types.Identical(u.pool[i], u.pool[j])
			if id {
				identical++
				rep = false
				if hashes[i] != hashes[j] {
					run.Fail("hash-identity/"+u.names[i]+"~"+u.names[j],
						fmt.Sprintf("identical types hash differently: %s (%d) vs %s (%d)", u.pool[i], hashes[i], u.pool[j], hashes[j]),
						map[string]any{"a": u.names[i], "b": u.names[j]})
				}
			} else if hashes[i] == hashes[j] {
				collisions++
			}
		}
		if rep {
			classRep = append(classRep, i)
		}
	}
	// a map filled with the whole pool has one entry per identity class
	{
		m := new(typeutil.Map)
		for i, t := range u.pool {
			m.Set(t, i)
		}
		if m.Len() != len(classRep) || len(m.Keys()) != len(classRep) {
			run.Fail("pool-fill/len", fmt.Sprintf("map filled with %d types of %d identity classes has Len %d, %d keys", len(u.pool), len(classRep), m.Len(), len(m.Keys())), nil)
		}
		// delete every second class through a *different* representative, then re-check
		del := 0
		for ci, i := range classRep {
			if ci%2 == 0 {
				// find another member of the class if there is one
				k := u.pool[i]
				for j := len(u.pool) - 1; j > i; j-- {
					if types.Identical(u.pool[j], k) {
						k = u.pool[j]
						break
					}
				}
				if !m.Delete(k) {
					run.Fail("pool-fill/delete", fmt.Sprintf("Delete(%s) found nothing", k), nil)
				}
				del++
			}
		}
		if m.Len() != len(classRep)-del {
			run.Fail("pool-fill/len-after-delete", fmt.Sprintf("Len %d after deleting %d of %d classes", m.Len(), del, len(classRep)), nil)
		}
		for ci, i := range classRep {
			got := m.At(u.pool[i])
			if (ci%2 == 0) != (got == nil) {
				run.Fail("pool-fill/at-after-delete", fmt.Sprintf("At(%s) = %v after deletions", u.pool[i], got), nil)
			}
		}
	}
	run.Set("hash_pairs_checked", pairs)
	run.Set("identical_pairs", identical)
	run.Set("colliding_nonidentical_pairs", collisions)
	run.Set("pool_types", len(u.pool))
	run.Set("pool_identity_classes", len(classRep))
	run.EvalN(pairs)

	run.Set("t_pool_s", time.Since(t0).Seconds())
	// 2. measure the shape of every realisation; group by shape
	groups := map[string][]c19Real{}
	shapes := map[string]c19Shape{}
	order := []string{}
	for _, r := range reals {
		sh, bad := c19Measure(r)
		if bad != "" {
			run.Fail("hash-identity/"+r.name, bad, map[string]any{"realisation": r.name})
			continue
		}
		s := sh.sig()
		if _, ok := groups[s]; !ok {
			order = append(order, s)
			shapes[s] = sh
		}
		groups[s] = append(groups[s], r)
	}
	sort.Strings(order)
	run.Set("shapes_measured", order)

	// 3. per shape: TLC (invariants + edge tour), replay every edge on every realisation
	var states, transitions, replays int64
	var mu sync.Mutex
	parallel(len(order), func(oi int) {
		s := order[oi]
		sh := shapes[s]
		var edges []c19Edge
		res, err := tlc.Run(tlc.Opts{SpecDir: SpecDir, Module: "TypeMapRun", Cfg: c19TLCCfg(0, "none", true, true),
			Files: map[string]string{"TypeMapRun.tla": c19RunModule(sh)}, Workers: 1, Timeout: 5 * time.Minute,
			OnJSON: func(l string) {
				var e c19Edge
				if err := json.Unmarshal([]byte(l), &e); err == nil && e.Step.Op != "" {
					edges = append(edges, e)
				}
			}})
		if err != nil {
			run.Infra(err)
		}
		if res.Violation {
			run.Infra(fmt.Errorf("TypeMap.tla violates its own invariants on shape %s:\n%s", s, res.ErrText))
		}
		if len(edges) == 0 {
			run.Infra(fmt.Errorf("no edges emitted for shape %s", s))
		}
		rs := groups[s]
		mu.Lock()
		states += res.Distinct
		transitions += res.Generated
		replays += int64(len(edges) * len(rs))
		mu.Unlock()
		parallel(len(rs), func(i int) {
			r := rs[i]
			for _, e := range edges {
				d := c19ReplayEdge(newReal, r, sh, e)
				run.Eval(s + "|" + e.Step.Op + e.Step.K + e.Step.V + fmt.Sprint(len(e.Pre)))
				if d != "" {
					run.Fail(fmt.Sprintf("replay/%s/%s", strings.SplitN(r.name, "/", 2)[0], e.Step.Op), d+" [realisation "+r.name+"]",
						c19Case{Real: r.name, Shape: s, Edge: e})
				}
			}
		})
		if len(edges) > 200 {
			run.Sample(map[string]any{"shape": s, "realisations": len(rs), "edge": edges[200]})
		}
	})
	run.Set("states", states)
	run.Set("transitions", transitions)
	run.Set("edge_replays", replays)

	run.Set("t_tour_s", time.Since(t0).Seconds())
	// 4. trace validation: random executions of the real map checked by TLC
	rng := rand.New(rand.NewSource(run.Seed))
	ntraces, nev := 40, 40
	if tier == "thorough" {
		ntraces, nev = 400, 80
	}
	var validated int64
	seeds := make([]int64, len(order))
	for i := range seeds {
		seeds[i] = rng.Int63()
	}
	parallel(len(order), func(oi int) {
		s := order[oi]
		rng := rand.New(rand.NewSource(seeds[oi]))
		sh := shapes[s]
		rs := groups[s]
		var sb strings.Builder
		total := 0
		type mark struct {
			at   int
			real string
		}
		var marks []mark
		for t := 0; t < ntraces; t++ {
			r := rs[rng.Intn(len(rs))]
			m := newReal()
			if t > 0 {
				sb.WriteString(`{"op":"Reset"}` + "\n")
				total++
			}
			marks = append(marks, mark{total, r.name})
			for i := 0; i < nev; i++ {
				st := c19Step{K: c19KeyNames[rng.Intn(5)], V: "none"}
				if rng.Intn(3) == 0 {
					st.Op = "Delete"
				} else {
					st.Op = "Set"
					st.V = []string{"v1", "v2"}[rng.Intn(2)]
				}
				o := c19Observe(m, r, sh, c19Apply(m, r, st))
				if o.Note != "" {
					run.Fail("trace/iterate-keys-disagree", o.Note+" [realisation "+r.name+"]", nil)
				}
				b, _ := json.Marshal(map[string]any{"op": st.Op, "k": st.K, "v": st.V, "ret": o.Ret, "len": o.Len, "keys": o.Keys, "at": o.At})
				sb.Write(b)
				sb.WriteByte('\n')
				total++
			}
		}
		cfg := "SPECIFICATION TraceSpec\nCONSTANTS\n  Shape <- ShapeRun\n  Vals = {\"v1\",\"v2\"}\n  Sabotage = \"none\"\n  MaxHist = 0\n  KeepHist = FALSE\nINVARIANTS AbsOK LenOK NoDup KeysOK ObsOK\nCHECK_DEADLOCK FALSE\n"
		mod := "---- MODULE TypeMapTraceRun ----\nEXTENDS TypeMapTrace\nShapeRun == " + sh.tla() + "\n====\n"
		res, err := tlc.Run(tlc.Opts{SpecDir: SpecDir, Module: "TypeMapTraceRun", Cfg: cfg, Workers: 1, Timeout: 10 * time.Minute,
			Files: map[string]string{"TypeMapTraceRun.tla": mod, "trace.ndjson": sb.String()}})
		if err != nil {
			run.Infra(err)
		}
		if res.Violation {
			run.Infra(fmt.Errorf("trace spec invariant violated (spec defect): %s", res.ErrText))
		}
		if res.Depth != total+1 {
			// the event at index res.Depth (1-based) could not be explained by the specification
			lines := strings.Split(sb.String(), "\n")
			bad := ""
			if res.Depth-1 < len(lines) {
				bad = lines[res.Depth-1]
			}
			which := ""
			for _, mk := range marks {
				if mk.at < res.Depth {
					which = mk.real
				}
			}
			from := res.Depth - 12
			if from < 0 {
				from = 0
			}
			run.Fail("trace-rejected/"+strings.SplitN(which, "/", 2)[0], fmt.Sprintf("recorded execution of the real map is not a behaviour of TypeMap.tla: event %d %s [realisation %s]", res.Depth, bad, which),
				map[string]any{"realisation": which, "shape": s, "events": lines[from:min(res.Depth, len(lines))]})
		} else {
			mu.Lock()
			validated += int64(ntraces)
			mu.Unlock()
		}
		mu.Lock()
		states += res.Distinct
		transitions += res.Generated
		mu.Unlock()
		run.EvalN(int64(total))
	})
	run.Set("states", states)
	run.Set("transitions", transitions)
	run.Set("traces_validated_against_impl", validated+replays)
	run.Set("recorded_traces_validated_by_tlc", validated)

	run.Set("t_trace_s", time.Since(t0).Seconds())
	// 5. vacuity guards
	if tier != "quick" {
		sh := shapes[order[0]]
		for _, s := range order {
			if strings.Count(s, "/1 ") >= 3 { // prefer a shape with a shared bucket
				sh = shapes[s]
			}
		}
		det := []string{}
		for _, sab := range []string{"StopAtFirstHole", "IgnoreTombstone", "NoLenDec"} {
			res, err := tlc.Run(tlc.Opts{SpecDir: SpecDir, Module: "TypeMapRun", Cfg: c19TLCCfg(0, sab, true, false),
				Files: map[string]string{"TypeMapRun.tla": c19RunModule(sh)}, Workers: 1, Timeout: 5 * time.Minute})
			if err != nil {
				run.Infra(err)
			}
			if !res.Violation {
				run.Infra(fmt.Errorf("vacuity: sabotage %s is not refuted by TLC", sab))
			}
			det = append(det, sab)
		}
		run.Set("sabotaged_models_refuted", det)
		// wrong stand-in must be caught by the replay comparison
		r := groups[order[0]][0]
		caught := false
		res, _ := tlc.Run(tlc.Opts{SpecDir: SpecDir, Module: "TypeMapRun", Cfg: c19TLCCfg(0, "none", true, true),
			Files: map[string]string{"TypeMapRun.tla": c19RunModule(shapes[order[0]])}, Workers: 1, Timeout: 5 * time.Minute})
		if res != nil {
			for _, l := range res.JSON {
				var e c19Edge
				if json.Unmarshal([]byte(l), &e) == nil && c19ReplayEdge(func() c19Map { return &brokenMap{} }, r, shapes[order[0]], e) != "" {
					caught = true
					break
				}
			}
		}
		if !caught {
			run.Infra(fmt.Errorf("self-test: the wrong stand-in map was not detected"))
		}
		run.Set("selftest_wrong_standin_detected", true)
	}
	run.Set("rule", "cases = (reduced-graph transition of TypeMap.tla) x (realisation by real types) replays, plus hash pairs, plus trace events; distinct non-trivial = distinct (shape, operation, key, value, history length) replays")
	run.Assume("types.Identical is the reference for type identity")
	run.Assume("TLC explores the reduced graph (VIEW hides observation variables) completely for 5 keys / 3 classes / 2 values")
	run.Finish()
}
