package props

// C06: overload resolution picks the first applicable candidate and leaves no residue.
// spec/Overload.tla enumerates (family, call) points, model-checks the candidate loop and prints
// the expected outcome of every point; the harness realises every family as a fixture package
// (functions F<fam>__i, methods on value / pointer receivers, interface methods, an XGoo_ ordered
// family, an in-package family) and replays the call through the real CodeBuilder.
//   S = T : the model's Go applicability and result type per (signature, call) equal go/types'.
//   G vs S: chosen candidate (callee name), rejection, emitted argument expressions, result type.
//   metamorphic: the emitted arguments equal those of the single-candidate family of the chosen candidate.

import (
	"encoding/json"
	"fmt"
	"go/ast"
	"go/parser"
	"go/token"
	"go/types"
	"sort"
	"strconv"
	"strings"
	"sync"
	"time"

	"github.com/goplus/gogen"

	"verif/harness/internal/ev"
	"verif/harness/internal/tlc"
)

func init() { Registry["C06"] = runC06 }

type ovPoint struct {
	Fam      []int    `json:"fam"`
	Call     []string `json:"call"`
	Ell      bool     `json:"ell"`
	Idx      int      `json:"idx"`
	Muts     []string `json:"muts"`
	Res      string   `json:"res"`
	DevIdx   int      `json:"devidx"`
	DevMuts  []string `json:"devmuts"`
	DevAbort bool     `json:"devabort"`
	GoApp    []bool   `json:"goapp"`
	XApp     []bool   `json:"xapp"`
	Kind     string   `json:"kind,omitempty"` // replay only: the realisation that failed
	Pre      *ovPoint `json:"pre,omitempty"`  // replay only: a rejected call made through the same callee element first
}

type ovSig struct {
	ps   []string
	vari bool
	gen  string
}

// the same table as Sig(i) in Overload.tla
var ovSigs = map[int]ovSig{
	1: {[]string{"int"}, false, ""}, 2: {[]string{"float64"}, false, ""}, 3: {[]string{"string"}, false, ""}, 4: {[]string{"any"}, false, ""},
	5: {[]string{"MyInt"}, false, ""}, 6: {[]string{"Big"}, false, ""}, 7: {[]string{"int", "int"}, false, ""}, 8: {[]string{"Big", "string"}, false, ""},
	9: {[]string{"int"}, true, ""}, 10: {[]string{"string", "int"}, true, ""}, 11: {[]string{"any"}, true, ""},
	12: {[]string{"T"}, false, "T1"}, 13: {[]string{"[]T"}, false, "SL"}, 14: {nil, false, ""}, 15: {[]string{"fii"}, false, ""}, 16: {[]string{"sl"}, false, ""},
	17: {[]string{"T", "T"}, false, "CMP2"}, 18: {[]string{"fii", "string"}, false, ""}, 19: {[]string{"any", "string"}, false, ""}, 20: {[]string{"any", "int"}, false, ""},
	21: {[]string{"Big", "Big"}, false, ""},
}

var ovGoType = map[string]string{"int": "int", "float64": "float64", "string": "string", "any": "any", "MyInt": "MyInt", "Big": "Big", "sl": "[]int", "fii": "func(int) int", "T": "T", "[]T": "[]T"}

func famName(f []int) string {
	s := make([]string, len(f))
	for i, x := range f {
		s[i] = fmt.Sprint(x)
	}
	return strings.Join(s, "x")
}

// signature text of candidate sig as function `name`, result type res ("" = the type parameter)
func ovFuncDecl(recv, name string, sg ovSig, res string, bodyless bool) string {
	tp := ""
	switch sg.gen {
	case "T1", "SL":
		tp = "[T any]"
	case "CMP2":
		tp = "[T comparable]"
	}
	var ps []string
	for i, p := range sg.ps {
		t := ovGoType[p]
		if sg.vari && i == len(sg.ps)-1 {
			t = "..." + t
		}
		ps = append(ps, fmt.Sprintf("a%d %s", i, t))
	}
	ret, body := res, "{ var r "+res+"; return r }"
	if sg.gen != "" {
		ret, body = "T", "{ var r T; return r }"
	}
	if bodyless {
		return fmt.Sprintf("%s(%s) %s", name, strings.Join(ps, ", "), ret)
	}
	return fmt.Sprintf("func %s%s%s(%s) %s %s\n", recv, name, tp, strings.Join(ps, ", "), ret, body)
}

var ovKinds = []string{"func", "mval", "mptr", "iface", "xgoo", "inpkg", "op"}

// index suffix of a family member: base 36 (F__0 .. F__9, F__a, F__b, ..)
func ovIdx(i int) string { return strconv.FormatInt(int64(i), 36) }

// slot i of an XGoo_ list is left blank (it then stands for X<fam>__<index>): every third slot and every slot from 9 on
func ovBlankSlot(i int) bool { return i%3 == 2 || i >= 9 }

const ovMaxFam = 12

// fixture source of package ov for the given families
func ovFixture(fams [][]int) string {
	var b strings.Builder
	b.WriteString("package ov\n\nconst XGoPackage = true\n\ntype MyInt int\ntype Big struct{ v int }\nfunc Big_Init__0(x int) Big { return Big{x} }\nfunc Big_Init__1(s string) Big { return Big{len(s)} }\n")
	for i := 0; i < ovMaxFam; i++ {
		fmt.Fprintf(&b, "type R%d struct{}\n", i)
	}
	b.WriteString("func Id[T any](x T) T { return x }\nfunc G__0(x int) int { return x }\n\n")
	for _, f := range fams {
		n := famName(f)
		generic := false
		for _, s := range f {
			if ovSigs[s].gen != "" {
				generic = true
			}
		}
		for i, s := range f {
			b.WriteString(ovFuncDecl("", fmt.Sprintf("F%s__%s", n, ovIdx(i)), ovSigs[s], fmt.Sprintf("R%d", i), false))
		}
		// explicit order through an XGoo_ constant: names in reverse lexical order, so that order can only come from the constant
		var names []string
		for i, s := range f {
			nm := fmt.Sprintf("X%s%c", n, 'z'-byte(i))
			if ovBlankSlot(i) {
				nm = fmt.Sprintf("X%s__%s", n, ovIdx(i))
				names = append(names, "")
			} else {
				names = append(names, nm)
			}
			b.WriteString(ovFuncDecl("", nm, ovSigs[s], fmt.Sprintf("R%d", i), false))
		}
		fmt.Fprintf(&b, "const XGoo_X%s = %q\n", n, strings.Join(names, ","))
		if generic {
			continue // methods cannot have type parameters
		}
		if ovOpFamily(f) {
			fmt.Fprintf(&b, "type O%s float64\n", n) // a defined type over a basic type: the builtin + would accept what every candidate rejects
			// (methods are declared in reverse index order: the order of a family is the order of its indices, not of its declarations)
			for i := len(f) - 1; i >= 0; i-- {
				s := f[i]
				b.WriteString(ovFuncDecl(fmt.Sprintf("(O%s) ", n), fmt.Sprintf("XGo_Add__%s", ovIdx(i)), ovSigs[s], fmt.Sprintf("R%d", i), false))
			}
		}
		fmt.Fprintf(&b, "type V%s struct{}\ntype P%s struct{}\n", n, n)
		var im []string
		for i := len(f) - 1; i >= 0; i-- {
			s := f[i]
			b.WriteString(ovFuncDecl(fmt.Sprintf("(V%s) ", n), fmt.Sprintf("M__%s", ovIdx(i)), ovSigs[s], fmt.Sprintf("R%d", i), false))
			b.WriteString(ovFuncDecl(fmt.Sprintf("(*P%s) ", n), fmt.Sprintf("M__%s", ovIdx(i)), ovSigs[s], fmt.Sprintf("R%d", i), false))
		}
		for i, s := range f {
			im = append(im, ovFuncDecl("", fmt.Sprintf("M__%s", ovIdx(i)), ovSigs[s], fmt.Sprintf("R%d", i), true))
		}
		fmt.Fprintf(&b, "type I%s interface {\n\t%s\n}\n", n, strings.Join(im, "\n\t"))
	}
	return b.String()
}

// an overloaded operator takes exactly one operand besides the receiver
func ovOpFamily(f []int) bool {
	for _, s := range f {
		sg := ovSigs[s]
		if sg.gen != "" || sg.vari || len(sg.ps) != 1 {
			return false
		}
	}
	return true
}

type ovImporter struct {
	ov   *types.Package
	base types.Importer
}

func (i ovImporter) Import(path string) (*types.Package, error) {
	if path == "ov" {
		return i.ov, nil
	}
	return i.base.Import(path)
}

func ovCheckFixture(src string) (*types.Package, error) {
	fset := token.NewFileSet()
	f, err := parser.ParseFile(fset, "ov.go", src, 0)
	if err != nil {
		return nil, err
	}
	return (&types.Config{}).Check("ov", fset, []*ast.File{f}, nil)
}

var ovArgText = map[string]string{"c1": "1", "c15": "1.5", "cs": `"s"`, "vi": "vi", "vf": "vf", "vs": "vs", "vmy": "vmy", "vsl": "vsl", "vbig": "vbig", "nil": "nil", "gid": "ov.Id", "ov1": "ov.G__0", "tup": "pair()"}

// ---------- T: go/types on one-liners, per (signature, call, ell) ----------

type ovT struct {
	ok  bool
	res string
}

func ovCallKey(sig int, call []string, ell bool) string {
	return fmt.Sprintf("%d|%s|%v", sig, strings.Join(call, ","), ell)
}

func ovReference(ovPkg *types.Package, base types.Importer, need map[string]ovPoint) (map[string]ovT, error) {
	// need: key -> a point carrying (sig as Fam[0], call, ell)
	keys := make([]string, 0, len(need))
	for k := range need {
		keys = append(keys, k)
	}
	sort.Strings(keys)
	var b strings.Builder
	b.WriteString("package q\nimport \"ov\"\nvar vi int\nvar vf float64\nvar vs string\nvar vmy ov.MyInt\nvar vsl []int\nvar vbig ov.Big\nfunc pair() (int, string) { return 0, \"\" }\nfunc body() {\n")
	first := strings.Count(b.String(), "\n") + 1
	for _, k := range keys {
		p := need[k]
		var as []string
		for _, a := range p.Call {
			as = append(as, ovArgText[a])
		}
		txt := strings.Join(as, ", ")
		if p.Ell {
			txt += "..."
		}
		fmt.Fprintf(&b, "_ = ov.F%d__0(%s)\n", p.Fam[0], txt)
	}
	b.WriteString("}\n")
	fset := token.NewFileSet()
	f, err := parser.ParseFile(fset, "q.go", b.String(), 0)
	if err != nil {
		return nil, fmt.Errorf("reference does not parse: %v", err)
	}
	bad := map[int]bool{}
	info := &types.Info{Types: map[ast.Expr]types.TypeAndValue{}}
	conf := types.Config{Importer: ovImporter{ovPkg, base}, Error: func(e error) {
		if te, ok := e.(types.Error); ok {
			bad[fset.Position(te.Pos).Line] = true
		}
	}}
	conf.Check("q", fset, []*ast.File{f}, info)
	out := map[string]ovT{}
	body := f.Decls[len(f.Decls)-1].(*ast.FuncDecl).Body.List
	if len(body) != len(keys) {
		return nil, fmt.Errorf("reference: %d statements for %d keys", len(body), len(keys))
	}
	for i, k := range keys {
		line := first + i
		t := ovT{ok: !bad[line]}
		if t.ok {
			call := body[i].(*ast.AssignStmt).Rhs[0]
			if tv, ok := info.Types[call]; ok {
				t.res = types.TypeString(tv.Type, func(p *types.Package) string { return p.Name() })
			}
		}
		out[k] = t
	}
	return out, nil
}

var ovResText = map[string]string{"int": "int", "float64": "float64", "string": "string", "MyInt": "ov.MyInt", "Big": "ov.Big", "sl": "[]int", "fii": "func(x int) int",
	"R0": "ov.R0", "R1": "ov.R1", "R2": "ov.R2", "R3": "ov.R3", "R4": "ov.R4", "R5": "ov.R5", "R6": "ov.R6", "R7": "ov.R7", "R8": "ov.R8", "R9": "ov.R9", "R10": "ov.R10", "R11": "ov.R11"}

// ---------- G: the real builder ----------

type ovWorld struct {
	nbody int
	pkg   *gogen.Package
	ov    gogen.PkgRef
	errs  []string
	inpkg map[string]bool
	fn    *gogen.Func
}

func newOvWorld(ovPkg *types.Package, base types.Importer, fams [][]int) *ovWorld {
	w := &ovWorld{inpkg: map[string]bool{}}
	// the fixture package object is shared: gogen initialises XGo packages once per *types.Package (scope insertions)
	w.pkg = gogen.NewPackage("", "p", &gogen.Config{Fset: token.NewFileSet(), Importer: ovImporter{ovPkg, base}, HandleErr: func(e error) { w.errs = append(w.errs, e.Error()) }})
	pkg := w.pkg
	w.ov = pkg.Import("ov")
	T := func(n string) types.Type { return w.ov.Ref(n).Type() }
	ti := types.Typ[types.Int]
	pkg.NewVar(token.NoPos, ti, "vi")
	pkg.NewVar(token.NoPos, types.Typ[types.Float64], "vf")
	pkg.NewVar(token.NoPos, types.Typ[types.String], "vs")
	pkg.NewVar(token.NoPos, T("MyInt"), "vmy")
	pkg.NewVar(token.NoPos, types.NewSlice(ti), "vsl")
	pkg.NewVar(token.NoPos, T("Big"), "vbig")
	pkg.NewFunc(nil, "pair", nil, types.NewTuple(types.NewParam(token.NoPos, pkg.Types, "", ti), types.NewParam(token.NoPos, pkg.Types, "", types.Typ[types.String])), false).
		BodyStart(pkg).Val(0).Val("").Return(2).End()
	for _, f := range fams {
		n := famName(f)
		if w.ov.TryRef("V"+n) != nil {
			pkg.NewVar(token.NoPos, T("V"+n), "vV"+n)
			pkg.NewVar(token.NoPos, T("P"+n), "vP"+n)
			pkg.NewVar(token.NoPos, T("I"+n), "vI"+n)
		}
		if w.ov.TryRef("O"+n) != nil {
			pkg.NewVar(token.NoPos, T("O"+n), "vO"+n)
		}
	}
	return w
}

func (w *ovWorld) goType(p string) types.Type {
	ti := types.Typ[types.Int]
	switch p {
	case "int":
		return ti
	case "float64":
		return types.Typ[types.Float64]
	case "string":
		return types.Typ[types.String]
	case "any":
		return types.NewInterfaceType(nil, nil)
	case "MyInt", "Big":
		return w.ov.Ref(p).Type()
	case "sl":
		return types.NewSlice(ti)
	case "R0", "R1", "R2", "R3", "R4", "R5", "R6", "R7", "R8", "R9", "R10", "R11":
		return w.ov.Ref(p).Type()
	case "fii":
		return types.NewSignatureType(nil, nil, nil, types.NewTuple(types.NewParam(token.NoPos, nil, "x", ti)), types.NewTuple(types.NewParam(token.NoPos, nil, "", ti)), false)
	}
	panic("harness: no Go type for " + p)
}

// ensureInPkg defines the family as functions of the package under construction plus an overload object
func (w *ovWorld) ensureInPkg(f []int) bool {
	n := famName(f)
	if done, ok := w.inpkg[n]; ok {
		return done
	}
	for _, s := range f {
		if ovSigs[s].gen != "" {
			w.inpkg[n] = false
			return false
		}
	}
	pkg := w.pkg
	var objs []types.Object
	for i, s := range f {
		sg := ovSigs[s]
		var ps []*types.Var
		for k, p := range sg.ps {
			t := w.goType(p)
			if sg.vari && k == len(sg.ps)-1 {
				t = types.NewSlice(t)
			}
			ps = append(ps, types.NewParam(token.NoPos, pkg.Types, fmt.Sprintf("a%d", k), t))
		}
		rt := w.goType(fmt.Sprintf("R%d", i))
		fn := pkg.NewFunc(nil, fmt.Sprintf("l%s__%s", n, ovIdx(i)), types.NewTuple(ps...), types.NewTuple(types.NewParam(token.NoPos, pkg.Types, "", rt)), sg.vari)
		fn.BodyStart(pkg).ZeroLit(rt).Return(1).End()
		objs = append(objs, fn.Func)
	}
	pkg.Types.Scope().Insert(gogen.NewOverloadFunc(token.NoPos, pkg.Types, "l"+n, objs...))
	w.inpkg[n] = true
	return true
}

type ovG struct {
	rejected bool
	msg      string
	callee   string
	args     []string
	res      string
	fault    string
}

// call realises the call of p through the real builder.  With pre, a call that every candidate rejects is made
// through the same callee element first (CallWithEx pops the arguments only and leaves the callee for another try).
func (w *ovWorld) call(p ovPoint, kind string, pre ...*ovPoint) (g ovG, applicable bool) {
	n := famName(p.Fam)
	pkg := w.pkg
	switch kind {
	case "mval", "mptr", "iface":
		if w.ov.TryRef("V"+n) == nil {
			return g, false
		}
	case "inpkg":
		if !w.ensureInPkg(p.Fam) {
			return g, false
		}
	case "op":
		// x + arg with the operator overloaded on x's type: exactly one ordinary argument
		if w.ov.TryRef("O"+n) == nil || len(p.Call) != 1 || p.Ell || p.Call[0] == "tup" {
			return g, false
		}
	}
	applicable = true
	w.errs = nil
	if w.fn == nil {
		w.nbody++ // (a fresh name: after a fault the body is abandoned and another one is opened)
		w.fn = pkg.NewFunc(nil, fmt.Sprintf("body%d", w.nbody), nil, nil, false)
		w.fn.BodyStart(pkg)
	}
	cb := pkg.CB()
	defer func() {
		if e := recover(); e != nil {
			g.rejected = true
			g.msg = fmt.Sprint(e)
			if _, rt := e.(interface{ RuntimeError() }); rt || isForeignPanic(g.msg) {
				g.fault = g.msg
			}
			cb.ResetStmt()
		}
	}()
	ref := func(name string) types.Object { return pkg.Types.Scope().Lookup(name) }
	switch kind {
	case "func":
		cb.Val(w.ov.Ref("F" + n))
	case "xgoo":
		cb.Val(w.ov.Ref("X" + n))
	case "inpkg":
		cb.Val(ref("l" + n))
	case "mval":
		cb.Val(ref("vV"+n)).MemberVal("M", 0)
	case "mptr":
		cb.Val(ref("vP"+n)).MemberVal("M", 0)
	case "iface":
		cb.Val(ref("vI"+n)).MemberVal("M", 0)
	case "op":
		cb.Val(ref("vO" + n))
	}
	pushArgs := func(call []string) {
		for _, a := range call {
			switch a {
			case "c1":
				cb.Val(1)
			case "c15":
				cb.Val(&ast.BasicLit{Kind: token.FLOAT, Value: "1.5"})
			case "cs":
				cb.Val("s")
			case "nil":
				cb.Val(nil)
			case "gid":
				cb.Val(w.ov.Ref("Id"))
			case "ov1":
				cb.Val(w.ov.Ref("G"))
			case "tup":
				cb.Val(ref("pair")).Call(0)
			default:
				cb.Val(ref(a))
			}
		}
	}
	if len(pre) > 0 && pre[0] != nil {
		pushArgs(pre[0].Call)
		if err := cb.CallWithEx(len(pre[0].Call), 0, ovEllipsis(pre[0].Ell)); err == nil {
			cb.InternalStack().Pop()
			cb.ResetStmt()
			g.rejected, g.msg = true, "harness: the call that no candidate accepts was accepted"
			return g, true
		}
		w.errs = nil
	}
	pushArgs(p.Call)
	if kind == "op" {
		cb.BinaryOp(token.ADD)
	} else {
		cb.CallWith(len(p.Call), 0, ovEllipsis(p.Ell))
	}
	e := cb.InternalStack().Pop()
	cb.ResetStmt()
	if len(w.errs) > 0 {
		g.rejected, g.msg = true, strings.Join(w.errs, "; ")
		return g, true
	}
	ce, ok := e.Val.(*ast.CallExpr)
	if !ok {
		g.fault = fmt.Sprintf("the result of the call is not a call expression: %T", e.Val)
		return g, true
	}
	g.callee = types.ExprString(ce.Fun)
	for i, a := range ce.Args {
		if kind == "op" && i == 0 && len(ce.Args) == 2 {
			continue // method-expression form T.XGo_Add__i(x, arg): the receiver
		}
		g.args = append(g.args, types.ExprString(a))
	}
	if (ce.Ellipsis != token.NoPos) != p.Ell {
		g.args = append(g.args, fmt.Sprintf("<ellipsis=%v>", ce.Ellipsis != token.NoPos))
	}
	if e.Type != nil {
		g.res = types.TypeString(e.Type, func(p *types.Package) string { return p.Name() })
	}
	return g, true
}

func ovEllipsis(ell bool) gogen.InstrFlags {
	if ell {
		return gogen.InstrFlagEllipsis
	}
	return 0
}

// candidate index (1-based) from the emitted callee, 0 if it cannot be told
func ovCalleeIdx(callee, kind string, p ovPoint) int {
	n := famName(p.Fam)
	suffix := func(prefix string) int {
		if strings.HasPrefix(callee, prefix) && len(callee) == len(prefix)+1 {
			if i, err := strconv.ParseInt(callee[len(prefix):], 36, 32); err == nil {
				return int(i) + 1
			}
		}
		return 0
	}
	switch kind {
	case "func":
		return suffix("ov.F" + n + "__")
	case "inpkg":
		return suffix("l" + n + "__")
	case "xgoo":
		pre := "ov.X" + n
		if strings.HasPrefix(callee, pre+"__") {
			return suffix(pre + "__")
		}
		if strings.HasPrefix(callee, pre) && len(callee) == len(pre)+1 {
			return int('z'-callee[len(pre)]) + 1
		}
	case "mval":
		return suffix("vV" + n + ".M__")
	case "mptr":
		return suffix("vP" + n + ".M__")
	case "iface":
		return suffix("vI" + n + ".M__")
	case "op":
		if i := strings.LastIndex(callee, "XGo_Add__"); i >= 0 && len(callee) == i+len("XGo_Add__")+1 {
			if k, err := strconv.ParseInt(callee[len(callee)-1:], 36, 32); err == nil {
				return int(k) + 1
			}
		}
	}
	return 0
}

func ovExpectArgs(p ovPoint) []string {
	var out []string
	for i, a := range p.Call {
		base := ovArgText[a]
		if a == "ov1" {
			base = "ov.G"
		}
		m := "none"
		if i < len(p.Muts) {
			m = p.Muts[i]
		}
		switch m {
		case "init0":
			out = append(out, "ov.Big_Init__0("+base+")")
		case "init1":
			out = append(out, "ov.Big_Init__1("+base+")")
		case "inst":
			out = append(out, "ov.Id[int]")
		case "narrow":
			out = append(out, "ov.G__0")
		default:
			out = append(out, base)
		}
	}
	return out
}

func (p ovPoint) text() string {
	var sigs []string
	for _, s := range p.Fam {
		sg := ovSigs[s]
		sigs = append(sigs, strings.TrimPrefix(ovFuncDecl("", "", sg, "R", true), ""))
	}
	var as []string
	for _, a := range p.Call {
		as = append(as, ovArgText[a])
	}
	t := strings.Join(as, ", ")
	if p.Ell {
		t += "..."
	}
	return fmt.Sprintf("family [%s] called with (%s)", strings.Join(sigs, " | "), t)
}

// class for finding keys: kind of realisation is not part of it unless only some realisations fail
func (p ovPoint) class() string {
	var sh []string
	for _, s := range p.Fam {
		sg := ovSigs[s]
		t := strings.Join(sg.ps, ",")
		if sg.vari {
			t += "..."
		}
		if sg.gen != "" {
			t = "generic:" + t
		}
		sh = append(sh, "("+t+")")
	}
	return strings.Join(sh, "|") + " <- (" + strings.Join(p.Call, ",") + fmt.Sprintf(")%s", map[bool]string{true: "...", false: ""}[p.Ell])
}

func runC06(tier, replay string) {
	run := ev.Start("C06", tier, "model_checking")
	_, base := sharedImporter()
	type cfgT struct {
		name, sigs, forms string
		maxFam, maxArgs   int
		filter            string
	}
	allForms := `{"c1","c15","cs","vi","vf","vs","vmy","vsl","vbig","nil","gid","ov1","tup"}`
	allSigs := "{1,2,3,4,5,6,7,8,9,10,11,12,13,14,15,16,17,18,19,20,21}"
	confs := []cfgT{{"pairs-of-21-signatures", allSigs, allForms, 2, 2, "all"},
		{"long-families-12", "{1,3}", `{"vi","vs"}`, ovMaxFam, 1, "threshold"}}
	if tier == "thorough" {
		confs = append(confs,
			cfgT{"triples-rewriting-signatures", "{4,6,7,8,15,18,19,20,21}", allForms, 3, 2, "all"},
			cfgT{"triples-variadic-generic", "{1,3,9,10,11,12,13,17}", `{"c1","c15","cs","vi","vs","vmy","vsl","nil"}`, 3, 3, "all"})
	}
	var pts []ovPoint
	var states, transitions int64
	if replay != "" {
		var p ovPoint
		if err := loadReplay(replay, &p); err != nil {
			run.Infra(err)
		}
		pts = []ovPoint{p}
		states, transitions = 1, 1
	} else {
		// vacuity guard: without the restore step the model must violate the property
		sab, err := tlc.Run(tlc.Opts{SpecDir: SpecDir, Module: "Overload", Workers: 4, Timeout: 10 * time.Minute,
			Cfg: fmt.Sprintf("SPECIFICATION Spec\nCONSTANTS\n  SigIds = {8,19,7}\n  MaxFam = 2\n  Forms = {\"vi\",\"vs\",\"c1\"}\n  MaxArgs = 2\n  Restore = FALSE\n  FamFilter = \"all\"\nINVARIANTS FirstApplicable NoResidue ResultType\nCHECK_DEADLOCK FALSE\n")})
		if err != nil {
			run.Infra(err)
		}
		if !sab.Violation {
			run.Infra(fmt.Errorf("Overload.tla with Restore = FALSE satisfies the invariants: the property is vacuous on the model"))
		}
		run.Set("sabotage_restore_false", "TLC reports a violation of the invariants, as it must")
		for _, c := range confs {
			var mu sync.Mutex
			n := 0
			res, err := tlc.Run(tlc.Opts{SpecDir: SpecDir, Module: "Overload", Workers: tierWorkers(tier), Heavy: true, HeapMB: 8192, Timeout: 40 * time.Minute,
				Cfg: fmt.Sprintf("SPECIFICATION Spec\nCONSTANTS\n  SigIds = %s\n  MaxFam = %d\n  Forms = %s\n  MaxArgs = %d\n  Restore = TRUE\n  FamFilter = %q\nINVARIANTS FirstApplicable NoResidue ResultType Emit\nCHECK_DEADLOCK FALSE\n", c.sigs, c.maxFam, c.forms, c.maxArgs, c.filter),
				OnJSON: func(l string) {
					var p ovPoint
					if json.Unmarshal([]byte(l), &p) == nil && len(p.Fam) > 0 {
						mu.Lock()
						pts = append(pts, p)
						n++
						mu.Unlock()
					}
				}})
			if err != nil {
				run.Infra(err)
			}
			if res.Violation {
				run.Infra(fmt.Errorf("Overload.tla violates its invariants with Restore = TRUE in %s:\n%s", c.name, res.ErrText))
			}
			if n == 0 {
				run.Infra(fmt.Errorf("configuration %s printed no outcome", c.name))
			}
			states += res.Distinct
			transitions += res.Generated
			run.Set("conf_"+c.name, fmt.Sprintf("%d points, tlc %d distinct states", n, res.Distinct))
		}
	}
	// families and fixture
	famSet := map[string][]int{}
	for _, p := range pts {
		famSet[famName(p.Fam)] = p.Fam
		for _, s := range p.Fam {
			famSet[fmt.Sprint(s)] = []int{s}
		}
	}
	var fams [][]int
	for _, f := range famSet {
		fams = append(fams, f)
	}
	sort.Slice(fams, func(i, j int) bool { return famName(fams[i]) < famName(fams[j]) })
	// T validates S: Go applicability and result type of every (signature, call, ell)
	need := map[string]ovPoint{}
	for _, p := range pts {
		for _, s := range p.Fam {
			need[ovCallKey(s, p.Call, p.Ell)] = ovPoint{Fam: []int{s}, Call: p.Call, Ell: p.Ell}
		}
	}
	refPkg, err := ovCheckFixture(ovFixture(fams))
	if err != nil {
		run.Infra(fmt.Errorf("fixture package does not type-check: %v", err))
	}
	tref, err := ovReference(refPkg, base, need)
	if err != nil {
		run.Infra(err)
	}
	for _, p := range pts {
		for k, s := range p.Fam {
			t := tref[ovCallKey(s, p.Call, p.Ell)]
			if t.ok != p.GoApp[k] {
				run.Infra(fmt.Errorf("Overload.tla disagrees with go/types on Go applicability (specification defect, not a verdict): signature %d %v called with %v ell=%v: S %v, T %v", s, ovSigs[s], p.Call, p.Ell, p.GoApp[k], t.ok))
			}
			if p.GoApp[k] && !p.XApp[k] {
				run.Infra(fmt.Errorf("Overload.tla: Go-applicable but not applicable: %v", p))
			}
			if t.ok && p.Idx == k+1 && p.XApp[k] && p.GoApp[k] {
				want := p.Res
				if ovSigs[s].gen == "" {
					want = "R0" // the reference one-liner calls the single-candidate family
				}
				if ovResText[want] != t.res {
					run.Infra(fmt.Errorf("Overload.tla disagrees with go/types on the result type: signature %d called with %v: S %s, T %s", s, p.Call, ovResText[want], t.res))
				}
			}
		}
	}
	run.Set("spec_vs_gotypes_agreement", fmt.Sprintf("Go applicability and result type: S = T on all %d (signature, call) pairs", len(need)))
	// G: batches, each with its own world (the fixture package object is shared and initialised once)
	gogenFixture, err := ovCheckFixture(ovFixture(fams))
	if err != nil {
		run.Infra(err)
	}
	sort.SliceStable(pts, func(i, j int) bool { return famName(pts[i].Fam) < famName(pts[j].Fam) })
	var batches [][]ovPoint
	for i := 0; i < len(pts); i += 4000 {
		j := i + 4000
		if j > len(pts) {
			j = len(pts)
		}
		batches = append(batches, pts[i:j])
	}
	// per family: up to two calls that no candidate accepts (of different lengths where possible), no named deviation involved
	rejOf := map[string][]ovPoint{}
	for _, p := range pts {
		if p.Idx != 0 || p.DevIdx != 0 || p.DevAbort || (len(p.Call) == 1 && p.Call[0] == "tup") { // (a multi-value call on a generic candidate: KF-C06-3)
			continue
		}
		n := famName(p.Fam)
		switch r := rejOf[n]; {
		case len(r) == 0:
			rejOf[n] = append(r, p)
		case len(r) == 1 && len(r[0].Call) != len(p.Call):
			rejOf[n] = append(r, p)
		}
	}
	var mu sync.Mutex
	kindCount := map[string]int{}
	var initOnce sync.Mutex
	check := func(batch []ovPoint) {
		initOnce.Lock() // the first Import initialises the shared fixture package (scope insertions): not concurrently
		w := newOvWorld(gogenFixture, base, fams)
		initOnce.Unlock()
		single := map[string]ovG{}
		local := map[string]int{}
		for _, p := range batch {
			kinds := ovKinds
			if p.Kind != "" {
				kinds = []string{p.Kind}
			}
			for _, kind := range kinds {
				g, ok := w.call(p, kind)
				if !ok {
					continue
				}
				local[kind]++
				run.Eval(kind + ":" + famName(p.Fam) + ":" + strings.Join(p.Call, ",") + fmt.Sprint(p.Ell))
				pk := p
				pk.Kind = kind
				desc := fmt.Sprintf("%s [%s]", p.text(), kind)
				if g.fault != "" {
					run.Fail("fault/"+p.class(), fmt.Sprintf("%s: %s", desc, g.fault), pk)
					w.fn = nil
					continue
				}
				// the named deviations of the model explain the outcome
				if p.DevAbort && g.rejected && strings.Contains(g.msg, "unexpected *types.Tuple") {
					if p.Idx != 0 {
						run.Fail("generic-candidate-aborts-resolution-on-multi-value-call", fmt.Sprintf("%s: candidate %d applies, but the generic candidate tried before it aborts the resolution: %s", desc, p.Idx-1, firstLines(g.msg, 1)), pk)
					}
					continue
				}
				if (p.DevIdx != p.Idx || strings.Join(p.DevMuts, ",") != strings.Join(p.Muts, ",")) && !g.rejected && ovCalleeIdx(g.callee, kind, p) == p.DevIdx {
					dp := p
					dp.Muts = p.DevMuts
					tup := len(p.Call) == 1 && p.Call[0] == "tup"
					if tup {
						dp.Muts = nil // a conversion of a value of a multi-value call cannot appear in the emitted call
					}
					if strings.Join(ovExpectArgs(dp), " ; ") == strings.Join(g.args, " ; ") {
						effect := "wrong-candidate"
						if p.Idx == 0 {
							effect = "accepted-although-no-candidate-applies"
						}
						if tup {
							run.Fail("tinit-conversion-assumed-for-multi-value-call/"+effect, fmt.Sprintf("%s: a value of a multi-value call cannot be converted through T_Init; the builder emits %s(%s) (Go: candidate %d)", desc, g.callee, strings.Join(g.args, ", "), p.Idx-1), pk)
						} else {
							run.Fail("generic-function-value-accepted-for-interface-parameter/"+effect, fmt.Sprintf("%s: Go rejects an uninstantiated generic function as an interface value; the builder emits %s(%s) (Go: candidate %d)", desc, g.callee, strings.Join(g.args, ", "), p.Idx-1), pk)
						}
						continue
					}
				}
				if p.Idx == 0 {
					if !g.rejected {
						run.Fail("accepted-although-no-candidate-applies/"+p.class(), fmt.Sprintf("%s: no candidate applies, the builder emits %s(%s)", desc, g.callee, strings.Join(g.args, ", ")), pk)
					}
					continue
				}
				if g.rejected {
					run.Fail("rejected-although-a-candidate-applies/"+p.class(), fmt.Sprintf("%s: candidate %d applies, the builder reports: %s", desc, p.Idx-1, firstLines(g.msg, 2)), pk)
					continue
				}
				gi := ovCalleeIdx(g.callee, kind, p)
				if gi != p.Idx {
					run.Fail(fmt.Sprintf("wrong-candidate(expected %d, chosen %d)/%s", p.Idx-1, gi-1, p.class()), fmt.Sprintf("%s: first applicable candidate is %d, the emitted callee is %s", desc, p.Idx-1, g.callee), pk)
					continue
				}
				want := ovExpectArgs(p)
				if strings.Join(want, " ; ") != strings.Join(g.args, " ; ") {
					run.Fail("argument-residue/"+p.class(), fmt.Sprintf("%s: emitted arguments (%s), expected (%s)", desc, strings.Join(g.args, ", "), strings.Join(want, ", ")), pk)
				}
				wres := ovResText[p.Res]
				if ovSigs[p.Fam[p.Idx-1]].gen == "" {
					wres = fmt.Sprintf("ov.R%d", p.Idx-1)
				}
				if g.res != wres {
					run.Fail("result-type/"+p.class(), fmt.Sprintf("%s: result type %s, the chosen candidate's is %s", desc, g.res, wres), pk)
				}
				// metamorphic: the chosen candidate alone
				if len(p.Fam) > 1 {
					sp := ovPoint{Fam: []int{p.Fam[p.Idx-1]}, Call: p.Call, Ell: p.Ell}
					sk := kind + "|" + ovCallKey(sp.Fam[0], sp.Call, sp.Ell)
					sg, seen := single[sk]
					if !seen {
						sg, _ = w.call(sp, kind)
						single[sk] = sg
					}
					if !sg.rejected && sg.fault == "" && strings.Join(sg.args, " ; ") != strings.Join(g.args, " ; ") {
						run.Fail("residue-vs-single-candidate/"+p.class(), fmt.Sprintf("%s: emitted arguments (%s); with the chosen candidate alone (%s)", desc, strings.Join(g.args, ", "), strings.Join(sg.args, ", ")), pk)
					}
				}
				// a rejected call through the same callee element first must leave no trace either
				if kind != "op" {
					rejs := rejOf[famName(p.Fam)]
					if p.Pre != nil {
						rejs = []ovPoint{*p.Pre}
					}
					for ri := range rejs {
						rej := rejs[ri]
						g2, _ := w.call(p, kind, &rej)
						local["retry"]++
						run.Eval("retry:" + kind + ":" + famName(p.Fam) + ":" + strings.Join(rej.Call, ",") + "|" + strings.Join(p.Call, ",") + fmt.Sprint(p.Ell))
						if g2.fault != "" || g2.rejected != g.rejected || g2.callee != g.callee || g2.res != g.res || strings.Join(g2.args, " ; ") != strings.Join(g.args, " ; ") {
							pk2 := pk
							pk2.Pre = &rej
							run.Fail("rejected-call-leaves-a-trace/"+kind+"/"+p.class(), fmt.Sprintf("%s after the rejected call (%s) through the same callee: %s(%s) %s %s%s; without the rejected call: %s(%s) %s",
								desc, strings.Join(rej.Call, ", "), g2.callee, strings.Join(g2.args, ", "), g2.res, firstLines(g2.msg, 1), g2.fault, g.callee, strings.Join(g.args, ", "), g.res), pk2)
						}
					}
				}
			}
		}
		mu.Lock()
		for k, v := range local {
			kindCount[k] += v
		}
		mu.Unlock()
	}
	parallelN(8, len(batches), func(i int) { check(batches[i]) })
	total := 0
	for _, k := range ovKinds {
		if replay == "" && kindCount[k] == 0 {
			run.Infra(fmt.Errorf("realisation %s was never exercised", k))
		}
		total += kindCount[k]
	}
	if len(pts) > 0 {
		p := pts[len(pts)/2]
		run.Sample(map[string]any{"point": p.text(), "expected_candidate": p.Idx - 1, "expected_arguments": ovExpectArgs(p), "expected_result": p.Res})
	}
	run.Set("realisations", kindCount)
	run.Set("states", states)
	run.Set("transitions", transitions)
	run.Set("traces_validated_against_impl", total)
	run.Set("exhaustive", true)
	run.Set("rule", "a case = one (family, call) point of Overload.tla realised as one kind of family (function, value-receiver method, pointer-receiver method, interface method, XGoo_ ordered, in-package) and called through the real CodeBuilder; distinct = distinct (kind, family, call)")
	run.Assume("generic or overloaded function values as arguments of generic candidates are outside the fragment (C07)")
	run.Assume("applicability = Go's call rules plus the documented T_Init implicit conversion")
	run.Finish()
}
