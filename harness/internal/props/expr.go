package props

// Expression engine shared by C01-C04 and C17: points of spec/Ops.tla (operator, operands) are
// built with the real CodeBuilder and evaluated by types.Eval on an independent rendering.

import (
	"bytes"
	"encoding/json"
	"fmt"
	"go/ast"
	"go/constant"
	"go/format"
	"go/parser"
	"go/token"
	"go/types"
	"math/big"
	"strings"
	"sync"
	"time"

	"github.com/goplus/gogen"

	"verif/harness/internal/ev"
	"verif/harness/internal/tlc"
)

// opsPoint is one printed point of Ops.tla.
type opsRes struct {
	Ok  bool   `json:"ok"`
	Why string `json:"why"`
	Ty  string `json:"ty"`
	C   struct {
		K string `json:"k"`
		Q struct {
			N int64 `json:"n"`
			D int64 `json:"d"`
		} `json:"q"`
		S string `json:"s"`
		B bool   `json:"b"`
	} `json:"c"`
}

type opsPoint struct {
	Family string `json:"-"`
	Op     string `json:"op"`
	X      string `json:"x"`
	Y      string `json:"y"`
	R      opsRes `json:"r"`
	// nested family: (IX IOp IY) Op Y; X is the text of the inner expression, Inner its predicted outcome
	IOp   string `json:"iop,omitempty"`
	IX    string `json:"ix,omitempty"`
	IY    string `json:"iy,omitempty"`
	Inner opsRes `json:"inner"`
}

func (p opsPoint) text() string {
	if strings.HasPrefix(p.X, "#") && p.IX != "" {
		return p.IX // a nested point passed on as a class: IX carries the full text
	}
	switch p.Family {
	case "unary":
		return p.Op[1:] + p.X
	case "conv":
		return p.Y + "(" + p.X + ")"
	}
	return p.X + " " + p.Op + " " + p.Y
}

const opsDecls = `package p
type MyInt int
var v_int int
var v_int8 int8
var v_uint8 uint8
var v_float64 float64
var v_string string
var v_bool bool
var v_MyInt MyInt
const c_i8 int8 = 100
const c_u8 uint8 = 200
const c_int int = 7
const c_my MyInt = 3
type AMy = MyInt
`

var opsTypeNames = map[string]string{
	"utint": "untyped int", "utrune": "untyped rune", "utfloat": "untyped float", "utstring": "untyped string",
	"utbool": "untyped bool", "utnil": "untyped nil",
}

func opsTypeName(s string) string {
	if n, ok := opsTypeNames[s]; ok {
		return n
	}
	return s
}

// outcome of one party on one point
type opsOutcome struct {
	Kind  string // "ok" | "reject" | "fault"
	Type  string
	Const string // exact string of the constant, "" if not constant
	Msg   string
	Text  string // emitted expression (G only)
}

func (o opsOutcome) String() string {
	switch o.Kind {
	case "ok":
		c := "non-constant"
		if o.Const != "" {
			c = "constant " + o.Const
		}
		return fmt.Sprintf("ok: %s, %s", o.Type, c)
	case "reject":
		return "rejected: " + o.Msg
	}
	return "FAULT: " + o.Msg
}

func ratString(n, d int64) string {
	r := new(big.Rat).SetFrac64(n, d)
	if r.IsInt() {
		return r.Num().String()
	}
	return r.String()
}

func constString(v constant.Value) string {
	if v == nil {
		return ""
	}
	switch v.Kind() {
	case constant.Int:
		return v.ExactString()
	case constant.Float:
		if r, ok := constant.Val(v).(*big.Rat); ok {
			if r.IsInt() {
				return r.Num().String()
			}
			return r.String()
		}
		if i := constant.ToInt(v); i.Kind() == constant.Int {
			return i.ExactString()
		}
		return v.ExactString()
	case constant.Complex:
		if constant.Sign(constant.Imag(v)) == 0 {
			return constString(constant.Real(v))
		}
		return v.ExactString()
	case constant.String:
		return "str:" + constant.StringVal(v)
	case constant.Bool:
		return fmt.Sprint(constant.BoolVal(v))
	}
	return v.ExactString()
}

// specOutcome converts the point's verdict.
func (p opsPoint) specOutcome() opsOutcome { return p.R.outcome() }

func (r opsRes) outcome() opsOutcome {
	if !r.Ok {
		return opsOutcome{Kind: "reject", Msg: r.Why}
	}
	o := opsOutcome{Kind: "ok", Type: opsTypeName(r.Ty)}
	switch r.C.K {
	case "num":
		o.Const = ratString(r.C.Q.N, r.C.Q.D)
	case "str":
		o.Const = "str:" + r.C.S
	case "bool":
		o.Const = fmt.Sprint(r.C.B)
	case "skip":
		o.Const = "?"
	}
	return o
}

// operandClassOf is the operand class of an expression's outcome used as an operand (for finding keys of nested points)
func (r opsRes) operandClass() string {
	switch {
	case r.C.K == "" || r.C.K == "none":
		return "#var:" + opsTypeName(r.Ty)
	case !strings.HasPrefix(r.Ty, "ut"):
		return "#tconst:" + opsTypeName(r.Ty)
	}
	switch r.Ty {
	case "utint":
		if r.C.Q.N == 0 {
			return "#uconst:int(zero)"
		}
		return "#uconst:int"
	case "utfloat":
		switch {
		case r.C.Q.N == 0:
			return "#uconst:float(zero)"
		case r.C.Q.D == 1:
			return "#uconst:float(integral)"
		}
		return "#uconst:float(fractional)"
	case "utrune":
		return "#uconst:rune"
	case "utstring":
		return "#uconst:string"
	case "utbool":
		return "#uconst:bool"
	}
	return "#" + r.Ty
}

// ---- T: types.Eval on the reference text --------------------------------------------------------------

type opsRef struct {
	fset *token.FileSet
	pkg  *types.Package
}

func newOpsRef() (*opsRef, error) {
	fset := token.NewFileSet()
	f, err := parser.ParseFile(fset, "p.go", opsDecls, 0)
	if err != nil {
		return nil, err
	}
	pkg, err := (&types.Config{}).Check("p", fset, []*ast.File{f}, nil)
	if err != nil {
		return nil, err
	}
	return &opsRef{fset, pkg}, nil
}

func (r *opsRef) eval(text string) opsOutcome {
	tv, err := types.Eval(r.fset, r.pkg, token.NoPos, text)
	if err != nil {
		return opsOutcome{Kind: "reject", Msg: err.Error()}
	}
	o := opsOutcome{Kind: "ok", Type: strings.ReplaceAll(strings.TrimPrefix(tv.Type.String(), "p."), "AMy", "MyInt"), Const: constString(tv.Value)}
	return o
}

// ---- G: the real builder -----------------------------------------------------------------------------------

type opsBuilder struct {
	amy  types.Type
	pkg  *gogen.Package
	cb   *gogen.CodeBuilder
	errs []string
}

func newOpsBuilder() *opsBuilder {
	fset, imp := sharedImporter()
	b := &opsBuilder{}
	b.pkg = gogen.NewPackage("", "p", &gogen.Config{Fset: fset, Importer: imp, NoSkipConstant: true, HandleErr: func(e error) { b.errs = append(b.errs, e.Error()) }})
	pkg := b.pkg
	my := pkg.NewType("MyInt").InitType(pkg, types.Typ[types.Int])
	for _, v := range []struct {
		n string
		t types.Type
	}{{"v_int", types.Typ[types.Int]}, {"v_int8", types.Typ[types.Int8]}, {"v_uint8", types.Typ[types.Uint8]}, {"v_float64", types.Typ[types.Float64]},
		{"v_string", types.Typ[types.String]}, {"v_bool", types.Typ[types.Bool]}, {"v_MyInt", my}} {
		pkg.NewVar(token.NoPos, v.t, v.n)
	}
	for _, c := range []struct {
		n string
		t types.Type
		v int
	}{{"c_i8", types.Typ[types.Int8], 100}, {"c_u8", types.Typ[types.Uint8], 200}, {"c_int", types.Typ[types.Int], 7}, {"c_my", my, 3}} {
		pkg.NewConstStart(pkg.Types.Scope(), token.NoPos, c.t, c.n).Val(c.v).EndInit(1)
	}
	b.amy = pkg.AliasType("AMy", my)
	b.cb = pkg.NewFunc(nil, "host", nil, nil, false).BodyStart(pkg)
	return b
}

func (b *opsBuilder) push(src string) {
	cb := b.cb
	switch src {
	case "0":
		cb.Val(0)
	case "1":
		cb.Val(1)
	case "(-1)":
		cb.Val(-1)
	case "300":
		cb.Val(300)
	case "1.5":
		cb.Val(&ast.BasicLit{Kind: token.FLOAT, Value: "1.5"})
	case "2.0":
		cb.Val(&ast.BasicLit{Kind: token.FLOAT, Value: "2.0"})
	case "0.0":
		cb.Val(&ast.BasicLit{Kind: token.FLOAT, Value: "0.0"})
	case "'a'":
		cb.Val('a')
	case `"s"`:
		cb.Val("s")
	case "true":
		cb.Val(true)
	case "nil":
		cb.Val(nil)
	case "AMy(7)":
		cb.Typ(b.amy).Val(7).Call(1)
	default:
		cb.Val(b.pkg.Types.Scope().Lookup(src))
	}
}

var opsTokens = map[string]token.Token{
	"+": token.ADD, "-": token.SUB, "*": token.MUL, "/": token.QUO, "%": token.REM, "&": token.AND, "|": token.OR, "^": token.XOR, "&^": token.AND_NOT,
	"==": token.EQL, "!=": token.NEQ, "<": token.LSS, "<=": token.LEQ, ">": token.GTR, ">=": token.GEQ, "&&": token.LAND, "||": token.LOR,
	"<<": token.SHL, ">>": token.SHR, "!": token.NOT,
}

func (b *opsBuilder) build(p opsPoint) (o opsOutcome) {
	cb := b.cb
	b.errs = nil
	defer func() {
		if e := recover(); e != nil {
			o = opsOutcome{Kind: "reject", Msg: fmt.Sprint(e)}
			if re, ok := e.(interface{ RuntimeError() }); ok {
				_ = re
				o.Kind = "fault"
			} else if s, ok := e.(string); ok && isForeignPanic(s) {
				// go/constant and math/big report misuse by panicking with a plain string: a run-time fault of the operation
				o.Kind = "fault"
			}
		}
		func() {
			defer func() { recover() }()
			cb.ResetStmt()
		}()
	}()
	switch p.Family {
	case "unary":
		b.push(p.X)
		cb.UnaryOp(opsTokens[p.Op[1:]])
	case "conv":
		var T types.Type
		if o := b.pkg.Types.Scope().Lookup(p.Y); o != nil {
			T = o.Type()
		} else {
			T = types.Universe.Lookup(p.Y).Type()
		}
		cb.Typ(T)
		b.push(p.X)
		cb.Call(1)
	case "nested":
		b.push(p.IX)
		b.push(p.IY)
		cb.BinaryOp(opsTokens[p.IOp])
		b.push(p.Y)
		cb.BinaryOp(opsTokens[p.Op])
	default:
		b.push(p.X)
		b.push(p.Y)
		cb.BinaryOp(opsTokens[p.Op])
	}
	if len(b.errs) > 0 {
		return opsOutcome{Kind: "reject", Msg: b.errs[0]}
	}
	e := cb.Get(-1)
	o = opsOutcome{Kind: "ok", Type: strings.ReplaceAll(e.Type.String(), "AMy", "MyInt"), Const: constString(e.CVal)}
	var buf bytes.Buffer
	if x, ok := e.Val.(ast.Expr); ok {
		format.Node(&buf, token.NewFileSet(), x)
		o.Text = buf.String()
	}
	return o
}

// isForeignPanic recognises panic strings of go/constant and math/big (not error reports of the builder).
func isForeignPanic(s string) bool {
	for _, p := range []string{"invalid binary operation", "invalid comparison", "invalid shift", "invalid unary operation", "division by zero", "invalid conversion"} {
		if strings.HasPrefix(s, p) {
			return true
		}
	}
	for _, p := range []string{" not a String", " not an Int", " not a Bool", " not a Float", " not numeric"} {
		if strings.HasSuffix(s, p) || strings.Contains(s, p) {
			return true
		}
	}
	return false
}

// ---- classes for finding keys ---------------------------------------------------------------------------------

func opsOperandClass(src string) string {
	switch {
	case strings.HasPrefix(src, "#"): // class given directly (result of an inner expression)
		return src[1:]
	case strings.HasPrefix(src, "v_"):
		return "var:" + src[2:]
	case src == "c_i8":
		return "tconst:int8"
	case src == "c_u8":
		return "tconst:uint8"
	case src == "c_int":
		return "tconst:int"
	case src == "c_my", src == "AMy(7)":
		return "tconst:MyInt"
	case src == "0" || src == "1" || src == "(-1)" || src == "300":
		if src == "0" {
			return "uconst:int(zero)"
		}
		return "uconst:int"
	case src == "1.5":
		return "uconst:float(fractional)"
	case src == "2.0":
		return "uconst:float(integral)"
	case src == "0.0":
		return "uconst:float(zero)"
	case src == "'a'":
		return "uconst:rune"
	case src == `"s"`:
		return "uconst:string"
	case src == "true":
		return "uconst:bool"
	case src == "nil":
		return "nil"
	}
	return src // conversion target type
}

func opsOpClass(p opsPoint) string {
	switch p.Family {
	case "unary":
		return "unary" + p.Op[1:]
	case "conv":
		return "conversion"
	case "shift":
		return "shift" + p.Op
	}
	switch p.Op {
	case "+":
		return "+"
	case "-", "*":
		return "arith(-,*)"
	case "/":
		return "/"
	case "%":
		return "%"
	case "&", "|", "^", "&^":
		return "bitwise"
	case "==", "!=":
		return "equality"
	case "<", "<=", ">", ">=":
		return "ordering"
	}
	return "logical"
}

func opsIsConst(src string) bool {
	return !strings.HasPrefix(src, "v_") && !strings.HasPrefix(src, "#var:") && src != "nil"
}

// opsRun enumerates all families and calls handle for every point with the three outcomes.
// S != T aborts (specification defect).
func opsRun(run *ev.Run, tier string, handle func(p opsPoint, s, g opsOutcome)) (states, transitions, points int64) {
	ref, err := newOpsRef()
	if err != nil {
		run.Infra(err)
	}
	var mu sync.Mutex
	fams := []string{"binary", "unary", "shift", "conv"}
	if tier == "thorough" {
		fams = append(fams, "nested")
	}
	for _, fam := range fams {
		var pts []opsPoint
		cfg := fmt.Sprintf("INIT Init\nNEXT Next\nCONSTANT Family = %q\nINVARIANTS Laws Emit\nCHECK_DEADLOCK FALSE\n", fam)
		res, err := tlc.Run(tlc.Opts{SpecDir: SpecDir, Module: "Ops", Cfg: cfg, Workers: 4, Heavy: fam == "binary", Timeout: 20 * time.Minute,
			OnJSON: func(l string) {
				var p opsPoint
				if json.Unmarshal([]byte(l), &p) == nil && p.Op != "" {
					p.Family = fam
					pts = append(pts, p)
				}
			}})
		if err != nil {
			run.Infra(err)
		}
		if res.Violation {
			run.Infra(fmt.Errorf("Ops.tla violates its laws (%s):\n%s", fam, res.ErrText))
		}
		if len(pts) == 0 {
			run.Infra(fmt.Errorf("Ops.tla family %s is empty", fam))
		}
		states += res.Distinct
		transitions += res.Generated
		// T validates S (sequential: types.Eval is cheap)
		for _, p := range pts {
			s := p.specOutcome()
			t := ref.eval(p.text())
			if s.Const == "?" || s.Type == "skip" {
				continue
			}
			if s.Kind != t.Kind || (s.Kind == "ok" && (s.Type != t.Type || s.Const != t.Const)) {
				run.Infra(fmt.Errorf("Ops.tla disagrees with go/types (specification defect, not a verdict) on `%s`: S %v, T %v", p.text(), s, t))
			}
		}
		n := len(pts)
		chunk := (n + 7) / 8
		var wg sync.WaitGroup
		for c := 0; c < n; c += chunk {
			end := c + chunk
			if end > n {
				end = n
			}
			wg.Add(1)
			go func(part []opsPoint) {
				defer wg.Done()
				b := newOpsBuilder()
				for _, p := range part {
					s := p.specOutcome()
					if s.Const == "?" || s.Type == "skip" {
						continue
					}
					if p.Family == "nested" {
						// judge the outer operator only where the inner expression is agreed (its disagreements are the
						// binary family's findings); the inner result's class stands for the operand in the finding key
						is := p.Inner.outcome()
						ig := b.build(opsPoint{Family: "binary", Op: p.IOp, X: p.IX, Y: p.IY})
						if is.Kind != "ok" || ig.Kind != "ok" || is.Type != ig.Type || is.Const != ig.Const {
							continue
						}
						g := b.build(p)
						mu.Lock()
						points++
						mu.Unlock()
						q := p
						q.Family, q.X = "binary", p.Inner.operandClass()
						nestedText := p.text()
						handleNested(q, s, g, nestedText, handle)
						continue
					}
					g := b.build(p)
					mu.Lock()
					points++
					mu.Unlock()
					handle(p, s, g)
				}
			}(pts[c:end])
		}
		wg.Wait()
	}
	return
}

// handleNested passes a nested point to the classifier as a binary point whose left operand is a class
func handleNested(q opsPoint, s, g opsOutcome, text string, handle func(p opsPoint, s, g opsOutcome)) {
	q.IX = text // kept for messages: opsPoint.text() of a class operand is not Go
	handle(q, s, g)
}
