package props

// C01-C04 on expressions: one engine (expr.go), four verdicts.
//   C01  Ops.tla says Go rejects the expression, the builder accepts it        (unsound acceptance)
//   C02  Ops.tla says it is valid Go, the builder rejects it                   (spurious rejection), or emits another expression
//   C03  both accept, the reported type differs from the type Go assigns
//   C04  both accept, constness or the folded value differs; or a constant expression Go rejects is folded

import (
	"fmt"
	"os"
	"strings"

	"verif/harness/internal/ev"
)

func init() {
	Registry["C01"] = func(t, r string) { runOps("C01", t, r) }
	Registry["C02"] = func(t, r string) { runOps("C02", t, r) }
	Registry["C03"] = func(t, r string) { runOps("C03", t, r) }
	Registry["C04"] = func(t, r string) { runOps("C04", t, r) }
}

type opsFinding struct {
	Prop, Key, What string
}

// opsClassify derives the findings of one point.
func opsClassify(p opsPoint, s, g opsOutcome) []opsFinding {
	var out []opsFinding
	// class of a point for finding keys: operator class + constness pattern of the operands + the operand kinds involved
	pat := func(src string) string {
		c := opsOperandClass(src)
		switch {
		case strings.HasPrefix(c, "var:"):
			return "var"
		case strings.HasPrefix(c, "tconst:"):
			return "typed-const"
		case strings.HasPrefix(c, "uconst:"):
			return "untyped-" + strings.TrimSuffix(strings.SplitN(c[7:], "(", 2)[0], ")") + "-const"
		}
		return c
	}
	cls := fmt.Sprintf("%s [%s, %s]", opsOpClass(p), pat(p.X), pat(p.Y))
	if p.Family == "unary" {
		cls = fmt.Sprintf("%s [%s]", opsOpClass(p), pat(p.X))
	}
	if p.Family == "conv" {
		cls = fmt.Sprintf("conversion [%s -> %s]", opsOperandClass(p.X), p.Y)
	}
	if strings.Contains(opsOperandClass(p.X)+opsOperandClass(p.Y), "float64") {
		cls += "+float64-operand"
	}
	desc := fmt.Sprintf("`%s`: Go (Ops.tla = go/types): %v; builder: %v", p.text(), s, g)
	bothConst := opsIsConst(p.X) && (p.Family == "unary" || p.Family == "conv" || opsIsConst(p.Y))
	switch {
	case g.Kind == "fault":
		out = append(out, opsFinding{"C17", "fault/" + cls, desc})
		if s.Kind == "ok" {
			out = append(out, opsFinding{"C02", "fault-on-valid-expression/" + cls, desc})
		}
	case s.Kind == "reject" && g.Kind == "ok":
		out = append(out, opsFinding{"C01", fmt.Sprintf("accepted-although-%s/%s", s.Msg, cls), desc})
		if bothConst && g.Const != "" && (s.Msg == "divzero" || s.Msg == "overflow" || s.Msg == "negcount" || s.Msg == "hugecount" || s.Msg == "notrepresentable") {
			out = append(out, opsFinding{"C04", fmt.Sprintf("folded-although-%s/%s", s.Msg, cls), desc})
		}
	case s.Kind == "ok" && g.Kind == "reject":
		out = append(out, opsFinding{"C02", "rejected-valid/" + cls, desc})
	case s.Kind == "ok" && g.Kind == "ok":
		if s.Type != g.Type {
			cc := "variable-involved"
			if bothConst {
				cc = "constant-operands"
			}
			out = append(out, opsFinding{"C03", fmt.Sprintf("type %s reported as %s [%s, %s]", s.Type, g.Type, cc, p.Family), desc})
		}
		if (s.Const == "") != (g.Const == "") {
			out = append(out, opsFinding{"C04", fmt.Sprintf("constness(go=%v,builder=%v)/%s", s.Const != "", g.Const != "", cls), desc})
		} else if s.Const != g.Const {
			out = append(out, opsFinding{"C04", "value-differs/" + cls, desc})
		}
	}
	return out
}

func runOps(prop, tier, replay string) {
	run := ev.Start(prop, tier, "model_checking")
	if replay != "" {
		var uh []unOp
		if loadReplay(replay, &uh) == nil && len(uh) > 0 && uh[0].T != "" {
			unCheck(run, [][]unOp{uh}, prop)
			run.Set("states", 1)
			run.Set("transitions", 1)
			run.Set("traces_validated_against_impl", 1)
			run.Sample(histText(uh))
			run.Finish()
		}
		var shp shapeReplay
		if prop == "C02" && loadReplay(replay, &shp) == nil && shp.Shape.Tree != nil && shp.Var != "" {
			shapeCheck(run, []prPoint{shp.Shape}, shp.Var)
			run.Set("states", 1)
			run.Set("transitions", 1)
			run.Set("traces_validated_against_impl", 1)
			run.Sample(shp.Shape.Tree.shape())
			run.Finish()
		}
		var bp biPoint
		if loadReplay(replay, &bp) == nil && bp.Pt.Fn != "" {
			biCheck(run, []biPoint{bp}, prop)
			run.Set("states", 1)
			run.Set("transitions", 1)
			run.Set("traces_validated_against_impl", 1)
			run.Sample(bp.text())
			run.Finish()
		}
		var sp srPoint
		if loadReplay(replay, &sp) == nil && sp.Res != "" && sp.Pt.Kind != "" {
			srCheck(run, []srPoint{sp}, prop)
			run.Set("states", 1)
			run.Set("transitions", 1)
			run.Set("traces_validated_against_impl", 1)
			run.Sample(sp.stmt())
			run.Finish()
		}
		var lp litPoint
		if loadReplay(replay, &lp) == nil && lp.Pt.Kind != "" {
			litCheck(run, []litPoint{lp}, prop)
			run.Set("states", 1)
			run.Set("transitions", 1)
			run.Set("traces_validated_against_impl", 1)
			run.Sample(lp.text())
			run.Finish()
		}
		var hp hdrPoint
		if prop == "C02" && loadReplay(replay, &hp) == nil && hp.Ctx != "" && hp.E != nil {
			hdrCheckBatch(run, []hdrPoint{hp})
			run.Set("states", 1)
			run.Set("transitions", 1)
			run.Set("traces_validated_against_impl", 1)
			run.Sample(hp)
			run.Finish()
		}
		var fl flowBody
		if prop == "C02" && loadReplay(replay, &fl) == nil && len(fl.Ops) > 0 {
			flowFaithfulBatch(run, []flowBody{fl}, "replay")
			run.Eval("x")
			run.Set("states", 1)
			run.Set("transitions", 1)
			run.Set("traces_validated_against_impl", 1)
			run.Sample(fl)
			run.Finish()
		}
		var p opsPoint
		if err := loadReplay(replay, &p); err != nil {
			run.Infra(err)
		}
		var fam struct {
			Family string `json:"family"`
		}
		loadReplay(replay, &fam)
		p.Family = fam.Family
		b := newOpsBuilder()
		s := p.specOutcome()
		g := b.build(p)
		for _, f := range opsClassify(p, s, g) {
			if f.Prop == prop {
				run.Fail(f.Key, f.What, p)
			}
		}
		run.Eval("x")
		run.Eval("y")
		run.Set("states", 1)
		run.Set("transitions", 1)
		run.Set("traces_validated_against_impl", 1)
		run.Sample(p.text())
		run.Finish()
	}
	if os.Getenv("VERIF_ONLY") == "stmtrules" { // development aid: only the statement-head engine
		srRun(run, prop)
		run.Finish()
	}
	if os.Getenv("VERIF_ONLY") == "builtins" { // development aid: only the predeclared-function engine
		biRun(run, prop)
		run.Finish()
	}
	if os.Getenv("VERIF_ONLY") == "units" { // development aid: only the unit-literal engine
		unRun(run, tier, prop)
		run.Finish()
	}
	if os.Getenv("VERIF_ONLY") == "shapes" { // development aid: only the expression-shape engine
		shapeRun(run, tier)
		run.Finish()
	}
	if os.Getenv("VERIF_ONLY") == "lits" { // development aid: only the literal engine
		litRun(run, tier, prop)
		run.Finish()
	}
	n := 0
	states, transitions, points := opsRun(run, tier, func(p opsPoint, s, g opsOutcome) {
		run.Eval(p.Family + ":" + p.text())
		for _, f := range opsClassify(p, s, g) {
			if f.Prop == prop {
				run.Fail(f.Key, f.What, map[string]any{"family": p.Family, "op": p.Op, "x": p.X, "y": p.Y, "r": p.R})
			}
		}
		n++
		if n == 4321 || n == 99 {
			run.Sample(map[string]any{"expression": p.text(), "go": s.String(), "builder": g.String()})
		}
	})
	// statement level: define / assign / var / return over single, multi-value and comma-ok right-hand sides; constant blocks
	nd := 0
	st2, tr2, pts2 := declsRun(run, func(p dPoint, s, g dOutcome) {
		run.Eval(p.Family + ":" + p.describe())
		for _, f := range declsClassify(p, s, g) {
			if f.Prop == prop {
				run.Fail(f.Key, f.What, map[string]any{"family": p.Family, "statement": p.describe()})
			}
		}
		nd++
		if nd == 700 {
			run.Sample(map[string]any{"statement": p.describe(), "go_accepts": s.Ok, "builder_accepts": g.Ok, "declared_types": s.Types})
		}
	})
	states, transitions, points = states+st2, transitions+tr2, points+pts2
	if prop == "C03" { // member result types and recorder notifications (engine of C08)
		n := selectForC03(run)
		points += n
		run.Set("selector_lookups", n)
	}
	if prop != "C04" { // composite literals, index and slice expressions, indirection (Lits.tla)
		st5, tr5, n5 := litRun(run, tier, prop)
		states, transitions, points = states+st5, transitions+tr5, points+n5
	}
	{ // literals with a unit (Units.tla)
		st9, tr9, n9 := unRun(run, tier, prop)
		states, transitions, points = states+st9, transitions+tr9, points+n9
	}
	{ // predeclared functions (Builtins.tla)
		st7, tr7, n7 := biRun(run, prop)
		states, transitions, points = states+st7, transitions+tr7, points+n7
	}
	if prop == "C01" || prop == "C02" { // typing rules of statement heads (StmtRules.tla)
		st6, tr6, n6 := srRun(run, prop)
		states, transitions, points = states+st6, transitions+tr6, points+n6
	}
	if prop == "C02" { // statement structure: valid bodies of Flow.tla reproduced as the same program
		st3, tr3, n3 := flowFaithfulRun(run, tier)
		states, transitions, points = states+st3, transitions+tr3, points+n3
		run.Set("flow_bodies_compared", n3)
		st4, tr4, n4 := hdrRun(run, tier) // expressions in statement headers (Headers.tla)
		states, transitions, points = states+st4, transitions+tr4, points+n4
		st8, tr8, n8 := shapeRun(run, tier) // expression shapes: precedence and associativity reproduced (Print.tla trees on the operand stack)
		states, transitions, points = states+st8, transitions+tr8, points+n8
	}
	run.Set("statement_points", pts2)
	run.Set("states", states)
	run.Set("transitions", transitions)
	run.Set("traces_validated_against_impl", points)
	run.Set("exhaustive", true)
	run.Set("spec_vs_gotypes_agreement", fmt.Sprintf("S = T (acceptance, type, constant value) on all %d points (a disagreement aborts with exit 2)", points))
	run.Set("rule", "a case = one expression point of Ops.tla (operator x operand pool of typed variables, typed constants, untyped constants of every kind, nil; unary, binary, shifts, conversions) built with the real CodeBuilder; distinct = distinct expression")
	run.Assume("int8/uint8 carry the range arithmetic (TLC integers are 32-bit); int and MyInt never overflow on the pool's values")
	run.Finish()
}
