package props

import (
	"fmt"
	"go/token"
	"go/types"
	"strings"

	"github.com/goplus/gogen"
)

// ---------- R9: tuple types (Lower.tla R9Points) ----------

// buildTuple builds one point of rule R9: the tuple type of the point (declared as <name>T when the holder is a defined type),
// a variable <name>v holding it and the declaration <name> that uses the extension; returns the reference lowering.
func (w *lowWorld) buildTuple(p lowPoint, name string) string {
	pkg := w.pkg
	obj := func(n string) types.Object { return pkg.Types.Scope().Lookup(n) }
	elemT := func(e string) types.Type {
		switch e {
		case "int":
			return types.Typ[types.Int]
		case "string":
			return types.Typ[types.String]
		case "S":
			return obj("S").Type()
		}
		panic("harness: tuple element " + e)
	}
	fnames := []string{"x", "y", "z"}
	n := len(p.Pt.Shape)
	flds := make([]*types.Var, n)
	var sflds []string
	for i, e := range p.Pt.Shape {
		flds[i] = types.NewField(token.NoPos, pkg.Types, fnames[i], elemT(e), false)
		sflds = append(sflds, fmt.Sprintf("X_%d %s", i, e))
	}
	structText := "struct {\n" + strings.Join(sflds, "\n") + "\n}"
	var ref strings.Builder
	var tup types.Type
	typeText := structText
	if p.Pt.Op != "infer" {
		st := pkg.NewTuple(p.Pt.Wn, flds...)
		tup = st
		if !pkg.CB().IsTupleType(st) {
			panic("IsTupleType is false for a type made by NewTuple")
		}
		if p.Pt.Holder != "anon" {
			tup = pkg.NewType(name+"T").InitType(pkg, st)
			typeText = name + "T"
			fmt.Fprintf(&ref, "type %sT %s\n", name, structText)
			if !pkg.CB().IsTupleType(tup) {
				panic("IsTupleType is false for a defined type over a tuple")
			}
		}
	}
	// the arguments of a literal / cast: one per component
	pushArgs := func(cb *gogen.CodeBuilder, k int) []string {
		var out []string
		for i := 0; i < k; i++ {
			switch p.Pt.Shape[i] {
			case "int":
				cb.Val(7 + i)
				out = append(out, fmt.Sprint(7+i))
			case "string":
				cb.Val("s")
				out = append(out, `"s"`)
			case "S":
				cb.Val(obj("vS"))
				out = append(out, "vS")
			}
		}
		return out
	}
	switch p.Pt.Op {
	case "lit":
		cb := pkg.NewVarStart(token.NoPos, nil, name)
		args := pushArgs(cb, n)
		cb.TupleLit(tup, n).EndInit(1)
		fmt.Fprintf(&ref, "var %s = %s{%s}\n", name, typeText, strings.Join(args, ", "))
	case "infer":
		cb := pkg.NewVarStart(token.NoPos, nil, name)
		args := pushArgs(cb, n)
		cb.TupleLit(nil, n).EndInit(1)
		fmt.Fprintf(&ref, "var %s = %s{%s}\n", name, structText, strings.Join(args, ", "))
	case "cast":
		cb := pkg.NewVarStart(token.NoPos, nil, name).Typ(tup)
		args := pushArgs(cb, p.Pt.NArgs)
		cb.Call(p.Pt.NArgs).EndInit(1)
		fmt.Fprintf(&ref, "var %s = %s{%s}\n", name, typeText, strings.Join(args, ", "))
	case "val", "ref":
		vt, vtext := tup, typeText
		if p.Pt.Holder == "ptr" {
			vt, vtext = types.NewPointer(tup), "*"+typeText
		}
		pkg.NewVar(token.NoPos, vt, name+"v")
		fmt.Fprintf(&ref, "var %sv %s\n", name, vtext)
		i := p.Pt.Idx - 1
		member := map[string]string{"ord": fmt.Sprint(i), "X": fmt.Sprintf("X_%d", i), "name": fnames[i]}[p.Pt.Acc]
		if p.Pt.Op == "val" {
			cb := pkg.NewVarStart(token.NoPos, nil, name).Val(obj(name + "v"))
			if k, err := cb.Member(member, 0, gogen.MemberFlagVal); err != nil || k != gogen.MemberField {
				panic(fmt.Sprintf("member %s: kind %v, %v", member, k, err))
			}
			cb.EndInit(1)
			fmt.Fprintf(&ref, "var %s = %sv.%s\n", name, name, p.Low.Sel)
			// the component has the type of the tuple's i-th element
			if got := pkg.Types.Scope().Lookup(name); got != nil && !types.Identical(got.Type(), elemT(p.Low.Elem)) {
				panic(fmt.Sprintf("component %s has type %v, the tuple's element type is %s", member, got.Type(), p.Low.Elem))
			}
		} else {
			cb := pkg.NewFunc(nil, name, nil, nil, false).BodyStart(pkg).Val(obj(name + "v"))
			if k, err := cb.Member(member, 0, gogen.MemberFlagRef); err != nil || k != gogen.MemberField {
				panic(fmt.Sprintf("member reference %s: kind %v, %v", member, k, err))
			}
			var rhs string
			switch p.Pt.Shape[i] {
			case "int":
				cb.Val(3)
				rhs = "3"
			case "string":
				cb.Val("t")
				rhs = `"t"`
			case "S":
				cb.Val(obj("vS"))
				rhs = "vS"
			}
			cb.Assign(1).EndStmt().End()
			fmt.Fprintf(&ref, "func %s() {\n%sv.%s = %s\n}\n", name, name, p.Low.Sel, rhs)
		}
		// LookupField resolves every spelling of the component to its index
		if st, ok := tup.Underlying().(*types.Struct); ok {
			if got := pkg.CB().LookupField(st, member); got != i {
				panic(fmt.Sprintf("LookupField(%s) = %d, component index is %d", member, got, i))
			}
		}
	default:
		panic("harness: tuple op " + p.Pt.Op)
	}
	return ref.String()
}
