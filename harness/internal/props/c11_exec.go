package props

// C11, rules judged by execution (Lower.tla R7 user-defined range enumerators, R8 inline closure calls):
// every point is built with the real CodeBuilder into a package main; a hand-written reference in plain
// Go (a real range loop over the enumerated sequence / a real closure call) is added; both are run with
// instrumented marker functions and their traces (order of evaluation, bound values, results) must be equal.

import (
	"bytes"
	"fmt"
	"go/ast"
	"go/parser"
	"go/token"
	"go/types"
	"os"
	"os/exec"
	"path/filepath"
	"strings"
	"time"

	"github.com/goplus/gogen"

	"verif/harness/internal/ev"
)

const execEnSrc = `package en

type It2 struct{ i int }

func (p *It2) Next() (int, bool) {
	p.i++
	if p.i > 3 {
		return 0, false
	}
	return p.i * 10, true
}

type EP2 struct{}

func (EP2) XGo_Enum() *It2 { return &It2{} }

type It2v struct{ i *int }

func (p It2v) Next() (int, bool) {
	*p.i++
	if *p.i > 3 {
		return 0, false
	}
	return *p.i * 10, true
}

type E2 struct{}

func (E2) XGo_Enum() It2v { return It2v{new(int)} }

type It3 struct{ i *int }

func (p It3) Next() (string, int, bool) {
	*p.i++
	if *p.i > 3 {
		return "", 0, false
	}
	return string(rune('a' + *p.i)), *p.i * 10, true
}

type E3 struct{}

func (E3) XGo_Enum() It3 { return It3{new(int)} }

type LS []int

func (LS) XGo_Enum() func(yield func(int) bool) {
	return func(yield func(int) bool) {
		for i := 1; i <= 3; i++ {
			if !yield(i * 10) {
				return
			}
		}
	}
}

type Lv int

func (Lv) XGo_Enum() *It2 { return &It2{} }

type F0 struct{}

func (F0) XGo_Enum() func(yield func() bool) {
	return func(yield func() bool) {
		for i := 0; i < 3; i++ {
			if !yield() {
				return
			}
		}
	}
}

type F1 struct{}

func (F1) XGo_Enum() func(yield func(int) bool) {
	return func(yield func(int) bool) {
		for i := 1; i <= 3; i++ {
			if !yield(i * 10) {
				return
			}
		}
	}
}

type F2 struct{}

func (F2) XGo_Enum() func(yield func(string, int) bool) {
	return func(yield func(string, int) bool) {
		for i := 1; i <= 3; i++ {
			if !yield(string(rune('a'+i)), i*10) {
				return
			}
		}
	}
}
`

// the reference half of package main: marker implementations, references, driver
const execRefHead = `package main

import (
	"fmt"
	"sort"
	"strings"
)

var trace []string
var condCalls, condTrueAt int

func init() {
	tr = func(s string) { trace = append(trace, s) }
	a1 = func() int { tr("a1"); return 1 }
	a2 = func() string { tr("a2"); return "two" }
	a3 = func() int { tr("a3"); return 3 }
	a4 = func() int { tr("a4"); return 4 }
	m1 = func() { tr("m1") }
	m2 = func() { tr("m2") }
	cond = func() bool { condCalls++; tr("cond"); return condCalls == condTrueAt }
	u0 = func() { tr("u0") }
	uk = func(k int) { tr(fmt.Sprint("uk:", k)) }
	us = func(s string) { tr("us:" + s) }
	u2 = func(k int, s string) { tr(fmt.Sprint("u2:", k, ":", s)) }
}

// argsSorted sorts the leading run of argument-evaluation events (a1 a2 ...) of a printed trace
func argsSorted(s string) string {
	f := strings.Fields(strings.TrimPrefix(s, "["))
	n := 0
	for n < len(f) && len(f[n]) >= 2 && f[n][0] == 'a' && f[n][1] >= '1' && f[n][1] <= '9' {
		n++
	}
	sort.Strings(f[:n])
	return strings.Join(f, " ")
}

func runPair(name string, d, r func()) {
	for _, at := range []int{0, 1, 2} {
		trace, condCalls, condTrueAt = nil, 0, at
		gk, gs, gv = -1, "?", -1
		d()
		td := fmt.Sprint(trace, gk, gs, gv)
		trace, condCalls, condTrueAt = nil, 0, at
		gk, gs, gv = -1, "?", -1
		r()
		trr := fmt.Sprint(trace, gk, gs, gv)
		if td != trr {
			kind := "MISMATCH"
			if argsSorted(td) == argsSorted(trr) {
				kind = "ARGORDER" // same behaviour except the order in which the argument expressions are evaluated
			}
			fmt.Printf("%s %s cond-true-at=%d emitted=%s reference=%s\n", kind, name, at, td, trr)
		}
	}
}
`

type execWorld struct {
	pkg  *gogen.Package
	en   gogen.PkgRef
	errs []string
}

type execImporter struct {
	en   *types.Package
	base types.Importer
}

func (i execImporter) Import(path string) (*types.Package, error) {
	if path == "x/en" {
		return i.en, nil
	}
	return i.base.Import(path)
}

func execEnPkg() (*types.Package, error) {
	fset := token.NewFileSet()
	f, err := parser.ParseFile(fset, "en.go", execEnSrc, 0)
	if err != nil {
		return nil, err
	}
	return (&types.Config{}).Check("x/en", fset, []*ast.File{f}, nil)
}

func newExecWorld(en *types.Package) *execWorld {
	_, base := sharedImporter()
	w := &execWorld{}
	w.pkg = gogen.NewPackage("", "main", &gogen.Config{Fset: token.NewFileSet(), Importer: execImporter{en, base}, HandleErr: func(e error) { w.errs = append(w.errs, e.Error()) }})
	pkg := w.pkg
	w.en = pkg.Import("x/en")
	ti, ts, tb := types.Typ[types.Int], types.Typ[types.String], types.Typ[types.Bool]
	par := func(t types.Type) *types.Var { return types.NewParam(token.NoPos, nil, "", t) }
	fn := func(ps []types.Type, rs []types.Type) types.Type {
		var pv, rv []*types.Var
		for _, t := range ps {
			pv = append(pv, par(t))
		}
		for _, t := range rs {
			rv = append(rv, par(t))
		}
		return types.NewSignatureType(nil, nil, nil, types.NewTuple(pv...), types.NewTuple(rv...), false)
	}
	decl := func(n string, t types.Type) { pkg.NewVar(token.NoPos, t, n) }
	decl("tr", fn([]types.Type{ts}, nil))
	decl("a1", fn(nil, []types.Type{ti}))
	decl("a2", fn(nil, []types.Type{ts}))
	decl("a3", fn(nil, []types.Type{ti}))
	decl("a4", fn(nil, []types.Type{ti}))
	decl("m1", fn(nil, nil))
	decl("m2", fn(nil, nil))
	decl("cond", fn(nil, []types.Type{tb}))
	decl("u0", fn(nil, nil))
	decl("uk", fn([]types.Type{ti}, nil))
	decl("us", fn([]types.Type{ts}, nil))
	decl("u2", fn([]types.Type{ti, ts}, nil))
	decl("gk", ti)
	decl("gs", ts)
	decl("gv", ti)
	for n, t := range map[string]string{"vep2": "EP2", "ve2": "E2", "ve3": "E3", "vf0": "F0", "vf1": "F1", "vf2": "F2", "vls": "LS", "vlv": "Lv"} {
		decl(n, w.en.Ref(t).Type())
	}
	return w
}

var execEnumVar = map[string]string{"iter1s": "vls", "next2i": "vlv", "next2": "ve2", "ptrnext2": "vep2", "next3": "ve3", "iter0": "vf0", "iter1": "vf1", "iter2": "vf2"}

// build builds point p as function name; returns the reference function text (named r<name>)
func (w *execWorld) build(p lowPoint, name string) (ref string, fail string) {
	defer func() {
		if e := recover(); e != nil {
			fail = fmt.Sprintf("builder failed: %v", e)
		}
	}()
	pkg := w.pkg
	w.errs = nil
	obj := func(n string) types.Object {
		o := pkg.Types.Scope().Lookup(n)
		if o == nil {
			panic("harness: no object " + n)
		}
		return o
	}
	cb := pkg.NewFunc(nil, name, nil, nil, false).BodyStart(pkg)
	call := func(fn string, args ...any) {
		cb.Val(obj(fn))
		for _, a := range args {
			cb.Val(a)
		}
		cb.Call(len(args)).EndStmt()
	}
	local := func(n string) types.Object {
		_, o := cb.Scope().LookupParent(n, token.NoPos)
		return o
	}
	switch p.Pt.Rule {
	case "enum":
		st, vf := p.Pt.Style, p.Pt.Vars
		two := st == "next3" || st == "iter2"
		x := obj(execEnumVar[st])
		var refHead, refBody string
		switch vf {
		case "none":
			cb.ForRange().Val(x).RangeAssignThen(token.NoPos)
		case "define-k":
			cb.ForRange("k").Val(x).RangeAssignThen(token.NoPos)
		case "define-kv":
			cb.ForRange("k", "v").Val(x).RangeAssignThen(token.NoPos)
		case "blank-k":
			cb.ForRange("_").Val(x).RangeAssignThen(token.NoPos)
		case "blank-k-define-v":
			cb.ForRange("_", "v").Val(x).RangeAssignThen(token.NoPos)
		case "assign-k":
			if two {
				cb.ForRange().VarRef(obj("gs")).Val(x).RangeAssignThen(token.NoPos)
			} else {
				cb.ForRange().VarRef(obj("gk")).Val(x).RangeAssignThen(token.NoPos)
			}
		case "assign-kv":
			cb.ForRange().VarRef(obj("gs")).VarRef(obj("gv")).Val(x).RangeAssignThen(token.NoPos)
		}
		call("m1")
		refBody = "m1()\n"
		// use the bound variables
		switch vf {
		case "define-k":
			if two {
				call("us", local("k"))
				refBody += "us(k)\n"
			} else {
				call("uk", local("k"))
				refBody += "uk(k)\n"
			}
		case "define-kv":
			call("us", local("k"))
			call("uk", local("v"))
			refBody += "us(k)\nuk(v)\n"
		case "blank-k-define-v":
			call("uk", local("v"))
			refBody += "uk(v)\n"
		}
		if p.Pt.Brk {
			cb.If().Val(obj("cond")).Call(0).Then().Break(nil).End()
			refBody += "if cond() {\nbreak\n}\n"
		}
		call("m2")
		refBody += "m2()\n"
		cb.End()
		// the reference loop over the enumerated sequence
		next := st == "next2" || st == "next3" || st == "ptrnext2" || st == "next2i"
		switch {
		case next && (vf == "assign-k" || vf == "assign-kv"):
			// the documented lowering assigns the results of every Next() call, the final failing one included
			asg := map[string]string{"next2assign-k": "gk, ok = (i+1)*10, i < 3", "ptrnext2assign-k": "gk, ok = (i+1)*10, i < 3", "next2iassign-k": "gk, ok = (i+1)*10, i < 3",
				"next3assign-k": "gs, _, ok = string(rune('b'+i)), (i+1)*10, i < 3", "next3assign-kv": "gs, gv, ok = string(rune('b'+i)), (i+1)*10, i < 3"}[st+vf]
			zero := map[string]string{"next2assign-k": "gk = 0", "ptrnext2assign-k": "gk = 0", "next2iassign-k": "gk = 0", "next3assign-k": "gs = \"\"", "next3assign-kv": "gs, gv = \"\", 0"}[st+vf]
			refHead = "for i := 0; ; i++ {\nvar ok bool\n" + asg + "\nif !ok {\n" + zero + "\nbreak\n}"
		case st == "iter0":
			refHead = "for range 3 {"
		case !two:
			switch vf {
			case "none", "blank-k":
				refHead = "for range []int{10, 20, 30} {"
			case "define-k":
				refHead = "for _, k := range []int{10, 20, 30} {"
			case "assign-k":
				refHead = "for _, gk = range []int{10, 20, 30} {"
			}
		default:
			seq := `[]struct{k string; v int}{{"b", 10}, {"c", 20}, {"d", 30}}`
			bind := map[string]string{"none": "", "blank-k": "", "define-k": "k := e.k\n", "define-kv": "k, v := e.k, e.v\n", "blank-k-define-v": "v := e.v\n", "assign-k": "gs = e.k\n", "assign-kv": "gs, gv = e.k, e.v\n"}[vf]
			refHead = "for _, e := range " + seq + " {\n_ = e\n" + bind
		}
		cb.End()
		return fmt.Sprintf("func r%s() {\n%s\n%s}\n}\n", name, refHead, refBody), ""
	case "inline":
		ti, ts := types.Typ[types.Int], types.Typ[types.String]
		var params []*types.Var
		var ptxt []string
		ptypes := []types.Type{ti, ts}
		for i := 0; i < p.Pt.NP; i++ {
			t := ptypes[i]
			tt := []string{"int", "string"}[i]
			if p.Pt.Variadic && i == p.Pt.NP-1 {
				t, tt = types.NewSlice(ti), "...int"
			}
			params = append(params, types.NewParam(token.NoPos, pkg.Types, fmt.Sprintf("p%d", i+1), t))
			ptxt = append(ptxt, fmt.Sprintf("p%d %s", i+1, tt))
		}
		var results []*types.Var
		var rtxt []string
		for i := 0; i < p.Pt.NRes; i++ {
			results = append(results, types.NewParam(token.NoPos, pkg.Types, "", ptypes[i]))
			rtxt = append(rtxt, []string{"int", "string"}[i])
		}
		sig := types.NewSignatureType(nil, nil, nil, types.NewTuple(params...), types.NewTuple(results...), p.Pt.Variadic)
		user := []string{"u0", "uk", "u2"}[p.Pt.NRes]
		if p.Pt.NRes > 0 {
			cb.Val(obj(user))
		}
		// arguments
		var atxt []string
		nfixed := p.Pt.NP
		if p.Pt.Variadic {
			nfixed--
		}
		argFns := []string{"a1", "a2"}
		for i := 0; i < nfixed; i++ {
			if i == 0 && p.Pt.Body == "mutate" {
				cb.Val(obj("gk"))
				atxt = append(atxt, "gk")
				continue
			}
			cb.Val(obj(argFns[i])).Call(0)
			atxt = append(atxt, argFns[i]+"()")
		}
		for i := 0; i < p.Pt.NVar; i++ {
			f := []string{"a3", "a4"}[i]
			cb.Val(obj(f)).Call(0)
			atxt = append(atxt, f+"()")
		}
		narg := nfixed + p.Pt.NVar
		cb.CallInlineClosureStart(sig, narg, false)
		// body
		ret := func(early bool) string {
			var parts []string
			for i := 0; i < p.Pt.NRes; i++ {
				if i == 0 {
					switch {
					case early:
						cb.Val(7)
						parts = append(parts, "7")
					case p.Pt.Variadic && p.Pt.NP == 1:
						cb.Val(pkg.Builtin().Ref("len")).Val(params[0]).Call(1)
						parts = append(parts, "len(p1)")
					case p.Pt.NP >= 1:
						cb.Val(params[0])
						parts = append(parts, "p1")
					default:
						cb.Val(8)
						parts = append(parts, "8")
					}
				} else {
					switch {
					case early:
						cb.Val("e")
						parts = append(parts, `"e"`)
					case p.Pt.NP == 2 && !p.Pt.Variadic:
						cb.Val(params[1])
						parts = append(parts, "p2")
					default:
						cb.Val("l")
						parts = append(parts, `"l"`)
					}
				}
			}
			cb.Return(p.Pt.NRes)
			return "return " + strings.Join(parts, ", ") + "\n"
		}
		body := "m1()\n"
		call("m1")
		if p.Pt.Body == "mutate" {
			// gk = 5; p1 = p1 + 10
			cb.VarRef(obj("gk")).Val(5).Assign(1)
			cb.VarRef(params[0]).Val(params[0]).Val(10).BinaryOp(token.ADD).Assign(1)
			body += "gk = 5\np1 = p1 + 10\n"
		}
		if p.Pt.Body != "unused" { // use every parameter
			for i := 0; i < p.Pt.NP; i++ {
				switch {
				case p.Pt.Variadic && i == p.Pt.NP-1:
					cb.Val(obj("uk")).Val(pkg.Builtin().Ref("len")).Val(params[i]).Call(1).Call(1).EndStmt()
					body += fmt.Sprintf("uk(len(p%d))\n", i+1)
				case i == 0:
					call("uk", params[0])
					body += "uk(p1)\n"
				default:
					call("us", params[1])
					body += "us(p2)\n"
				}
			}
		}
		if p.Pt.Body == "early" {
			cb.If().Val(obj("cond")).Call(0).Then()
			r := ret(true)
			cb.End()
			body += "if cond() {\n" + r + "}\n"
		}
		call("m2")
		body += "m2()\n"
		body += ret(false)
		cb.End() // the inline closure: its results are on the stack
		if p.Pt.NRes > 0 {
			cb.Call(p.Pt.NRes).EndStmt()
		}
		call("u0")
		cb.End()
		clo := fmt.Sprintf("func(%s) (%s) {\n%s}(%s)", strings.Join(ptxt, ", "), strings.Join(rtxt, ", "), body, strings.Join(atxt, ", "))
		if p.Pt.NRes > 0 {
			clo = user + "(" + clo + ")"
		}
		return fmt.Sprintf("func r%s() {\n%s\nu0()\n}\n", name, clo), ""
	}
	panic("harness: rule " + p.Pt.Rule)
}

func (p lowPoint) execClass() string {
	if p.Pt.Rule == "enum" {
		return fmt.Sprintf("enum/%s/%s%s", p.Pt.Style, p.Pt.Vars, map[bool]string{true: "+break", false: ""}[p.Pt.Brk])
	}
	return fmt.Sprintf("inline/params=%d%s+%d/results=%d/%s", p.Pt.NP, map[bool]string{true: "variadic", false: ""}[p.Pt.Variadic], p.Pt.NVar, p.Pt.NRes, p.Pt.Body)
}

func (p lowPoint) execDescribe() string {
	if p.Pt.Rule == "enum" {
		return fmt.Sprintf("range over a %s enumerator, loop variables %s%s", p.Pt.Style, p.Pt.Vars, map[bool]string{true: ", body with break", false: ""}[p.Pt.Brk])
	}
	return fmt.Sprintf("inline closure call: %d parameter(s)%s, %d variadic argument(s), %d result(s), %s body", p.Pt.NP, map[bool]string{true: " (last variadic)", false: ""}[p.Pt.Variadic], p.Pt.NVar, p.Pt.NRes, p.Pt.Body)
}

// lowExecRun checks the execution-judged points; returns how many were executed.
func lowExecRun(run *ev.Run, pts []lowPoint) int {
	if len(pts) == 0 {
		return 0
	}
	en, err := execEnPkg()
	if err != nil {
		run.Infra(fmt.Errorf("enumerator fixture: %v", err))
	}
	_, base := sharedImporter()
	// pass 1: every point alone (build failure, ill-typed output)
	var good []lowPoint
	for _, p := range pts {
		run.Eval(p.Pt.Rule + ":" + p.execDescribe())
		w := newExecWorld(en)
		if _, fail := w.build(p, "d"); fail != "" || len(w.errs) > 0 {
			run.Fail("lowering-fails/"+p.execClass(), fmt.Sprintf("%s: %s %v", p.execDescribe(), firstLines(fail, 2), w.errs), p)
			continue
		}
		var out bytes.Buffer
		if err := safeWriteTo(w.pkg, &out); err != nil {
			run.Fail("lowered-code-cannot-be-written/"+p.execClass(), fmt.Sprintf("%s: WriteTo: %v", p.execDescribe(), err), p)
			continue
		}
		c, err := canonParse(out.String(), execImporter{en, base})
		if err != nil {
			run.Fail("lowered-code-does-not-parse/"+p.execClass(), fmt.Sprintf("%s: %v", p.execDescribe(), stripPos(err.Error())), p)
			continue
		}
		if len(c.terrs) > 0 && p.Pt.Rule == "inline" && p.Pt.Body == "unused" && strings.Contains(c.terrs[0], "declared and not used: _autoGo_") {
			run.Fail("inline-closure-unused-parameter-declared-and-not-used", fmt.Sprintf("%s: a closure need not use its parameters, the variable the argument is bound to must be used: %s\n%s", p.execDescribe(), stripPos(c.terrs[0]), c.Text("d")), p)
			continue
		}
		if len(c.terrs) > 0 {
			run.Fail("lowered-code-ill-typed/"+p.execClass(), fmt.Sprintf("%s: go/types rejects the emitted lowering: %s\n%s", p.execDescribe(), stripPos(c.terrs[0]), c.Text("d")), p)
			continue
		}
		good = append(good, p)
	}
	if len(good) == 0 {
		return 0
	}
	// pass 2: all good points in one package main + references, executed
	w := newExecWorld(en)
	var refs strings.Builder
	refs.WriteString(execRefHead)
	var mainBody strings.Builder
	names := map[string]lowPoint{}
	for i, p := range good {
		name := fmt.Sprintf("d%d", i+1)
		ref, fail := w.build(p, name)
		if fail != "" {
			run.Infra(fmt.Errorf("%s builds alone but not after other points: %s", p.execDescribe(), fail))
		}
		refs.WriteString(ref)
		fmt.Fprintf(&mainBody, "runPair(%q, %s, r%s)\n", name, name, name)
		names[name] = p
	}
	refs.WriteString("func main() {\n" + mainBody.String() + "fmt.Println(\"DONE\")\n}\n")
	var out bytes.Buffer
	if err := w.pkg.WriteTo(&out); err != nil {
		run.Infra(fmt.Errorf("WriteTo: %v", err))
	}
	dir, err := os.MkdirTemp("", "c11exec")
	if err != nil {
		run.Infra(err)
	}
	defer os.RemoveAll(dir)
	os.MkdirAll(filepath.Join(dir, "en"), 0o755)
	os.WriteFile(filepath.Join(dir, "go.mod"), []byte("module x\n\ngo 1.23\n"), 0o644)
	os.WriteFile(filepath.Join(dir, "en", "en.go"), []byte(execEnSrc), 0o644)
	os.WriteFile(filepath.Join(dir, "emitted.go"), out.Bytes(), 0o644)
	os.WriteFile(filepath.Join(dir, "ref.go"), []byte(refs.String()), 0o644)
	cmd := exec.Command("go", "run", ".")
	cmd.Dir = dir
	cmd.Env = append(os.Environ(), "GOFLAGS=-mod=mod", "GOPROXY=off", "GOTOOLCHAIN=local", "GOCACHE="+filepath.Join(os.TempDir(), "verif-gocache"))
	var stdout, stderr bytes.Buffer
	cmd.Stdout, cmd.Stderr = &stdout, &stderr
	done := make(chan error, 1)
	go func() { done <- cmd.Run() }()
	select {
	case err = <-done:
	case <-time.After(5 * time.Minute):
		cmd.Process.Kill()
		run.Infra(fmt.Errorf("executing the lowered programs timed out"))
	}
	if err != nil || !strings.Contains(stdout.String(), "DONE") {
		run.Infra(fmt.Errorf("the lowered programs and their references do not build or run (reference or harness defect, every emitted function type-checked alone): %v\n%s", err, firstLines(stderr.String(), 12)))
	}
	for _, l := range strings.Split(stdout.String(), "\n") {
		f := strings.SplitN(l, " ", 4)
		switch {
		case strings.HasPrefix(l, "MISMATCH "):
			p := names[f[1]]
			run.Fail("behaviour-differs/"+p.execClass(), fmt.Sprintf("%s: executed, the emitted lowering and plain Go disagree (%s)", p.execDescribe(), l[len("MISMATCH "+f[1])+1:]), p)
		case strings.HasPrefix(l, "ARGORDER "):
			p := names[f[1]]
			run.Fail("inline-closure-arguments-evaluated-in-reverse-order", fmt.Sprintf("%s: executed, the argument expressions are evaluated right to left (%s)", p.execDescribe(), l[len("ARGORDER "+f[1])+1:]), p)
		}
	}
	return len(good)
}

func safeWriteTo(pkg *gogen.Package, out *bytes.Buffer) (err error) {
	defer func() {
		if e := recover(); e != nil {
			err = fmt.Errorf("panic: %v", e)
		}
	}()
	return pkg.WriteTo(out)
}
