package props

// C20 — the export-data cache never serves stale data and survives save/load.
//
// spec/Cache.tla models Impl.Find/Prepare/Save/Load step by step together with the
// environment (fingerprints, export files, `go list` outcome, the saved file and its
// damage).  TLC checks FreshServe, NoNeedlessList, ListFailureIsError, ... on all
// interleavings of two callers with environment steps ("design" mode), and generates
// behaviours in "gated" mode which the harness forces on the real cache.Impl: the
// fingerprint function and the `go` executable are the harness's own, every
// observation the implementation makes blocks at a gate until the behaviour says it
// happens, and what is served / returned / listed / saved is compared after every step.

import (
	"bufio"
	"crypto/sha1"
	"encoding/json"
	"fmt"
	"io"
	"net"
	"os"
	"path/filepath"
	"sort"
	"strconv"
	"strings"
	"sync"
	"sync/atomic"
	"time"

	"github.com/goplus/gogen/packages/cache"

	"verif/harness/internal/ev"
	"verif/harness/internal/tlc"
)

func init() { Registry["C20"] = runC20 }

// ---- one step of a behaviour, as printed by Cache.tla ------------------------------------

type c20Step struct {
	A    string          `json:"a"`
	K    int             `json:"k"`
	P    string          `json:"p"`
	V    int             `json:"v"`
	F    json.RawMessage `json:"f"`
	M    string          `json:"m"`
	S    string          `json:"s"`
	Self bool            `json:"self"`
	R    int             `json:"r"`
	Mode string          `json:"mode"`
	File json.RawMessage `json:"file"`
	Err  bool            `json:"err"`
	NL   int             `json:"nlist"`
	Keep []string        `json:"keep"`
	What string          `json:"what"`
	Wr   bool            `json:"wrote"`
	Snap map[string]struct {
		Exp  json.RawMessage   `json:"exp"`
		Hash int               `json:"hash"`
		Deps []json.RawMessage `json:"deps"`
	} `json:"snap"`
}

type c20Edge struct {
	Pre  []c20Step `json:"pre"`
	Step c20Step   `json:"step"`
}

// export identity <<p, v, <<dv...>>>> -> file name / content
func c20ExpName(raw json.RawMessage) string {
	var t []json.RawMessage
	if json.Unmarshal(raw, &t) != nil || len(t) != 3 {
		return ""
	}
	var p string
	var v int
	var ds []int
	json.Unmarshal(t[0], &p)
	json.Unmarshal(t[1], &v)
	json.Unmarshal(t[2], &ds)
	return c20Name(p, v, ds)
}

func c20Name(p string, v int, ds []int) string {
	s := fmt.Sprintf("%s@%d", p, v)
	for _, d := range ds {
		s += fmt.Sprintf("_%d", d)
	}
	return s
}

func c20HashStr(v int) string {
	switch v {
	case 0:
		return cache.HashSkip
	case -1:
		return cache.HashInvalid
	case -2:
		return "zz"
	}
	return "v" + strconv.Itoa(v)
}

// ---- the scripted environment ---------------------------------------------------------------

type c20Cfg struct {
	Pkgs    []string
	Deps    map[string][]string // transitive dependencies, what `go list` reports as .Deps
	Imports map[string][]string // direct imports (.Imports)
	Skip    map[string]bool
	Invalid map[string]bool
}

type c20Env struct {
	mu   sync.Mutex
	cfg  c20Cfg
	dir  string
	fp   map[string]int
	mode string
}

func (e *c20Env) h(p string, self bool) int {
	if self && e.cfg.Invalid[p] {
		return -1
	}
	if !self && e.cfg.Skip[p] {
		return 0
	}
	return e.fp[p]
}

func (e *c20Env) exportNow(p string) string {
	var ds []int
	for _, d := range e.cfg.Deps[p] {
		if !e.cfg.Skip[d] {
			ds = append(ds, e.fp[d])
		}
	}
	return c20Name(p, e.fp[p], ds)
}

// ---- the stub `go` server (one per process, routed by working directory) ----------------------

type c20Server struct {
	sock    string
	ln      net.Listener
	mu      sync.Mutex
	runners map[string]*c20Runner
}

var c20Srv *c20Server

func c20StartServer() (*c20Server, error) {
	dir, err := os.MkdirTemp("", "vc20-")
	if err != nil {
		return nil, err
	}
	s := &c20Server{sock: filepath.Join(dir, "s"), runners: map[string]*c20Runner{}}
	s.ln, err = net.Listen("unix", s.sock)
	if err != nil {
		return nil, err
	}
	stubDir := filepath.Join(ev.Root, ".bin", "stub")
	if _, err := os.Stat(filepath.Join(stubDir, "go")); err != nil {
		return nil, fmt.Errorf("stub go not built: %v", err)
	}
	os.Setenv("PATH", stubDir+":"+os.Getenv("PATH"))
	os.Setenv("VERIF_STUB_SOCK", s.sock)
	go func() {
		for {
			c, err := s.ln.Accept()
			if err != nil {
				return
			}
			go s.serve(c)
		}
	}()
	return s, nil
}

func (s *c20Server) serve(c net.Conn) {
	defer c.Close()
	rd := bufio.NewReader(c)
	var args []string
	dir := ""
	for {
		line, err := rd.ReadString('\n')
		if err != nil {
			return
		}
		line = strings.TrimSuffix(line, "\n")
		if line == "." {
			break
		}
		if strings.HasPrefix(line, "D ") {
			dir = line[2:]
		} else if strings.HasPrefix(line, "A ") {
			// the -f template contains real tab characters, never newlines
			args = append(args, line[2:])
		}
	}
	s.mu.Lock()
	r := s.runners[dir]
	s.mu.Unlock()
	code, out, errs := 1, "", "stub: no runner for "+dir+"\n"
	if r != nil {
		code, out, errs = r.list(args)
	}
	fmt.Fprintf(c, "%d %d %d\n%s%s", code, len(out), len(errs), out, errs)
}

// ---- one replay ----------------------------------------------------------------------------------

type c20Event struct {
	kind   string // "h" | "list" | "ret"
	pkg    string
	self   bool
	pkgs   []string
	reply  chan struct{}
	served string
	err    error
}

type c20Runner struct {
	env     *c20Env
	impl    *cache.Impl
	events  chan *c20Event
	abort   atomic.Bool
	pending map[int]*c20Event
	file    string // cache file
	trace   []string
	free    bool // free-running (no gates): used by the concurrent driver
	log     func(rec map[string]any)
}

func (r *c20Runner) hash(p string, self bool) string {
	if !r.abort.Load() && !r.free {
		e := &c20Event{kind: "h", pkg: p, self: self, reply: make(chan struct{})}
		r.events <- e
		<-e.reply
	}
	r.env.mu.Lock()
	v := r.env.h(p, self)
	if r.log != nil {
		r.log(map[string]any{"ev": "h", "p": p, "self": self, "r": v})
	}
	r.env.mu.Unlock()
	return c20HashStr(v)
}

// list answers one `go list -f=... -export pkgs...`
func (r *c20Runner) list(args []string) (int, string, string) {
	var pkgs []string
	seen := false
	format := ""
	for _, a := range args {
		if seen {
			pkgs = append(pkgs, a)
		}
		if a == "-export" {
			seen = true
		}
		if strings.HasPrefix(a, "-f=") {
			format = a[3:]
		}
	}
	if !r.abort.Load() && !r.free {
		e := &c20Event{kind: "list", pkgs: pkgs, reply: make(chan struct{})}
		r.events <- e
		<-e.reply
	}
	r.env.mu.Lock()
	defer r.env.mu.Unlock()
	mode := r.env.mode
	if r.log != nil {
		defer func() { r.log(map[string]any{"ev": "list", "pkgs": pkgs, "mode": mode}) }()
	}
	switch mode {
	case "fail":
		return 1, "", "stub: go list failed\n"
	case "malformed":
		return 0, "this line has no tabs\n", ""
	}
	var out strings.Builder
	for _, p := range pkgs {
		name := r.env.exportNow(p)
		path := filepath.Join(r.env.dir, "exp", name)
		os.WriteFile(path, []byte(name), 0o644)
		// the stub honours the -f template like the real go command does
		line := format
		line = strings.ReplaceAll(line, "{{.ImportPath}}", p)
		line = strings.ReplaceAll(line, "{{.Export}}", path)
		line = strings.ReplaceAll(line, "{{.Deps}}", "["+strings.Join(r.env.cfg.Deps[p], " ")+"]")
		line = strings.ReplaceAll(line, "{{.Imports}}", "["+strings.Join(r.env.cfg.Imports[p], " ")+"]")
		if strings.Contains(line, "{{") || format == "" {
			return 2, "", "stub: template field not supported: " + format + "\n"
		}
		out.WriteString(line + "\n")
	}
	return 0, out.String(), ""
}

func c20NewRunner(cfg c20Cfg) (*c20Runner, error) {
	dir, err := os.MkdirTemp("", "vc20r-")
	if err != nil {
		return nil, err
	}
	dir, _ = filepath.EvalSymlinks(dir)
	os.MkdirAll(filepath.Join(dir, "exp"), 0o755)
	env := &c20Env{cfg: cfg, dir: dir, fp: map[string]int{}, mode: "ok"}
	for _, p := range cfg.Pkgs {
		env.fp[p] = 1
	}
	r := &c20Runner{env: env, events: make(chan *c20Event, 16), pending: map[int]*c20Event{}, file: filepath.Join(dir, "cache.txt")}
	r.impl = cache.New(r.hash)
	c20Srv.mu.Lock()
	c20Srv.runners[dir] = r
	c20Srv.mu.Unlock()
	return r, nil
}

func (r *c20Runner) close() {
	r.abort.Store(true)
	// let blocked goroutines finish
	for _, e := range r.pending {
		if e != nil && e.reply != nil {
			close(e.reply)
		}
	}
	go func() {
		for {
			select {
			case <-r.events:
			case <-time.After(3 * time.Second):
				return
			}
		}
	}()
	c20Srv.mu.Lock()
	delete(c20Srv.runners, r.env.dir)
	c20Srv.mu.Unlock()
	dir := r.env.dir
	time.AfterFunc(2*time.Second, func() { os.RemoveAll(dir) })
}

// wait for the next event of the only running caller
func (r *c20Runner) next(k int) error {
	select {
	case e := <-r.events:
		r.pending[k] = e
		return nil
	case <-time.After(30 * time.Second):
		return fmt.Errorf("caller %d did not reach a callback or return within 30s", k)
	}
}

func (e *c20Event) String() string {
	switch e.kind {
	case "h":
		return fmt.Sprintf("h(%s,%v)", e.pkg, e.self)
	case "list":
		return fmt.Sprintf("list%v", e.pkgs)
	}
	return fmt.Sprintf("return(served=%q, err=%v)", e.served, e.err != nil)
}

type c20Mismatch struct {
	Key  string
	What string
}

// c20Replay forces the behaviour on the real cache; returns the first disagreement.
// infra errors are returned as error.
func c20Replay(cfg c20Cfg, steps []c20Step) (*c20Mismatch, error) {
	r, err := c20NewRunner(cfg)
	if err != nil {
		return nil, err
	}
	defer r.close()
	mm := func(key, f string, a ...any) (*c20Mismatch, error) {
		return &c20Mismatch{Key: key, What: fmt.Sprintf(f, a...)}, nil
	}
	for i, s := range steps {
		switch s.A {
		case "ChangeFp":
			r.env.mu.Lock()
			r.env.fp[s.P] = s.V
			r.env.mu.Unlock()
		case "DeleteExport":
			name := c20ExpName(s.F)
			if err := os.Remove(filepath.Join(r.env.dir, "exp", name)); err != nil {
				return mm("env/export-file-missing", "step %d: the model says export file %s exists, it does not: %v", i, name, err)
			}
		case "SetListMode":
			r.env.mu.Lock()
			r.env.mode = s.M
			r.env.mu.Unlock()
		case "Find":
			k, p := s.K, s.P
			if r.pending[k] != nil {
				return nil, fmt.Errorf("step %d: caller %d already active", i, k)
			}
			go func() {
				defer func() {
					if pan := recover(); pan != nil {
						r.events <- &c20Event{kind: "ret", served: fmt.Sprintf("PANIC %v", pan), err: fmt.Errorf("panic: %v", pan)}
					}
				}()
				f, err := r.impl.Find(r.env.dir, p)
				served := ""
				if f != nil {
					b, _ := io.ReadAll(f)
					f.Close()
					served = string(b)
				}
				r.events <- &c20Event{kind: "ret", served: served, err: err}
			}()
			if err := r.next(k); err != nil {
				return mm("liveness/Find", "step %d: %v", i, err)
			}
		case "h":
			e := r.pending[s.K]
			if e == nil || e.kind != "h" || e.pkg != s.P || e.self != s.Self {
				return mm("observe/h/"+evKind(e), "step %d: the specification's next step of caller %d is h(%s,%v); the implementation did %v", i, s.K, s.P, s.Self, e)
			}
			r.env.mu.Lock()
			v := r.env.h(s.P, s.Self)
			r.env.mu.Unlock()
			if v != s.R {
				return nil, fmt.Errorf("step %d: harness environment diverged from the model: h(%s,%v)=%d, model %d", i, s.P, s.Self, v, s.R)
			}
			r.pending[s.K] = nil
			close(e.reply)
			if err := r.next(s.K); err != nil {
				return mm("liveness/h", "step %d: %v", i, err)
			}
		case "list":
			e := r.pending[s.K]
			if e == nil || e.kind != "list" || len(e.pkgs) != 1 || e.pkgs[0] != s.P {
				return mm("observe/list/"+evKind(e), "step %d: the specification's next step of caller %d is `go list %s`; the implementation did %v", i, s.K, s.P, e)
			}
			r.pending[s.K] = nil
			close(e.reply)
			if err := r.next(s.K); err != nil {
				return mm("liveness/list", "step %d: %v", i, err)
			}
		case "silent":
		case "Return":
			e := r.pending[s.K]
			if e == nil || e.kind != "ret" {
				return mm("observe/Return/"+evKind(e), "step %d: the specification says Find(%s) returns now (err=%v); the implementation did %v instead", i, s.P, s.Err, e)
			}
			r.pending[s.K] = nil
			want := c20ExpName(s.File)
			gotErr := e.err != nil
			if gotErr != s.Err {
				return mm(fmt.Sprintf("Return/err/%v-predicted-%v", gotErr, s.Err), "step %d: Find returned err=%v (%v), served %q; the specification predicts err=%v file %q", i, gotErr, e.err, e.served, s.Err, want)
			}
			if !s.Err && e.served != want {
				return mm("Return/served", "step %d: Find served %q; the specification predicts %q", i, e.served, want)
			}
			if n := r.impl.ListTimes(); n != s.NL {
				return mm("Return/nlist", "step %d: ListTimes() = %d after Find; the specification predicts %d", i, n, s.NL)
			}
		case "Save":
			before, _ := os.ReadFile(r.file)
			if err := r.impl.Save(r.file); err != nil {
				return mm("Save/error", "step %d: Save failed: %v", i, err)
			}
			after, _ := os.ReadFile(r.file)
			if !s.Wr {
				if string(before) != string(after) {
					return mm("Save/wrote-although-clean", "step %d: Save wrote the file although nothing was listed", i)
				}
				break
			}
			blocks, perr := c20ParseSaved(string(after))
			if perr != nil {
				return mm("Save/format", "step %d: saved file does not follow the documented format: %v\n%s", i, perr, after)
			}
			if len(blocks) != len(s.Snap) {
				return mm("Save/entries", "step %d: saved file has %d entries, the specification predicts %d", i, len(blocks), len(s.Snap))
			}
			for _, b := range blocks {
				w, ok := s.Snap[b.pkg]
				if !ok {
					return mm("Save/entries", "step %d: saved file has an entry for %s, the specification does not", i, b.pkg)
				}
				if filepath.Base(b.exp) != c20ExpName(w.Exp) || b.hash != c20HashStr(w.Hash) || len(b.deps) != len(w.Deps) {
					return mm("Save/entry-content", "step %d: saved entry %s = (%s, %s, %d deps); the specification predicts (%s, %s, %d deps)", i, b.pkg, filepath.Base(b.exp), b.hash, len(b.deps), c20ExpName(w.Exp), c20HashStr(w.Hash), len(w.Deps))
				}
				for di, d := range w.Deps {
					var pair []json.RawMessage
					json.Unmarshal(d, &pair)
					var dp string
					var dh int
					json.Unmarshal(pair[0], &dp)
					json.Unmarshal(pair[1], &dh)
					if b.deps[di][0] != dp || b.deps[di][1] != c20HashStr(dh) {
						return mm("Save/entry-content", "step %d: saved entry %s dep %d = %v; predicted (%s,%s)", i, b.pkg, di, b.deps[di], dp, c20HashStr(dh))
					}
				}
			}
		case "CorruptCut", "CorruptGarble":
			b, err := os.ReadFile(r.file)
			if err != nil {
				return nil, fmt.Errorf("step %d: no saved file to damage: %v", i, err)
			}
			blocks, perr := c20ParseSaved(string(b))
			if perr != nil {
				// a previous CorruptCut left a malformed tail: strip it (the model keeps `bad`)
				blocks, _ = c20ParseSavedPrefix(string(b))
			}
			var out string
			if s.A == "CorruptCut" {
				out = c20Cut(blocks, s.Keep, i)
			} else {
				out = c20Garble(blocks, s.P, s.What, string(b))
			}
			os.WriteFile(r.file, []byte(out), 0o644)
		case "Load":
			var pan any
			err := func() (err error) {
				defer func() {
					if pan = recover(); pan != nil {
						err = fmt.Errorf("panic: %v", pan)
					}
				}()
				return r.impl.Load(r.file)
			}()
			if pan != nil {
				b, _ := os.ReadFile(r.file)
				return mm("Load/panic", "step %d: Load panicked instead of reporting an error: %v; file:\n%s", i, pan, b)
			}
			if (err != nil) != s.Err {
				b, _ := os.ReadFile(r.file)
				return mm(fmt.Sprintf("Load/err/%v-predicted-%v", err != nil, s.Err), "step %d: Load returned %v; the specification predicts error=%v; file:\n%s", i, err, s.Err, b)
			}
		case "Restart":
			r.impl = cache.New(r.hash)
		default:
			return nil, fmt.Errorf("unknown step %q", s.A)
		}
	}
	return nil, nil
}

func evKind(e *c20Event) string {
	if e == nil {
		return "nothing"
	}
	return e.kind
}

// ---- the documented file format, parsed independently -------------------------------------------

type c20Block struct {
	pkg, exp, hash string
	deps           [][2]string
}

func c20ParseSavedPrefix(s string) ([]c20Block, error) {
	var out []c20Block
	lines := strings.Split(strings.TrimRight(s, "\n"), "\n")
	if s == "" {
		return nil, nil
	}
	for i := 0; i < len(lines); {
		parts := strings.Split(lines[i], "\t")
		if len(parts) != 4 || parts[0] == "" {
			return out, fmt.Errorf("line %d: bad header %q", i+1, lines[i])
		}
		n, err := strconv.Atoi(parts[3])
		if err != nil || n < 0 || i+n > len(lines)-1 {
			return out, fmt.Errorf("line %d: bad count %q", i+1, parts[3])
		}
		b := c20Block{pkg: parts[0], exp: parts[1], hash: parts[2]}
		for j := 1; j <= n; j++ {
			dp := strings.Split(lines[i+j], "\t")
			if len(dp) != 3 || dp[0] != "" {
				return out, fmt.Errorf("line %d: bad dep line %q", i+j+1, lines[i+j])
			}
			b.deps = append(b.deps, [2]string{dp[1], dp[2]})
		}
		out = append(out, b)
		i += n + 1
	}
	return out, nil
}

func c20ParseSaved(s string) ([]c20Block, error) { return c20ParseSavedPrefix(s) }

func (b c20Block) text() string {
	s := fmt.Sprintf("%s\t%s\t%s\t%d\n", b.pkg, b.exp, b.hash, len(b.deps))
	for _, d := range b.deps {
		s += "\t" + d[0] + "\t" + d[1] + "\n"
	}
	return s
}

// c20Cut keeps exactly the entries of `keep` intact (first in the file) and lets a malformed
// line follow; the malformed tail is one of several byte-level forms of the same damage class.
func c20Cut(blocks []c20Block, keep []string, variant int) string {
	in := map[string]bool{}
	for _, k := range keep {
		in[k] = true
	}
	var out strings.Builder
	var victim *c20Block
	sort.Slice(blocks, func(i, j int) bool { return blocks[i].pkg < blocks[j].pkg })
	for i := range blocks {
		if in[blocks[i].pkg] {
			out.WriteString(blocks[i].text())
		} else if victim == nil {
			victim = &blocks[i]
		}
	}
	v := c20Block{pkg: "zz", exp: "/nowhere", hash: "v1"}
	if victim != nil {
		v = *victim
	}
	switch variant % 7 {
	case 6: // negative dependency count
		fmt.Fprintf(&out, "%s\t%s\t%s\t-1\n", v.pkg, v.exp, v.hash)
	case 0: // cut in the middle of the header
		out.WriteString(v.pkg + "\t" + v.exp)
	case 1: // header promises more dependency lines than the file has
		fmt.Fprintf(&out, "%s\t%s\t%s\t%d\n", v.pkg, v.exp, v.hash, len(v.deps)+2)
		for _, d := range v.deps {
			out.WriteString("\t" + d[0] + "\t" + d[1] + "\n")
		}
	case 2:
		out.WriteString("garbage\n")
	case 3: // dependency line lost its leading tab
		fmt.Fprintf(&out, "%s\t%s\t%s\t%d\n", v.pkg, v.exp, v.hash, 1)
		out.WriteString("b\tv1\n")
	case 4: // count is not a number
		fmt.Fprintf(&out, "%s\t%s\t%s\tx\n", v.pkg, v.exp, v.hash)
	case 5: // empty package path
		fmt.Fprintf(&out, "\t%s\t%s\t0\n", v.exp, v.hash)
	}
	return out.String()
}

func c20Garble(blocks []c20Block, p, what, orig string) string {
	var out strings.Builder
	for _, b := range blocks {
		if b.pkg == p {
			if what == "self" {
				b.hash = "zz"
			} else if len(b.deps) > 0 {
				b.deps[0][1] = "zz"
			}
		}
		out.WriteString(b.text())
	}
	// keep a malformed tail if the file had one
	if _, err := c20ParseSaved(orig); err != nil {
		out.WriteString("garbage\n")
	}
	return out.String()
}

// ---- configurations -----------------------------------------------------------------------------------

type c20Conf struct {
	name     string
	cfg      c20Cfg
	tla      string // CONSTANTS part
	edges    bool
	simulate int
	depth    int
}

func c20Constants(pkgs string, callers string, deps, skip, invalid string, stale bool, maxEnv, maxCalls, maxDisk int, mode string, diskOps ...string) string {
	ops := `{"Save","Load","Restart","Cut","Garble"}`
	if len(diskOps) > 0 {
		ops = diskOps[0]
	}
	return fmt.Sprintf("CONSTANTS\n  Pkgs = %s\n  Versions = {1,2}\n  Callers = %s\n  DepsOf <- %s\n  SkipDeps = %s\n  InvalidPkgs = %s\n  StaleBug = %v\n  MaxEnv = %d\n  MaxCalls = %d\n  MaxDisk = %d\n  Mode = %q\n  DiskOps = %s\n",
		pkgs, callers, deps, skip, invalid, strings.ToUpper(fmt.Sprint(stale)), maxEnv, maxCalls, maxDisk, mode, ops)
}

const c20Invs = "INVARIANTS TypeOK EntryConsistent FreshServe ServedIsTarget ListFailureIsError GarbageNeverServed\nPROPERTY NoNeedlessList\nCHECK_DEADLOCK FALSE\n"

var c20ImpAB = map[string][]string{"a": {"b"}, "b": {}}
var c20AB = c20Cfg{Pkgs: []string{"a", "b"}, Deps: map[string][]string{"a": {"b"}, "b": {}}, Imports: c20ImpAB, Skip: map[string]bool{}, Invalid: map[string]bool{}}
var c20ABskip = c20Cfg{Pkgs: []string{"a", "b"}, Deps: map[string][]string{"a": {"b"}, "b": {}}, Imports: c20ImpAB, Skip: map[string]bool{"b": true}, Invalid: map[string]bool{}}
var c20ABinv = c20Cfg{Pkgs: []string{"a", "b"}, Deps: map[string][]string{"a": {"b"}, "b": {}}, Imports: c20ImpAB, Skip: map[string]bool{}, Invalid: map[string]bool{"b": true}}

// a imports b, b imports c: .Deps of a is the transitive closure [b c], .Imports only [b]
var c20ABC = c20Cfg{Pkgs: []string{"a", "b", "c"}, Deps: map[string][]string{"a": {"b", "c"}, "b": {"c"}, "c": {}},
	Imports: map[string][]string{"a": {"b"}, "b": {"c"}, "c": {}}, Skip: map[string]bool{}, Invalid: map[string]bool{}}

type c20Case struct {
	Conf  string    `json:"conf"`
	Steps []c20Step `json:"steps"`
}

func c20ConfByName(n string) c20Cfg {
	switch n {
	case "ABskip":
		return c20ABskip
	case "ABinv":
		return c20ABinv
	case "ABC":
		return c20ABC
	}
	return c20AB
}

func runC20(tier, replay string) {
	run := ev.Start("C20", tier, "model_checking")
	var err error
	c20Srv, err = c20StartServer()
	if err != nil {
		run.Infra(err)
	}
	defer os.RemoveAll(filepath.Dir(c20Srv.sock))

	if replay != "" {
		var c c20Case
		if err := loadReplay(replay, &c); err != nil {
			run.Infra(err)
		}
		m, err := c20Replay(c20ConfByName(c.Conf), c.Steps)
		if err != nil {
			run.Infra(err)
		}
		if m != nil {
			run.Fail(m.Key, m.What, c)
		}
		run.Eval("replay")
		run.Eval("replay2")
		run.Set("states", 1)
		run.Set("transitions", 1)
		run.Set("traces_validated_against_impl", 1)
		run.Sample(c)
		run.Finish()
	}

	var states, transitions, replays int64
	var mu sync.Mutex
	thorough := tier == "thorough"
	t0 := time.Now()

	// 1. design check: all interleavings of two callers with environment steps
	{
		maxEnv, maxCalls := 2, 2
		if thorough {
			maxEnv, maxCalls = 3, 3
		}
		cfg := "SPECIFICATION Spec\n" + c20Constants(`{"a","b"}`, "{1,2}", "DepsAB", "{}", "{}", false, maxEnv, maxCalls, 0, "design") + "VIEW View\n" + c20Invs
		res, err := tlc.Run(tlc.Opts{SpecDir: SpecDir, Module: "Cache", Cfg: cfg, Workers: tierWorkers(tier), Heavy: true, HeapMB: 8192, Timeout: 40 * time.Minute})
		if err != nil {
			run.Infra(err)
		}
		if res.Violation {
			run.Infra(fmt.Errorf("Cache.tla: the design violates a property (specification defect):\n%s", res.ErrText))
		}
		states += res.Distinct
		transitions += res.Generated
		run.Set("design_states_two_callers", res.Distinct)
		// the defect the property forbids must be refutable
		cfg2 := "SPECIFICATION Spec\n" + c20Constants(`{"a","b"}`, "{1}", "DepsAB", "{}", "{}", true, 3, 2, 0, "design") + "VIEW View\n" + c20Invs
		res2, err := tlc.Run(tlc.Opts{SpecDir: SpecDir, Module: "Cache", Cfg: cfg2, Workers: 2, Timeout: 10 * time.Minute})
		if err != nil {
			run.Infra(err)
		}
		if !res2.Violation {
			run.Infra(fmt.Errorf("vacuity: StaleBug=TRUE is not refuted by TLC"))
		}
		run.Set("sabotaged_model_refuted", "StaleBug (stale file served after a failed listing)")
	}

	// 2. gated behaviours forced on the real cache
	confs := []c20Conf{
		{name: "AB", cfg: c20AB, edges: true, tla: c20Constants(`{"a","b"}`, "{1}", "DepsAB", "{}", "{}", false, 2, 2, 0, "gated")},
		{name: "ABskip", cfg: c20ABskip, edges: true, tla: c20Constants(`{"a","b"}`, "{1}", "DepsAB", `{"b"}`, "{}", false, 1, 2, 0, "gated")},
		{name: "ABinv", cfg: c20ABinv, edges: true, tla: c20Constants(`{"a","b"}`, "{1}", "DepsAB", "{}", `{"b"}`, false, 1, 2, 0, "gated")},
		{name: "AB", cfg: c20AB, edges: true, tla: c20Constants(`{"a","b"}`, "{1}", "DepsAB", "{}", "{}", false, 0, 2, 3, "gated")},
		{name: "ABC", cfg: c20ABC, edges: true, tla: c20Constants(`{"a","b","c"}`, "{1}", "DepsChain", "{}", "{}", false, 0, 3, 3, "gated", `{"Save","Load","Restart"}`)},
		{name: "AB", cfg: c20AB, simulate: 25, depth: 120, tla: c20Constants(`{"a","b"}`, "{1,2}", "DepsAB", "{}", "{}", false, 3, 4, 3, "gated")},
		{name: "ABC", cfg: c20ABC, simulate: 15, depth: 160, tla: c20Constants(`{"a","b","c"}`, "{1,2}", "DepsChain", "{}", "{}", false, 3, 4, 3, "gated")},
	}
	if thorough {
		confs = []c20Conf{
			{name: "AB", cfg: c20AB, edges: true, tla: c20Constants(`{"a","b"}`, "{1}", "DepsAB", "{}", "{}", false, 2, 3, 0, "gated")},
			{name: "AB", cfg: c20AB, edges: true, tla: c20Constants(`{"a","b"}`, "{1,2}", "DepsAB", "{}", "{}", false, 1, 2, 0, "gated")},
			{name: "ABskip", cfg: c20ABskip, edges: true, tla: c20Constants(`{"a","b"}`, "{1}", "DepsAB", `{"b"}`, "{}", false, 2, 2, 2, "gated")},
			{name: "ABinv", cfg: c20ABinv, edges: true, tla: c20Constants(`{"a","b"}`, "{1}", "DepsAB", "{}", `{"b"}`, false, 2, 2, 2, "gated")},
			{name: "AB", cfg: c20AB, edges: true, tla: c20Constants(`{"a","b"}`, "{1}", "DepsAB", "{}", "{}", false, 1, 2, 3, "gated")},
			{name: "ABC", cfg: c20ABC, edges: true, tla: c20Constants(`{"a","b","c"}`, "{1}", "DepsChain", "{}", "{}", false, 1, 3, 3, "gated", `{"Save","Load","Restart"}`)},
			{name: "ABC", cfg: c20ABC, edges: true, tla: c20Constants(`{"a","b","c"}`, "{1}", "DepsChain", "{}", "{}", false, 0, 3, 3, "gated")},
			{name: "AB", cfg: c20AB, simulate: 500, depth: 160, tla: c20Constants(`{"a","b"}`, "{1,2}", "DepsAB", "{}", "{}", false, 4, 6, 4, "gated")},
			{name: "ABC", cfg: c20ABC, simulate: 400, depth: 200, tla: c20Constants(`{"a","b","c"}`, "{1,2}", "DepsChain", "{}", "{}", false, 4, 6, 4, "gated")},
		}
	}
	for ci, cf := range confs {
		var cases [][]c20Step
		opts := tlc.Opts{SpecDir: SpecDir, Module: "Cache", Workers: 1, Timeout: 30 * time.Minute, HeapMB: 4096}
		if cf.edges {
			opts.Cfg = "SPECIFICATION Spec\n" + cf.tla + "VIEW View\n" + c20Invs + "PROPERTY EmitEdge\n"
			opts.OnJSON = func(l string) {
				var e c20Edge
				if json.Unmarshal([]byte(l), &e) == nil && e.Step.A != "" {
					cases = append(cases, append(e.Pre, e.Step))
				}
			}
		} else {
			// simulation: print the behaviour when it is complete
			opts.Cfg = "SPECIFICATION Spec\n" + cf.tla + "INVARIANTS TypeOK EntryConsistent FreshServe ServedIsTarget ListFailureIsError GarbageNeverServed EmitDone\nCHECK_DEADLOCK FALSE\n"
			opts.Simulate = fmt.Sprintf("num=%d", cf.simulate)
			opts.Depth = cf.depth
			opts.Seed = run.Seed + int64(ci)
			opts.OnJSON = func(l string) {
				var st []c20Step
				if json.Unmarshal([]byte(l), &st) == nil && len(st) > 0 {
					cases = append(cases, st)
				}
			}
		}
		res, err := tlc.Run(opts)
		if err != nil {
			run.Infra(err)
		}
		if res.Violation {
			run.Infra(fmt.Errorf("Cache.tla (%s): property violated in gated mode (specification defect):\n%s", cf.name, res.ErrText))
		}
		if len(cases) == 0 {
			run.Infra(fmt.Errorf("configuration %d (%s) generated no behaviour", ci, cf.name))
		}
		states += res.Distinct
		transitions += res.Generated
		if cf.edges {
			// a behaviour that is a proper prefix of another one's `pre` is covered by it: replay only maximal ones
			cases = c20Maximal(cases)
		}
		var infra error
		parallelN(8, len(cases), func(i int) {
			m, err := c20Replay(cf.cfg, cases[i])
			if err != nil {
				mu.Lock()
				infra = err
				mu.Unlock()
				return
			}
			id := fmt.Sprintf("%d/", ci)
			for _, s := range cases[i] {
				if s.A != "silent" {
					id += s.A[:1] + s.P + strconv.Itoa(s.V+s.R) + s.M
				}
			}
			run.Eval(id)
			if m != nil {
				run.Fail(m.Key, m.What+fmt.Sprintf(" [configuration %s]", cf.name), c20Case{Conf: cf.name, Steps: cases[i]})
			}
		})
		if infra != nil {
			run.Infra(infra)
		}
		replays += int64(len(cases))
		run.Set(fmt.Sprintf("conf%d_%s", ci, cf.name), fmt.Sprintf("%d behaviours, tlc %d distinct states, %.1fs since start", len(cases), res.Distinct, time.Since(t0).Seconds()))
		if len(cases) > 3 {
			run.Sample(map[string]any{"configuration": cf.name, "behaviour": cases[len(cases)/2]})
		}
	}
	run.Set("states", states)
	run.Set("transitions", transitions)
	run.Set("traces_validated_against_impl", replays)
	run.Set("rule", "a case = one TLC-generated behaviour (maximal transition-tour path of the gated reduced graph, or a simulated behaviour) forced on the real cache.Impl through gates at every callback; distinct = distinct sequence of observable actions")
	run.Assume("fingerprints do not change between a `go list` and the hash calls that label its result (AtomicPrepareEnv)")
	run.Assume("an export file is identified by the fingerprints of the package and its tracked dependencies at listing time")
	run.Finish()
}

// c20Maximal drops behaviours that are a proper prefix of another behaviour.
func c20Maximal(cases [][]c20Step) [][]c20Step {
	isPrefix := map[[20]byte]bool{}
	full := make([][20]byte, len(cases))
	for ci, c := range cases {
		var h [20]byte
		for n, st := range c {
			b, _ := json.Marshal(st)
			h = sha1.Sum(append(h[:], b...))
			if n < len(c)-1 {
				isPrefix[h] = true
			}
		}
		full[ci] = h
	}
	var out [][]c20Step
	seen := map[[20]byte]bool{}
	for ci, c := range cases {
		k := full[ci]
		if !isPrefix[k] && !seen[k] {
			seen[k] = true
			out = append(out, c)
		}
	}
	return out
}
