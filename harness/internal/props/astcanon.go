package props

// Typed canonical form of Go source: the syntax tree without positions, comments and redundant
// parentheses, every identifier annotated with the entity go/types resolves it to.  Two programs
// are "the same program up to formatting, redundant parentheses and import naming" (C02) iff their
// canonical forms are equal; a printed tree is "structurally identical" to its source tree (C12)
// iff the untyped canonical forms are equal.

import (
	"fmt"
	"go/ast"
	"go/parser"
	"go/printer"
	"go/token"
	"go/types"
	"reflect"
	"regexp"
	"sort"
	"strings"
)

type canonPkg struct {
	fset  *token.FileSet
	file  *ast.File
	info  *types.Info
	terrs []string
	// ordinal of every local object in declaration order, per enclosing top-level declaration
	ord map[types.Object]int
}

// canonParse parses src and (when imp != nil) type-checks it; type errors are collected, not fatal.
func canonParse(src string, imp types.Importer) (*canonPkg, error) {
	c := &canonPkg{fset: token.NewFileSet()}
	f, err := parser.ParseFile(c.fset, "c.go", src, parser.SkipObjectResolution)
	if err != nil {
		return nil, err
	}
	c.file = f
	if imp != nil {
		c.info = &types.Info{Uses: map[*ast.Ident]types.Object{}, Defs: map[*ast.Ident]types.Object{}, Implicits: map[ast.Node]types.Object{}}
		conf := types.Config{Importer: imp, Error: func(e error) { c.terrs = append(c.terrs, e.Error()) }}
		conf.Check(f.Name.Name, c.fset, []*ast.File{f}, c.info)
	}
	return c, nil
}

// Func returns the canonical form of the top-level function (or method "T.m") called name, "" if absent.
func (c *canonPkg) Func(name string) string {
	for _, d := range c.file.Decls {
		if fd, ok := d.(*ast.FuncDecl); ok && canonFuncName(fd) == name {
			return c.Node(fd)
		}
	}
	return ""
}

func canonFuncName(fd *ast.FuncDecl) string {
	if fd.Recv != nil && len(fd.Recv.List) == 1 {
		t := fd.Recv.List[0].Type
		for {
			switch x := t.(type) {
			case *ast.StarExpr:
				t = x.X
				continue
			case *ast.ParenExpr:
				t = x.X
				continue
			case *ast.IndexExpr:
				t = x.X
				continue
			case *ast.IndexListExpr:
				t = x.X
				continue
			}
			break
		}
		if id, ok := t.(*ast.Ident); ok {
			return id.Name + "." + fd.Name.Name
		}
	}
	return fd.Name.Name
}

// Decls returns the canonical forms of all top-level declarations; imports are dropped (import naming
// is free), the rest is sorted when sorted is set (declaration order of a package is not significant).
func (c *canonPkg) Decls(sorted bool) []string {
	var out []string
	for _, d := range c.file.Decls {
		if gd, ok := d.(*ast.GenDecl); ok {
			if gd.Tok == token.IMPORT {
				continue
			}
			// one entry per spec: grouping of declarations is formatting
			for _, s := range gd.Specs {
				out = append(out, gd.Tok.String()+" "+c.Node(s))
			}
			continue
		}
		out = append(out, c.Node(d))
	}
	if sorted {
		sort.Strings(out)
	}
	return out
}

func (c *canonPkg) Node(n ast.Node) string {
	var b strings.Builder
	c.ord = map[types.Object]int{}
	c.dump(&b, reflect.ValueOf(n))
	return b.String()
}

var canonSkip = map[string]bool{"Doc": true, "Comment": true, "Comments": true, "Obj": true, "Scope": true, "Unresolved": true, "Implicit": true,
	"Lparen": true, "Rparen": true, "Lbrace": true, "Rbrace": true, "Lbrack": true, "Rbrack": true, "Incomplete": true, "FileStart": true, "FileEnd": true, "GoVersion": true}

func (c *canonPkg) ident(id *ast.Ident) string {
	if c.info == nil {
		return id.Name
	}
	obj := c.info.Uses[id]
	def := false
	if obj == nil {
		obj = c.info.Defs[id]
		def = obj != nil
	}
	if obj == nil {
		return id.Name + "@?"
	}
	switch o := obj.(type) {
	case *types.PkgName:
		return "import(" + o.Imported().Path() + ")"
	}
	switch {
	case obj.Pkg() == nil:
		return id.Name + "@universe"
	case obj.Parent() == obj.Pkg().Scope():
		if obj.Pkg().Path() != c.file.Name.Name && obj.Pkg().Name() != c.file.Name.Name {
			return id.Name + "@" + obj.Pkg().Path()
		}
		return id.Name + "@pkg"
	case obj.Parent() == nil:
		// fields and methods
		if obj.Pkg().Name() != c.file.Name.Name {
			return id.Name + "@member(" + obj.Pkg().Path() + ")"
		}
		return id.Name + "@member"
	}
	n, ok := c.ord[obj]
	if !ok {
		n = len(c.ord) + 1
		c.ord[obj] = n
	}
	if def {
		return fmt.Sprintf("%s@def%d", id.Name, n)
	}
	return fmt.Sprintf("%s@local%d", id.Name, n)
}

func (c *canonPkg) dump(b *strings.Builder, v reflect.Value) {
	if !v.IsValid() {
		b.WriteString("nil")
		return
	}
	switch v.Kind() {
	case reflect.Interface:
		if v.IsNil() {
			b.WriteString("nil")
			return
		}
		c.dump(b, v.Elem())
	case reflect.Ptr:
		if v.IsNil() {
			b.WriteString("nil")
			return
		}
		switch n := v.Interface().(type) {
		case *ast.ParenExpr:
			// parentheses around expressions are redundant in a tree; around types too
			c.dump(b, reflect.ValueOf(n.X))
			return
		case *ast.Ident:
			b.WriteString(c.ident(n))
			return
		case *ast.BasicLit:
			b.WriteString(n.Kind.String() + ":" + n.Value)
			return
		case *ast.IfStmt:
			// else { if ... } and else if ... are the same nesting
			if blk, ok := n.Else.(*ast.BlockStmt); ok && len(blk.List) == 1 {
				if inner, ok := blk.List[0].(*ast.IfStmt); ok {
					cp := *n
					cp.Else = inner
					c.dumpStruct(b, reflect.ValueOf(&cp).Elem())
					return
				}
			}
		case *ast.Field:
			// a, b T  ==  a T, b T
			if len(n.Names) > 1 {
				for i, nm := range n.Names {
					if i > 0 {
						b.WriteString(" ")
					}
					cp := *n
					cp.Names = []*ast.Ident{nm}
					c.dumpStruct(b, reflect.ValueOf(&cp).Elem())
				}
				return
			}
		case *ast.InterfaceType:
			if n.Methods == nil || len(n.Methods.List) == 0 {
				if c.info == nil {
					b.WriteString("any")
				} else {
					b.WriteString("any@universe")
				}
				return
			}
		}
		c.dumpStruct(b, v.Elem())
	case reflect.Slice:
		b.WriteString("[")
		for i := 0; i < v.Len(); i++ {
			if i > 0 {
				b.WriteString(" ")
			}
			c.dump(b, v.Index(i))
		}
		b.WriteString("]")
	case reflect.Struct:
		c.dumpStruct(b, v)
	case reflect.Bool:
		fmt.Fprintf(b, "%v", v.Bool())
	case reflect.String:
		fmt.Fprintf(b, "%q", v.String())
	case reflect.Int, reflect.Int64:
		if t, ok := v.Interface().(token.Token); ok {
			b.WriteString(t.String())
		} else if _, ok := v.Interface().(token.Pos); ok {
			// positions carry no structure, except "is set" for ellipsis / arrow style fields handled by name
			if v.Int() != 0 {
				b.WriteString("+")
			} else {
				b.WriteString("-")
			}
		} else {
			fmt.Fprintf(b, "%d", v.Int())
		}
	default:
		fmt.Fprintf(b, "<%s>", v.Kind())
	}
}

// position-typed fields whose being set is structure (f(x...), chan direction arrows are in Dir, := vs = is Tok)
var canonPosKeep = map[string]bool{"Ellipsis": true, "Assign": true}

func (c *canonPkg) dumpStruct(b *strings.Builder, v reflect.Value) {
	t := v.Type()
	b.WriteString("(" + t.Name())
	for i := 0; i < t.NumField(); i++ {
		f := t.Field(i)
		if canonSkip[f.Name] {
			continue
		}
		if f.Type == reflect.TypeOf(token.Pos(0)) {
			if !(canonPosKeep[f.Name] && (t.Name() == "CallExpr" || t.Name() == "TypeSpec")) {
				continue
			}
		}
		fv := v.Field(i)
		// an empty result / type-parameter list and no list are the same tree
		if fl, ok := fv.Interface().(*ast.FieldList); ok && (f.Name == "Results" || f.Name == "TypeParams") && (fl == nil || len(fl.List) == 0) {
			b.WriteString(" " + f.Name + "=nil")
			continue
		}
		// the any@universe identifier produced for interface{} makes `any` and `interface{}` equal: nothing else to do
		b.WriteString(" " + f.Name + "=")
		c.dump(b, fv)
	}
	b.WriteString(")")
}

// canonDiff points at the first difference of two canonical forms (for messages).
func canonDiff(a, b string) string {
	i := 0
	for i < len(a) && i < len(b) && a[i] == b[i] {
		i++
	}
	lo := i - 60
	if lo < 0 {
		lo = 0
	}
	cut := func(s string) string {
		hi := i + 80
		if hi > len(s) {
			hi = len(s)
		}
		if lo > len(s) {
			return ""
		}
		return s[lo:hi]
	}
	return fmt.Sprintf("first difference at %d: …%s…  vs  …%s…", i, cut(a), cut(b))
}

var posPrefixRe = regexp.MustCompile(`^[\w./-]+:\d+:\d+: `)

// stripPos removes the file:line:col prefix of a go/types or go/parser message (finding keys must not depend on positions).
func stripPos(msg string) string { return posPrefixRe.ReplaceAllString(msg, "") }

// Decl returns the canonical form of the top-level declaration (function, or var/const/type spec) called name.
func (c *canonPkg) Decl(name string) string {
	for _, d := range c.file.Decls {
		switch x := d.(type) {
		case *ast.FuncDecl:
			if canonFuncName(x) == name {
				return c.Node(x)
			}
		case *ast.GenDecl:
			for _, s := range x.Specs {
				switch sp := s.(type) {
				case *ast.ValueSpec:
					if len(sp.Names) > 0 && sp.Names[0].Name == name {
						return x.Tok.String() + " " + c.Node(sp)
					}
				case *ast.TypeSpec:
					if sp.Name.Name == name {
						return "type " + c.Node(sp)
					}
				}
			}
		}
	}
	return ""
}

// Text returns the source text of the top-level declaration called name (for messages).
func (c *canonPkg) Text(name string) string {
	for _, d := range c.file.Decls {
		if canonDeclNameOf(d) == name {
			var b strings.Builder
			printer.Fprint(&b, c.fset, d)
			return b.String()
		}
	}
	return ""
}

func canonDeclNameOf(d ast.Decl) string {
	switch x := d.(type) {
	case *ast.FuncDecl:
		return canonFuncName(x)
	case *ast.GenDecl:
		for _, s := range x.Specs {
			if vs, ok := s.(*ast.ValueSpec); ok && len(vs.Names) > 0 {
				return vs.Names[0].Name
			}
			if ts, ok := s.(*ast.TypeSpec); ok {
				return ts.Name.Name
			}
		}
	}
	return ""
}
