package props

// C12: printing is lossless and canonical.
//  A. spec/Print.tla: expression trees -> predicted token sequence and indispensable blanks (TLC checks
//     Parse(Lex(Layout(Tokens(t)))) = t, sabotage guards NoBlank / NoParens).  Every tree is turned into a
//     position-less go/ast tree without parentheses and printed with the forked printer (VerifFormatNode):
//     go/scanner tokens = predicted tokens, go/parser reads the same tree back, go/format leaves the text unchanged.
//  B. trees the builder holds: the function bodies of Flow.tla built with the real CodeBuilder; the tree in
//     memory (Package.ASTFile) and the tree parsed from Package.WriteTo are structurally identical and the
//     text is a fixed point of go/format.
//  C. spec/Comments.tla: the statement-comment protocol (see c12_comments.go).

import (
	"bytes"
	"encoding/json"
	"fmt"
	"go/ast"
	"go/format"
	"go/parser"
	"go/scanner"
	"go/token"
	"os"
	"path/filepath"
	"reflect"
	"runtime"
	"sort"
	"strings"
	"sync"
	"time"

	"github.com/goplus/gogen"

	"verif/harness/internal/ev"
	"verif/harness/internal/tlc"
)

func init() { Registry["C12"] = runC12 }

type prTree struct {
	K  string  `json:"k"`
	N  string  `json:"n,omitempty"`
	Op string  `json:"op,omitempty"`
	A  *prTree `json:"a,omitempty"`
	B  *prTree `json:"b,omitempty"`
}

type prPoint struct {
	Tree   *prTree  `json:"tree"`
	Tokens []string `json:"tokens"`
	Blanks []bool   `json:"blanks"`
}

var prTok = map[string]token.Token{"||": token.LOR, "&&": token.LAND, "==": token.EQL, "<": token.LSS, "+": token.ADD, "-": token.SUB, "|": token.OR, "^": token.XOR,
	"*": token.MUL, "/": token.QUO, "<<": token.SHL, "&": token.AND, "&^": token.AND_NOT, "!": token.NOT, "<-": token.ARROW}

func (t *prTree) ast() ast.Expr {
	switch t.K {
	case "id":
		return &ast.Ident{Name: t.N}
	case "bin":
		return &ast.BinaryExpr{X: t.A.ast(), Op: prTok[t.Op], Y: t.B.ast()}
	case "un":
		if t.Op == "*" {
			return &ast.StarExpr{X: t.A.ast()}
		}
		return &ast.UnaryExpr{Op: prTok[t.Op], X: t.A.ast()}
	case "call":
		return &ast.CallExpr{Fun: t.A.ast(), Args: []ast.Expr{t.B.ast()}}
	case "idx":
		return &ast.IndexExpr{X: t.A.ast(), Index: t.B.ast()}
	case "sel":
		return &ast.SelectorExpr{X: t.A.ast(), Sel: &ast.Ident{Name: "m"}}
	}
	panic("harness: unknown tree node " + t.K)
}

func (t *prTree) shape() string {
	switch t.K {
	case "id":
		return "id"
	case "bin":
		return "(" + t.A.shape() + " " + t.Op + " " + t.B.shape() + ")"
	case "un":
		return t.Op + t.A.shape()
	case "call":
		return t.A.shape() + "()"
	case "idx":
		return t.A.shape() + "[]"
	case "sel":
		return t.A.shape() + ".m"
	}
	return "?"
}

func scanTokens(src string) ([]string, error) {
	var s scanner.Scanner
	fset := token.NewFileSet()
	var errs []string
	s.Init(fset.AddFile("", fset.Base(), len(src)), []byte(src), func(pos token.Position, msg string) { errs = append(errs, msg) }, 0)
	var out []string
	for {
		_, tok, lit := s.Scan()
		if tok == token.EOF {
			break
		}
		if tok == token.SEMICOLON && lit == "\n" {
			continue
		}
		if lit != "" && (tok == token.IDENT || tok.IsLiteral()) {
			out = append(out, lit)
		} else {
			out = append(out, tok.String())
		}
	}
	if len(errs) > 0 {
		return out, fmt.Errorf("%s", strings.Join(errs, "; "))
	}
	return out, nil
}

func prCheckBatch(run *ev.Run, pts []prPoint, stats *prStats) {
	// one file for the gofmt fixed-point check of the whole batch
	file := &ast.File{Name: &ast.Ident{Name: "p"}}
	for _, p := range pts {
		e := p.Tree.ast()
		want := canonUntyped(e)
		var buf bytes.Buffer
		if err := gogen.VerifFormatNode(&buf, e); err != nil {
			run.Fail("print-fails/"+p.Tree.shape(), fmt.Sprintf("the printer fails on %s: %v", p.Tree.shape(), err), p)
			continue
		}
		text := buf.String()
		run.Eval("expr:" + strings.Join(p.Tokens, " "))
		toks, serr := scanTokens(text)
		back, perr := parser.ParseExpr(text)
		if serr != nil || perr != nil {
			run.Fail("printed-text-does-not-parse/"+p.Tree.shape(), fmt.Sprintf("tree %s is printed as `%s`: %v %v", p.Tree.shape(), text, serr, perr), p)
			continue
		}
		if got := canonUntyped(back); got != want {
			run.Fail("reads-back-as-another-tree/"+p.Tree.shape(), fmt.Sprintf("tree %s is printed as `%s`, which reads back as another tree: %s", p.Tree.shape(), text, canonDiff(want, got)), p)
			continue
		}
		if strings.Join(toks, " ") != strings.Join(p.Tokens, " ") {
			// same tree, other tokens: only redundant parentheses are allowed to differ
			if stripParens(toks) == stripParens(p.Tokens) {
				stats.add(&stats.extraParens)
			} else {
				run.Fail("token-stream-differs/"+p.Tree.shape(), fmt.Sprintf("tree %s: printed tokens `%s`, Print.tla predicts `%s`", p.Tree.shape(), strings.Join(toks, " "), strings.Join(p.Tokens, " ")), p)
				continue
			}
		}
		file.Decls = append(file.Decls, &ast.GenDecl{Tok: token.VAR, Specs: []ast.Spec{&ast.ValueSpec{Names: []*ast.Ident{{Name: "_"}}, Values: []ast.Expr{p.Tree.ast()}}}})
	}
	if len(file.Decls) == 0 {
		return
	}
	var buf bytes.Buffer
	if err := gogen.VerifFormatNode(&buf, file); err != nil {
		run.Fail("print-fails/file", fmt.Sprintf("the printer fails on a file of %d declarations: %v", len(file.Decls), err), pts[0])
		return
	}
	src := buf.Bytes()
	fm, err := format.Source(src)
	if err != nil {
		run.Fail("printed-file-does-not-parse", fmt.Sprintf("go/format rejects the printed file: %v", err), pts[0])
		return
	}
	if !bytes.Equal(fm, src) {
		// find the first differing line and the declaration it belongs to
		a, b := strings.Split(string(src), "\n"), strings.Split(string(fm), "\n")
		i := 0
		for i < len(a) && i < len(b) && a[i] == b[i] {
			i++
		}
		la, lb := "", ""
		if i < len(a) {
			la = a[i]
		}
		if i < len(b) {
			lb = b[i]
		}
		run.Fail("not-a-gofmt-fixed-point/expression", fmt.Sprintf("go/format changes the printed text: line %d `%s` becomes `%s`", i+1, la, lb), pts[0])
	}
}

func stripParens(toks []string) string {
	var out []string
	for _, t := range toks {
		if t != "(" && t != ")" {
			out = append(out, t)
		}
	}
	return strings.Join(out, " ")
}

func canonUntyped(n ast.Node) string {
	c := &canonPkg{}
	return c.Node(n)
}

type prStats struct {
	mu          sync.Mutex
	extraParens int
}

func (s *prStats) add(p *int) { s.mu.Lock(); *p++; s.mu.Unlock() }

func prCfg(ids, bin, un, suf string, depth int, noBlank, noParens bool) string {
	return fmt.Sprintf("INIT Init\nNEXT Next\nCONSTANTS\n  Ids = %s\n  BinOps = %s\n  UnOps = %s\n  Suffixes = %s\n  Depth = %d\n  NoBlank = %v\n  NoParens = %v\nINVARIANTS RoundTrip MinimalBlanks Emit\nCHECK_DEADLOCK FALSE\n",
		ids, bin, un, suf, depth, strings.ToUpper(fmt.Sprint(noBlank)), strings.ToUpper(fmt.Sprint(noParens)))
}

// ---------- B: trees the builder holds ----------

func prBuilderBatch(run *ev.Run, bodies []flowBody, conf string) int {
	fb := newFlowBuilder()
	n := 0
	for _, b := range bodies {
		if _, fail := fb.build(b.Ops); fail != "" {
			// not a printing matter (C10 / C02 judge builds); start afresh
			fb = newFlowBuilder()
			continue
		}
		n++
		run.Eval("body:" + flowShape(b.Ops))
	}
	if n == 0 {
		return 0
	}
	held := canonUntyped(fb.pkg.ASTFile())
	var out bytes.Buffer
	if err := fb.pkg.WriteTo(&out); err != nil {
		run.Fail("write-fails", fmt.Sprintf("WriteTo: %v [%s]", err, conf), bodies[0])
		return n
	}
	fset := token.NewFileSet()
	f, err := parser.ParseFile(fset, "o.go", out.Bytes(), parser.SkipObjectResolution)
	if err != nil {
		run.Fail("printed-text-does-not-parse/builder", fmt.Sprintf("%v [%s]", stripPos(err.Error()), conf), bodies[0])
		return n
	}
	if got := canonUntyped(f); got != held {
		run.Fail("reads-back-as-another-tree/builder", fmt.Sprintf("the tree held by the package and the tree read back from its text differ [%s]: %s", conf, canonDiff(held, got)), bodies[0])
	}
	fm, err := format.Source(out.Bytes())
	if err != nil {
		run.Fail("printed-text-does-not-parse/builder", fmt.Sprintf("go/format: %v", err), bodies[0])
		return n
	}
	if !bytes.Equal(fm, out.Bytes()) {
		a, b := strings.Split(out.String(), "\n"), strings.Split(string(fm), "\n")
		i := 0
		for i < len(a) && i < len(b) && a[i] == b[i] {
			i++
		}
		ctx := ""
		if i < len(a) && i < len(b) {
			ctx = fmt.Sprintf("line %d `%s` becomes `%s`", i+1, a[i], b[i])
		}
		run.Fail("not-a-gofmt-fixed-point/builder", fmt.Sprintf("go/format changes the text written by the package [%s]: %s", conf, ctx), bodies[0])
	}
	return n
}

func runC12(tier, replay string) {
	run := ev.Start("C12", tier, "model_checking")
	stats := &prStats{}
	if replay != "" {
		var p prPoint
		var fl flowBody
		var cp cmtPoint
		var cf struct {
			File string `json:"corpus_file"`
		}
		if loadReplay(replay, &cf) == nil && cf.File != "" {
			prCorpusFile(run, filepath.Join(runtime.GOROOT(), "src", cf.File))
			run.Eval("x")
			run.Set("states", 1)
			run.Set("transitions", 1)
			run.Set("traces_validated_against_impl", 1)
			run.Finish()
		}
		var tpr struct {
			P    *tpPoint  `json:"typeparams"`
			List []tpPoint `json:"-"`
		}
		var tpl []tpPoint
		switch {
		case loadReplay(replay, &tpr) == nil && tpr.P != nil:
			tpCheck(run, []tpPoint{*tpr.P})
		case loadReplay(replay, &tpl) == nil && len(tpl) > 0 && len(tpl[0].C) > 0:
			tpCheck(run, tpl)
		case loadReplay(replay, &cp) == nil && len(cp.Ops) > 0 && cp.Kind == "comments":
			cmtCheck(run, cp)
		case loadReplay(replay, &fl) == nil && len(fl.Ops) > 0:
			prBuilderBatch(run, []flowBody{fl}, "replay")
		case loadReplay(replay, &p) == nil && p.Tree != nil:
			prCheckBatch(run, []prPoint{p}, stats)
		default:
			run.Infra(fmt.Errorf("cannot read replay file %s", replay))
		}
		run.Eval("x")
		run.Set("states", 1)
		run.Set("transitions", 1)
		run.Set("traces_validated_against_impl", 1)
		run.Finish()
	}
	// vacuity guards
	small := func(nb, np bool) string {
		return prCfg(`{"x"}`, `{"+","-","*"}`, `{"-","+"}`, `{"sel"}`, 2, nb, np)
	}
	for _, g := range []struct {
		name   string
		nb, np bool
	}{{"NoBlank", true, false}, {"NoParens", false, true}} {
		res, err := tlc.Run(tlc.Opts{SpecDir: SpecDir, Module: "Print", Cfg: strings.Replace(small(g.nb, g.np), " Emit", "", 1), Workers: 2, Timeout: 10 * time.Minute})
		if err != nil {
			run.Infra(err)
		}
		if !res.Violation {
			run.Infra(fmt.Errorf("Print.tla with %s = TRUE satisfies RoundTrip: the specification is vacuous", g.name))
		}
	}
	run.Set("sabotage", "Print.tla with NoBlank = TRUE and with NoParens = TRUE violates RoundTrip, as it must")
	type conf struct{ name, cfg string }
	confs := []conf{
		{"gluing-depth2", prCfg(`{"x","y"}`, `{"+","-","/","<","&","*"}`, `{"+","-","*","&","^","<-","!"}`, `{"call","idx","sel"}`, 2, false, false)},
		{"precedence-depth2", prCfg(`{"x"}`, `{"||","&&","==","<","+","|","*","<<","&^"}`, `{"-","!"}`, `{"call"}`, 2, false, false)},
		// depth 3 over few operators: a binary operand that is itself a unary expression below an index or a mixed-precedence
		// expression (the printer's compact mode: x[x & ^x], x + x&^x)
		{"compact-mode-depth3", prCfg(`{"x"}`, `{"+","&"}`, `{"^"}`, `{"idx"}`, 3, false, false)},
	}
	if tier == "thorough" {
		confs = append(confs,
			conf{"precedence-depth3", prCfg(`{"x"}`, `{"||","&&","==","+","*"}`, `{"-"}`, `{}`, 3, false, false)},
			conf{"gluing-depth3", prCfg(`{"x"}`, `{"-","/","<"}`, `{"-","*","&","^","<-"}`, `{"sel"}`, 3, false, false)})
	}
	var states, transitions, total int64
	for _, c := range confs {
		var pts []prPoint
		res, err := tlc.Run(tlc.Opts{SpecDir: SpecDir, Module: "Print", Cfg: c.cfg, Workers: tierWorkers(tier), Heavy: true, HeapMB: 8192, Timeout: 40 * time.Minute,
			OnJSON: func(l string) {
				var p prPoint
				if json.Unmarshal([]byte(l), &p) == nil && p.Tree != nil {
					pts = append(pts, p)
				}
			}})
		if err != nil {
			run.Infra(err)
		}
		if res.Violation {
			run.Infra(fmt.Errorf("Print.tla violates RoundTrip in %s:\n%s", c.name, res.ErrText))
		}
		if int64(len(pts)) != res.Distinct || len(pts) == 0 {
			run.Infra(fmt.Errorf("Print.tla %s: %d trees received, %d states", c.name, len(pts), res.Distinct))
		}
		var batches [][]prPoint
		for i := 0; i < len(pts); i += 500 {
			j := i + 500
			if j > len(pts) {
				j = len(pts)
			}
			batches = append(batches, pts[i:j])
		}
		parallelN(8, len(batches), func(i int) { prCheckBatch(run, batches[i], stats) })
		states += res.Distinct
		transitions += res.Generated
		total += int64(len(pts))
		run.Set("conf_"+c.name, fmt.Sprintf("%d expression trees", len(pts)))
		if len(pts) > 100 {
			p := pts[len(pts)/3]
			run.Sample(map[string]any{"tree": p.Tree.shape(), "predicted_tokens": strings.Join(p.Tokens, " ")})
		}
	}
	run.Set("extra_parentheses", stats.extraParens)
	// B: builder-held trees
	allK := `{"ifb","for","forcond","range","block","switch","tswitch","select","closure"}`
	allS := `{"ret","panic","spanic","call"}`
	allJ := `{"break","continue","goto","fgoto","label","fallthrough"}`
	fconfs := []flowConf{{name: "full-alphabet-5", cfg: flowCfg(5, 4, `{"L"}`, allK, allS, allJ, 3)},
		{name: "simple-statements-5", cfg: flowCfg(5, 3, `{"L"}`, `{"ifb","for","closure"}`, `{"ret","assign","define","incdec","send","defer","go","var"}`, `{}`, 3)},
		{name: "clause-trailing-label-9", cfg: flowCfg(9, 4, `{"L"}`, `{"switch","select"}`, `{"ret"}`, `{"fgoto","label"}`, 2)}}
	if tier == "thorough" {
		fconfs = []flowConf{{name: "full-alphabet-6", cfg: flowCfg(6, 5, `{"L"}`, allK, allS, allJ, 3)},
			{name: "if-else-block-panic-9", cfg: flowCfg(9, 6, `{"L"}`, `{"ifb","block"}`, `{"ret","panic","spanic"}`, `{}`, 2)},
			{name: "clause-trailing-label-9", cfg: flowCfg(9, 4, `{"L"}`, `{"switch","select"}`, `{"ret"}`, `{"fgoto","label"}`, 2)}}
	}
	for _, c := range fconfs {
		var mu sync.Mutex
		var batch []flowBody
		var wg sync.WaitGroup
		sem := make(chan struct{}, 12)
		var nb int64
		flush := func(b []flowBody) {
			wg.Add(1)
			sem <- struct{}{}
			go func() {
				defer func() { <-sem; wg.Done() }()
				v := prBuilderBatch(run, b, c.name)
				mu.Lock()
				nb += int64(v)
				mu.Unlock()
			}()
		}
		res, err := tlc.Run(tlc.Opts{SpecDir: SpecDir, Module: "Flow", Cfg: c.cfg, Workers: tierWorkers(tier), Heavy: true, HeapMB: 8192, Timeout: 40 * time.Minute,
			OnJSON: func(l string) {
				var b flowBody
				if json.Unmarshal([]byte(l), &b) != nil || len(b.Ops) == 0 {
					return
				}
				mu.Lock()
				batch = append(batch, b)
				var out []flowBody
				if len(batch) >= 200 {
					out, batch = batch, nil
				}
				mu.Unlock()
				if out != nil {
					flush(out)
				}
			}})
		if err != nil {
			run.Infra(err)
		}
		if res.Violation {
			run.Infra(fmt.Errorf("Flow.tla violates its laws in %s:\n%s", c.name, res.ErrText))
		}
		if len(batch) > 0 {
			flush(batch)
		}
		wg.Wait()
		if nb == 0 {
			run.Infra(fmt.Errorf("no builder-held tree was printed in %s", c.name))
		}
		states += res.Distinct
		transitions += res.Generated
		total += nb
		run.Set("builder_"+c.name, fmt.Sprintf("%d function bodies built, printed, read back and reformatted", nb))
	}
	// B2: builder-side parentheses: every placement of Headers.tla (composite literals in statement heads, also of
	// instantiated generic types): the text written by the package must parse back to the tree the builder built
	sth, trh, nh := hdrRun(run, tier)
	states, transitions, total = states+sth, transitions+trh, total+nh
	// E: type parameter lists of generic type declarations (TypeParams.tla): [P *int | string,]
	ste, tre, ne := tpRun(run, tier)
	states, transitions, total = states+ste, transitions+tre, total+ne
	// D: position-stripped standard-library files
	var files []string
	for _, dir := range []string{"sort", "strings", "go/ast", "go/token", "container/list", "container/heap", "errors", "bufio", "path", "text/tabwriter", "slices", "maps", "sync", "encoding/json", "go/printer", "go/types", "net/url", "time", "fmt", "regexp/syntax"} {
		m, _ := filepath.Glob(filepath.Join(runtime.GOROOT(), "src", dir, "*.go"))
		for _, f := range m {
			if !strings.HasSuffix(f, "_test.go") {
				files = append(files, f)
			}
		}
	}
	sort.Strings(files)
	if tier != "thorough" && len(files) > 60 {
		step := len(files) / 60
		var pick []string
		for i := 0; i < len(files); i += step {
			pick = append(pick, files[i])
		}
		files = pick
	}
	if _, err := os.Stat(filepath.Join(runtime.GOROOT(), "src", "sort", "sort.go")); err != nil {
		run.Infra(fmt.Errorf("standard library sources not found under %s", runtime.GOROOT()))
	}
	var cmu sync.Mutex
	ncorpus := 0
	parallelN(8, len(files), func(i int) {
		if prCorpusFile(run, files[i]) {
			cmu.Lock()
			ncorpus++
			cmu.Unlock()
		}
	})
	run.Set("corpus", fmt.Sprintf("%d standard-library files printed without positions, read back and reformatted (supplementary)", ncorpus))
	total += int64(ncorpus)
	// C: the statement-comment protocol
	st, tr, n := cmtRun(run, tier)
	states, transitions, total = states+st, transitions+tr, total+n
	run.Set("states", states)
	run.Set("transitions", transitions)
	run.Set("traces_validated_against_impl", total)
	run.Set("exhaustive", true)
	run.Set("rule", "a case = one expression tree of Print.tla printed by the forked printer (tokens, read-back tree, gofmt fixed point), one function body of Flow.tla built and written by the package (held tree = read-back tree, gofmt fixed point), or one commented statement list of Comments.tla; distinct = distinct tree / operation sequence")
	run.Assume("gofmt's layout is not modelled: canonicality is the predicate 'go/format leaves the text unchanged' evaluated on specification-enumerated trees")
	run.Finish()
}

// ---------- D: position-stripped standard-library files (supplementary, not specification-derived) ----------

// stripPositions zeroes every token.Pos of the tree (keeping "is set" for the two positions that carry
// structure: f(xs...) and type alias =), and removes comments.
func stripPositions(n ast.Node) {
	var walk func(v reflect.Value)
	posT := reflect.TypeOf(token.Pos(0))
	walk = func(v reflect.Value) {
		switch v.Kind() {
		case reflect.Ptr, reflect.Interface:
			if !v.IsNil() {
				walk(v.Elem())
			}
		case reflect.Slice:
			for i := 0; i < v.Len(); i++ {
				walk(v.Index(i))
			}
		case reflect.Struct:
			t := v.Type()
			for i := 0; i < t.NumField(); i++ {
				f := t.Field(i)
				fv := v.Field(i)
				if !fv.CanSet() {
					continue
				}
				switch {
				case f.Name == "Obj" || f.Name == "Scope" || f.Name == "Unresolved":
					fv.Set(reflect.Zero(f.Type))
				case f.Type == reflect.TypeOf((*ast.CommentGroup)(nil)) || f.Name == "Comments":
					fv.Set(reflect.Zero(f.Type))
				case f.Type == posT:
					keep := (t.Name() == "CallExpr" && f.Name == "Ellipsis") || (t.Name() == "TypeSpec" && f.Name == "Assign")
					if keep && fv.Int() != 0 {
						fv.SetInt(1)
					} else {
						fv.SetInt(0)
					}
				default:
					walk(fv)
				}
			}
		}
	}
	walk(reflect.ValueOf(n))
}

func prCorpusFile(run *ev.Run, path string) bool {
	fset := token.NewFileSet()
	f, err := parser.ParseFile(fset, path, nil, parser.SkipObjectResolution)
	if err != nil {
		return false
	}
	rel := path[strings.Index(path, "/src/")+5:]
	want := canonUntyped(f)
	stripPositions(f)
	run.Eval("corpus:" + rel)
	var buf bytes.Buffer
	var perr error
	func() {
		defer func() {
			if e := recover(); e != nil {
				perr = fmt.Errorf("panic: %v", e)
			}
		}()
		perr = gogen.VerifFormatNode(&buf, f)
	}()
	rep := map[string]any{"corpus_file": rel}
	if perr != nil {
		run.Fail("corpus/print-fails", fmt.Sprintf("%s without positions: %v", rel, perr), rep)
		return true
	}
	back, err := parser.ParseFile(token.NewFileSet(), "o.go", buf.Bytes(), parser.SkipObjectResolution)
	if err != nil {
		run.Fail("corpus/printed-text-does-not-parse/"+firstWord(stripPos(err.Error())), fmt.Sprintf("%s printed without positions does not parse: %v", rel, err), rep)
		return true
	}
	if got := canonUntyped(back); got != want {
		run.Fail("corpus/reads-back-as-another-tree", fmt.Sprintf("%s printed without positions reads back as another tree: %s", rel, canonDiff(want, got)), rep)
		return true
	}
	fm, err := format.Source(buf.Bytes())
	if err == nil && !bytes.Equal(fm, buf.Bytes()) {
		a, b := strings.Split(buf.String(), "\n"), strings.Split(string(fm), "\n")
		i := 0
		for i < len(a) && i < len(b) && a[i] == b[i] {
			i++
		}
		la, lb := "", ""
		if i < len(a) && i < len(b) {
			la, lb = a[i], b[i]
		}
		run.Fail("corpus/not-a-gofmt-fixed-point/"+prDiffKind(la, lb), fmt.Sprintf("%s: go/format changes the printed text: `%s` becomes `%s`", rel, la, lb), rep)
	}
	return true
}

func prDiffKind(a, b string) string {
	ta, tb := strings.Join(strings.Fields(a), " "), strings.Join(strings.Fields(b), " ")
	switch {
	case ta == tb:
		return "white-space-only"
	case strings.ReplaceAll(ta, " ", "") == strings.ReplaceAll(tb, " ", ""):
		return "blanks-inside-line"
	}
	return "line-structure"
}
