package props

// C09 — each file imports exactly what it uses, under names that never collide.
//
// spec/Imports.tla states what the property demands over the client-visible history
// (files, declarations stored per file, references, declared and locally bound names,
// discarded references, deleted declarations, force-imports, writes at any time) and
// predicts, after every operation, the import set each file must have if written now.
// TLC enumerates all histories of the bounded configurations; each is replayed on the
// real Package with a synthetic importer, every written file is parsed, its import set
// compared with the prediction and the output type-checked by go/types (names unique,
// no collision with declared or enclosing local names, every qualified reference
// resolving to the package the builder was given).  A failing history is minimised
// (operations removed while the same failure persists) and keyed by the minimal
// operation signature.

import (
	"bytes"
	"encoding/json"
	"fmt"
	"go/ast"
	"go/constant"
	"go/parser"
	"go/token"
	"go/types"
	"sort"
	"strings"
	"sync"
	"time"

	"github.com/goplus/gogen"

	"verif/harness/internal/ev"
	"verif/harness/internal/tlc"
)

func init() { Registry["C09"] = runC09 }

type impBlock struct {
	Imports []string `json:"imports"`
	Blank   []string `json:"blank"`
}

type impStep struct {
	Op  string              `json:"op"`
	A   json.RawMessage     `json:"a"`
	B   string              `json:"b"`
	Exp map[string]impBlock `json:"exp"`
}

func (s impStep) str() string {
	var x string
	if json.Unmarshal(s.A, &x) == nil {
		return x
	}
	return ""
}

func (s impStep) set() []string {
	var x []string
	json.Unmarshal(s.A, &x)
	sort.Strings(x)
	return x
}

// ---- synthetic imported packages -------------------------------------------------------------------

var impTag = map[string]string{"a/x": "a", "b/x": "b", "c/y": "c"}

type synthImporter struct {
	mu   sync.Mutex
	pkgs map[string]*types.Package
	base types.Importer
}

func newSynthImporter(base types.Importer) *synthImporter {
	s := &synthImporter{pkgs: map[string]*types.Package{}, base: base}
	for path, tag := range impTag {
		name := path[strings.LastIndex(path, "/")+1:]
		p := types.NewPackage(path, name)
		sig := types.NewSignatureType(nil, nil, nil, nil, nil, false)
		p.Scope().Insert(types.NewFunc(token.NoPos, p, "F"+tag, sig))
		tn := types.NewTypeName(token.NoPos, p, "T"+tag, nil)
		types.NewNamed(tn, types.NewStruct(nil, nil), nil)
		p.Scope().Insert(tn)
		p.Scope().Insert(types.NewConst(token.NoPos, p, "K"+tag, types.Typ[types.Int], constant.MakeInt64(int64(len(tag)))))
		p.MarkComplete()
		s.pkgs[path] = p
	}
	return s
}

func (s *synthImporter) Import(path string) (*types.Package, error) {
	if p, ok := s.pkgs[path]; ok {
		return p, nil
	}
	return s.base.Import(path)
}

// ---- replay ---------------------------------------------------------------------------------------------

type impFailure struct {
	Kind string
	What string
	Step int
}

func impOtherFile(f string) string {
	if f == "" {
		return "b.go"
	}
	return ""
}

// impReplay replays a history; it returns the first failure (nil if the property held).
func impReplay(h []impStep) (fail *impFailure) {
	fset, base := sharedImporter()
	_ = fset
	lfset := token.NewFileSet()
	imp := newSynthImporter(base)
	var errs []string
	pkg := gogen.NewPackage("", "p", &gogen.Config{Fset: lfset, Importer: imp, HandleErr: func(err error) { errs = append(errs, err.Error()) }})
	cb := pkg.CB()
	ti := types.Typ[types.Int]
	files := map[string]bool{"": true}
	declared := map[string]bool{}
	varBlocks := map[string]*gogen.VarDefs{}
	n := 0
	step := 0
	defer func() {
		if e := recover(); e != nil {
			fail = &impFailure{Kind: "builder-failed", What: fmt.Sprintf("step %d: %v", step, e), Step: step}
		}
	}()
	refCall := func(p string) {
		cb.Val(pkg.Import(p).Ref("F" + impTag[p])).Call(0).EndStmt()
	}
	// checkFile parses file f as written now and compares its import block with the prediction
	checkFile := func(f string, exp impBlock, whole bool) *impFailure {
		var buf bytes.Buffer
		if err := gogen.WriteTo(&buf, pkg, f); err != nil {
			return &impFailure{Kind: "write-failed", What: err.Error(), Step: step}
		}
		pf, err := parser.ParseFile(token.NewFileSet(), "f.go", buf.Bytes(), 0)
		if err != nil {
			return &impFailure{Kind: "output-does-not-parse", What: err.Error() + "\n" + buf.String(), Step: step}
		}
		got := map[string]string{}
		names := map[string]string{}
		for _, is := range pf.Imports {
			path := strings.Trim(is.Path.Value, `"`)
			name := path[strings.LastIndex(path, "/")+1:]
			if is.Name != nil {
				name = is.Name.Name
			}
			if _, dup := got[path]; dup {
				return &impFailure{Kind: "import-listed-twice", What: path + "\n" + buf.String(), Step: step}
			}
			got[path] = name
			if name != "_" {
				if other, dup := names[name]; dup {
					return &impFailure{Kind: "import-names-not-unique", What: fmt.Sprintf("%s names both %s and %s\n%s", name, other, path, buf.String()), Step: step}
				}
				names[name] = path
				if declared[name] {
					return &impFailure{Kind: "import-name-equals-declared-name", What: fmt.Sprintf("import %s %q while %s is declared in the package\n%s", name, path, name, buf.String()), Step: step}
				}
			}
		}
		want := map[string]bool{}
		for _, p := range exp.Imports {
			want[p] = true
			if nm, ok := got[p]; !ok {
				return &impFailure{Kind: "import-missing", What: fmt.Sprintf("file %q references %s but does not import it\n%s", f, p, buf.String()), Step: step}
			} else if nm == "_" {
				return &impFailure{Kind: "import-blank-but-referenced", What: p + "\n" + buf.String(), Step: step}
			}
		}
		for _, p := range exp.Blank {
			want[p] = true
			if _, ok := got[p]; !ok {
				return &impFailure{Kind: "forced-import-missing", What: fmt.Sprintf("file %q force-imports %s but does not list it\n%s", f, p, buf.String()), Step: step}
			}
		}
		for p := range got {
			if !want[p] {
				return &impFailure{Kind: "import-extra", What: fmt.Sprintf("file %q imports %s which no live declaration of the file references\n%s", f, p, buf.String()), Step: step}
			}
		}
		return nil
	}
	typeCheck := func(fs []string) *impFailure {
		var afs []*ast.File
		tfset := token.NewFileSet()
		var text strings.Builder
		for _, f := range fs {
			var buf bytes.Buffer
			if err := gogen.WriteTo(&buf, pkg, f); err != nil {
				return &impFailure{Kind: "write-failed", What: err.Error(), Step: step}
			}
			name := f
			if name == "" {
				name = "default.go"
			}
			pf, err := parser.ParseFile(tfset, name, buf.Bytes(), 0)
			if err != nil {
				return &impFailure{Kind: "output-does-not-parse", What: err.Error() + "\n" + buf.String(), Step: step}
			}
			afs = append(afs, pf)
			text.WriteString("// file " + name + "\n" + buf.String())
		}
		var terrs []string
		conf := types.Config{Importer: imp, Error: func(err error) {
			m := err.Error()
			if strings.Contains(m, "declared and not used") && !strings.Contains(m, "imported") {
				return
			}
			terrs = append(terrs, m)
		}}
		conf.Check("p", tfset, afs, nil)
		if len(terrs) > 0 {
			kind := "typecheck/other"
			m := terrs[0]
			switch {
			case strings.Contains(m, "imported and not used"):
				kind = "typecheck/imported-and-not-used"
			case strings.Contains(m, "undefined") && strings.Contains(m, "has no field or method"):
				kind = "typecheck/reference-shadowed-by-local-binding"
			case strings.Contains(m, "undefined:"):
				kind = "typecheck/reference-undefined"
			case strings.Contains(m, "redeclared") || strings.Contains(m, "already declared"):
				kind = "typecheck/name-redeclared"
			case strings.Contains(m, "is not a type") || strings.Contains(m, "not a package") || strings.Contains(m, "use of package"):
				kind = "typecheck/reference-resolves-to-wrong-entity"
			}
			return &impFailure{Kind: kind, What: strings.Join(terrs, "; ") + "\n" + text.String(), Step: step}
		}
		return nil
	}
	for i, s := range h {
		step = i
		switch s.Op {
		case "SetCur":
			pkg.SetCurFile(s.str(), true)
			files[s.str()] = true
		case "Func":
			n++
			var params, results *types.Tuple
			kind, name := "", ""
			if s.B != "" {
				kv := strings.SplitN(s.B, ":", 2)
				kind, name = kv[0], kv[1]
			}
			switch kind {
			case "param":
				params = types.NewTuple(types.NewParam(token.NoPos, pkg.Types, name, ti))
			case "result":
				results = types.NewTuple(types.NewParam(token.NoPos, pkg.Types, name, ti))
			}
			pkg.NewFunc(nil, fmt.Sprintf("f%d", n), params, results, false).BodyStart(pkg)
			if kind == "local" {
				cb.DefineVarStart(token.NoPos, name).Val(1).EndInit(1)
			}
			for _, p := range s.set() {
				refCall(p)
			}
			if kind == "result" {
				cb.Return(0)
			}
			cb.End()
		case "Var":
			pkg.NewVar(token.NoPos, ti, s.str())
			declared[s.str()] = true
		case "Discard":
			n++
			pkg.NewFunc(nil, fmt.Sprintf("g%d", n), nil, nil, false).BodyStart(pkg)
			p := s.str()
			cb.Val(pkg.Import(p).Ref("F" + impTag[p]))
			cb.ResetStmt()
			cb.End()
		case "Force":
			pkg.ForceImport(s.str())
		case "TypeDel":
			n++
			p := s.str()
			decl := pkg.NewType(fmt.Sprintf("Td%d", n))
			decl.InitType(pkg, types.NewPointer(pkg.Import(p).Ref("T"+impTag[p]).Type()))
			decl.Delete()
		case "Cross":
			n++
			p := s.str()
			fn := pkg.NewFunc(nil, fmt.Sprintf("c%d", n), nil, nil, false)
			other := impOtherFile(pkg.CurFile().Name())
			old, _ := pkg.SetCurFile(other, true)
			files[other] = true
			fn.BodyStart(pkg)
			refCall(p)
			cb.End()
			pkg.RestoreCurFile(old)
		case "Visit":
			n++
			other := impOtherFile(pkg.CurFile().Name())
			old, _ := pkg.SetCurFile(other, true)
			files[other] = true
			pkg.NewFunc(nil, fmt.Sprintf("v%d", n), nil, nil, false).BodyStart(pkg)
			for _, p := range s.set() {
				refCall(p)
			}
			cb.End()
			pkg.RestoreCurFile(old)
		case "RefAt":
			n++
			p := s.str()
			ref := func(kind string) gogen.Ref { return pkg.Import(p).Ref(kind + impTag[p]) }
			ts := types.Typ[types.String]
			name := fmt.Sprintf("r%d", n)
			body := func(f func()) {
				pkg.NewFunc(nil, name, nil, nil, false).BodyStart(pkg)
				f()
				cb.End()
			}
			switch s.B {
			case "param":
				pkg.NewFunc(nil, name, types.NewTuple(types.NewParam(token.NoPos, pkg.Types, "a", ref("T").Type())), nil, false).BodyStart(pkg).End()
			case "result":
				pkg.NewFunc(nil, name, nil, types.NewTuple(types.NewParam(token.NoPos, pkg.Types, "", types.NewPointer(ref("T").Type()))), false).BodyStart(pkg).Val(nil).Return(1).End()
			case "varvalue":
				pkg.NewVarStart(token.NoPos, nil, name).Val(ref("F")).EndInit(1)
			case "livetype":
				pkg.NewType("T" + name).InitType(pkg, types.NewPointer(ref("T").Type()))
			case "tparam": // type Tr[T p.T] struct{}: the constraint of a type parameter
				c := types.NewInterfaceType(nil, []types.Type{ref("T").Type()})
				c.MarkImplicit()
				tp := types.NewTypeParam(types.NewTypeName(token.NoPos, pkg.Types, "T", nil), c)
				pkg.NewType("T"+name).InitType(pkg, types.NewStruct(nil, nil), tp)
			case "labeled":
				body(func() {
					l := cb.NewLabel(token.NoPos, token.NoPos, "L")
					cb.Label(l)
					refCall(p)
					cb.Goto(l)
				})
			case "mapkey":
				body(func() { cb.VarRef(nil).Val(ref("K")).Val("r").MapLit(types.NewMap(ti, ts), 2).Assign(1).EndStmt() })
			case "mapvalue":
				body(func() { cb.VarRef(nil).Val("k").Val(ref("K")).MapLit(types.NewMap(ts, ti), 2).Assign(1).EndStmt() })
			case "slicekey":
				body(func() { cb.VarRef(nil).Val(ref("K")).Val("w").SliceLit(types.NewSlice(ts), 2, true).Assign(1).EndStmt() })
			case "littype":
				body(func() { cb.VarRef(nil).StructLit(ref("T").Type(), 0, false).Assign(1).EndStmt() })
			case "funclit":
				body(func() {
					cb.VarRef(nil).NewClosure(nil, nil, false).BodyStart(pkg)
					refCall(p)
					cb.End().Assign(1).EndStmt()
				})
			default:
				panic("harness: reference position " + s.B)
			}
		case "VarAdd":
			n++
			p := s.str()
			cf := pkg.CurFile().Name()
			if varBlocks[cf] == nil {
				varBlocks[cf] = pkg.NewVarDefs(pkg.Types.Scope())
			}
			varBlocks[cf].New(token.NoPos, pkg.Import(p).Ref("T"+impTag[p]).Type(), fmt.Sprintf("w%d", n))
		case "Write":
			f := s.str()
			if !files[f] {
				continue
			}
			if fl := checkFile(f, s.Exp[f], false); fl != nil {
				return fl
			}
			if fl := typeCheck([]string{f}); fl != nil {
				return fl
			}
		}
	}
	// the end of every history: all files are written and the package is type-checked as a whole
	step = len(h)
	last := h[len(h)-1].Exp
	var fs []string
	for f := range files {
		fs = append(fs, f)
	}
	sort.Strings(fs)
	for _, f := range fs {
		if fl := checkFile(f, last[f], true); fl != nil {
			return fl
		}
	}
	if fl := typeCheck(fs); fl != nil {
		return fl
	}
	if len(errs) > 0 {
		return &impFailure{Kind: "builder-reported-error", What: strings.Join(errs, "; "), Step: step}
	}
	return nil
}

// signature of an operation for finding keys (argument classes, not literal arguments)
func impSig(s impStep) string {
	isBase := func(n string) bool { return n == "x" || n == "y" }
	switch s.Op {
	case "Func":
		ps := s.set()
		sameBase := ""
		if len(ps) == 2 && ps[0][strings.LastIndex(ps[0], "/"):] == ps[1][strings.LastIndex(ps[1], "/"):] {
			sameBase = "+same-base"
		}
		b := "nobind"
		if s.B != "" {
			kv := strings.SplitN(s.B, ":", 2)
			rel := "other"
			for _, p := range ps {
				if p[strings.LastIndex(p, "/")+1:] == kv[1] {
					rel = "import-base-name"
				}
			}
			b = kv[0] + "=" + rel
		}
		return fmt.Sprintf("Func(%d refs%s,%s)", len(ps), sameBase, b)
	case "Var":
		n := s.str()
		switch {
		case isBase(n):
			return "Var(import-base-name)"
		case len(n) == 2 && isBase(n[:1]):
			return "Var(base-name+digit)"
		case strings.HasPrefix(n, "_autoGo_"):
			return "Var(_autoGo_N)"
		}
		return "Var(other)"
	case "Write", "SetCur":
		return s.Op
	case "RefAt":
		return "RefAt(" + s.B + ")"
	case "Visit":
		return fmt.Sprintf("Visit(%d refs)", len(s.set()))
	}
	return s.Op
}

// impRecompute recomputes the predictions of a shortened history (the demanded import sets are
// a simple function of the history: live references stored per file + force-imports).
func impRecompute(h []impStep) []impStep {
	cur := ""
	type decl struct {
		file string
		refs []string
		live bool
	}
	var decls []decl
	forced := map[string]map[string]bool{"": {}, "b.go": {}}
	out := make([]impStep, len(h))
	for i, s := range h {
		switch s.Op {
		case "SetCur":
			cur = s.str()
		case "Func":
			decls = append(decls, decl{cur, s.set(), true})
		case "TypeDel":
			decls = append(decls, decl{cur, []string{s.str()}, false})
		case "Cross", "VarAdd", "RefAt":
			decls = append(decls, decl{cur, []string{s.str()}, true})
		case "Visit":
			decls = append(decls, decl{impOtherFile(cur), s.set(), true})
		case "Force":
			forced[cur][s.str()] = true
		}
		exp := map[string]impBlock{}
		for _, f := range []string{"", "b.go"} {
			need := map[string]bool{}
			for _, d := range decls {
				if d.file == f && d.live {
					for _, r := range d.refs {
						need[r] = true
					}
				}
			}
			b := impBlock{Imports: []string{}, Blank: []string{}}
			for p := range need {
				b.Imports = append(b.Imports, p)
			}
			for p := range forced[f] {
				if !need[p] {
					b.Blank = append(b.Blank, p)
				}
			}
			sort.Strings(b.Imports)
			sort.Strings(b.Blank)
			exp[f] = b
		}
		out[i] = s
		out[i].Exp = exp
	}
	return out
}

// impMinimise removes operations, and simplifies their arguments, while the same kind of failure persists.
func impMinimise(h []impStep, kind string) []impStep {
	cur := h
	still := func(cand []impStep) bool {
		if len(cand) == 0 {
			return false
		}
		f := impReplay(impRecompute(cand))
		return f != nil && f.Kind == kind
	}
	for changed := true; changed; {
		changed = false
		for i := 0; i < len(cur) && !changed; i++ {
			cand := append(append([]impStep{}, cur[:i]...), cur[i+1:]...)
			if still(cand) {
				cur = impRecompute(cand)
				changed = true
			}
		}
		for i := 0; i < len(cur) && !changed; i++ {
			if cur[i].Op != "Func" {
				continue
			}
			if cur[i].B != "" { // drop the local binding
				cand := append([]impStep{}, cur...)
				cand[i].B = ""
				if still(cand) {
					cur = impRecompute(cand)
					changed = true
					break
				}
			}
			if ps := cur[i].set(); len(ps) > 1 { // fewer references
				for _, p := range ps {
					cand := append([]impStep{}, cur...)
					a, _ := json.Marshal([]string{p})
					cand[i].A = a
					if still(cand) {
						cur = impRecompute(cand)
						changed = true
						break
					}
				}
			}
		}
	}
	return cur
}

func impKey(kind string, h []impStep) string {
	// root-cause classes: operations that are known to break the property in every history that uses them
	has := map[string]bool{}
	for _, s := range h {
		has[s.Op] = true
	}
	switch {
	case has["Cross"]:
		return "root-cause/body-built-while-another-file-is-current"
	case has["TypeDel"]:
		return "root-cause/deleted-declaration-keeps-its-import"
	case has["Force"] && has["Discard"]:
		return "root-cause/force-import-replaced-by-unused-reference"
	}
	if kind == "import-name-equals-declared-name" || kind == "typecheck/reference-shadowed-by-local-binding" {
		// a name declared (package level or := in a body) after a write has fixed the import's name
		wrote := false
		for _, s := range h {
			if s.Op == "Write" {
				wrote = true
			}
			if wrote && (s.Op == "Var" || (s.Op == "Func" && strings.HasPrefix(s.B, "local:"))) {
				return "root-cause/name-declared-after-a-write-fixed-the-import-name"
			}
		}
		if len(h) == 1 && h[0].Op == "Func" && (strings.HasPrefix(h[0].B, "param:") || strings.HasPrefix(h[0].B, "result:")) {
			return "root-cause/parameter-or-result-named-like-the-import"
		}
	}
	var sig []string
	for _, s := range h {
		sig = append(sig, impSig(s))
	}
	return kind + " <= " + strings.Join(sig, " ; ")
}

type impConf struct {
	name string
	cfg  string
}

const impAllPositions = `{"param","result","varvalue","livetype","labeled","mapkey","mapvalue","slicekey","littype","funclit","tparam"}`

func impCfg(maxOps int, paths, names, binds, ops, pathSets string, positions ...string) string {
	pos := `{"mapkey"}`
	if len(positions) > 0 {
		pos = positions[0]
	}
	return fmt.Sprintf("SPECIFICATION Spec\nCONSTANTS\n  Files = {\"\", \"b.go\"}\n  Paths = %s\n  Names = %s\n  Binds = %s\n  MaxOps = %d\n  Ops = %s\n  PathSets = %s\n  Positions = %s\nINVARIANTS BlockDisjoint OnlyOwnFile EmitInv\nCHECK_DEADLOCK FALSE\n",
		paths, names, binds, maxOps, ops, pathSets, pos)
}

func runC09(tier, replay string) {
	run := ev.Start("C09", tier, "model_checking")
	sharedImporter()
	handle := func(h []impStep, conf string) {
		f := impReplay(h)
		id := ""
		for _, s := range h {
			id += impSig(s) + string(s.A) + s.B + ";"
		}
		run.Eval(id)
		if f == nil {
			return
		}
		// self-check of the recomputation used by the minimiser: it must reproduce TLC's predictions
		rc := impRecompute(h)
		a, _ := json.Marshal(rc[len(rc)-1].Exp)
		b, _ := json.Marshal(normExp(h[len(h)-1].Exp))
		if string(a) != string(b) {
			run.Infra(fmt.Errorf("harness recomputation of Imports.tla predictions disagrees with TLC: %s vs %s", a, b))
		}
		min := impMinimise(h, f.Kind)
		mf := impReplay(min)
		what := f.What
		if mf != nil {
			what = mf.What
		}
		run.Fail(impKey(f.Kind, min), fmt.Sprintf("%s [minimised from a %d-operation history of %s]", what, len(h), conf), min)
	}
	if replay != "" {
		var h []impStep
		if err := loadReplay(replay, &h); err != nil {
			run.Infra(err)
		}
		handle(h, "replay")
		run.Eval("x")
		run.Set("states", 1)
		run.Set("transitions", 1)
		run.Set("traces_validated_against_impl", 1)
		run.Sample(h)
		run.Finish()
	}
	allOps := `{"SetCur","Func","Var","Discard","Force","TypeDel","Cross","VarAdd","Write"}`
	confs := []impConf{
		{"all-ops-3", impCfg(3, `{"a/x","c/y"}`, `{"x","x1"}`, `{"","param:x","result:y"}`, allOps, `{{"a/x"},{"a/x","c/y"}}`)},
		{"discard-write-ref-5", impCfg(5, `{"a/x"}`, `{"x"}`, `{""}`, `{"Func","Discard","Write","Var"}`, `{{"a/x"}}`)},
		{"two-files-cross-4", impCfg(4, `{"a/x","c/y"}`, `{"x"}`, `{""}`, `{"SetCur","Func","Cross","Write","Force"}`, `{{"a/x"},{"c/y"}}`)},
		{"growing-var-block-5", impCfg(5, `{"a/x","c/y"}`, `{"x"}`, `{""}`, `{"VarAdd","Write","SetCur","Func"}`, `{{"a/x"}}`)},
		{"visit-restore-4", impCfg(4, `{"a/x","c/y"}`, `{"x"}`, `{""}`, `{"SetCur","Func","Visit","Write"}`, `{{"a/x"},{"c/y"}}`)},
		{"reference-positions-3", impCfg(3, `{"a/x","c/y"}`, `{"x"}`, `{""}`, `{"RefAt","Func","Write","SetCur"}`, `{{"a/x"}}`, impAllPositions)},
		{"names-4", impCfg(4, `{"a/x","b/x"}`, `{"x","x1","x2"}`, `{"","param:x","local:x1"}`, `{"Func","Var","Write"}`, `{{"a/x"},{"a/x","b/x"}}`)},
	}
	if tier == "thorough" {
		confs = []impConf{
			{"all-ops-4", impCfg(4, `{"a/x","b/x","c/y"}`, `{"x","y","x1"}`, `{"","param:x","local:x","result:x"}`, allOps, `{{"a/x"},{"c/y"},{"a/x","b/x"}}`)},
			{"discard-write-ref-7", impCfg(7, `{"a/x"}`, `{"x"}`, `{""}`, `{"Func","Discard","Write","Var"}`, `{{"a/x"}}`)},
			{"two-files-cross-6", impCfg(6, `{"a/x","c/y"}`, `{"x"}`, `{""}`, `{"SetCur","Func","Cross","Write","Force"}`, `{{"a/x"},{"c/y"}}`)},
			{"growing-var-block-7", impCfg(7, `{"a/x","c/y"}`, `{"x"}`, `{""}`, `{"VarAdd","Write","SetCur","Func"}`, `{{"a/x"}}`)},
			{"visit-restore-6", impCfg(6, `{"a/x","c/y"}`, `{"x"}`, `{""}`, `{"SetCur","Func","Visit","Write"}`, `{{"a/x"},{"c/y"}}`)},
			{"reference-positions-4", impCfg(4, `{"a/x","c/y"}`, `{"x"}`, `{""}`, `{"RefAt","Func","Write","SetCur","Discard"}`, `{{"a/x"}}`, impAllPositions)},
			{"names-6", impCfg(6, `{"a/x","b/x"}`, `{"x","x1","x2"}`, `{"","param:x","local:x1"}`, `{"Func","Var","Write"}`, `{{"a/x"},{"a/x","b/x"}}`)},
			{"typedel-force-5", impCfg(5, `{"a/x","c/y"}`, `{"x"}`, `{""}`, `{"Func","TypeDel","Force","Write","SetCur"}`, `{{"a/x"},{"c/y"}}`)},
		}
	}
	var states, transitions, total int64
	t0 := time.Now()
	for _, c := range confs {
		var hs [][]impStep
		res, err := tlc.Run(tlc.Opts{SpecDir: SpecDir, Module: "Imports", Cfg: c.cfg, Workers: tierWorkers(tier), Heavy: true, HeapMB: 8192, Timeout: 40 * time.Minute,
			OnJSON: func(l string) {
				var h []impStep
				if json.Unmarshal([]byte(l), &h) == nil && len(h) > 0 {
					hs = append(hs, h)
				}
			}})
		if err != nil {
			run.Infra(err)
		}
		if res.Violation {
			run.Infra(fmt.Errorf("Imports.tla sanity invariant violated in %s:\n%s", c.name, res.ErrText))
		}
		if len(hs) == 0 {
			run.Infra(fmt.Errorf("configuration %s generated no history", c.name))
		}
		parallel(len(hs), func(i int) { handle(hs[i], c.name) })
		states += res.Distinct
		transitions += res.Generated
		total += int64(len(hs))
		run.Sample(map[string]any{"configuration": c.name, "history": hs[len(hs)/2]})
		run.Set("conf_"+c.name, fmt.Sprintf("%d histories, tlc %d distinct states, %.1fs since start", len(hs), res.Distinct, time.Since(t0).Seconds()))
	}
	run.Set("states", states)
	run.Set("transitions", transitions)
	run.Set("traces_validated_against_impl", total)
	run.Set("rule", "a case = one TLC-generated history of file/declaration/reference/name/write operations replayed on a real package with a synthetic importer; every mid-history and final write is parsed, its import set compared with Imports.tla's prediction and the output type-checked; distinct = distinct operation sequence; failures are minimised and keyed by the minimal operation signature")
	run.Assume("import names are an implementation choice: only uniqueness, non-collision and resolution are checked")
	run.Finish()
}

func normExp(e map[string]impBlock) map[string]impBlock {
	out := map[string]impBlock{}
	for k, v := range e {
		if v.Imports == nil {
			v.Imports = []string{}
		}
		if v.Blank == nil {
			v.Blank = []string{}
		}
		sort.Strings(v.Imports)
		sort.Strings(v.Blank)
		out[k] = v
	}
	return out
}
