package props

// C14 — synthesised zero values are the zero value of exactly the requested type.
//
// spec/Zero.tla states the two demands on a zero expression (accepted where a T is expected;
// static type exactly T when nothing else fixes it) over GoTypes.tla's universe, and the form the
// pinned implementation chooses (ImplForm); TLC evaluates both for every type and thereby
// predicts where the implementation must deviate (class UntypedZeroForm).  The harness asks
// the real builder for the zero value through every user (ZeroLit, omitted optional argument,
// ReturnErr padding, zero-argument conversion T()), places it in typed and inferred
// positions, type-checks the written package with go/types and compares.

import (
	"bytes"
	"encoding/json"
	"fmt"
	"go/ast"
	"go/parser"
	"go/token"
	"go/types"
	"strings"
	"time"

	"github.com/goplus/gogen"

	"verif/harness/internal/ev"
	"verif/harness/internal/tlc"
)

func init() { Registry["C14"] = runC14 }

type zeroVerdict struct {
	T                TTerm    `json:"t"`
	Impl             string   `json:"impl"`
	Demanded         []string `json:"demanded"`
	ImplTypedOK      bool     `json:"implTypedOK"`
	ImplInferredOK   bool     `json:"implInferredOK"`
	ImplInferredType TTerm    `json:"implInferredType"`
}

func typeClass(x TTerm) string {
	switch x.K {
	case "basic":
		return "basic:" + x.N
	case "named":
		return "named(" + x.U.K + ")"
	}
	return x.K
}

func runC14(tier, replay string) {
	run := ev.Start("C14", tier, "model_checking")
	var vs []zeroVerdict
	res, err := tlc.Run(tlc.Opts{SpecDir: SpecDir, Module: "Zero", Cfg: "INIT Init\nNEXT Next\nINVARIANTS Satisfiable Emit\nCHECK_DEADLOCK FALSE\n", Workers: 1, Timeout: 10 * time.Minute,
		OnJSON: func(l string) {
			var v zeroVerdict
			if json.Unmarshal([]byte(l), &v) == nil && v.T.K != "" {
				vs = append(vs, v)
			}
		}})
	if err != nil {
		run.Infra(err)
	}
	if res.Violation {
		run.Infra(fmt.Errorf("Zero.tla: a type has no form meeting both demands (specification defect):\n%s", res.ErrText))
	}
	if len(vs) == 0 {
		run.Infra(fmt.Errorf("Zero.tla produced no verdict"))
	}
	if replay != "" {
		var r struct {
			Type string `json:"type"`
		}
		if err := loadReplay(replay, &r); err != nil {
			run.Infra(err)
		}
		var keep []zeroVerdict
		for _, v := range vs {
			if v.T.Src() == r.Type {
				keep = append(keep, v)
			}
		}
		vs = keep
	}
	// the fixture universe gets a struct with an unexported field and a named array
	src := universeSrc + "type Hidden struct{ x int }\ntype MyArr [2]int\ntype Big struct{ v int }\nfunc Big_Init__0(x int) Big { return Big{x} }\n"
	w, err := newTWorldFrom(src)
	if err != nil {
		run.Infra(err)
	}
	_, base := sharedImporter()
	var errs []string
	var cases int64
	var lastOut string
	// one world = one package built with the real builder for one realisation of the universe's types:
	//   direct   the types as they are
	//   alias    every type through an alias declared in the package (type A = T), alias2: an alias of that alias
	//   delayed  named types whose underlying type is unknown until Config.LoadNamed completes them, with the zero value as
	//            their first use (one fresh type object per user)
	runWorld := func(real string) {
		lazy := real == "delayed"
		loaders := map[*types.Named]func(){}
		pkg := gogen.NewPackage("", "p", &gogen.Config{Fset: token.NewFileSet(), Importer: uImporter{w.Pkg, base}, HandleErr: func(e error) { errs = append(errs, e.Error()) },
			LoadNamed: func(at *gogen.Package, t *types.Named) {
				if f := loaders[t]; f != nil {
					delete(loaders, t)
					f()
				}
			}})
		// realise returns the type object a user works with, or nil if the realisation does not apply to the type
		realise := func(i int, user string, T types.Type) types.Type {
			switch real {
			case "alias":
				return pkg.AliasType(fmt.Sprintf("Al%d%s", i, strings.NewReplacer("(", "", ")", "", "-", "").Replace(user)), T)
			case "alias2":
				n := fmt.Sprintf("Al%d%s", i, strings.NewReplacer("(", "", ")", "", "-", "").Replace(user))
				return pkg.AliasType(n+"b", pkg.AliasType(n+"a", T))
			case "delayed":
				nt, ok := T.(*types.Named)
				if !ok || nt.Obj().Pkg() == nil {
					return nil
				}
				tn := types.NewTypeName(token.NoPos, nt.Obj().Pkg(), nt.Obj().Name(), nil)
				d := types.NewNamed(tn, nil, nil)
				loaders[d] = func() { d.SetUnderlying(nt.Underlying()) }
				return d
			}
			return T
		}
		_ = lazy
		cb := pkg.CB()
		ti := types.Typ[types.Int]
		terr := types.Universe.Lookup("error").Type()
		pkg.NewVar(token.NoPos, terr, "gerr")
		pkg.Import("u") // lets the builder discover the fixture's implicit-conversion function Big_Init__0
		bigT := w.Pkg.Scope().Lookup("Big").Type()
		type obs struct {
			reported  string // "" ok
			buildFail map[string]string
			skip      bool
		}
		observed := make([]obs, len(vs))
		for i, v := range vs {
			T0 := w.Type(v.T)
			T := T0
			if realise(i, "probe", T0) == nil {
				observed[i] = obs{skip: true}
				continue
			}
			o := obs{buildFail: map[string]string{}}
			try := func(user string, f func()) {
				if user != "pre" {
					T = realise(i, user, T0)
				}
				defer func() {
					if e := recover(); e != nil {
						o.buildFail[user] = fmt.Sprint(e)
						// leave the function body if one is open
						func() {
							defer func() { recover() }()
							cb.ResetStmt()
							if cb.Func() != nil {
								cb.End()
							}
						}()
					}
				}()
				f()
			}
			// history before the users: the zero value of T goes through operand-rewriting matchers once
			// (implicit conversion int -> Big, the ~[]T builtin append); later zero values must be unaffected
			try("pre", func() {
				if b, ok := T.(*types.Basic); ok && b.Kind() == types.Int {
					pkg.NewFunc(nil, fmt.Sprintf("pre%d", i), nil, nil, false).BodyStart(pkg)
					cb.NewVarStart(bigT, "b").ZeroLit(T).EndInit(1)
					cb.End()
				}
				if sl, ok := T.Underlying().(*types.Slice); ok && types.Identical(sl.Elem(), ti) {
					pkg.NewFunc(nil, fmt.Sprintf("pre%d", i), nil, nil, false).BodyStart(pkg)
					cb.Val(pkg.Builtin().Ref("append")).ZeroLit(T).Val(1).Call(2).EndStmt()
					cb.End()
				}
			})
			delete(o.buildFail, "pre")
			// direct: x := zero ; var y T = zero
			try("ZeroLit", func() {
				pkg.NewFunc(nil, fmt.Sprintf("z%d", i), nil, nil, false).BodyStart(pkg)
				cb.DefineVarStart(token.NoPos, "x").ZeroLit(T)
				if rt := cb.Get(-1).Type; !types.Identical(rt, T) {
					o.reported = fmt.Sprintf("ZeroLit(%v) reports type %v", T, rt)
				}
				cb.EndInit(1)
				cb.NewVarStart(T, "y").ZeroLit(T).EndInit(1)
				cb.End()
			})
			// T() : zero-argument conversion, inferred
			try("T()", func() {
				pkg.NewFunc(nil, fmt.Sprintf("c%d", i), nil, nil, false).BodyStart(pkg)
				cb.DefineVarStart(token.NoPos, "x").Typ(T).Call(0)
				if rt := cb.Get(-1).Type; !types.Identical(rt, T) {
					o.reported = fmt.Sprintf("T() reports type %v for %v", rt, T)
				}
				cb.EndInit(1)
				cb.End()
			})
			// ReturnErr padding: func r() (T, error) { return <zero>, gerr }
			try("ReturnErr", func() {
				res := types.NewTuple(types.NewParam(token.NoPos, pkg.Types, "", T), types.NewParam(token.NoPos, pkg.Types, "", terr))
				pkg.NewFunc(nil, fmt.Sprintf("r%d", i), nil, res, false).BodyStart(pkg)
				cb.Val(pkg.Types.Scope().Lookup("gerr")).ReturnErr(false)
				cb.End()
			})
			// ReturnErr(true) inside an inline closure called from a func literal whose results differ from the
			// enclosing named function's: the padding must be the zero value of the *literal's* result type
			try("ReturnErr-outer", func() {
				res := types.NewTuple(types.NewParam(token.NoPos, pkg.Types, "", types.Typ[types.String]), types.NewParam(token.NoPos, pkg.Types, "", terr))
				pkg.NewFunc(nil, fmt.Sprintf("q%d", i), nil, res, false).BodyStart(pkg)
				lres := types.NewTuple(types.NewParam(token.NoPos, pkg.Types, "", T), types.NewParam(token.NoPos, pkg.Types, "", terr))
				cb.DefineVarStart(token.NoPos, "f")
				cb.NewClosure(nil, lres, false).BodyStart(pkg)
				cb.CallInlineClosureStart(types.NewSignatureType(nil, nil, nil, nil, nil, false), 0, false)
				cb.Val(pkg.Types.Scope().Lookup("gerr")).ReturnErr(true)
				cb.End() // inline closure
				cb.Val(pkg.Types.Scope().Lookup("gerr")).ReturnErr(false)
				cb.End() // func literal
				cb.EndInit(1)
				cb.Val(pkg.Types.Scope().Lookup("gerr")).ReturnErr(false)
				cb.End()
			})
			// omitted optional argument: func o(a int, b T) {} ; o(1)
			try("optional-argument", func() {
				ps := types.NewTuple(pkg.NewParam(token.NoPos, "a", ti, false), pkg.NewParam(token.NoPos, "b", T, true))
				fn := pkg.NewFunc(nil, fmt.Sprintf("o%d", i), ps, nil, false)
				fn.BodyStart(pkg).End()
				pkg.NewFunc(nil, fmt.Sprintf("k%d", i), nil, nil, false).BodyStart(pkg)
				cb.Val(fn.Func).Val(1).Call(1).EndStmt()
				cb.End()
			})
			observed[i] = o
		}
		var buf bytes.Buffer
		if err := gogen.WriteTo(&buf, pkg, ""); err != nil {
			run.Infra(fmt.Errorf("WriteTo: %v", err))
		}
		lastOut = buf.String()
		tfset := token.NewFileSet()
		pf, perr := parser.ParseFile(tfset, "z.go", buf.Bytes(), 0)
		if perr != nil {
			run.Fail("output-does-not-parse", perr.Error(), nil)
			return
		}
		// errors by enclosing function
		funcAt := func(pos token.Pos) string {
			for _, d := range pf.Decls {
				if fd, ok := d.(*ast.FuncDecl); ok && fd.Pos() <= pos && pos <= fd.End() {
					return fd.Name.Name
				}
			}
			return ""
		}
		ferrs := map[string][]string{}
		info := &types.Info{Defs: map[*ast.Ident]types.Object{}}
		conf := types.Config{Importer: uImporter{w.Pkg, base}, Error: func(e error) {
			te, ok := e.(types.Error)
			if !ok || strings.Contains(te.Msg, "declared and not used") {
				return
			}
			fn := funcAt(te.Pos)
			ferrs[fn] = append(ferrs[fn], te.Msg)
		}}
		conf.Check("p", tfset, []*ast.File{pf}, info)
		inferred := map[string]types.Type{} // "z3/x" -> type
		for id, ob := range info.Defs {
			if ob == nil {
				continue
			}
			if v, ok := ob.(*types.Var); ok && (id.Name == "x") {
				inferred[funcAt(id.Pos())+"/x"] = v.Type()
			}
		}
		for i, v := range vs {
			T := w.Type(v.T)
			o := observed[i]
			if o.skip {
				continue
			}
			cls := typeClass(v.T)
			if real != "direct" {
				cls += "@" + real
			}
			if o.reported != "" {
				run.Fail("reported-type/"+cls, o.reported, map[string]any{"type": v.T.Src()})
			}
			check := func(user, fn string, inferredCtx bool) {
				cases++
				run.Eval(user + "/" + v.T.Src() + "@" + real)
				if f, ok := o.buildFail[user]; ok {
					run.Fail("builder-failed/"+user+"/"+cls, fmt.Sprintf("%s for %s: %s", user, v.T.Src(), f), map[string]any{"type": v.T.Src()})
					return
				}
				deviates, what := false, ""
				if es := ferrs[fn]; len(es) > 0 {
					deviates, what = true, "go/types rejects the emitted zero value: "+es[0]
				} else if inferredCtx {
					got := inferred[fn+"/x"]
					if got == nil || !sameTypeLoose(T, got) {
						deviates, what = true, fmt.Sprintf("x := <zero of %s> has type %v in the emitted code", v.T.Src(), got)
					}
				}
				if !deviates {
					return
				}
				// is this the deviation Zero.tla predicts from the implementation's choice of form?
				key := fmt.Sprintf("%s/%s", user, cls)
				if inferredCtx && !v.ImplInferredOK {
					got := inferred[fn+"/x"]
					pred := v.ImplInferredType
					if (pred.K == "untyped" && pred.N == "nil" && len(ferrs[fn]) > 0) || (got != nil && pred.K != "untyped" && sameTypeLoose(w.Type(pred), got)) {
						key = "root-cause/untyped-zero-form"
					}
				}
				run.Fail(key, fmt.Sprintf("%s of %s: %s", user, v.T.Src(), what), map[string]any{"type": v.T.Src(), "user": user})
			}
			check("ZeroLit", fmt.Sprintf("z%d", i), true)
			check("T()", fmt.Sprintf("c%d", i), true)
			check("ReturnErr", fmt.Sprintf("r%d", i), false)
			check("optional-argument", fmt.Sprintf("k%d", i), false)
			check("ReturnErr-outer", fmt.Sprintf("q%d", i), false)
		}
	}
	for _, real := range []string{"direct", "alias", "alias2", "delayed"} {
		runWorld(real)
	}
	if len(vs) > 10 {
		run.Sample(map[string]any{"type": vs[7].T.Src(), "implementation_form": vs[7].Impl, "demanded_forms": vs[7].Demanded, "model_predicts_inferred_ok": vs[7].ImplInferredOK})
		run.Sample(map[string]any{"emitted_package_excerpt": firstLines(lastOut, 25)})
	}
	run.Set("states", res.Distinct)
	run.Set("transitions", res.Generated)
	run.Set("traces_validated_against_impl", cases)
	run.Set("exhaustive", true)
	run.Set("types", len(vs))
	run.Set("rule", "a case = (type of the universe) x (user: ZeroLit, T(), ReturnErr padding, omitted optional argument) built through the real builder, written and type-checked; inferred positions compare the static type of x := <zero> with T; distinct = distinct (user, type)")
	run.Assume("deviations predicted by Zero.tla from the implementation's choice of form (bare literal of the underlying type) are one known root cause; any other deviation is a violation")
	_ = errs
	run.Finish()
}

func firstLines(s string, n int) string {
	l := strings.Split(s, "\n")
	if len(l) > n {
		l = l[:n]
	}
	return strings.Join(l, "\n")
}

// sameTypeLoose compares a type of the fixture universe with one read back from the written package
// (imported named types are shared objects; the package under construction declares none).
func sameTypeLoose(a, b types.Type) bool {
	return types.Identical(a, b) || sameType(a, b, 0) == ""
}

func newTWorldFrom(src string) (*TWorld, error) {
	fset := token.NewFileSet()
	f, err := parser.ParseFile(fset, "u.go", src, 0)
	if err != nil {
		return nil, err
	}
	conf := types.Config{Importer: unsafeOnly{}}
	pkg, err := conf.Check("u", fset, []*ast.File{f}, nil)
	if err != nil {
		return nil, err
	}
	return &TWorld{Pkg: pkg, cache: map[string]types.Type{}}, nil
}
