package props

// C01-C04 (and C17) on the predeclared functions (spec/Builtins.tla): len cap new make append copy delete complex
// real imag min max clear close panic, unsafe.Sizeof / Alignof / Offsetof.  T = go/types on the rendered call
// (S = T on every point - validity, type, constness, constant value, untypedness - or exit 2); G = the call built with
// the real CodeBuilder.

import (
	"encoding/json"
	"fmt"
	"go/ast"
	"go/constant"
	"go/parser"
	"go/token"
	"go/types"
	"math/big"
	"strings"
	"time"

	"github.com/goplus/gogen"

	"verif/harness/internal/ev"
	"verif/harness/internal/tlc"
)

type biOp struct {
	Src string `json:"src"`
	K   string `json:"k"`
	Ty  string `json:"ty"`
	Ck  string `json:"ck"`
	N   int    `json:"n"`
	D   int    `json:"d"`
}

type biPt struct {
	Fn     string `json:"fn"`
	Args   []biOp `json:"args"`
	Spread bool   `json:"spread"`
}

type biPoint struct {
	Pt  biPt   `json:"pt"`
	Ok  bool   `json:"ok"`
	Why string `json:"why"`
	Ty  string `json:"ty"`
	Cv  []any  `json:"cv"`
	Ut  bool   `json:"ut"`
}

const biPrelude = `package q

import "unsafe"

type MyInt int
type MySlice []int
type S struct {
	a int8
	b int64
	c string
}

const k8 int8 = 100
const kf float64 = 2.5
const kstr string = "hi"

var vi int
var vi8 int8
var vu uint
var vmy MyInt
var vf float64
var vf2 float64
var vc complex128
var vs string
var vb []byte
var vsl []int
var vss []string
var vmysl MySlice
var varr [2]int
var vparr *[2]int
var vm map[string]int
var vch chan int
var vrch <-chan int
var vsch chan<- int
var vpi *int
var va any
var vbool bool
var vS S
var _ = unsafe.Sizeof(0)
`

func (p biPoint) isUnsafe() bool { return p.Pt.Fn == "Sizeof" || p.Pt.Fn == "Alignof" || p.Pt.Fn == "Offsetof" }
func (p biPoint) isStmt() bool {
	switch p.Pt.Fn {
	case "delete", "clear", "close", "panic":
		return true
	}
	return false
}

func (p biPoint) text() string {
	var parts []string
	for _, a := range p.Pt.Args {
		parts = append(parts, a.Src)
	}
	if p.Pt.Fn == "compl" {
		return "^" + parts[0]
	}
	s := p.Pt.Fn + "(" + strings.Join(parts, ", ")
	if p.Pt.Spread {
		s += " ..." // the space keeps `1 ...` from being read as the float literal `1.`
	}
	s += ")"
	if p.isUnsafe() {
		s = "unsafe." + s
	}
	return s
}

func biOpClass(o biOp) string {
	switch o.K {
	case "var":
		return "var:" + o.Ty
	case "const":
		return "untyped-" + o.Ck + "-const"
	case "tconst", "uconst":
		return "typed-const:" + o.Ty
	case "type":
		return "type:" + o.Ty
	case "field":
		return "field:" + o.Ty
	}
	return o.K
}

func (p biPoint) class() string {
	var parts []string
	for _, a := range p.Pt.Args {
		parts = append(parts, biOpClass(a))
	}
	s := "builtin/" + p.Pt.Fn + "(" + strings.Join(parts, ",")
	if p.Pt.Spread {
		s += "..."
	}
	return s + ")"
}

func (p biPoint) coarse() string { return "builtin/" + p.Pt.Fn }

// mid: the class used in keys of wrong acceptances: the reason is part of the key already
func (p biPoint) mid() string {
	switch p.Pt.Fn {
	case "make":
		return fmt.Sprintf("builtin/make(%s)/%d-sizes", biOpClass(p.Pt.Args[0]), len(p.Pt.Args)-1)
	case "min", "max":
		set := map[string]bool{}
		for _, a := range p.Pt.Args {
			set[biOpClass(a)] = true
		}
		return "builtin/" + p.Pt.Fn + setString(set)
	}
	return p.class()
}

// canonical key of a constant value: exact rationals
func biCvFromSpec(cv []any) string {
	if len(cv) == 0 {
		return ""
	}
	num := func(i int) int64 { f, _ := cv[i].(float64); return int64(f) }
	switch cv[0] {
	case "num":
		return "num:" + big.NewRat(num(1), num(2)).String()
	case "str":
		return fmt.Sprintf("strlen:%d", num(1))
	case "cplx":
		return "cplx:" + big.NewRat(num(1), num(2)).String() + ";" + big.NewRat(num(3), num(4)).String()
	case "p2m": // 2^w - k
		v := new(big.Int).Lsh(big.NewInt(1), uint(num(1)))
		return "num:" + new(big.Rat).SetInt(v.Sub(v, big.NewInt(num(2)))).String()
	}
	return "?"
}

func biRat(v constant.Value) string {
	v = constant.ToFloat(v)
	if v.Kind() == constant.Int {
		if bi, ok := constant.Val(v).(*big.Int); ok {
			return new(big.Rat).SetInt(bi).String()
		}
		if i, ok := constant.Val(v).(int64); ok {
			return big.NewRat(i, 1).String()
		}
	}
	switch x := constant.Val(v).(type) {
	case *big.Rat:
		return x.String()
	case *big.Float:
		r, _ := x.Rat(nil)
		return r.String()
	case int64:
		return big.NewRat(x, 1).String()
	case *big.Int:
		return new(big.Rat).SetInt(x).String()
	}
	return "?" + v.ExactString()
}

func biCvFromConst(v constant.Value, typ types.Type) string {
	if v == nil {
		return ""
	}
	isComplex := false
	if b, ok := typ.Underlying().(*types.Basic); ok && b.Info()&types.IsComplex != 0 {
		isComplex = true
	}
	switch {
	case v.Kind() == constant.String:
		return fmt.Sprintf("strlen:%d", len(constant.StringVal(v)))
	case v.Kind() == constant.Complex || isComplex:
		return "cplx:" + biRat(constant.Real(v)) + ";" + biRat(constant.Imag(v))
	case v.Kind() == constant.Int || v.Kind() == constant.Float:
		return "num:" + biRat(v)
	}
	return "?" + v.ExactString()
}

func biDefaultType(s string) (string, bool) {
	switch s {
	case "untyped int":
		return "int", true
	case "untyped float":
		return "float64", true
	case "untyped complex":
		return "complex128", true
	case "untyped string":
		return "string", true
	case "untyped rune":
		return "int32", true
	case "untyped bool":
		return "bool", true
	}
	return s, false
}

type biT struct {
	ok  bool
	ty  string
	cv  string
	ut  bool
	msg string
}

func biReference(pts []biPoint) ([]biT, error) {
	var b strings.Builder
	b.WriteString(biPrelude + "func body() {\n")
	first := strings.Count(b.String(), "\n") + 1
	for _, p := range pts {
		if p.isStmt() {
			fmt.Fprintf(&b, "%s\n", p.text())
		} else {
			fmt.Fprintf(&b, "_ = %s\n", p.text())
		}
	}
	b.WriteString("}\n")
	// constants once more in a constant declaration: there an untyped constant keeps its untyped type
	constLine := map[int]int{}
	line := strings.Count(b.String(), "\n") + 1
	for i, p := range pts {
		if p.Ok && len(p.Cv) > 0 {
			fmt.Fprintf(&b, "const _ = %s\n", p.text())
			constLine[i] = line
			line++
		}
	}
	fset := token.NewFileSet()
	f, err := parser.ParseFile(fset, "q.go", b.String(), 0)
	if err != nil {
		return nil, fmt.Errorf("reference does not parse: %v", err)
	}
	bad := map[int]string{}
	info := &types.Info{Types: map[ast.Expr]types.TypeAndValue{}}
	_, stdImp := sharedImporter()
	conf := types.Config{Importer: stdImp, Error: func(e error) {
		if te, ok := e.(types.Error); ok {
			ln := fset.Position(te.Pos).Line
			if bad[ln] == "" {
				bad[ln] = te.Msg
			}
		}
	}}
	conf.Check("q", fset, []*ast.File{f}, info)
	var body []ast.Stmt
	constExpr := map[int]ast.Expr{}
	for _, d := range f.Decls {
		switch x := d.(type) {
		case *ast.FuncDecl:
			body = x.Body.List
		case *ast.GenDecl:
			if x.Tok == token.CONST && len(x.Specs) == 1 {
				vs := x.Specs[0].(*ast.ValueSpec)
				if vs.Names[0].Name == "_" && len(vs.Values) == 1 {
					constExpr[fset.Position(vs.Pos()).Line] = vs.Values[0]
				}
			}
		}
	}
	if len(body) != len(pts) {
		return nil, fmt.Errorf("reference: %d statements for %d points", len(body), len(pts))
	}
	qual := func(p *types.Package) string { return "" }
	out := make([]biT, len(pts))
	for i, p := range pts {
		msg, isBad := bad[first+i]
		out[i] = biT{ok: !isBad, msg: msg}
		if isBad || p.isStmt() {
			continue
		}
		tv, ok := info.Types[body[i].(*ast.AssignStmt).Rhs[0]]
		if !ok {
			continue
		}
		out[i].ty = litNormType(types.TypeString(tv.Type, qual))
		out[i].cv = biCvFromConst(tv.Value, tv.Type)
		if ln, has := constLine[i]; has {
			if m := bad[ln]; m != "" {
				out[i].msg = "as a constant declaration: " + m
				out[i].cv = ""
				continue
			}
			if ctv, ok := info.Types[constExpr[ln]]; ok {
				_, out[i].ut = biDefaultType(types.TypeString(ctv.Type, qual))
			}
		}
	}
	return out, nil
}

type biWorld struct {
	pkg  *gogen.Package
	errs []string
	fn   *gogen.Func
	n    int
	tys  map[string]types.Type
}

func newBiWorld() *biWorld {
	fset, imp := sharedImporter()
	w := &biWorld{tys: map[string]types.Type{}}
	w.pkg = gogen.NewPackage("", "p", &gogen.Config{Fset: fset, Importer: imp, HandleErr: func(e error) { w.errs = append(w.errs, e.Error()) }})
	pkg := w.pkg
	ti := types.Typ[types.Int]
	fld := func(n string, t types.Type) *types.Var { return types.NewField(token.NoPos, pkg.Types, n, t, false) }
	w.tys["MyInt"] = pkg.NewType("MyInt").InitType(pkg, ti)
	w.tys["MySlice"] = pkg.NewType("MySlice").InitType(pkg, types.NewSlice(ti))
	w.tys["S"] = pkg.NewType("S").InitType(pkg, types.NewStruct([]*types.Var{fld("a", types.Typ[types.Int8]), fld("b", types.Typ[types.Int64]), fld("c", types.Typ[types.String])}, nil))
	arr := types.NewArray(ti, 2)
	for n, t := range map[string]types.Type{"int": ti, "int8": types.Typ[types.Int8], "uint": types.Typ[types.Uint], "float64": types.Typ[types.Float64], "complex128": types.Typ[types.Complex128],
		"string": types.Typ[types.String], "[]uint8": types.NewSlice(types.Typ[types.Byte]), "[]int": types.NewSlice(ti), "[]string": types.NewSlice(types.Typ[types.String]), "[2]int": arr,
		"*[2]int": types.NewPointer(arr), "map[string]int": types.NewMap(types.Typ[types.String], ti), "chan int": types.NewChan(types.SendRecv, ti), "<-chan int": types.NewChan(types.RecvOnly, ti),
		"chan<- int": types.NewChan(types.SendOnly, ti), "*int": types.NewPointer(ti), "any": types.NewInterfaceType(nil, nil), "bool": types.Typ[types.Bool]} {
		w.tys[n] = t
	}
	vars := map[string]string{"vi": "int", "vi8": "int8", "vu": "uint", "vmy": "MyInt", "vf": "float64", "vf2": "float64", "vc": "complex128", "vs": "string", "vb": "[]uint8", "vsl": "[]int",
		"vss": "[]string", "vmysl": "MySlice", "varr": "[2]int", "vparr": "*[2]int", "vm": "map[string]int", "vch": "chan int", "vrch": "<-chan int", "vsch": "chan<- int", "vpi": "*int",
		"va": "any", "vbool": "bool", "vS": "S"}
	names := make([]string, 0, len(vars))
	for n := range vars {
		names = append(names, n)
	}
	sortStrings(names)
	for _, n := range names {
		pkg.NewVar(token.NoPos, w.tys[vars[n]], n)
	}
	pkg.NewConstStart(pkg.Types.Scope(), token.NoPos, types.Typ[types.Int8], "k8").Val(100).EndInit(1)
	pkg.NewConstStart(pkg.Types.Scope(), token.NoPos, types.Typ[types.Float64], "kf").Val(&ast.BasicLit{Kind: token.FLOAT, Value: "2.5"}).EndInit(1)
	pkg.NewConstStart(pkg.Types.Scope(), token.NoPos, types.Typ[types.String], "kstr").Val("hi").EndInit(1)
	return w
}

func (w *biWorld) push(cb *gogen.CodeBuilder, o biOp) {
	obj := func(n string) types.Object { return w.pkg.Types.Scope().Lookup(n) }
	switch o.K {
	case "var", "tconst":
		cb.Val(obj(o.Src))
	case "nil":
		cb.Val(nil)
	case "type":
		cb.Typ(w.tys[o.Ty])
	case "field":
		cb.Val(obj("vS")).MemberVal(strings.TrimPrefix(o.Src, "vS."), 0)
	case "uconst": // T(n) or unsafe.F(v)
		open := strings.Index(o.Src, "(")
		head, arg := o.Src[:open], strings.TrimSuffix(o.Src[open+1:], ")")
		if strings.HasPrefix(head, "unsafe.") {
			cb.Val(w.pkg.Unsafe().Ref(strings.TrimPrefix(head, "unsafe."))).Val(obj(arg)).Call(1)
		} else {
			cb.Typ(types.Universe.Lookup(head).Type()).Val(o.N).Call(1)
		}
	case "const":
		switch o.Ck {
		case "string":
			cb.Val(strings.Trim(o.Src, `"`))
		case "float":
			cb.Val(&ast.BasicLit{Kind: token.FLOAT, Value: o.Src})
		case "complex":
			cb.Val(&ast.BasicLit{Kind: token.IMAG, Value: o.Src})
		default:
			cb.Val(o.N)
		}
	default:
		panic("harness: operand kind " + o.K)
	}
}

type biG struct {
	text     string
	rejected bool
	msg      string
	ty       string
	ut       bool
	cv       string
	fault    string
}

func (w *biWorld) build(p biPoint) (g biG) {
	pkg := w.pkg
	w.errs = nil
	if w.fn == nil {
		w.n++
		w.fn = pkg.NewFunc(nil, fmt.Sprintf("body%d", w.n), nil, nil, false)
		w.fn.BodyStart(pkg)
	}
	cb := pkg.CB()
	defer func() {
		if e := recover(); e != nil {
			g.rejected = true
			g.msg = fmt.Sprint(e)
			if _, rt := e.(interface{ RuntimeError() }); rt || isForeignPanic(g.msg) {
				g.fault = g.msg
			}
			cb.ResetStmt()
		}
	}()
	if p.Pt.Fn == "compl" {
		w.push(cb, p.Pt.Args[0])
		cb.UnaryOp(token.XOR)
	} else {
		if p.isUnsafe() {
			cb.Val(pkg.Unsafe().Ref(p.Pt.Fn))
		} else {
			cb.Val(pkg.Builtin().Ref(p.Pt.Fn))
		}
		for _, a := range p.Pt.Args {
			w.push(cb, a)
		}
		flags := gogen.InstrFlags(0)
		if p.Pt.Spread {
			flags = gogen.InstrFlagEllipsis
		}
		cb.CallWith(len(p.Pt.Args), 0, flags)
	}
	el := cb.InternalStack().Pop()
	cb.ResetStmt()
	if len(w.errs) > 0 {
		g.rejected, g.msg = true, strings.Join(w.errs, "; ")
		return g
	}
	if el.Type != nil && !p.isStmt() {
		s := litNormType(types.TypeString(el.Type, func(p *types.Package) string { return "" }))
		g.ty, g.ut = biDefaultType(s)
		g.cv = biCvFromConst(el.CVal, el.Type)
	}
	if x, ok := el.Val.(ast.Expr); ok {
		var buf strings.Builder
		if err := gogen.VerifFormatNode(&buf, x); err == nil {
			g.text = buf.String()
		}
	}
	return g
}

func biRun(run *ev.Run, prop string) (int64, int64, int64) {
	var pts []biPoint
	res, err := tlc.Run(tlc.Opts{SpecDir: SpecDir, Module: "Builtins", Cfg: "INIT Init\nNEXT Next\nINVARIANTS ConstNeedsConst MinLeMax AppendKeepsType Emit\nCHECK_DEADLOCK FALSE\n",
		Workers: 4, Heavy: true, Timeout: 20 * time.Minute,
		OnJSON: func(l string) {
			var p biPoint
			if json.Unmarshal([]byte(l), &p) == nil && p.Pt.Fn != "" {
				pts = append(pts, p)
			}
		}})
	if err != nil {
		run.Infra(err)
	}
	if res.Violation {
		run.Infra(fmt.Errorf("Builtins.tla violates its laws:\n%s", res.ErrText))
	}
	if int64(len(pts)) != res.Distinct || len(pts) == 0 {
		run.Infra(fmt.Errorf("Builtins.tla: %d points received, %d states", len(pts), res.Distinct))
	}
	biCheck(run, pts, prop)
	run.Set("builtin_points", fmt.Sprintf("%d calls of predeclared functions of Builtins.tla (len cap new make append copy delete complex real imag min max clear close panic unsafe.*)", len(pts)))
	return res.Distinct, res.Generated, int64(len(pts))
}

func biCheck(run *ev.Run, pts []biPoint, prop string) {
	tref, err := biReference(pts)
	if err != nil {
		run.Infra(err)
	}
	var diffs []string
	for i, p := range pts {
		t := tref[i]
		scv := biCvFromSpec(p.Cv)
		if t.ok != p.Ok || (t.ok && !p.isStmt() && (t.ty != p.Ty || t.cv != scv || (scv != "" && t.ut != p.Ut))) {
			diffs = append(diffs, fmt.Sprintf("%s: S ok=%v %s %s ut=%v (%s), T ok=%v %s %s ut=%v %s", p.text(), p.Ok, p.Ty, scv, p.Ut, p.Why, t.ok, t.ty, t.cv, t.ut, t.msg))
		}
	}
	if len(diffs) > 0 {
		n := len(diffs)
		if n > 40 {
			diffs = diffs[:40]
		}
		run.Infra(fmt.Errorf("Builtins.tla disagrees with go/types on %d points (specification defect, not a verdict):\n%s", n, strings.Join(diffs, "\n")))
	}
	var batches [][]biPoint
	for i := 0; i < len(pts); i += 2000 {
		j := i + 2000
		if j > len(pts) {
			j = len(pts)
		}
		batches = append(batches, pts[i:j])
	}
	parallelN(8, len(batches), func(bi int) {
		w := newBiWorld()
		for _, p := range batches[bi] {
			g := w.build(p)
			scv := biCvFromSpec(p.Cv)
			run.Eval("builtin:" + p.text())
			desc := fmt.Sprintf("`%s`: Go (Builtins.tla = go/types): ok=%v %s %s%s; builder: rejected=%v %s %s %s", p.text(), p.Ok, p.Ty, scv, p.Why, g.rejected, g.ty, g.cv, firstLines(g.msg, 1))
			switch {
			case g.fault != "":
				if prop == "C17" || (prop == "C02" && p.Ok) || (prop == "C01" && !p.Ok) {
					run.Fail("fault/"+p.class(), desc, p)
				}
				w.fn = nil
			case !p.Ok && !g.rejected:
				if prop == "C01" {
					run.Fail("accepted-although-"+p.Why+"/"+p.mid(), desc, p)
				}
				if prop == "C04" && g.cv != "" {
					run.Fail("folded-although-"+p.Why+"/"+p.mid(), desc, p)
				}
			case p.Ok && g.rejected:
				if prop == "C02" {
					run.Fail("rejected-valid/"+p.class(), desc, p)
				}
			case p.Ok && !g.rejected && !p.isStmt():
				if prop == "C03" && g.ty != p.Ty {
					run.Fail(fmt.Sprintf("type %s reported as %s [%s]", p.Ty, g.ty, p.coarse()), desc, p)
				} else if prop == "C03" && scv != "" && g.cv != "" && g.ut != p.Ut {
					run.Fail(fmt.Sprintf("untyped=%v reported as untyped=%v [%s]", p.Ut, g.ut, p.coarse()), desc, p)
				}
				if prop == "C04" {
					switch {
					case (scv == "") != (g.cv == ""):
						run.Fail(fmt.Sprintf("constness(go=%v,builder=%v)/%s", scv != "", g.cv != "", p.class()), desc, p)
					case scv != g.cv:
						run.Fail("value-differs/"+p.class(), desc, p)
					}
				}
			}
			// C02: the emitted call is the same call
			if prop == "C02" && p.Ok && !g.rejected && g.fault == "" && g.text != "" {
				want, err1 := parser.ParseExpr(p.text())
				got, err2 := parser.ParseExpr(g.text)
				switch {
				case err1 != nil:
					run.Infra(fmt.Errorf("reference text %q does not parse: %v", p.text(), err1))
				case err2 != nil:
					run.Fail("emitted-expression-does-not-parse/"+p.coarse(), fmt.Sprintf("`%s` is emitted as `%s`: %v", p.text(), g.text, err2), p)
				case canonUntyped(want) != canonUntyped(got):
					run.Fail("not-reproduced/"+p.coarse(), fmt.Sprintf("`%s` is emitted as `%s`: %s", p.text(), g.text, canonDiff(canonUntyped(want), canonUntyped(got))), p)
				}
			}
		}
	})
}
