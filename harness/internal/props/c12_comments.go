package props

// C12, statement comments (spec/Comments.tla): replay of commented statement lists.

import (
	"bytes"
	"encoding/json"
	"fmt"
	"go/ast"
	"go/format"
	"go/parser"
	"go/token"
	"go/types"
	"sort"
	"strings"
	"time"

	"github.com/goplus/gogen"

	"verif/harness/internal/ev"
	"verif/harness/internal/tlc"
)

type cmtPoint struct {
	Kind string           `json:"kind"`
	Ops  [][2]interface{} `json:"ops"`
	Att  [][2]int         `json:"att"`
}

func (p cmtPoint) opsText() string {
	var s []string
	for _, o := range p.Ops {
		s = append(s, fmt.Sprintf("%v(%v)", o[0], o[1]))
	}
	return strings.Join(s, " ")
}

// shape for finding keys: the operation names only
func (p cmtPoint) shape() string {
	var s []string
	for _, o := range p.Ops {
		s = append(s, fmt.Sprint(o[0]))
	}
	return strings.Join(s, ",")
}

const cmtMarkers = 14

func cmtBuild(p cmtPoint) (src string, fail string) {
	defer func() {
		if e := recover(); e != nil {
			fail = fmt.Sprintf("builder failed: %v", e)
		}
	}()
	fset, imp := sharedImporter()
	pkg := gogen.NewPackage("", "p", &gogen.Config{Fset: fset, Importer: imp, HandleErr: func(error) {}})
	for i := 1; i <= cmtMarkers; i++ {
		pkg.NewVar(token.NoPos, types.Typ[types.Bool], fmt.Sprintf("c%d", i))
		pkg.NewFunc(nil, fmt.Sprintf("m%d", i), nil, nil, false).BodyStart(pkg).End()
	}
	cb := pkg.NewFunc(nil, "body", nil, nil, false).BodyStart(pkg)
	ref := func(n string) types.Object { return pkg.Types.Scope().Lookup(n) }
	nlab := 0
	for _, o := range p.Ops {
		op := fmt.Sprint(o[0])
		a := int(o[1].(float64))
		switch op {
		case "call":
			cb.Val(ref(fmt.Sprintf("m%d", a))).Call(0).EndStmt()
		case "def":
			cb.DefineVarStart(token.NoPos, fmt.Sprintf("v%d", a)).Val(a).EndInit(1)
		case "if":
			cb.If().Val(ref(fmt.Sprintf("c%d", a))).Then()
		case "for":
			cb.For().Val(ref(fmt.Sprintf("c%d", a))).Then()
		case "ifinit":
			cb.If().DefineVarStart(token.NoPos, fmt.Sprintf("v%d", a)).Val(a).EndInit(1).Val(ref(fmt.Sprintf("c%d", a+1))).Then()
		case "end":
			cb.End()
		case "label":
			nlab++
			cb.Label(cb.NewLabel(token.NoPos, token.NoPos, fmt.Sprintf("L%d", nlab)))
		case "once", "sticky":
			cb.SetComments(&ast.CommentGroup{List: []*ast.Comment{{Text: fmt.Sprintf("\n// k%d", a)}}}, op == "once")
		case "clear":
			cb.SetComments(nil, false)
		default:
			panic("harness: unknown comment op " + op)
		}
	}
	cb.SetComments(nil, false)
	cb.End()
	var out, again bytes.Buffer
	if err := pkg.WriteTo(&out); err != nil {
		return "", "WriteTo: " + err.Error()
	}
	// writing is an observation: the same package written twice gives the same text (each comment once, both times)
	if err := pkg.WriteTo(&again); err != nil {
		return "", "second WriteTo: " + err.Error()
	}
	if out.String() != again.String() {
		return out.String(), "second-write-differs"
	}
	return out.String(), ""
}

func cmtMarker(s ast.Stmt) string {
	id := func(e ast.Expr) string {
		if i, ok := e.(*ast.Ident); ok {
			return i.Name
		}
		return "?"
	}
	switch x := s.(type) {
	case *ast.ExprStmt:
		if c, ok := x.X.(*ast.CallExpr); ok {
			return id(c.Fun)
		}
	case *ast.AssignStmt:
		if len(x.Lhs) == 1 {
			return id(x.Lhs[0])
		}
	case *ast.IfStmt:
		return id(x.Cond)
	case *ast.ForStmt:
		return id(x.Cond)
	case *ast.LabeledStmt:
		return "label"
	}
	return fmt.Sprintf("%T", s)
}

// observed attachments: for every printed comment, the statement whose first token directly follows it
func cmtObserve(src string) ([]string, error) {
	fset := token.NewFileSet()
	f, err := parser.ParseFile(fset, "o.go", src, parser.ParseComments|parser.SkipObjectResolution)
	if err != nil {
		return nil, err
	}
	// statement start offsets (outermost first is irrelevant: distinct statements start at distinct tokens, except a
	// labelled statement and nothing else)
	starts := map[int][]ast.Stmt{}
	ast.Inspect(f, func(n ast.Node) bool {
		if s, ok := n.(ast.Stmt); ok {
			if _, isBlock := s.(*ast.BlockStmt); !isBlock {
				off := fset.Position(s.Pos()).Offset
				starts[off] = append(starts[off], s)
			}
		}
		return true
	})
	var out []string
	for _, cg := range f.Comments {
		for _, c := range cg.List {
			end := fset.Position(c.End()).Offset
			// next token: skip white space (comments following directly belong to their own entry)
			i := end
			for i < len(src) && (src[i] == ' ' || src[i] == '\t' || src[i] == '\n' || src[i] == '\r') {
				i++
			}
			text := strings.TrimSpace(strings.TrimPrefix(c.Text, "//"))
			if ss := starts[i]; len(ss) > 0 {
				out = append(out, text+"->"+cmtMarker(ss[0]))
			} else {
				j := i
				for j < len(src) && j < i+12 && src[j] != '\n' {
					j++
				}
				out = append(out, text+"->not-a-statement-start:"+strings.TrimSpace(src[i:j]))
			}
		}
	}
	sort.Strings(out)
	return out, nil
}

func cmtExpected(p cmtPoint) []string {
	// marker names: from the operation that introduced the marker
	name := map[int]string{}
	for _, o := range p.Ops {
		a := int(o[1].(float64))
		switch fmt.Sprint(o[0]) {
		case "call":
			name[a] = fmt.Sprintf("m%d", a)
		case "def":
			name[a] = fmt.Sprintf("v%d", a)
		case "if", "for":
			name[a] = fmt.Sprintf("c%d", a)
		case "ifinit":
			name[a] = fmt.Sprintf("v%d", a)
			name[a+1] = fmt.Sprintf("c%d", a+1)
		}
	}
	var out []string
	for _, at := range p.Att {
		out = append(out, fmt.Sprintf("k%d->%s", at[1], name[at[0]]))
	}
	sort.Strings(out)
	return out
}

func cmtCheck(run *ev.Run, p cmtPoint) {
	run.Eval("comments:" + p.opsText())
	src, fail := cmtBuild(p)
	if fail == "second-write-differs" {
		run.Fail("comments/second-write-differs/"+cmtClass(p), fmt.Sprintf("%s: writing the package a second time gives another text (comments printed by the first write are gone or doubled)", p.opsText()), p)
		return
	}
	if fail != "" {
		run.Fail("comments/build-fails/"+p.shape(), fmt.Sprintf("%s on %s", fail, p.opsText()), p)
		return
	}
	obs, err := cmtObserve(src)
	if err != nil {
		run.Fail("comments/printed-text-does-not-parse/"+cmtClass(p), fmt.Sprintf("commented statements %s are printed as text that does not parse: %s\n%s", p.opsText(), stripPos(err.Error()), cmtBody(src)), p)
		return
	}
	want := cmtExpected(p)
	if strings.Join(obs, " ") != strings.Join(want, " ") {
		run.Fail("comments/attachment-differs/"+cmtClass(p), fmt.Sprintf("%s: printed comments precede %v; the protocol attaches %v\n%s", p.opsText(), obs, want, cmtBody(src)), p)
		return
	}
	if len(p.Att) > 0 {
		fm, err := format.Source([]byte(src))
		if err != nil {
			run.Fail("comments/printed-text-does-not-parse/"+cmtClass(p), fmt.Sprintf("go/format: %v", err), p)
		} else if string(fm) != src {
			a, b := strings.Split(src, "\n"), strings.Split(string(fm), "\n")
			i := 0
			for i < len(a) && i < len(b) && a[i] == b[i] {
				i++
			}
			la, lb := "", ""
			if i < len(a) && i < len(b) {
				la, lb = a[i], b[i]
			}
			kind := "other"
			if strings.TrimSpace(la) == strings.TrimSpace(lb) && strings.HasPrefix(strings.TrimSpace(la), "//") {
				kind = "comment-indentation"
			}
			run.Fail("comments/not-a-gofmt-fixed-point/"+kind, fmt.Sprintf("%s: go/format changes the written text: `%s` becomes `%s`", p.opsText(), la, lb), p)
		}
	}
}

// class: which kinds of statement take a comment, and how (once / sticky)
func cmtClass(p cmtPoint) string {
	kind := map[int]string{}
	mode := map[int]string{}
	for _, o := range p.Ops {
		a := int(o[1].(float64))
		switch op := fmt.Sprint(o[0]); op {
		case "call", "def", "if", "for":
			kind[a] = op
		case "ifinit":
			kind[a], kind[a+1] = "if-initialiser", "if"
		case "once", "sticky":
			mode[a] = op
		}
	}
	set := map[string]bool{}
	for _, at := range p.Att {
		set[mode[at[1]]+":"+kind[at[0]]] = true
	}
	var ks []string
	for k := range set {
		ks = append(ks, k)
	}
	sort.Strings(ks)
	lab := ""
	for _, o := range p.Ops {
		if fmt.Sprint(o[0]) == "label" {
			lab = "+label"
		}
	}
	return "{" + strings.Join(ks, ",") + "}" + lab
}

func cmtBody(src string) string {
	if i := strings.Index(src, "func body()"); i >= 0 {
		return src[i:]
	}
	return src
}

func cmtRun(run *ev.Run, tier string) (int64, int64, int64) {
	maxOps := 6
	if tier == "thorough" {
		maxOps = 8
	}
	var pts []cmtPoint
	res, err := tlc.Run(tlc.Opts{SpecDir: SpecDir, Module: "Comments", Workers: tierWorkers(tier), Heavy: true, HeapMB: 8192, Timeout: 30 * time.Minute,
		Cfg: fmt.Sprintf("SPECIFICATION Spec\nCONSTANTS\n  MaxOps = %d\n  MaxNest = 2\n  MaxComments = 2\nINVARIANTS AtMostOnePerStmt OnceIsOnce EmitInv\nCHECK_DEADLOCK FALSE\n", maxOps),
		OnJSON: func(l string) {
			var p cmtPoint
			if json.Unmarshal([]byte(l), &p) == nil && p.Kind == "comments" {
				pts = append(pts, p)
			}
		}})
	if err != nil {
		run.Infra(err)
	}
	if res.Violation {
		run.Infra(fmt.Errorf("Comments.tla violates its invariants:\n%s", res.ErrText))
	}
	if len(pts) == 0 {
		run.Infra(fmt.Errorf("Comments.tla printed no behaviour"))
	}
	natt := 0
	for _, p := range pts {
		natt += len(p.Att)
	}
	if natt == 0 {
		run.Infra(fmt.Errorf("Comments.tla: no behaviour attaches a comment (vacuous)"))
	}
	parallelN(8, len(pts), func(i int) { cmtCheck(run, pts[i]) })
	run.Set("comment_behaviours", fmt.Sprintf("%d commented statement lists (%d attachments), tlc %d distinct states", len(pts), natt, res.Distinct))
	return res.Distinct, res.Generated, int64(len(pts))
}
