package props

// C08 — selector resolution follows Go's field and method lookup rules.
//
// spec/Select.tla transcribes Go's selector rules (breadth-first by embedding depth,
// ambiguity at the shallowest depth, promotion through embedded pointers, pointer
// receivers need addressable operands, unexported members of other packages are
// invisible) and TLC enumerates struct type graphs with the verdict of every selector
// on a value / addressable value / pointer.  Three parties per lookup: S (Select.tla),
// T (types.LookupFieldOrMethod on the realised graph; S != T is exit 2), G (the real
// CodeBuilder.Member / MemberRef: kind, object notified to the Recorder, result type).

import (
	"encoding/json"
	"fmt"
	"go/ast"
	"go/token"
	"go/types"
	"sort"
	"strings"
	"sync"
	"time"

	"github.com/goplus/gogen"

	"verif/harness/internal/ev"
	"verif/harness/internal/tlc"
)

func init() { Registry["C08"] = runC08 }

type selField struct {
	Emb  bool   `json:"emb"`
	Name string `json:"name"`
	Ty   string `json:"ty"`
	To   string `json:"to"`
	Ptr  bool   `json:"ptr"`
}
type selDef struct {
	Fields []selField `json:"fields"`
	Meth   string     `json:"meth"`
}
type selRes struct {
	K     string `json:"k"`
	Owner string `json:"owner"`
	Path  []int  `json:"path"`
	Ind   bool   `json:"ind"`
}
// selWhere qualifies a finding key by where Go finds the member: the type's own member or a promoted one (the builder's
// depth-first walk only goes wrong for promoted members; a change that breaks own members must not hide behind it)
func selWhere(s selRes) string {
	switch s.K {
	case "field", "method", "needaddr":
		if s.Owner == "R" {
			return " [Go: own member]"
		}
		return " [Go: promoted]"
	}
	return ""
}

type selCase struct {
	G   map[string]selDef            `json:"g"`
	Q   []string                     `json:"q"`
	Res map[string]map[string]selRes `json:"res"`
	// "std" | "dual" (Select.tla Naming); the realisation "uni" of std graphs gives the exported names a non-ASCII capital
	Naming string `json:"naming"`
}

// nm realises a name of the specification: std keeps x and A, B, C; dual exports the member (X) and hides the type names
// (a, b, c); uni is std with exported names that start with a non-ASCII upper-case letter (Äa: still exported in Go)
func (w *selWorld) nm(s string) string {
	switch w.naming {
	case "dual":
		if s == "x" {
			return "X"
		}
		return strings.ToLower(s)
	case "uni":
		if s != "x" {
			return "Ä" + strings.ToLower(s)
		}
	}
	return s
}

type selRecorder struct{ obj types.Object }

func (r *selRecorder) Member(id ast.Node, obj types.Object) { r.obj = obj }
func (r *selRecorder) Call(fn ast.Node, obj types.Object)   {}

type selWorld struct {
	pkg   *gogen.Package
	cb    *gogen.CodeBuilder
	rec   *selRecorder
	pkgQ  *types.Package
	named map[string]*types.Named
	meths map[string]*types.Func
	va    *types.Var
	vp    *types.Var
	fr    *types.Func
	// delay-loaded realisation: the types have no underlying type until Config.LoadNamed runs their loader
	lazy    bool
	loaders map[*types.Named]func()
	naming  string
}

func (w *selWorld) loadAll() {
	for _, f := range w.loaders {
		f()
	}
	w.loaders = map[*types.Named]func(){}
}

func newSelWorld() *selWorld {
	fset, imp := sharedImporter()
	w := &selWorld{rec: &selRecorder{}}
	w.loaders = map[*types.Named]func(){}
	w.pkg = gogen.NewPackage("", "p", &gogen.Config{Fset: fset, Importer: imp, Recorder: w.rec, HandleErr: func(error) {},
		LoadNamed: func(at *gogen.Package, typ *types.Named) {
			if f := w.loaders[typ]; f != nil {
				delete(w.loaders, typ)
				f()
			}
		}})
	w.pkg.NewFunc(nil, "host", nil, nil, false).BodyStart(w.pkg)
	w.cb = w.pkg.CB()
	w.pkgQ = types.NewPackage("q", "q")
	return w
}

// realise builds the graph with go/types objects (R and the types not in q live in the builder's package).
// With shared, types of one package whose field lists are equal share one *types.Struct, as type B A does (B gets A's
// struct, not A's methods): lookups must not confuse the two types.
func (w *selWorld) realise(c selCase, shared ...bool) {
	share := len(shared) > 0 && shared[0]
	if c.Naming == "dual" {
		w.naming = "dual"
	} else if w.naming == "dual" {
		w.naming = ""
	}
	structOf := map[string]*types.Struct{}
	inQ := map[string]bool{}
	for _, t := range c.Q {
		inQ[t] = true
	}
	pkgOf := func(t string) *types.Package {
		if inQ[t] {
			return w.pkgQ
		}
		return w.pkg.Types
	}
	w.named = map[string]*types.Named{}
	w.meths = map[string]*types.Func{}
	names := []string{"R", "A", "B", "C"}
	for _, t := range names {
		w.named[t] = types.NewNamed(types.NewTypeName(token.NoPos, pkgOf(t), w.nm(t), nil), nil, nil)
	}
	for _, t := range names {
		d := c.G[t]
		var fs []*types.Var
		for _, f := range d.Fields {
			if f.Emb {
				var ft types.Type = w.named[f.To]
				if f.Ptr {
					ft = types.NewPointer(ft)
				}
				fs = append(fs, types.NewField(token.NoPos, pkgOf(t), w.nm(f.To), ft, true))
			} else {
				ft := types.Typ[types.Int]
				if f.Ty == "string" {
					ft = types.Typ[types.String]
				}
				fs = append(fs, types.NewField(token.NoPos, pkgOf(t), w.nm(f.Name), ft, false))
			}
		}
		key, _ := json.Marshal(d.Fields)
		k := pkgOf(t).Path() + "|" + string(key)
		if st := structOf[k]; share && st != nil {
			w.named[t].SetUnderlying(st)
			continue
		}
		st := types.NewStruct(fs, nil)
		structOf[k] = st
		if w.lazy {
			continue // see below: underlying type and method arrive together, when the type is loaded
		}
		w.named[t].SetUnderlying(st)
	}
	if w.lazy {
		w.loaders = map[*types.Named]func(){}
	}
	for _, t := range names {
		d := c.G[t]
		if w.lazy {
			t, d, nt := t, d, w.named[t]
			key, _ := json.Marshal(d.Fields)
			st := structOf[pkgOf(t).Path()+"|"+string(key)]
			w.loaders[nt] = func() {
				nt.SetUnderlying(st)
				if d.Meth == "none" || d.Meth == "" {
					return
				}
				var rt types.Type = nt
				if d.Meth == "ptr" {
					rt = types.NewPointer(rt)
				}
				sig := types.NewSignatureType(types.NewVar(token.NoPos, pkgOf(t), "", rt), nil, nil, nil,
					types.NewTuple(types.NewVar(token.NoPos, pkgOf(t), "", types.Typ[types.Int])), false)
				fn := types.NewFunc(token.NoPos, pkgOf(t), w.nm("x"), sig)
				nt.AddMethod(fn)
				w.meths[t] = fn
			}
			continue
		}
		if d.Meth == "none" || d.Meth == "" {
			continue
		}
		var rt types.Type = w.named[t]
		if d.Meth == "ptr" {
			rt = types.NewPointer(rt)
		}
		sig := types.NewSignatureType(types.NewVar(token.NoPos, pkgOf(t), "", rt), nil, nil, nil,
			types.NewTuple(types.NewVar(token.NoPos, pkgOf(t), "", types.Typ[types.Int])), false)
		fn := types.NewFunc(token.NoPos, pkgOf(t), w.nm("x"), sig)
		w.named[t].AddMethod(fn)
		w.meths[t] = fn
	}
	R := w.named["R"]
	w.va = types.NewVar(token.NoPos, w.pkg.Types, "va", R)
	w.vp = types.NewVar(token.NoPos, w.pkg.Types, "vp", types.NewPointer(R))
	w.fr = types.NewFunc(token.NoPos, w.pkg.Types, "fr",
		types.NewSignatureType(nil, nil, nil, nil, types.NewTuple(types.NewVar(token.NoPos, w.pkg.Types, "", R)), false))
}

// expected object of a specification verdict (walk the index path)
func (w *selWorld) objectOf(c selCase, r selRes) types.Object {
	t := "R"
	var st *types.Struct
	for i, idx := range r.Path {
		st = w.named[t].Underlying().(*types.Struct)
		f := st.Field(idx - 1)
		if r.K == "field" && i == len(r.Path)-1 {
			return f
		}
		t = c.G[t].Fields[idx-1].To
	}
	if r.K == "method" {
		return w.meths[r.Owner]
	}
	return nil
}

type selG struct {
	kind string // field | method | rejected | panic
	obj  types.Object
	typ  types.Type
	msg  string
}

func (w *selWorld) push(form string) {
	switch form {
	case "tv":
		w.cb.Typ(w.named["R"])
		return
	case "tp":
		w.cb.Typ(types.NewPointer(w.named["R"]))
		return
	}
	switch form {
	case "v":
		w.cb.Val(w.fr).Call(0)
	case "a":
		w.cb.Val(w.va)
	default:
		w.cb.Val(w.vp)
	}
}

func (w *selWorld) member(form, sel string, ref bool) (g selG) {
	defer func() {
		if e := recover(); e != nil {
			g = selG{kind: "rejected", msg: fmt.Sprint(e)}
			if _, ok := e.(interface{ RuntimeError() }); ok {
				g.kind = "panic"
			}
		}
		w.cb.ResetStmt()
	}()
	w.rec.obj = nil
	w.push(form)
	flag := gogen.MemberFlagVal
	if ref {
		flag = gogen.MemberFlagRef
	}
	kind, err := w.cb.Member(w.nm(sel), 0, flag)
	if err != nil {
		return selG{kind: "rejected", msg: err.Error()}
	}
	switch kind {
	case gogen.MemberField:
		g.kind = "field"
	case gogen.MemberMethod:
		g.kind = "method"
	default:
		g.kind = fmt.Sprintf("kind%d", kind)
	}
	g.obj = w.rec.obj
	g.typ = w.cb.Get(-1).Type
	return g
}

func selDescribe(c selCase) string {
	var b strings.Builder
	for _, t := range []string{"R", "A", "B", "C"} {
		d := c.G[t]
		if len(d.Fields) == 0 && (d.Meth == "none" || d.Meth == "") && t != "R" {
			continue
		}
		fmt.Fprintf(&b, "type %s struct{", t)
		for i, f := range d.Fields {
			if i > 0 {
				b.WriteString("; ")
			}
			if f.Emb {
				if f.Ptr {
					b.WriteString("*")
				}
				b.WriteString(f.To)
			} else {
				b.WriteString(f.Name + " " + f.Ty)
			}
		}
		b.WriteString("}")
		if d.Meth == "val" {
			fmt.Fprintf(&b, " func (%s) x() int", t)
		} else if d.Meth == "ptr" {
			fmt.Fprintf(&b, " func (*%s) x() int", t)
		}
		b.WriteString("; ")
	}
	if len(c.Q) > 0 {
		fmt.Fprintf(&b, "[in package q: %v]", c.Q)
	}
	return b.String()
}

func runC08(tier, replay string) {
	run := ev.Start("C08", tier, "model_checking")
	var lookups int64
	var mu sync.Mutex
	var checkCaseV func(w *selWorld, c selCase, shared bool)
	var checkLazy func(w *selWorld, c selCase, only map[string]bool)
	checkCase := func(w *selWorld, c selCase) {
		checkCaseV(w, c, false)
		if c.Naming != "dual" {
			// the same graph with exported names that start with a non-ASCII capital letter
			w.naming = "uni"
			checkCaseV(w, c, false)
			w.naming = ""
		}
		checkLazy(w, c, nil)
		// two types of one package with equal field lists: once more with the two sharing one struct (type B A)
		inQ := map[string]bool{}
		for _, t := range c.Q {
			inQ[t] = true
		}
		seen := map[string]bool{}
		for _, t := range []string{"R", "A", "B", "C"} {
			key, _ := json.Marshal(c.G[t].Fields)
			k := fmt.Sprint(inQ[t]) + "|" + string(key)
			if seen[k] {
				checkCaseV(w, c, true)
				break
			}
			seen[k] = true
		}
	}
	// delay-loaded types: every MemberVal lookup is the first use of freshly declared, not yet loaded types
	checkLazy = func(w *selWorld, c selCase, only map[string]bool) {
		sels := []string{}
		for s := range c.Res {
			sels = append(sels, s)
		}
		sort.Strings(sels)
		for _, sel := range sels {
			for _, form := range []string{"v", "a", "p"} {
				if only != nil && !only[sel+"/"+form] {
					continue
				}
				s := c.Res[sel][form]
				w.lazy = true
				w.realise(c)
				w.lazy = false
				g := w.member(form, sel, false)
				w.loadAll()
				want := w.objectOf(c, s)
				expK := s.K
				if expK == "none" || expK == "ambiguous" || expK == "needaddr" {
					expK = "rejected"
				}
				mu.Lock()
				lookups++
				mu.Unlock()
				run.Eval(fmt.Sprintf("lazy/%s/%s/%v", s.K, form, s.Ind) + fmt.Sprint(len(s.Path)))
				bad := ""
				switch {
				case g.kind != expK:
					bad = fmt.Sprintf("MemberVal/%s: Go=%s builder=%s", form, s.K, g.kind)
				case (g.kind == "field" || g.kind == "method") && g.obj != want:
					bad = fmt.Sprintf("MemberVal/%s: Go=%s builder=%s-but-wrong-object(delay-loaded)", form, s.K, g.kind)
				}
				if bad != "" {
					run.Fail(bad+selWhere(s), fmt.Sprintf("selector %s on %s operand of type R: Go (Select.tla = go/types) says %s%s, the builder says %s %v %s; graph: %s [types delay-loaded through Config.LoadNamed; the selector is their first use]",
						sel, map[string]string{"v": "a non-addressable value", "a": "an addressable", "p": "a pointer"}[form], s.K, ownerStr(s), g.kind, g.obj, g.msg, selDescribe(c)),
						map[string]any{"case": c, "sel": sel, "form": form, "lazy": true})
				}
			}
		}
	}
	checkCaseV = func(w *selWorld, c selCase, shared bool) {
		w.realise(c, shared)
		suffix := "" // (description only: the finding keys are those of the plain realisation)
		if shared {
			suffix = " [realised with the types of equal field lists sharing one struct]"
		}
		sels := []string{}
		for s := range c.Res {
			sels = append(sels, s)
		}
		sort.Strings(sels)
		for _, sel := range sels {
			for _, form := range []string{"v", "a", "p"} {
				s := c.Res[sel][form]
				// ---- T validates S
				var T types.Type = w.named["R"]
				if form == "p" {
					T = types.NewPointer(T)
				}
				obj, index, indirect := types.LookupFieldOrMethod(T, form == "a", w.pkg.Types, w.nm(sel))
				tk := "none"
				switch {
				case obj != nil:
					if _, ok := obj.(*types.Func); ok {
						tk = "method"
					} else {
						tk = "field"
					}
				case index != nil:
					tk = "ambiguous"
				case indirect:
					tk = "needaddr"
				}
				want := w.objectOf(c, s)
				if tk != s.K || (obj != nil && obj != want) {
					run.Infra(fmt.Errorf("Select.tla disagrees with types.LookupFieldOrMethod (specification defect): %s.%s on %s: S=%s T=%s; %s", "R", sel, form, s.K, tk, selDescribe(c)))
				}
				// ---- method expressions (R).sel and (*R).sel: legal iff sel is in the method set of the type
				if form != "a" {
					mform := map[string]string{"v": "tv", "p": "tp"}[form]
					ms := types.NewMethodSet(T)
					inSet := ms.Lookup(w.pkg.Types, w.nm(sel)) != nil
					if inSet != (s.K == "method") && s.K != "ambiguous" {
						run.Infra(fmt.Errorf("Select.tla disagrees with go/types method sets (specification defect): (%s).%s S=%s T in-set=%v; %s", T, sel, s.K, inSet, selDescribe(c)))
					}
					g := w.member(mform, sel, false)
					expK := "rejected"
					if s.K == "method" {
						expK = "method"
					}
					mu.Lock()
					lookups++
					mu.Unlock()
					run.Eval(fmt.Sprintf("mexpr/%s/%s/%v", s.K, mform, s.Ind) + fmt.Sprint(len(s.Path)))
					bad := ""
					if g.kind != expK {
						bad = fmt.Sprintf("MethodExpr/%s: Go=%s builder=%s", mform, s.K, g.kind)
					} else if g.kind == "method" {
						sig := want.Type().(*types.Signature)
						ps := []*types.Var{types.NewParam(token.NoPos, nil, "", T)}
						wt := types.NewSignatureType(nil, nil, nil, types.NewTuple(ps...), sig.Results(), false)
						if !types.Identical(g.typ, wt) {
							gotRecv := "no-receiver-parameter"
							if gs, ok := g.typ.(*types.Signature); ok && gs.Params().Len() > 0 {
								switch pt := gs.Params().At(0).Type(); {
								case types.Identical(pt, w.named["R"]):
									gotRecv = "R"
								case types.Identical(pt, types.NewPointer(w.named["R"])):
									gotRecv = "*R"
								default:
									gotRecv = "another-type"
								}
							}
							bad = fmt.Sprintf("MethodExpr/%s: Go=method(receiver=%s,through-pointer=%v,depth=%d) builder-first-parameter=%s", mform, c.G[s.Owner].Meth, s.Ind, len(s.Path), gotRecv)
						} else if g.obj != want {
							bad = fmt.Sprintf("MethodExpr/%s: Go=method builder=method-but-wrong-object", mform)
						}
					}
					if bad != "" {
						run.Fail(bad+selWhere(s), fmt.Sprintf("method expression (%s).%s: Go (Select.tla = go/types) says %s%s, the builder says %s type %v %s; graph: %s%s", T, sel, s.K, ownerStr(s), g.kind, g.typ, g.msg, selDescribe(c), suffix),
							map[string]any{"case": c, "sel": sel, "form": mform, "shared": shared})
					}
				}
				// ---- G
				for _, ref := range []bool{false, true} {
					if ref && form == "v" {
						continue
					}
					g := w.member(form, sel, ref)
					api := "MemberVal"
					expK := s.K
					if ref {
						api = "MemberRef"
						if expK == "method" { // a method is not an assignment target
							expK = "rejected"
						}
					}
					if expK == "none" || expK == "ambiguous" || expK == "needaddr" {
						expK = "rejected"
					}
					mu.Lock()
					lookups++
					mu.Unlock()
					run.Eval(fmt.Sprintf("%s/%s/%s/%v", s.K, form, api, s.Ind) + fmt.Sprint(len(s.Path)))
					bad := ""
					switch {
					case g.kind != expK:
						bad = fmt.Sprintf("%s/%s: Go=%s builder=%s", api, form, s.K, g.kind)
					case g.kind == "field" || g.kind == "method":
						if g.obj != want {
							depth := "other"
							if f, ok := g.obj.(*types.Var); ok && f.IsField() {
								depth = "another-field"
							}
							bad = fmt.Sprintf("%s/%s: Go=%s builder=%s-but-wrong-object(%s)", api, form, s.K, g.kind, depth)
						} else if !ref {
							var wt types.Type
							if g.kind == "field" {
								wt = want.Type()
							} else {
								sig := want.Type().(*types.Signature)
								wt = types.NewSignatureType(nil, nil, nil, sig.Params(), sig.Results(), false)
							}
							if !types.Identical(g.typ, wt) {
								bad = fmt.Sprintf("%s/%s: Go=%s builder-type-differs", api, form, s.K)
							}
						}
					}
					if bad != "" {
						run.Fail(bad+selWhere(s), fmt.Sprintf("selector %s on %s operand of type R: Go (Select.tla = go/types) says %s%s, the builder says %s %v %s; graph: %s%s",
							sel, map[string]string{"v": "a non-addressable value", "a": "an addressable", "p": "a pointer"}[form], s.K, ownerStr(s), g.kind, g.obj, g.msg, selDescribe(c), suffix),
							map[string]any{"case": c, "sel": sel, "form": form, "ref": ref, "shared": shared})
					}
				}
			}
		}
	}
	if replay != "" {
		var r struct {
			Case   selCase `json:"case"`
			Shared bool    `json:"shared"`
			Lazy   bool    `json:"lazy"`
			Sel    string  `json:"sel"`
			Form   string  `json:"form"`
		}
		if err := loadReplay(replay, &r); err != nil {
			run.Infra(err)
		}
		if r.Lazy {
			checkLazy(newSelWorld(), r.Case, map[string]bool{r.Sel + "/" + r.Form: true})
		} else {
			checkCaseV(newSelWorld(), r.Case, r.Shared)
		}
		run.Eval("x")
		run.Set("states", 1)
		run.Set("transitions", 1)
		run.Set("traces_validated_against_impl", 1)
		run.Sample(r.Case)
		run.Finish()
	}
	type conf struct {
		name string
		cfg  string
		sim  int
	}
	mk := func(tn string, mf int, q, pt string, sim bool, naming ...string) string {
		nmg := "std"
		if len(naming) > 0 {
			nmg = naming[0]
		}
		s := "INIT Init\nNEXT Next\n"
		if sim {
			s = "INIT SimInit\nNEXT SimNext\n"
		}
		return s + fmt.Sprintf("CONSTANTS\n  TN = %s\n  MaxFields = %d\n  QChoices = %s\n  PlainTypes = %s\n  Naming = %q\nINVARIANTS Laws Emit\nCHECK_DEADLOCK FALSE\n", tn, mf, q, pt, nmg)
	}
	confs := []conf{
		{"RAB-1field-exhaustive", mk(`{"R","A","B"}`, 1, `{{}}`, `{"int"}`, false), 0},
		{"RABC-2fields-2packages-sampled", mk(`{"R","A","B","C"}`, 2, `{{}, {"B"}, {"C"}, {"A","C"}}`, `{"int","string"}`, true), 2500},
		{"RABC-2fields-2packages-dual-naming-sampled", mk(`{"R","A","B","C"}`, 2, `{{"B"}, {"C"}, {"A","C"}, {"A","B","C"}}`, `{"int","string"}`, true, "dual"), 1500},
	}
	if tier == "thorough" {
		confs = []conf{
			{"RAB-2fields-exhaustive", mk(`{"R","A","B"}`, 2, `{{}}`, `{"int"}`, false), 0},
			{"RABC-1field-2packages-exhaustive", mk(`{"R","A","B","C"}`, 1, `{{}, {"B"}}`, `{"int"}`, false), 0},
			{"RABC-2fields-2packages-sampled", mk(`{"R","A","B","C"}`, 2, `{{}, {"B"}, {"C"}, {"A","C"}}`, `{"int","string"}`, true), 60000},
			{"RABC-1field-2packages-dual-naming-exhaustive", mk(`{"R","A","B","C"}`, 1, `{{"B"}, {"A","C"}}`, `{"int"}`, false, "dual"), 0},
			{"RABC-2fields-2packages-dual-naming-sampled", mk(`{"R","A","B","C"}`, 2, `{{"B"}, {"C"}, {"A","C"}, {"A","B","C"}}`, `{"int","string"}`, true, "dual"), 30000},
		}
	}
	var states, transitions, graphs int64
	t0 := time.Now()
	for ci, c := range confs {
		var batch []selCase
		var wg sync.WaitGroup
		sem := make(chan struct{}, 12)
		var n int64
		distinctGraphs := map[string]bool{}
		flush := func(b []selCase) {
			wg.Add(1)
			sem <- struct{}{}
			go func() {
				defer func() { <-sem; wg.Done() }()
				w := newSelWorld()
				for _, x := range b {
					checkCase(w, x)
				}
			}()
		}
		opts := tlc.Opts{SpecDir: SpecDir, Module: "Select", Cfg: c.cfg, Workers: tierWorkers(tier), Heavy: true, HeapMB: 8192, Timeout: 40 * time.Minute,
			OnJSON: func(l string) {
				var x selCase
				if json.Unmarshal([]byte(l), &x) != nil || len(x.G) == 0 {
					return
				}
				batch = append(batch, x)
				if gk, err := json.Marshal(x.G); err == nil {
					distinctGraphs[string(gk)+fmt.Sprint(x.Q)] = true
				}
				n++
				if len(batch) >= 200 {
					flush(batch)
					batch = nil
				}
				if n == 500 {
					run.Sample(map[string]any{"configuration": c.name, "graph": selDescribe(x), "verdicts": x.Res})
				}
			}}
		if c.sim > 0 {
			opts.Simulate = "num=1"
			opts.Depth = c.sim
			opts.Seed = run.Seed + int64(ci)
			opts.Workers = 1
		}
		res, err := tlc.Run(opts)
		if err != nil {
			run.Infra(err)
		}
		if res.Violation {
			run.Infra(fmt.Errorf("Select.tla violates its laws in %s:\n%s", c.name, res.ErrText))
		}
		if len(batch) > 0 {
			flush(batch)
		}
		wg.Wait()
		if n == 0 {
			run.Infra(fmt.Errorf("configuration %s generated no graph", c.name))
		}
		if c.sim > 0 && int64(len(distinctGraphs))*2 < n {
			run.Infra(fmt.Errorf("vacuity: configuration %s sampled only %d distinct graphs in %d steps", c.name, len(distinctGraphs), n))
		}
		run.Set("distinct_graphs_"+c.name, len(distinctGraphs))
		states += res.Distinct
		transitions += res.Generated
		graphs += n
		run.Set("conf_"+c.name, fmt.Sprintf("%d type graphs, %.1fs since start", n, time.Since(t0).Seconds()))
	}
	if states == 0 {
		states = graphs
	}
	if transitions == 0 {
		transitions = graphs
	}
	run.Set("states", states)
	run.Set("transitions", transitions)
	run.Set("traces_validated_against_impl", lookups)
	run.Set("type_graphs", graphs)
	run.Set("spec_vs_gotypes_agreement", fmt.Sprintf("S = T on every lookup of %d graphs (a disagreement aborts with exit 2)", graphs))
	run.Set("rule", "a case = one selector lookup (type graph x selector x operand form x Member/MemberRef) on the real CodeBuilder; distinct = distinct (Go verdict, operand form, API, indirection, depth) class")
	run.Assume("type graphs are realised with go/types objects directly (the builder's type declaration API is not what is under test here)")
	run.Finish()
}

// selectForC03 reports, for property C03, selector lookups that both Go and the builder accept but for which
// the builder reports another type (or notifies the recorder of another object) than Go assigns to the emitted selector.
func selectForC03(run *ev.Run) (lookups int64) {
	cfg := "INIT Init\nNEXT Next\nCONSTANTS\n  TN = {\"R\",\"A\",\"B\"}\n  MaxFields = 1\n  QChoices = {{}}\n  PlainTypes = {\"int\", \"string\"}\n  Naming = \"std\"\nINVARIANTS Laws Emit\nCHECK_DEADLOCK FALSE\n"
	var cases []selCase
	res, err := tlc.Run(tlc.Opts{SpecDir: SpecDir, Module: "Select", Cfg: cfg, Workers: 4, Heavy: true, Timeout: 20 * time.Minute,
		OnJSON: func(l string) {
			var x selCase
			if json.Unmarshal([]byte(l), &x) == nil && len(x.G) > 0 {
				cases = append(cases, x)
			}
		}})
	if err != nil {
		run.Infra(err)
	}
	if res.Violation {
		run.Infra(fmt.Errorf("Select.tla violates its laws:\n%s", res.ErrText))
	}
	w := newSelWorld()
	for _, c := range cases {
		w.realise(c)
		for sel, forms := range c.Res {
			for _, form := range []string{"v", "a", "p"} {
				s := forms[form]
				if s.K != "field" && s.K != "method" {
					continue
				}
				g := w.member(form, sel, false)
				lookups++
				if g.kind != "field" && g.kind != "method" {
					continue
				}
				want := w.objectOf(c, s)
				var wt types.Type
				if s.K == "field" {
					wt = want.Type()
				} else {
					sig := want.Type().(*types.Signature)
					wt = types.NewSignatureType(nil, nil, nil, sig.Params(), sig.Results(), false)
				}
				if !types.Identical(g.typ, wt) || g.obj != want {
					run.Fail(fmt.Sprintf("selector-type/%s: go=%s builder=%s", form, s.K, g.kind),
						fmt.Sprintf("selector %s on a %s operand: the emitted selector denotes the %s %v of type %v in Go; the builder reports type %v and notifies the recorder of %v; graph: %s", sel, form, s.K, want, wt, g.typ, g.obj, selDescribe(c)),
						map[string]any{"case": c, "sel": sel, "form": form})
				}
			}
		}
	}
	return
}

func ownerStr(s selRes) string {
	if s.Owner == "" {
		return ""
	}
	return fmt.Sprintf(" of %s at depth %d", s.Owner, len(s.Path))
}
