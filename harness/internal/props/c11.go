package props

// C11: every language extension lowers to plain Go with the documented meaning.
// spec/Lower.tla is the catalogue (pattern |-> reference lowering) with its laws; every point is built
// with the real CodeBuilder as a package-level declaration, the package is written, and the typed
// canonical tree of each emitted declaration must equal that of the reference lowering rendered as Go
// (which must itself type-check).  Big-number literals are judged by value: the emitted expression is
// evaluated structurally with math/big and must equal the written value exactly.

import (
	"runtime"
	"bytes"
	"encoding/json"
	"fmt"
	"go/ast"
	"go/parser"
	"go/token"
	"go/types"
	"math/big"
	"os"
	"path/filepath"
	"strconv"
	"strings"
	"time"
	"unicode"

	"github.com/goplus/gogen"

	"verif/harness/internal/ev"
	"verif/harness/internal/tlc"
)

func init() { Registry["C11"] = runC11 }

type lowVal struct {
	S int `json:"s"`
	E int `json:"e"`
	D int `json:"d"`
}

func (v lowVal) big() *big.Int {
	x := new(big.Int).Lsh(big.NewInt(int64(v.S)), uint(v.E))
	return x.Add(x, big.NewInt(int64(v.D)))
}

type lowPt struct {
	Rule string `json:"rule"`
	R    struct {
		Ty    string   `json:"ty"`
		M     string   `json:"m"`
		Fn    string   `json:"fn"`
		UArgs []string `json:"uargs"`
		EArgs []string `json:"eargs"`
	} `json:"r"`
	Recv     string   `json:"recv"`
	Mode     string   `json:"mode"`
	Ty       string   `json:"ty"`
	B        string   `json:"b"`
	NReq     int      `json:"nreq"`
	Opts     []string `json:"opts"`
	Given    int      `json:"given"`
	M        string   `json:"m"`
	Style    string   `json:"style"`
	Vars     string   `json:"vars"`
	Brk      bool     `json:"brk"`
	NP       int      `json:"np"`
	Variadic bool     `json:"variadic"`
	NVar     int      `json:"nvar"`
	NRes     int      `json:"nres"`
	Body     string   `json:"body"`
	Base     string   `json:"base"`
	Steps    int      `json:"steps"`
	Ctx      string   `json:"ctx"`
	Twice    bool     `json:"twice"`
	V        lowVal   `json:"v"`
	Den      lowVal   `json:"den"`
	Src      string   `json:"src"`
	Tail     string   `json:"tail"`
	Op       string   `json:"op"`
	Shape    []string `json:"shape"`
	Holder   string   `json:"holder"`
	Wn       bool     `json:"wn"`
	Acc      string   `json:"acc"`
	Idx      int      `json:"idx"`
	NArgs    int      `json:"nargs"`
}

type lowPoint struct {
	Pt  lowPt `json:"pt"`
	Low struct {
		Form      string   `json:"form"`
		Temps     int      `json:"temps"`
		Placement string   `json:"placement"`
		Zeros     []string `json:"zeros"`
		Verdict   string   `json:"verdict"`
		Sel       string   `json:"sel"`
		Elem      string   `json:"elem"`
		NElems    int      `json:"nelems"`
		TypeForm  string   `json:"typeform"`
	} `json:"low"`
}

func (p lowPoint) describe() string {
	switch p.Pt.Rule {
	case "bti":
		return fmt.Sprintf("%s receiver (%s) .%s [%s]", p.Pt.R.Ty, p.Pt.Recv, p.Pt.R.M, p.Pt.Mode)
	case "boolcast":
		return fmt.Sprintf("%s(%s bool)", p.Pt.Ty, p.Pt.B)
	case "optional":
		return fmt.Sprintf("f(%d required, optional %v, tail %s; signature from %s) called with %d arguments", p.Pt.NReq, p.Pt.Opts, p.Pt.Tail, p.Pt.Src, p.Pt.Given)
	case "alias":
		return fmt.Sprintf("%s receiver .%s [%s]", p.Pt.Recv, p.Pt.M, p.Pt.Mode)
	case "member":
		return fmt.Sprintf("member access on %s (%d step(s)%s) in %s", p.Pt.Base, p.Pt.Steps, map[bool]string{true: ", two accesses", false: ""}[p.Pt.Twice], p.Pt.Ctx)
	case "tuple":
		return fmt.Sprintf("tuple %v (%s, with names: %v) %s %s component %d, %d argument(s)", p.Pt.Shape, p.Pt.Holder, p.Pt.Wn, p.Pt.Op, p.Pt.Acc, p.Pt.Idx, p.Pt.NArgs)
	case "bigint":
		return "big integer literal " + p.Pt.V.big().String()
	case "bigrat":
		return "big rational literal " + p.Pt.V.big().String() + "/" + p.Pt.Den.big().String()
	}
	return p.Pt.Rule
}

func (p lowPoint) class() string {
	switch p.Pt.Rule {
	case "bti":
		return fmt.Sprintf("bti/%s-receiver:%s/%s", p.Pt.R.Ty, p.Pt.Recv, p.Pt.Mode)
	case "boolcast":
		return fmt.Sprintf("boolcast/%s/%s", map[bool]string{true: "constant", false: "non-constant"}[p.Pt.B == "true" || p.Pt.B == "false"], p.Pt.Ty)
	case "optional":
		if p.Pt.Src != "func" || p.Pt.Tail != "none" {
			return fmt.Sprintf("optional/%s/tail=%s/%s/omitted=%v", p.Pt.Src, p.Pt.Tail, p.Low.Verdict, p.Low.Zeros)
		}
		return fmt.Sprintf("optional/omitted=%v", p.Low.Zeros)
	case "alias":
		return fmt.Sprintf("alias/%s/%s/%s", p.Pt.M, p.Pt.Mode, p.Pt.Recv)
	case "member":
		return fmt.Sprintf("member/%s/temporaries=%d", p.Pt.Ctx, p.Low.Temps)
	case "tuple":
		return fmt.Sprintf("tuple/%s/%s/%s/names=%v/args=%d", p.Pt.Op, p.Pt.Holder, p.Pt.Acc, p.Pt.Wn, p.Pt.NArgs)
	}
	return p.Pt.Rule + "/" + p.Low.Form
}

const lowPrelude = `package p

type MyFloat64 float64
type MyInt int
type MyInt64 int64
type MyUint64 uint64
type MyString string
type MyBool bool
type S struct{ a int }
type T struct{}

func (T) Len() int         { return 0 }
func (T) Name() string     { return "" }
func (T) Add(x int) int    { return x }

var vfloat64 float64
var vint int
var vint64 int64
var vuint64 uint64
var vstring string
var vss []string
var vsi []int
var vch chan int
var nfloat64 MyFloat64
var nint MyInt
var nint64 MyInt64
var nuint64 MyUint64
var nstring MyString
var vb bool
var nb MyBool
var vS S
var vpS *S
var vt T
var vpt *T
var va any
var vm map[string]int
var vma map[string]any
var sink any

func g0()     {}
func use(any) {}
`

var lowTyVar = map[string]string{"float64": "vfloat64", "int": "vint", "int64": "vint64", "uint64": "vuint64", "string": "vstring", "[]string": "vss", "[]int": "vsi", "chan int": "vch"}
var lowTyNamed = map[string]string{"float64": "nfloat64", "int": "nint", "int64": "nint64", "uint64": "nuint64", "string": "nstring"}
var lowTyConst = map[string]string{"float64": "1.5", "int": "7", "string": `"abc"`}

func lowUArg(kind string) string {
	switch kind {
	case "str":
		return `"a"`
	case "int":
		return "2"
	case "byte", "rune":
		return "'a'"
	}
	panic("harness: user argument kind " + kind)
}

type lowWorld struct {
	pkg  *gogen.Package
	errs []string
	n    int
}

func newLowWorld() *lowWorld {
	// the big-number support package is part of the repository's module: `go list` must run inside a module that requires it
	if root := os.Getenv("VERIF_ROOT"); root != "" {
		os.Chdir(filepath.Join(root, "harness"))
	}
	fset, imp := sharedImporter()
	w := &lowWorld{}
	w.pkg = gogen.NewPackage("", "p", &gogen.Config{Fset: fset, Importer: imp, HandleErr: func(e error) { w.errs = append(w.errs, e.Error()) },
		NewBuiltin: func(pkg *gogen.Package, conf *gogen.Config) *types.Package {
			b := pkg.Import("github.com/goplus/gogen/internal/builtin")
			conf.UntypedBigInt = b.Ref("XGo_untyped_bigint").Type().(*types.Named)
			conf.UntypedBigRat = b.Ref("XGo_untyped_bigrat").Type().(*types.Named)
			conf.UntypedBigFloat = b.Ref("XGo_untyped_bigfloat").Type().(*types.Named)
			builtin := types.NewPackage("", "")
			gogen.InitBuiltin(pkg, builtin, conf)
			return builtin
		}})
	pkg := w.pkg
	basic := map[string]types.Type{"float64": types.Typ[types.Float64], "int": types.Typ[types.Int], "int64": types.Typ[types.Int64], "uint64": types.Typ[types.Uint64], "string": types.Typ[types.String]}
	named := map[string]types.Type{}
	for _, d := range [][2]string{{"MyFloat64", "float64"}, {"MyInt", "int"}, {"MyInt64", "int64"}, {"MyUint64", "uint64"}, {"MyString", "string"}} {
		named[d[1]] = pkg.NewType(d[0]).InitType(pkg, basic[d[1]])
	}
	tMyBool := pkg.NewType("MyBool").InitType(pkg, types.Typ[types.Bool])
	ti := types.Typ[types.Int]
	tS := pkg.NewType("S").InitType(pkg, types.NewStruct([]*types.Var{types.NewField(token.NoPos, pkg.Types, "a", ti, false)}, nil))
	tT := pkg.NewType("T").InitType(pkg, types.NewStruct(nil, nil))
	par := func(n string, t types.Type) *types.Var { return types.NewParam(token.NoPos, pkg.Types, n, t) }
	pkg.NewFunc(par("", tT), "Len", nil, types.NewTuple(par("", ti)), false).BodyStart(pkg).Val(0).Return(1).End()
	pkg.NewFunc(par("", tT), "Name", nil, types.NewTuple(par("", types.Typ[types.String])), false).BodyStart(pkg).Val("").Return(1).End()
	fa := pkg.NewFunc(par("", tT), "Add", types.NewTuple(par("x", ti)), types.NewTuple(par("", ti)), false)
	fa.BodyStart(pkg).Val(fa.Type().(*types.Signature).Params().At(0)).Return(1).End()
	for _, k := range []string{"float64", "int", "int64", "uint64", "string"} {
		pkg.NewVar(token.NoPos, basic[k], "v"+k)
	}
	pkg.NewVar(token.NoPos, types.NewSlice(types.Typ[types.String]), "vss")
	pkg.NewVar(token.NoPos, types.NewSlice(ti), "vsi")
	pkg.NewVar(token.NoPos, types.NewChan(types.SendRecv, ti), "vch")
	for _, k := range []string{"float64", "int", "int64", "uint64", "string"} {
		pkg.NewVar(token.NoPos, named[k], "n"+k)
	}
	pkg.NewVar(token.NoPos, types.Typ[types.Bool], "vb")
	pkg.NewVar(token.NoPos, tMyBool, "nb")
	pkg.NewVar(token.NoPos, tS, "vS")
	pkg.NewVar(token.NoPos, types.NewPointer(tS), "vpS")
	pkg.NewVar(token.NoPos, tT, "vt")
	pkg.NewVar(token.NoPos, types.NewPointer(tT), "vpt")
	anyT := types.Universe.Lookup("any").Type()
	pkg.NewVar(token.NoPos, anyT, "va")
	pkg.NewVar(token.NoPos, types.NewMap(types.Typ[types.String], ti), "vm")
	pkg.NewVar(token.NoPos, types.NewMap(types.Typ[types.String], anyT), "vma")
	pkg.NewVar(token.NoPos, anyT, "sink")
	pkg.NewFunc(nil, "g0", nil, nil, false).BodyStart(pkg).End()
	pkg.NewFunc(nil, "use", types.NewTuple(par("", anyT)), nil, false).BodyStart(pkg).End()
	return w
}

func lowerFirst(s string) string {
	r := []rune(s)
	r[0] = unicode.ToLower(r[0])
	return string(r)
}

// number of results of the target function of a builtin-type method
func lowResults(fn string) int {
	switch fn {
	case "strconv.Atoi", "strconv.ParseInt", "strconv.ParseUint", "strconv.ParseFloat", "strconv.Unquote":
		return 2
	}
	return 1
}

// build builds the point as declaration(s) named <prefix>...; returns the reference text, or a failure
func (w *lowWorld) build(p lowPoint) (name, ref, fail string) {
	defer func() {
		if e := recover(); e != nil {
			fail = fmt.Sprintf("builder failed: %v", e)
			w.pkg.CB().ResetStmt()
		}
	}()
	pkg := w.pkg
	w.n++
	w.errs = nil
	name = fmt.Sprintf("d%d", w.n)
	obj := func(n string) types.Object {
		o := pkg.Types.Scope().Lookup(n)
		if o == nil {
			panic("harness: no object " + n)
		}
		return o
	}
	switch p.Pt.Rule {
	case "bti":
		r := p.Pt.R
		nres := lowResults(r.Fn)
		names := []string{name}
		if nres == 2 {
			names = append(names, name+"e")
		}
		cb := pkg.NewVarStart(token.NoPos, nil, names...)
		recvText := ""
		switch p.Pt.Recv {
		case "var":
			cb.Val(obj(lowTyVar[r.Ty]))
			recvText = lowTyVar[r.Ty]
		case "named":
			cb.Val(obj(lowTyNamed[r.Ty]))
			recvText = r.Ty + "(" + lowTyNamed[r.Ty] + ")"
		case "const":
			recvText = lowTyConst[r.Ty]
			switch r.Ty {
			case "float64":
				cb.Val(&ast.BasicLit{Kind: token.FLOAT, Value: "1.5"})
			case "int":
				cb.Val(7)
			default:
				cb.Val("abc")
			}
		}
		switch p.Pt.Mode {
		case "method":
			cb.MemberVal(r.M, 0)
		case "alias":
			if k, err := cb.Member(lowerFirst(r.M), 0, gogen.MemberFlagMethodAlias); err != nil || k == gogen.MemberInvalid {
				panic(fmt.Sprintf("member %s not found: %v", lowerFirst(r.M), err))
			}
		case "autoprop":
			if k, err := cb.Member(lowerFirst(r.M), 0, gogen.MemberFlagAutoProperty); err != nil || k == gogen.MemberInvalid {
				panic(fmt.Sprintf("member %s not found: %v", lowerFirst(r.M), err))
			}
		}
		args := []string{recvText}
		for _, k := range r.UArgs {
			args = append(args, lowUArg(k))
			switch k {
			case "str":
				cb.Val("a")
			case "int":
				cb.Val(2)
			default:
				cb.Val('a')
			}
		}
		if p.Pt.Mode != "autoprop" {
			cb.Call(len(r.UArgs))
		}
		cb.EndInit(1)
		args = append(args, r.EArgs...)
		ref = fmt.Sprintf("var %s = %s(%s)\n", strings.Join(names, ", "), r.Fn, strings.Join(args, ", "))
	case "boolcast":
		kinds := map[string]types.BasicKind{"int": types.Int, "int8": types.Int8, "uint8": types.Uint8, "int64": types.Int64, "uint": types.Uint,
			"float64": types.Float64, "float32": types.Float32, "complex128": types.Complex128}
		cb := pkg.NewVarStart(token.NoPos, nil, name).Typ(types.Typ[kinds[p.Pt.Ty]])
		cond := ""
		switch p.Pt.B {
		case "true", "false":
			cb.Val(p.Pt.B == "true")
		case "var":
			cb.Val(obj("vb"))
			cond = "vb"
		case "named":
			cb.Val(obj("nb"))
			cond = "nb"
		case "cmp":
			cb.Val(obj("vint")).Val(1).BinaryOp(token.EQL)
			cond = "vint == 1"
		}
		cb.Call(1).EndInit(1)
		if cond == "" {
			ref = fmt.Sprintf("var %s = %s(%d)\n", name, p.Pt.Ty, map[string]int{"true": 1, "false": 0}[p.Pt.B])
		} else {
			ref = fmt.Sprintf("var %s = func() %s {\nif %s {\nreturn 1\n} else {\nreturn 0\n}\n}()\n", name, p.Pt.Ty, cond)
		}
	case "optional":
		tyOf := func(n string) types.Type {
			switch n {
			case "int":
				return types.Typ[types.Int]
			case "string":
				return types.Typ[types.String]
			case "[]int":
				return types.NewSlice(types.Typ[types.Int])
			case "*S":
				return types.NewPointer(obj("S").Type())
			case "S":
				return obj("S").Type()
			case "any":
				return types.NewInterfaceType(nil, nil)
			case "MyInt":
				return obj("MyInt").Type()
			}
			panic("harness: parameter type " + n)
		}
		// parameters of a "foreign" signature belong to another package: there the optional flag is the documented name prefix
		foreign := types.NewPackage("example.com/ext", "ext")
		mk := func(pname string, t types.Type, optional bool) *types.Var {
			if p.Pt.Src == "foreign" {
				if optional {
					pname = "__xgo_optional_" + pname
				}
				return types.NewParam(token.NoPos, foreign, pname, t)
			}
			return pkg.NewParam(token.NoPos, pname, t, optional)
		}
		var ps []*types.Var
		var sig []string
		for i := 0; i < p.Pt.NReq; i++ {
			ps = append(ps, mk(fmt.Sprintf("r%d", i), types.Typ[types.Int], false))
			sig = append(sig, fmt.Sprintf("r%d int", i))
		}
		for i, o := range p.Pt.Opts {
			ps = append(ps, mk(fmt.Sprintf("o%d", i), tyOf(o), true))
			t := o
			if t == "any" {
				t = "interface{}"
			}
			sig = append(sig, fmt.Sprintf("__xgo_optional_o%d %s", i, t)) // the documented marker of an optional parameter in the emitted declaration
		}
		switch p.Pt.Tail {
		case "req":
			ps = append(ps, mk("t", types.Typ[types.Int], false))
			sig = append(sig, "t int")
		case "variadic":
			ps = append(ps, mk("v", types.NewSlice(types.Typ[types.Int]), false))
			sig = append(sig, "v ...int")
		}
		fname := name + "f"
		if p.Pt.Src == "func" || p.Pt.Src == "" {
			pkg.NewFunc(nil, fname, types.NewTuple(ps...), nil, p.Pt.Tail == "variadic").BodyStart(pkg).End()
		} else {
			pkg.NewVar(token.NoPos, types.NewSignatureType(nil, nil, nil, types.NewTuple(ps...), nil, p.Pt.Tail == "variadic"), fname)
		}
		cb := pkg.NewFunc(nil, name, nil, nil, false).BodyStart(pkg)
		cb.Val(obj(fname))
		var args []string
		for i := 0; i < p.Pt.Given; i++ {
			if i < p.Pt.NReq || i >= p.Pt.NReq+len(p.Pt.Opts) {
				cb.Val(1)
				args = append(args, "1")
				continue
			}
			switch p.Pt.Opts[i-p.Pt.NReq] {
			case "int", "any":
				cb.Val(2)
				args = append(args, "2")
			case "MyInt":
				cb.Val(3)
				args = append(args, "3")
			case "string":
				cb.Val("s")
				args = append(args, `"s"`)
			case "[]int":
				cb.Val(obj("vsi"))
				args = append(args, "vsi")
			case "*S":
				cb.Val(obj("vpS"))
				args = append(args, "vpS")
			case "S":
				cb.Val(obj("vS"))
				args = append(args, "vS")
			}
		}
		if p.Low.Verdict == "reject" {
			// a required parameter is among the omitted ones: not an instance of the extension, the call must be reported
			rejected := false
			func() {
				defer func() {
					if e := recover(); e != nil {
						if _, isRT := e.(runtime.Error); isRT {
							panic(e)
						}
						rejected = true
					}
				}()
				cb.Call(p.Pt.Given)
			}()
			if len(w.errs) > 0 {
				rejected = true
				w.errs = nil
			}
			cb.ResetStmt()
			cb.End()
			if !rejected {
				panic("accepted-with-made-up-argument")
			}
			if p.Pt.Src == "func" || p.Pt.Src == "" {
				ref = fmt.Sprintf("func %s(%s) {\n}\nfunc %s() {\n}\n", fname, strings.Join(sig, ", "), name)
			} else {
				ref = fmt.Sprintf("var %s func(%s)\nfunc %s() {\n}\n", fname, strings.Join(sig, ", "), name)
			}
			break
		}
		cb.Call(p.Pt.Given).EndStmt().End()
		for _, z := range p.Low.Zeros {
			if z == "str" {
				z = `""`
			}
			args = append(args, z)
		}
		if p.Pt.Src == "func" || p.Pt.Src == "" {
			ref = fmt.Sprintf("func %s(%s) {\n}\nfunc %s() {\n%s(%s)\n}\n", fname, strings.Join(sig, ", "), name, fname, strings.Join(args, ", "))
		} else {
			ref = fmt.Sprintf("var %s func(%s)\nfunc %s() {\n%s(%s)\n}\n", fname, strings.Join(sig, ", "), name, fname, strings.Join(args, ", "))
		}
	case "alias":
		recv := map[string]string{"value": "vt", "pointer": "vpt"}[p.Pt.Recv]
		cb := pkg.NewVarStart(token.NoPos, nil, name).Val(obj(recv))
		flag := gogen.MemberFlagMethodAlias
		if p.Pt.Mode == "autoprop" {
			flag = gogen.MemberFlagAutoProperty
		}
		if k, err := cb.Member(lowerFirst(p.Pt.M), 0, flag); err != nil || k == gogen.MemberInvalid {
			panic(fmt.Sprintf("member %s not found: %v", lowerFirst(p.Pt.M), err))
		}
		arg := ""
		if p.Pt.M == "Add" {
			cb.Val(5)
			arg = "5"
		}
		if p.Pt.Mode != "autoprop" {
			cb.Call(len(arg) / 1 * map[bool]int{true: 1, false: 0}[arg != ""])
		}
		cb.EndInit(1)
		ref = fmt.Sprintf("var %s = %s.%s(%s)\n", name, recv, p.Pt.M, arg)
	case "member":
		ref = w.buildMember(p, name)
	case "tuple":
		ref = w.buildTuple(p, name)
	case "bigint":
		pkg.NewVarStart(token.NoPos, nil, name).UntypedBigInt(p.Pt.V.big()).EndInit(1)
	case "bigrat":
		pkg.NewVarStart(token.NoPos, nil, name).UntypedBigRat(new(big.Rat).SetFrac(p.Pt.V.big(), p.Pt.Den.big())).EndInit(1)
	default:
		panic("harness: unknown rule " + p.Pt.Rule)
	}
	if len(w.errs) > 0 {
		return name, ref, "reported: " + strings.Join(w.errs, "; ")
	}
	return name, ref, ""
}

// bigEval evaluates an emitted big-number construction; returns the rational value and the form used
func bigEval(e ast.Expr) (*big.Rat, string, error) {
	lit := func(x ast.Expr) (*big.Int, bool) {
		neg := false
		if u, ok := x.(*ast.UnaryExpr); ok && u.Op == token.SUB {
			neg, x = true, u.X
		}
		if b, ok := x.(*ast.BasicLit); ok && b.Kind == token.INT {
			v, ok := new(big.Int).SetString(b.Value, 0)
			if ok && neg {
				v.Neg(v)
			}
			return v, ok
		}
		return nil, false
	}
	sel := func(x ast.Expr) string {
		if s, ok := x.(*ast.SelectorExpr); ok {
			if id, ok := s.X.(*ast.Ident); ok {
				return id.Name + "." + s.Sel.Name
			}
			return "." + s.Sel.Name
		}
		return ""
	}
	var intOf func(x ast.Expr) (*big.Int, string, error)
	intOf = func(x ast.Expr) (*big.Int, string, error) {
		for {
			if p, ok := x.(*ast.ParenExpr); ok {
				x = p.X
				continue
			}
			break
		}
		c, ok := x.(*ast.CallExpr)
		if !ok {
			return nil, "", fmt.Errorf("not a call: %s", types.ExprString(x))
		}
		if sel(c.Fun) == "big.NewInt" && len(c.Args) == 1 {
			if v, ok := lit(c.Args[0]); ok {
				return v, "NewInt", nil
			}
		}
		if fl, ok := c.Fun.(*ast.FuncLit); ok && len(c.Args) == 0 {
			// func() *big.Int { v, _ := new(big.Int).SetString("..", 10); return v }()
			var found *big.Int
			ast.Inspect(fl, func(n ast.Node) bool {
				if cc, ok := n.(*ast.CallExpr); ok && sel(cc.Fun) == ".SetString" && len(cc.Args) == 2 {
					if s, ok := cc.Args[0].(*ast.BasicLit); ok && s.Kind == token.STRING {
						str, _ := strconv.Unquote(s.Value)
						if base, ok := lit(cc.Args[1]); ok {
							if v, ok := new(big.Int).SetString(str, int(base.Int64())); ok {
								found = v
							}
						}
					}
				}
				return true
			})
			if found != nil {
				return found, "SetString", nil
			}
		}
		// a wrapper call (conversion / init function) around the construction
		if len(c.Args) == 1 {
			return intOf(c.Args[0])
		}
		return nil, "", fmt.Errorf("unrecognised construction: %s", types.ExprString(x))
	}
	var ratOf func(x ast.Expr) (*big.Rat, string, error)
	ratOf = func(x ast.Expr) (*big.Rat, string, error) {
		for {
			if p, ok := x.(*ast.ParenExpr); ok {
				x = p.X
				continue
			}
			break
		}
		c, ok := x.(*ast.CallExpr)
		if !ok {
			return nil, "", fmt.Errorf("not a call: %s", types.ExprString(x))
		}
		switch {
		case sel(c.Fun) == "big.NewRat" && len(c.Args) == 2:
			a, ok1 := lit(c.Args[0])
			b, ok2 := lit(c.Args[1])
			if ok1 && ok2 && b.Sign() != 0 {
				return new(big.Rat).SetFrac(a, b), "NewRat", nil
			}
		case sel(c.Fun) == ".SetFrac" && len(c.Args) == 2:
			a, _, e1 := intOf(c.Args[0])
			b, _, e2 := intOf(c.Args[1])
			if e1 == nil && e2 == nil && b.Sign() != 0 {
				return new(big.Rat).SetFrac(a, b), "SetFrac", nil
			}
		case len(c.Args) == 1:
			if r, f, err := ratOf(c.Args[0]); err == nil {
				return r, f, nil
			}
		}
		if v, f, err := intOf(x); err == nil {
			return new(big.Rat).SetInt(v), f, nil
		}
		return nil, "", fmt.Errorf("unrecognised construction: %s", types.ExprString(x))
	}
	return ratOf(e)
}

func runC11(tier, replay string) {
	run := ev.Start("C11", tier, "model_checking")
	var pts []lowPoint
	var states, transitions int64
	if replay != "" {
		var p lowPoint
		if err := loadReplay(replay, &p); err != nil {
			run.Infra(err)
		}
		pts = []lowPoint{p}
		states, transitions = 1, 1
	} else {
		res, err := tlc.Run(tlc.Opts{SpecDir: SpecDir, Module: "Lower", Cfg: "INIT Init\nNEXT Next\nINVARIANTS BindOnce ArityConsistent ZeroComplete PlainGo HoistCount TupleOrdinal Emit\nCHECK_DEADLOCK FALSE\n", Workers: 4, Timeout: 20 * time.Minute,
			OnJSON: func(l string) {
				var p lowPoint
				if json.Unmarshal([]byte(l), &p) == nil && p.Pt.Rule != "" {
					pts = append(pts, p)
				}
			}})
		if err != nil {
			run.Infra(err)
		}
		if res.Violation {
			run.Infra(fmt.Errorf("Lower.tla violates its laws:\n%s", res.ErrText))
		}
		if int64(len(pts)) != res.Distinct || len(pts) == 0 {
			run.Infra(fmt.Errorf("Lower.tla: %d points received, %d states", len(pts), res.Distinct))
		}
		states, transitions = res.Distinct, res.Generated
	}
	perRule := map[string]int{}
	// rules judged by execution (R7 enumerators, R8 inline closures)
	var execPts, rest []lowPoint
	for _, p := range pts {
		if p.Pt.Rule == "enum" || p.Pt.Rule == "inline" {
			execPts = append(execPts, p)
			perRule[p.Pt.Rule]++
		} else {
			rest = append(rest, p)
		}
	}
	nexec := lowExecRun(run, execPts)
	run.Set("executed_points", nexec)
	pts = rest
	if len(pts) == 0 {
		run.Set("states", states)
		run.Set("transitions", transitions)
		run.Set("traces_validated_against_impl", nexec)
		run.Finish()
	}
	w := newLowWorld()
	var ref strings.Builder
	ref.WriteString(lowPrelude)
	type built struct {
		name string
		p    lowPoint
	}
	var ok []built
	for _, p := range pts {
		perRule[p.Pt.Rule]++
		run.Eval(p.Pt.Rule + ":" + p.describe())
		// a failing build can leave a half-built declaration behind: try the point in a scratch package first
		if _, _, fail := newLowWorld().build(p); fail != "" {
			run.Fail("lowering-fails/"+p.class(), fmt.Sprintf("%s: %s", p.describe(), firstLines(fail, 2)), p)
			continue
		}
		name, rtext, fail := w.build(p)
		if fail != "" {
			run.Infra(fmt.Errorf("%s builds alone but not after other points: %s", p.describe(), fail))
		}
		ref.WriteString(rtext)
		ok = append(ok, built{name, p})
	}
	var out bytes.Buffer
	if err := w.pkg.WriteTo(&out); err != nil {
		run.Infra(fmt.Errorf("WriteTo: %v", err))
	}
	_, imp := sharedImporter()
	gc, err := canonParse(out.String(), imp)
	if err != nil {
		run.Fail("emitted-code-does-not-parse", stripPos(err.Error()), pts[0])
		run.Finish()
	}
	refSrc := ref.String()
	if strings.Contains(refSrc, "strconv.") || strings.Contains(refSrc, "strings.") {
		imports := "import (\n"
		if strings.Contains(refSrc, "strconv.") {
			imports += "\"strconv\"\n"
		}
		if strings.Contains(refSrc, "strings.") {
			imports += "\"strings\"\n"
		}
		refSrc = strings.Replace(refSrc, "package p\n", "package p\n"+imports+")\n", 1)
	}
	rc, err := canonParse(refSrc, imp)
	if err != nil {
		run.Infra(fmt.Errorf("reference lowering does not parse: %v", err))
	}
	if len(rc.terrs) > 0 {
		run.Infra(fmt.Errorf("reference lowering is not well-typed Go (catalogue or harness defect): %v", rc.terrs[0]))
	}
	// go/types on the emitted package: every error is attributed to its declaration
	badDecl := map[string]string{}
	for _, e := range gc.terrs {
		// position -> declaration name
		var ln int
		if i := strings.Index(e, ":"); i >= 0 {
			fmt.Sscanf(e[i+1:], "%d", &ln)
		}
		for _, d := range gc.file.Decls {
			s, t := gc.fset.Position(d.Pos()).Line, gc.fset.Position(d.End()).Line
			if ln >= s && ln <= t {
				badDecl[canonDeclName(d)] = stripPos(e)
			}
		}
	}
	for _, bt := range ok {
		p := bt.p
		if msg, bad := badDecl[bt.name]; bad {
			run.Fail("lowered-code-ill-typed/"+p.class(), fmt.Sprintf("%s: go/types rejects the emitted lowering: %s", p.describe(), msg), p)
			continue
		}
		switch p.Pt.Rule {
		case "bigint", "bigrat":
			init := canonVarInit(gc.file, bt.name)
			if init == nil {
				run.Fail("declaration-missing/"+p.class(), p.describe(), p)
				continue
			}
			v, form, err := bigEval(init)
			want := new(big.Rat).SetInt(p.Pt.V.big())
			if p.Pt.Rule == "bigrat" {
				want = new(big.Rat).SetFrac(p.Pt.V.big(), p.Pt.Den.big())
			}
			switch {
			case err != nil:
				run.Fail("big-literal-not-evaluable/"+p.class(), fmt.Sprintf("%s: %v", p.describe(), err), p)
			case v.Cmp(want) != 0:
				run.Fail("big-literal-value-differs/"+p.class(), fmt.Sprintf("%s is emitted as %s, which evaluates to %s", p.describe(), types.ExprString(init), v.RatString()), p)
			case form != p.Low.Form && !(p.Pt.Rule == "bigrat" && want.IsInt() && (form == "NewInt" || form == "SetString" || form == "NewRat")):
				run.Fail("big-literal-form-differs/"+p.class(), fmt.Sprintf("%s is emitted in the %s form, the documented form is %s: %s", p.describe(), form, p.Low.Form, types.ExprString(init)), p)
			}
		case "member":
			var fd *ast.FuncDecl
			for _, d := range gc.file.Decls {
				if f, ok := d.(*ast.FuncDecl); ok && f.Name.Name == bt.name {
					fd = f
				}
			}
			if fd == nil {
				run.Fail("declaration-missing/"+p.class(), p.describe(), p)
				continue
			}
			emitted := gc.Text(bt.name)
			n, places := inlineTemps(fd)
			if n != p.Low.Temps {
				run.Fail("lowering-differs/"+p.class(), fmt.Sprintf("%s: %d assertion temporaries, the rule demands %d\nemitted: %s", p.describe(), n, p.Low.Temps, emitted), p)
				continue
			}
			if p.Low.Placement == "per-iteration" {
				once := false
				for _, pl := range places {
					if pl == "for-init" {
						once = true
					}
				}
				if once {
					run.Fail("member-of-any-in-loop-condition-evaluated-once/"+p.class(), fmt.Sprintf("%s: the assertion is hoisted into the init statement of the loop, so the condition no longer re-reads the value on every iteration\nemitted: %s", p.describe(), emitted), p)
					continue
				}
			}
			if want, got := rc.Decl(bt.name), gc.Decl(bt.name); got != want {
				run.Fail("lowering-differs/"+p.class(), fmt.Sprintf("%s: with the temporaries inlined the emitted Go is not the documented lowering: %s\nemitted: %s", p.describe(), canonDiff(want, got), emitted), p)
			}
		default:
			want, got := rc.Decl(bt.name), gc.Decl(bt.name)
			if want == "" {
				run.Infra(fmt.Errorf("reference declaration %s missing", bt.name))
			}
			if p.Pt.Rule == "optional" {
				want, got = rc.Decl(bt.name)+rc.Decl(bt.name+"f"), gc.Decl(bt.name)+gc.Decl(bt.name+"f")
			}
			if p.Pt.Rule == "tuple" { // the tuple type and the variable of the point are declarations of their own
				want, got = rc.Decl(bt.name)+rc.Decl(bt.name+"T")+rc.Decl(bt.name+"v"), gc.Decl(bt.name)+gc.Decl(bt.name+"T")+gc.Decl(bt.name+"v")
			}
			if got != want {
				run.Fail("lowering-differs/"+p.class(), fmt.Sprintf("%s: the emitted Go is not the documented lowering: %s\nemitted: %s", p.describe(), canonDiff(want, got), gc.Text(bt.name)), p)
			}
		}
	}
	for r, n := range perRule {
		run.Set("rule_"+r, n)
	}
	if replay == "" {
		for _, r := range []string{"bti", "boolcast", "optional", "alias", "bigint", "bigrat", "member", "enum", "inline", "tuple"} {
			if perRule[r] == 0 {
				run.Infra(fmt.Errorf("rule %s has no point", r))
			}
		}
	}
	if len(pts) > 3 {
		p := pts[len(pts)/3]
		run.Sample(map[string]any{"point": p.describe(), "class": p.class()})
	}
	run.Set("states", states)
	run.Set("transitions", transitions)
	run.Set("traces_validated_against_impl", len(pts)+nexec)
	run.Set("exhaustive", true)
	run.Set("rule", "a case = one point of Lower.tla's catalogue (extension pattern with its reference lowering) built with the real CodeBuilder; compared: typed canonical tree of the emitted declaration vs the reference lowering, go/types on both; big-number literals by exact value; distinct = distinct point")
	run.Assume("'denotes the documented meaning' is decided structurally (same plain-Go program as the reference lowering), not by executing programs; the method table is a transcription of the documented mapping")
	run.Assume("enumerators and inline closure calls are judged by executing the emitted lowering next to plain Go with instrumented operands (three condition schedules each); tuple types: components by ordinal / X_i / name on a value, a defined type and a pointer, tuple literals with and without type, tuple casts")
	run.Finish()
}

func canonDeclName(d ast.Decl) string {
	switch x := d.(type) {
	case *ast.FuncDecl:
		return canonFuncName(x)
	case *ast.GenDecl:
		for _, s := range x.Specs {
			if vs, ok := s.(*ast.ValueSpec); ok && len(vs.Names) > 0 {
				return vs.Names[0].Name
			}
			if ts, ok := s.(*ast.TypeSpec); ok {
				return ts.Name.Name
			}
		}
	}
	return ""
}

func canonVarInit(f *ast.File, name string) ast.Expr {
	for _, d := range f.Decls {
		if gd, ok := d.(*ast.GenDecl); ok {
			for _, s := range gd.Specs {
				if vs, ok := s.(*ast.ValueSpec); ok && len(vs.Names) > 0 && vs.Names[0].Name == name && len(vs.Values) > 0 {
					return vs.Values[0]
				}
			}
		}
	}
	return nil
}

var _ = parser.ParseFile

// ---------- R6: member access on maps / any ----------

// access pushes the i-th access expression and returns its reference text (assertions written inline)
func (w *lowWorld) memberAccess(cb *gogen.CodeBuilder, p lowPoint, i int) string {
	keys := [][]string{{"a", "b"}, {"c", "d"}}[i]
	obj := func(n string) types.Object { return w.pkg.Types.Scope().Lookup(n) }
	switch p.Pt.Base {
	case "map":
		cb.Val(obj("vm")).MemberVal(keys[0], 0)
		return fmt.Sprintf("vm[%q]", keys[0])
	case "any":
		cb.Val(obj("va")).MemberVal(keys[0], 0)
		txt := fmt.Sprintf("va.(map[string]any)[%q]", keys[0])
		if p.Pt.Steps == 2 {
			cb.MemberVal(keys[1], 0)
			txt += fmt.Sprintf(".(map[string]any)[%q]", keys[1])
		}
		return txt
	default:
		cb.Val(obj("vma")).MemberVal(keys[0], 0)
		txt := fmt.Sprintf("vma[%q]", keys[0])
		if p.Pt.Steps == 2 {
			cb.MemberVal(keys[1], 0)
			txt += fmt.Sprintf(".(map[string]any)[%q]", keys[1])
		}
		return txt
	}
}

// memberExpr pushes the expression of the point: one access, or the comparison of two; wantBool adds a comparison to a single access
func (w *lowWorld) memberExpr(cb *gogen.CodeBuilder, p lowPoint, wantBool bool) string {
	a := w.memberAccess(cb, p, 0)
	if p.Pt.Twice {
		b := w.memberAccess(cb, p, 1)
		cb.BinaryOp(token.EQL)
		return a + " == " + b
	}
	if wantBool {
		if p.Pt.Base == "map" {
			cb.Val(0).BinaryOp(token.EQL)
			return a + " == 0"
		}
		cb.Val(nil).BinaryOp(token.EQL)
		return a + " == nil"
	}
	return a
}

func (w *lowWorld) buildMember(p lowPoint, name string) string {
	pkg := w.pkg
	obj := func(n string) types.Object { return pkg.Types.Scope().Lookup(n) }
	anyT := types.Universe.Lookup("any").Type()
	var res *types.Tuple
	if p.Pt.Ctx == "return" {
		res = types.NewTuple(types.NewParam(token.NoPos, pkg.Types, "", anyT))
	}
	cb := pkg.NewFunc(nil, name, nil, res, false).BodyStart(pkg)
	g0 := func() { cb.Val(obj("g0")).Call(0).EndStmt() }
	local := func(n string) types.Object {
		_, o := cb.Scope().LookupParent(n, token.NoPos)
		return o
	}
	var body string
	switch p.Pt.Ctx {
	case "define":
		cb.DefineVarStart(token.NoPos, "x")
		e := w.memberExpr(cb, p, false)
		cb.EndInit(1)
		cb.VarRef(obj("sink")).Val(local("x")).Assign(1)
		body = fmt.Sprintf("x := %s\nsink = x\n", e)
	case "assign":
		cb.VarRef(obj("sink"))
		e := w.memberExpr(cb, p, false)
		cb.Assign(1)
		body = fmt.Sprintf("sink = %s\n", e)
	case "callarg":
		cb.Val(obj("use"))
		e := w.memberExpr(cb, p, false)
		cb.Call(1).EndStmt()
		body = fmt.Sprintf("use(%s)\n", e)
	case "return":
		e := w.memberExpr(cb, p, false)
		cb.Return(1)
		body = fmt.Sprintf("return %s\n", e)
	case "if-cond":
		cb.If()
		e := w.memberExpr(cb, p, true)
		cb.Then()
		g0()
		cb.End()
		body = fmt.Sprintf("if %s {\ng0()\n}\n", e)
	case "elseif-cond":
		cb.If().Val(obj("vb")).Then()
		g0()
		cb.Else().If()
		e := w.memberExpr(cb, p, true)
		cb.Then()
		g0()
		cb.End().End()
		body = fmt.Sprintf("if vb {\ng0()\n} else if %s {\ng0()\n}\n", e)
	case "for-cond":
		cb.For()
		e := w.memberExpr(cb, p, true)
		cb.Then()
		g0()
		cb.End()
		body = fmt.Sprintf("for %s {\ng0()\n}\n", e)
	case "switch-tag":
		cb.Switch()
		e := w.memberExpr(cb, p, false)
		cb.Then().Case().Val(obj("sink")).Then()
		g0()
		cb.End().End()
		body = fmt.Sprintf("switch %s {\ncase sink:\ng0()\n}\n", e)
	case "case-expr":
		cb.Switch().Val(obj("sink")).Then().Case()
		e := w.memberExpr(cb, p, false)
		cb.Then()
		g0()
		cb.End().End()
		body = fmt.Sprintf("switch sink {\ncase %s:\ng0()\n}\n", e)
	case "range-body":
		cb.ForRange().Val(obj("vm")).RangeAssignThen(token.NoPos)
		cb.VarRef(obj("sink"))
		e := w.memberExpr(cb, p, false)
		cb.Assign(1)
		cb.End()
		body = fmt.Sprintf("for range vm {\nsink = %s\n}\n", e)
	case "closure-body":
		cb.VarRef(obj("sink"))
		cb.NewClosure(nil, types.NewTuple(types.NewParam(token.NoPos, pkg.Types, "", anyT)), false).BodyStart(pkg)
		e := w.memberExpr(cb, p, false)
		cb.Return(1).End()
		cb.Assign(1)
		body = fmt.Sprintf("sink = func() any {\nreturn %s\n}\n", e)
	case "if-init":
		cb.If().DefineVarStart(token.NoPos, "t")
		e := w.memberExpr(cb, p, false)
		cb.EndInit(1).Val(local("t")).Val(obj("sink")).BinaryOp(token.EQL).Then()
		g0()
		cb.End()
		body = fmt.Sprintf("if t := %s; t == sink {\ng0()\n}\n", e)
	default:
		panic("harness: member context " + p.Pt.Ctx)
	}
	cb.End()
	sig := "()"
	if p.Pt.Ctx == "return" {
		sig = "() any"
	}
	return fmt.Sprintf("func %s%s {\n%s}\n", name, sig, body)
}

// inlineTemps removes the hoisted `_autoGo_k, _ := X.(map[string]any)` definitions of fn and replaces every use of
// a temporary by X.(map[string]any); it returns the number of temporaries and where each definition stood.
func inlineTemps(fn *ast.FuncDecl) (n int, places []string) {
	defs := map[string]ast.Expr{}
	isDef := func(s ast.Stmt) (string, ast.Expr, bool) {
		as, ok := s.(*ast.AssignStmt)
		if !ok || as.Tok != token.DEFINE || len(as.Lhs) != 2 || len(as.Rhs) != 1 {
			return "", nil, false
		}
		id, ok := as.Lhs[0].(*ast.Ident)
		ta, ok2 := as.Rhs[0].(*ast.TypeAssertExpr)
		if !ok || !ok2 || !strings.HasPrefix(id.Name, "_autoGo_") {
			return "", nil, false
		}
		return id.Name, &ast.TypeAssertExpr{X: ta.X, Type: ta.Type}, true
	}
	ast.Inspect(fn, func(nd ast.Node) bool {
		switch x := nd.(type) {
		case *ast.BlockStmt:
			var keep []ast.Stmt
			for _, s := range x.List {
				if nm, e, ok := isDef(s); ok {
					defs[nm] = e
					places = append(places, "block")
					continue
				}
				keep = append(keep, s)
			}
			x.List = keep
		case *ast.CaseClause:
			var keep []ast.Stmt
			for _, s := range x.Body {
				if nm, e, ok := isDef(s); ok {
					defs[nm] = e
					places = append(places, "clause-body")
					continue
				}
				keep = append(keep, s)
			}
			x.Body = keep
		case *ast.IfStmt:
			if x.Init != nil {
				if nm, e, ok := isDef(x.Init); ok {
					defs[nm], x.Init = e, nil
					places = append(places, "if-init")
				}
			}
		case *ast.SwitchStmt:
			if x.Init != nil {
				if nm, e, ok := isDef(x.Init); ok {
					defs[nm], x.Init = e, nil
					places = append(places, "switch-init")
				}
			}
		case *ast.ForStmt:
			if x.Init != nil {
				if nm, e, ok := isDef(x.Init); ok {
					defs[nm], x.Init = e, nil
					places = append(places, "for-init")
				}
			}
		}
		return true
	})
	// replace uses (also inside the definitions themselves: chains)
	var subst func(e ast.Expr) ast.Expr
	subst = func(e ast.Expr) ast.Expr {
		if id, ok := e.(*ast.Ident); ok {
			if d, ok := defs[id.Name]; ok {
				ta := d.(*ast.TypeAssertExpr)
				return &ast.TypeAssertExpr{X: subst(ta.X), Type: ta.Type}
			}
		}
		return e
	}
	var walk func(n ast.Node)
	walk = func(n ast.Node) {
		ast.Inspect(n, func(nd ast.Node) bool {
			switch x := nd.(type) {
			case *ast.IndexExpr:
				x.X = subst(x.X)
			case *ast.TypeAssertExpr:
				x.X = subst(x.X)
			}
			return true
		})
	}
	for i := 0; i < 3; i++ {
		walk(fn)
	}
	return len(defs), places
}
