package props

// C18 — independent packages can be built concurrently without interference.
//
// spec/Shared.tla: K builders execute programs of features; Reads/Writes per feature over the
// library's shared package-level objects; TLC explores every interleaving and checks
// NoSharedWrite and RaceFree, and prints the program tuples.  Binding:
//   (a) every feature runs alone between two deep snapshots of the registered shared objects
//       (VerifSharedGlobals, build tag verif): a write is detected without a lucky schedule;
//   (b) the program tuples run on unsynchronised goroutines (one start barrier per tuple, own
//       package object, file set and importer per builder) in a race-instrumented child
//       process; each package's bytes are compared with its sequential build and the race
//       detector's log is read;
//   (c) the registry is cross-checked against the package-level variables parsed from /repo.

import (
	"bufio"
	"bytes"
	"encoding/json"
	"fmt"
	"go/ast"
	"go/constant"
	"go/parser"
	"go/token"
	"go/types"
	"os"
	"os/exec"
	"path/filepath"
	"reflect"
	"sort"
	"strings"
	"sync"
	"time"

	"github.com/goplus/gogen"
	"github.com/goplus/gogen/packages"

	"verif/harness/internal/ev"
	"verif/harness/internal/tlc"
)

func init() { Registry["C18"] = runC18 }

const c18Fixture = `package ud
type Iter struct{}
func (*Iter) Next() (int, bool) { return 0, false }
type Coll struct{}
func (Coll) XGo_Enum() *Iter { return nil }
var C Coll
type T struct{ Ok bool }
`

type c18Importer struct {
	ud   *types.Package
	base types.Importer
}

func (i *c18Importer) Import(path string) (*types.Package, error) {
	if path == "ud" {
		return i.ud, nil
	}
	return i.base.Import(path)
}

func newC18Importer() (*c18Importer, *token.FileSet, error) {
	fset := token.NewFileSet()
	f, err := parser.ParseFile(fset, "ud.go", c18Fixture, 0)
	if err != nil {
		return nil, nil, err
	}
	ud, err := (&types.Config{}).Check("ud", fset, []*ast.File{f}, nil)
	if err != nil {
		return nil, nil, err
	}
	return &c18Importer{ud: ud, base: packages.NewImporter(fset)}, fset, nil
}

// c18Build builds one package consisting of the given features with the given importer.
func c18Build(imp types.Importer, fset *token.FileSet, feats []string) (out string, err error) {
	defer func() {
		if e := recover(); e != nil {
			err = fmt.Errorf("builder failed: %v", e)
		}
	}()
	var errs []string
	// every package is configured with its own big-number types (distinct type objects per package)
	bigPkg := types.NewPackage("big", "big")
	mkBig := func(n string) *types.Named {
		return types.NewNamed(types.NewTypeName(token.NoPos, bigPkg, n, nil), types.NewStruct(nil, nil), nil)
	}
	pkg := gogen.NewPackage("", "p", &gogen.Config{Fset: fset, Importer: imp, HandleErr: func(e error) { errs = append(errs, e.Error()) },
		UntypedBigInt: mkBig("UntypedBigint"), UntypedBigRat: mkBig("UntypedBigrat"), UntypedBigFloat: mkBig("UntypedBigfloat")})
	ti := types.Typ[types.Int]
	pkg.NewVar(token.NoPos, ti, "x")
	pkg.NewVar(token.NoPos, types.NewSlice(ti), "s")
	pkg.NewVar(token.NoPos, types.NewPointer(ti), "p")
	pkg.NewVar(token.NoPos, types.Typ[types.Bool], "b")
	pkg.NewVar(token.NoPos, types.NewChan(types.SendRecv, ti), "ch")
	pkg.NewVar(token.NoPos, types.Typ[types.String], "str")
	scope := pkg.Types.Scope()
	ref := func(n string) types.Object { return scope.Lookup(n) }
	for fi, f := range feats {
		cb := pkg.NewFunc(nil, fmt.Sprintf("f%d", fi), nil, nil, false).BodyStart(pkg)
		switch f {
		case "nil":
			cb.If().Val(ref("p")).CompareNil(token.EQL).Then().End()
			cb.VarRef(ref("p")).Val(nil).Assign(1)
		case "bool":
			cb.VarRef(ref("b")).Val(true).Assign(1)
			cb.VarRef(ref("b")).Val(false).Assign(1)
		case "builtins":
			bi := pkg.Builtin()
			cb.VarRef(ref("s")).Val(bi.Ref("append")).Val(ref("s")).Val(1).Call(2).Assign(1)
			cb.VarRef(ref("x")).Val(bi.Ref("len")).Val(ref("s")).Call(1).Assign(1)
			cb.VarRef(ref("x")).Val(bi.Ref("cap")).Val(ref("s")).Call(1).Assign(1)
			cb.VarRef(ref("p")).Val(bi.Ref("new")).Typ(ti).Call(1).Assign(1)
			cb.VarRef(ref("s")).Val(bi.Ref("make")).Typ(types.NewSlice(ti)).Val(1).Call(2).Assign(1)
		case "iota":
			iota := cbRefLocal(cb, "iota")
			pkg.NewConstDefs(cb.Scope()).
				New(func(cb *gogen.CodeBuilder) int { cb.Val(iota); return 1 }, 0, token.NoPos, nil, "ca").
				Next(1, token.NoPos, "cb")
		case "blank":
			cb.VarRef(nil).Val(ref("x")).Assign(1)
		case "rangeudt":
			cb.ForRange("v").Val(pkg.Import("ud").Ref("C")).RangeAssignThen(token.NoPos).
				VarRef(ref("x")).Val(cbRefLocal(cb, "v")).Assign(1).End()
		case "operators":
			cb.VarRef(ref("x")).Val(ref("x")).Val(2).BinaryOp(token.MUL).Val(ref("x")).BinaryOp(token.ADD).Assign(1)
			cb.VarRef(ref("b")).Val(ref("x")).Val(3).BinaryOp(token.LSS).Assign(1)
		case "import":
			cb.Val(pkg.Import("fmt").Ref("Println")).Val(ref("x")).Call(1).EndStmt()
		case "paren":
			// a composite literal selector in an if head: CheckParenExpr rewrites the selector node
			T := pkg.Import("ud").Ref("T").Type()
			cb.If().StructLit(T, 0, false).MemberVal("Ok", 0).Then().End()
		case "btimethod":
			cb.VarRef(ref("x")).Val(ref("str")).MemberVal("Len", 0).Call(0).Assign(1)
			cb.VarRef(ref("x")).Val(ref("ch")).MemberVal("Len", 0).Call(0).Assign(1)
		case "btiadd":
			// this package customises ITS builtin type info of []int: v.Total() means gsum(v)
			gs := pkg.NewFunc(nil, "gsum", types.NewTuple(types.NewParam(token.NoPos, pkg.Types, "v", types.NewSlice(ti))), types.NewTuple(types.NewParam(token.NoPos, pkg.Types, "", ti)), false)
			gs.BodyStart(pkg).Val(0).Return(1).End()
			pkg.BuiltinTI(types.NewSlice(ti)).AddMethods(&gogen.BuiltinMethod{Name: "Total", Fn: gs.Func})
			cb.VarRef(ref("x")).Val(ref("s")).MemberVal("Total", 0).Call(0).Assign(1)
		case "btiuse":
			// another package did not: the member must be unknown here
			kind, _ := cb.Val(ref("s")).Member("Total", 0, gogen.MemberFlagVal)
			cb.ResetStmt()
			cb.VarRef(ref("x")).Val(int(kind)).Assign(1)
		case "closure":
			cb.DefineVarStart(token.NoPos, "fn").NewClosure(nil, nil, false).BodyStart(pkg).End().EndInit(1)
			cb.Val(cbRefLocal(cb, "fn")).Call(0).EndStmt()
		case "lits":
			cb.VarRef(ref("s")).Val(1).Val(2).SliceLit(types.NewSlice(ti), 2).Assign(1)
			cb.DefineVarStart(token.NoPos, "m").Val("a").Val(1).MapLit(types.NewMap(types.Typ[types.String], ti), 2).EndInit(1)
			cb.VarRef(nil).Val(cbRefLocal(cb, "m")).Assign(1)
		default:
			return "", fmt.Errorf("unknown feature %s", f)
		}
		cb.End()
	}
	var buf bytes.Buffer
	if err := gogen.WriteTo(&buf, pkg, ""); err != nil {
		return "", err
	}
	if len(errs) > 0 {
		return "", fmt.Errorf("builder reported: %v", errs)
	}
	return buf.String(), nil
}

func cbRefLocal(cb *gogen.CodeBuilder, name string) types.Object {
	_, o := cb.Scope().LookupParent(name, token.NoPos)
	return o
}

// deepDump prints a value following pointers (addresses are not printed).
func deepDump(v any) string {
	var b strings.Builder
	seen := map[uintptr]bool{}
	var walk func(rv reflect.Value, depth int)
	walk = func(rv reflect.Value, depth int) {
		if depth > 12 || !rv.IsValid() {
			b.WriteString("#")
			return
		}
		switch rv.Kind() {
		case reflect.Ptr, reflect.Interface:
			if rv.IsNil() {
				b.WriteString("nil")
				return
			}
			if rv.Kind() == reflect.Ptr {
				if seen[rv.Pointer()] {
					b.WriteString("^")
					return
				}
				seen[rv.Pointer()] = true
			}
			if rv.CanInterface() {
				switch x := rv.Interface().(type) {
				case types.Type:
					b.WriteString("T:" + x.String())
					return
				case types.Object:
					b.WriteString("O:" + x.String())
					return
				case constant.Value:
					b.WriteString("C:" + x.ExactString())
					return
				}
			}
			walk(rv.Elem(), depth+1)
		case reflect.Struct:
			b.WriteString(rv.Type().Name() + "{")
			for i := 0; i < rv.NumField(); i++ {
				b.WriteString(rv.Type().Field(i).Name + ":")
				walk(rv.Field(i), depth+1)
				b.WriteString(",")
			}
			b.WriteString("}")
		case reflect.Slice, reflect.Array:
			b.WriteString("[")
			for i := 0; i < rv.Len(); i++ {
				walk(rv.Index(i), depth+1)
				b.WriteString(",")
			}
			b.WriteString("]")
		case reflect.Map:
			fmt.Fprintf(&b, "map(%d)", rv.Len())
		case reflect.String:
			fmt.Fprintf(&b, "%q", rv.String())
		case reflect.Int, reflect.Int8, reflect.Int16, reflect.Int32, reflect.Int64:
			fmt.Fprintf(&b, "%d", rv.Int())
		case reflect.Uint, reflect.Uint8, reflect.Uint16, reflect.Uint32, reflect.Uint64, reflect.Uintptr:
			fmt.Fprintf(&b, "%d", rv.Uint())
		case reflect.Bool:
			fmt.Fprintf(&b, "%v", rv.Bool())
		default:
			b.WriteString(rv.Kind().String())
		}
	}
	walk(reflect.ValueOf(v), 0)
	return b.String()
}

func snapshotGlobals() map[string]string {
	out := map[string]string{}
	for k, v := range gogen.VerifSharedGlobals() {
		out[k] = deepDump(v)
	}
	return out
}

// c18RaceChild is the race-instrumented child: tuples on stdin, results on stdout.
func c18RaceChild() {
	sc := bufio.NewScanner(os.Stdin)
	sc.Buffer(make([]byte, 1<<20), 1<<20)
	var tuples [][][]string
	for sc.Scan() {
		var t [][]string
		if json.Unmarshal(sc.Bytes(), &t) == nil && len(t) > 0 {
			tuples = append(tuples, t)
		}
	}
	k := 0
	for _, t := range tuples {
		if len(t) > k {
			k = len(t)
		}
	}
	// one importer and file set per builder
	imps := make([]*c18Importer, k)
	fsets := make([]*token.FileSet, k)
	for i := range imps {
		var err error
		imps[i], fsets[i], err = newC18Importer()
		if err != nil {
			fmt.Println("ERR", err)
			os.Exit(0)
		}
		// warm-up outside the measured region (go list of the std packages the builtin table imports)
		c18Build(imps[i], fsets[i], []string{"import"})
	}
	for ti, t := range tuples {
		outs := make([]string, len(t))
		errs := make([]error, len(t))
		start := make(chan struct{})
		var wg sync.WaitGroup
		for b := range t {
			wg.Add(1)
			go func(b int) {
				defer wg.Done()
				<-start // one barrier; no other synchronisation between builders
				outs[b], errs[b] = c18Build(imps[b], fsets[b], t[b])
			}(b)
		}
		close(start)
		wg.Wait()
		res := map[string]any{"tuple": ti}
		var o []string
		for b := range t {
			if errs[b] != nil {
				o = append(o, "ERR "+errs[b].Error())
			} else {
				o = append(o, outs[b])
			}
		}
		res["outs"] = o
		j, _ := json.Marshal(res)
		fmt.Println(string(j))
	}
	os.Exit(0)
}

func runC18(tier, replay string) {
	if tier == "emit" {
		c18RaceChild()
	}
	run := ev.Start("C18", tier, "model_checking")
	// ---- TLC: interleavings + program tuples
	type conf struct {
		builders string
		proglen  int
	}
	confs := []conf{{"{1,2}", 1}, {"{1,2,3}", 1}}
	if tier == "thorough" {
		confs = []conf{{"{1,2}", 2}, {"{1,2,3}", 1}}
	}
	var tuples [][][]string
	var states, transitions int64
	for _, c := range confs {
		cfg := fmt.Sprintf("SPECIFICATION Spec\nCONSTANTS\n  Builders = %s\n  ProgLen = %d\n  Mutating = {}\nINVARIANTS NoSharedWrite RaceFree Emit\nCHECK_DEADLOCK FALSE\n", c.builders, c.proglen)
		seen := map[string]bool{}
		res, err := tlc.Run(tlc.Opts{SpecDir: SpecDir, Module: "Shared", Cfg: cfg, Workers: 4, Heavy: true, Timeout: 20 * time.Minute,
			OnJSON: func(l string) {
				var t [][]string
				if json.Unmarshal([]byte(l), &t) == nil && len(t) > 0 && !seen[l] {
					seen[l] = true
					tuples = append(tuples, t)
				}
			}})
		if err != nil {
			run.Infra(err)
		}
		if res.Violation {
			run.Infra(fmt.Errorf("Shared.tla: the design violates NoSharedWrite/RaceFree (specification defect):\n%s", res.ErrText))
		}
		states += res.Distinct
		transitions += res.Generated
	}
	{
		cfg := "SPECIFICATION Spec\nCONSTANTS\n  Builders = {1,2}\n  ProgLen = 1\n  Mutating = {\"paren\"}\nINVARIANTS NoSharedWrite RaceFree\nCHECK_DEADLOCK FALSE\n"
		res, err := tlc.Run(tlc.Opts{SpecDir: SpecDir, Module: "Shared", Cfg: cfg, Workers: 1, Timeout: 5 * time.Minute})
		if err != nil {
			run.Infra(err)
		}
		if !res.Violation {
			run.Infra(fmt.Errorf("vacuity: a mutating feature is not refuted by TLC"))
		}
		run.Set("sabotaged_model_refuted", "Mutating = {paren}")
	}
	if len(tuples) == 0 {
		run.Infra(fmt.Errorf("no program tuple generated"))
	}
	// ---- (a) every feature alone between two snapshots
	feats := []string{"nil", "bool", "builtins", "iota", "blank", "rangeudt", "operators", "import", "paren", "btimethod", "closure", "lits", "btiadd", "btiuse"}
	imp, fset, err := newC18Importer()
	if err != nil {
		run.Infra(err)
	}
	seq := map[string]string{}
	c18Build(imp, fset, []string{"import"})
	for _, f := range feats {
		before := snapshotGlobals()
		out, err := c18Build(imp, fset, []string{f})
		after := snapshotGlobals()
		run.Eval("snapshot/" + f)
		if err != nil {
			run.Fail("feature-build-failed/"+f, err.Error(), f)
			continue
		}
		seq[f] = out
		for k := range before {
			if before[k] != after[k] {
				run.Fail("shared-object-mutated/"+k, fmt.Sprintf("building feature %q changed the shared object %s:\n before %s\n after  %s", f, k, before[k], after[k]), f)
			}
		}
	}
	// ---- (c) registry cross-check
	reg := gogen.VerifSharedGlobals()
	unregistered := c18UnregisteredGlobals(reg)
	run.Set("shared_objects_registered", len(reg))
	run.Set("package_level_vars_not_registered", unregistered)
	// ---- (b) tuples under the race detector
	raceBin := filepath.Join(ev.Root, ".bin", "vcheck-race")
	if _, err := os.Stat(raceBin); err != nil {
		run.Infra(fmt.Errorf("race-instrumented harness missing: %v", err))
	}
	logDir, _ := os.MkdirTemp("", "vrace-")
	defer os.RemoveAll(logDir)
	var in bytes.Buffer
	for _, t := range tuples {
		j, _ := json.Marshal(t)
		in.Write(j)
		in.WriteByte('\n')
	}
	cmd := exec.Command(raceBin, "C18", "emit")
	cmd.Stdin = &in
	cmd.Env = append(os.Environ(), "GORACE=halt_on_error=0 exitcode=0 log_path="+filepath.Join(logDir, "race"))
	outb, err := cmd.Output()
	if err != nil {
		run.Infra(fmt.Errorf("race child: %v", err))
	}
	var builds int64
	lines := strings.Split(strings.TrimSpace(string(outb)), "\n")
	if len(lines) != len(tuples) {
		run.Infra(fmt.Errorf("race child answered %d of %d tuples: %s", len(lines), len(tuples), firstLines(string(outb), 3)))
	}
	for _, l := range lines {
		var r struct {
			Tuple int      `json:"tuple"`
			Outs  []string `json:"outs"`
		}
		if json.Unmarshal([]byte(l), &r) != nil {
			run.Infra(fmt.Errorf("race child: bad line %q", l))
		}
		t := tuples[r.Tuple]
		for b, o := range r.Outs {
			builds++
			want, err := c18SeqOutput(imp, fset, seq, t[b])
			if err != nil {
				continue
			}
			run.Eval(fmt.Sprintf("tuple/%v", t))
			if o != want {
				run.Fail("parallel-output-differs/"+strings.Join(t[b], "+"), fmt.Sprintf("builder %d of tuple %v: the package built in parallel differs from its sequential build: %s", b+1, t, firstDiff(want, o)), t)
			}
		}
	}
	races := 0
	if ents, _ := os.ReadDir(logDir); len(ents) > 0 {
		for _, e := range ents {
			bts, _ := os.ReadFile(filepath.Join(logDir, e.Name()))
			n := strings.Count(string(bts), "WARNING: DATA RACE")
			if n > 0 {
				races += n
				run.Fail("data-race/"+raceSite(string(bts)), "the race detector reports a data race between concurrently built packages:\n"+firstLines(string(bts), 30), nil)
			}
		}
	}
	run.Sample(map[string]any{"tuple": tuples[len(tuples)/2], "sequential_output_excerpt": firstLines(seq["rangeudt"], 20)})
	run.Set("states", states)
	run.Set("transitions", transitions)
	run.Set("traces_validated_against_impl", builds+int64(len(feats)))
	run.Set("program_tuples_run_under_race_detector", len(tuples))
	run.Set("data_races_reported", races)
	run.Set("rule", "a case = one program tuple of Shared.tla run on unsynchronised goroutines under the race detector with per-builder output compared with the sequential build, plus one snapshot comparison per feature; distinct = distinct tuple")
	run.Assume("the race detector observes the schedules that occur; deep snapshots detect in-place mutation of registered shared objects independently of the schedule")
	run.Finish()
}

func c18SeqOutput(imp types.Importer, fset *token.FileSet, cache map[string]string, feats []string) (string, error) {
	k := strings.Join(feats, "+")
	if o, ok := cache[k]; ok {
		return o, nil
	}
	o, err := c18Build(imp, fset, feats)
	if err == nil {
		cache[k] = o
	}
	return o, err
}

func raceSite(log string) string {
	for _, l := range strings.Split(log, "\n") {
		l = strings.TrimSpace(l)
		if strings.HasPrefix(l, "github.com/goplus/gogen") {
			return strings.SplitN(l, "(", 2)[0]
		}
	}
	return "unknown"
}

// c18UnregisteredGlobals lists package-level variables of /repo's root package holding pointers, slices,
// maps or interfaces that are not in the registry (they are covered by the race detector only).
func c18UnregisteredGlobals(reg map[string]any) []string {
	fset := token.NewFileSet()
	pkgs, err := parser.ParseDir(fset, "/repo", func(fi os.FileInfo) bool {
		n := fi.Name()
		return !strings.HasSuffix(n, "_test.go") && !strings.Contains(n, "genjs") && n != "verif_export.go"
	}, 0)
	if err != nil {
		return []string{"parse error: " + err.Error()}
	}
	var out []string
	for _, p := range pkgs {
		for _, f := range p.Files {
			for _, d := range f.Decls {
				gd, ok := d.(*ast.GenDecl)
				if !ok || gd.Tok != token.VAR {
					continue
				}
				for _, sp := range gd.Specs {
					vs := sp.(*ast.ValueSpec)
					for i, n := range vs.Names {
						if n.Name == "_" || reg[n.Name] != nil {
							continue
						}
						mutable := false
						if i < len(vs.Values) {
							switch v := vs.Values[i].(type) {
							case *ast.UnaryExpr:
								mutable = v.Op == token.AND
							case *ast.CompositeLit:
								_, isMap := v.Type.(*ast.MapType)
								_, isArr := v.Type.(*ast.ArrayType)
								mutable = isMap || isArr
							case *ast.CallExpr:
								if id, ok := v.Fun.(*ast.Ident); ok && (id.Name == "ident" || id.Name == "make") {
									mutable = true
								}
							}
						}
						if mutable {
							out = append(out, n.Name)
						}
					}
				}
			}
		}
	}
	sort.Strings(out)
	return out
}
