package props

// C15 — output is a deterministic function of the operation sequence.
//
// spec/Determinism.tla models every walk over an unordered collection as a free choice of
// order and compares two writers by self-composition; TLC checks OutputIndependentOfOrder
// with the implementation's sort flags and enumerates the programs (collection-size
// vectors).  Each program is built as a real package with exactly those collection sizes
// (imports per file, files, overload families, extension-package dependencies in exported
// signatures) 25 times in this process and once in each of two fresh processes; every file
// must be byte-identical across all builds.

import (
	"bufio"
	"bytes"
	"crypto/sha1"
	"encoding/json"
	"fmt"
	"go/ast"
	"go/parser"
	"go/token"
	"go/types"
	"os"
	"os/exec"
	"sort"
	"strings"
	"time"

	"github.com/goplus/gogen"

	"verif/harness/internal/ev"
	"verif/harness/internal/tlc"
)

func init() { Registry["C15"] = runC15 }

type detProgram struct {
	Imports   int `json:"imports"`
	Files     int `json:"files"`
	Overloads int `json:"overloads"`
	XGoDeps   int `json:"xgodeps"`
	Forced    int `json:"forced"`
	SameBase  int `json:"samebase"`
	XGoSame   int `json:"xgosame"`
	OvRef     int `json:"ovref"`
}

var detFixtures = map[string]string{
	"i1": "package i1\nfunc F1() {}\n", "i2": "package i2\nfunc F2() {}\n", "i3": "package i3\nfunc F3() {}\n",
	"xa": "package xa\nconst XGoPackage = true\ntype T struct{}\n", "xb": "package xb\nconst XGoPackage = true\ntype T struct{}\n", "xc": "package xc\nconst XGoPackage = true\ntype T struct{}\n",
	"v1/xt": "package xt\nconst XGoPackage = true\ntype T struct{}\n", "v2/xt": "package xt\nconst XGoPackage = true\ntype T struct{}\n", "v3/xt": "package xt\nconst XGoPackage = true\ntype T struct{}\n",
	// explicit overload families that list another family: Q2 lists Q1 (registered before it), Q0 lists Q1 (registered after it)
	"ovr1": "package ovr1\nconst XGoPackage = true\nconst XGoo_Q1 = \"Q1Int,Q1Str\"\nfunc Q1Int(x int) {}\nfunc Q1Str(x string) {}\n",
	"ovr2": "package ovr2\nconst XGoPackage = true\nconst XGoo_Q1 = \"Q1Int,Q1Str\"\nconst XGoo_Q2 = \"Q1,Q2Any\"\nfunc Q1Int(x int) {}\nfunc Q1Str(x string) {}\nfunc Q2Any(x any) {}\n",
	"ovr3": "package ovr3\nconst XGoPackage = true\nconst XGoo_Q1 = \"Q1Int,Q1Str\"\nconst XGoo_Q2 = \"Q1,Q2Any\"\nconst XGoo_Q0 = \"Q1,Q0Any\"\nfunc Q1Int(x int) {}\nfunc Q1Str(x string) {}\nfunc Q2Any(x any) {}\nfunc Q0Any(x any) {}\n",
	"z1": "package z1\n", "z2": "package z2\n", "z3": "package z3\n",
	"ha/tpl": "package tpl\nfunc Ha() {}\n", "tx/tpl": "package tpl\nfunc Tx() {}\n", "um/tpl": "package tpl\nfunc Um() {}\n",
	"ov": "package ov\nconst XGoPackage = true\nfunc F__0(a int) int { return 0 }\nfunc F__1(a string) int { return 0 }\nfunc G__0(a int) int { return 0 }\nfunc G__1(a string) int { return 0 }\nfunc H__0(a int) int { return 0 }\nfunc H__1(a string) int { return 0 }\n",
}

type srcImporter struct {
	pkgs map[string]*types.Package
	base types.Importer
}

func newSrcImporter(base types.Importer) (*srcImporter, error) {
	s := &srcImporter{pkgs: map[string]*types.Package{}, base: base}
	for path, src := range detFixtures {
		fset := token.NewFileSet()
		f, err := parser.ParseFile(fset, path+".go", src, 0)
		if err != nil {
			return nil, err
		}
		p, err := (&types.Config{}).Check(path, fset, []*ast.File{f}, nil)
		if err != nil {
			return nil, err
		}
		s.pkgs[path] = p
	}
	return s, nil
}

func (s *srcImporter) Import(path string) (*types.Package, error) {
	if p, ok := s.pkgs[path]; ok {
		return p, nil
	}
	return s.base.Import(path)
}

// detBuild builds the program once and returns the bytes of every file (sorted by name).
func detBuild(pr detProgram) (string, error) {
	_, base := sharedImporter()
	imp, err := newSrcImporter(base)
	if err != nil {
		return "", err
	}
	var errs []string
	pkg := gogen.NewPackage("", "p", &gogen.Config{Fset: token.NewFileSet(), Importer: imp, HandleErr: func(e error) { errs = append(errs, e.Error()) }})
	cb := pkg.CB()
	nfiles := pr.Files
	if nfiles == 0 {
		nfiles = 1
	}
	names := []string{""}
	for i := 1; i < nfiles; i++ {
		names = append(names, fmt.Sprintf("f%d.go", i))
	}
	for fi, fn := range names {
		pkg.SetCurFile(fn, true)
		pkg.NewFunc(nil, fmt.Sprintf("body%d", fi), nil, nil, false).BodyStart(pkg)
		for i := 1; i <= pr.Imports; i++ {
			cb.Val(pkg.Import(fmt.Sprintf("i%d", i)).Ref(fmt.Sprintf("F%d", i))).Call(0).EndStmt()
		}
		if fi == 0 {
			for i := 1; i <= pr.Forced; i++ {
				pkg.ForceImport(fmt.Sprintf("z%d", i))
			}
		}
		// imports sharing the base name tpl (and a package-level function tpl): the first file needs SameBase
		// aliases, every other file exactly one
		sb := [][2]string{{"tx/tpl", "Tx"}, {"ha/tpl", "Ha"}, {"um/tpl", "Um"}}
		for i := 0; i < pr.SameBase && (fi == 0 || i == 0); i++ {
			cb.Val(pkg.Import(sb[i][0]).Ref(sb[i][1])).Call(0).EndStmt()
		}
		for i, f := range []string{"F", "G", "H"} {
			if i < pr.Overloads {
				cb.Val(pkg.Import("ov").Ref(f)).Val(1).Call(1).EndStmt()
				cb.Val(pkg.Import("ov").Ref(f)).Val("s").Call(1).EndStmt()
			}
		}
		if pr.OvRef > 0 && fi == 0 {
			ov := pkg.Import(fmt.Sprintf("ovr%d", pr.OvRef))
			for _, f := range []string{"Q1", "Q2", "Q0"}[:pr.OvRef] {
				cb.Val(ov.Ref(f)).Val("s").Call(1).EndStmt()
			}
		}
		cb.End()
	}
	pkg.SetCurFile("", true)
	if pr.XGoSame > 0 {
		var ps []*types.Var
		for i, x := range []string{"v2/xt", "v1/xt", "v3/xt"} {
			if i < pr.XGoSame {
				ps = append(ps, types.NewParam(token.NoPos, pkg.Types, fmt.Sprintf("b%d", i), pkg.Import(x).Ref("T").Type()))
			}
		}
		pkg.NewFunc(nil, "ExportedSame", types.NewTuple(ps...), nil, false).BodyStart(pkg).End()
	}
	if pr.SameBase > 0 {
		pkg.NewFunc(nil, "tpl", nil, nil, false).BodyStart(pkg).End()
	}
	if pr.XGoDeps > 0 {
		var ps []*types.Var
		for i, x := range []string{"xa", "xb", "xc"} {
			if i < pr.XGoDeps {
				ps = append(ps, types.NewParam(token.NoPos, pkg.Types, fmt.Sprintf("a%d", i), pkg.Import(x).Ref("T").Type()))
			}
		}
		pkg.NewFunc(nil, "Exported", types.NewTuple(ps...), nil, false).BodyStart(pkg).End()
	}
	// the files are rendered in the order the client's walk over the file table happens to take
	// (Package.ForEachFile), each into its own buffer; the buffers are compared per file name
	var out strings.Builder
	bufs := map[string]string{}
	var werr error
	pkg.ForEachFile(func(fn string, _ *gogen.File) {
		var buf bytes.Buffer
		if err := gogen.WriteTo(&buf, pkg, fn); err != nil && werr == nil {
			werr = fmt.Errorf("WriteTo(%q): %v", fn, err)
		}
		bufs[fn] = buf.String()
	})
	if werr != nil {
		return "", werr
	}
	sort.Strings(names)
	for _, fn := range names {
		fmt.Fprintf(&out, "// ==== file %q\n%s", fn, bufs[fn])
	}
	if len(errs) > 0 {
		return "", fmt.Errorf("builder reported: %v", errs)
	}
	return out.String(), nil
}

func detHash(s string) string { h := sha1.Sum([]byte(s)); return fmt.Sprintf("%x", h[:8]) }

func firstDiff(a, b string) string {
	la, lb := strings.Split(a, "\n"), strings.Split(b, "\n")
	for i := 0; i < len(la) && i < len(lb); i++ {
		if la[i] != lb[i] {
			return fmt.Sprintf("line %d: %q vs %q", i+1, la[i], lb[i])
		}
	}
	return fmt.Sprintf("lengths %d vs %d lines", len(la), len(lb))
}

func runC15(tier, replay string) {
	if tier == "emit" { // child process: programs on stdin, one hash per line on stdout
		sc := bufio.NewScanner(os.Stdin)
		for sc.Scan() {
			var pr detProgram
			if json.Unmarshal(sc.Bytes(), &pr) != nil {
				continue
			}
			out, err := detBuild(pr)
			if err != nil {
				fmt.Println("ERR " + err.Error())
				continue
			}
			fmt.Println(detHash(out))
		}
		os.Exit(0)
	}
	run := ev.Start("C15", tier, "model_checking")
	var progs []detProgram
	maxItems, maxMix := "2", "3"
	if tier == "thorough" {
		maxItems, maxMix = "3", "3"
	}
	mod := "---- MODULE DetRun ----\nEXTENDS Determinism\nSortedImpl == [c \\in Collections |-> \"total\"]\nSortedBug == [c \\in Collections |-> IF c = \"xgodeps\" THEN \"none\" ELSE \"total\"]\nSortedBug2 == [c \\in Collections |-> IF c \\in {\"xgodeps\", \"xgosame\"} THEN \"bykey\" ELSE \"total\"]\n====\n"
	cfg := func(sorted string, emit bool) string {
		s := "INIT Init\nNEXT Next\nCONSTANTS\n  MaxItems = " + maxItems + "\n  MaxMix = " + maxMix + "\n  Sorted <- " + sorted + "\nINVARIANTS OutputIndependentOfOrder"
		if emit {
			s += " Emit"
		}
		return s + "\nCHECK_DEADLOCK FALSE\n"
	}
	res, err := tlc.Run(tlc.Opts{SpecDir: SpecDir, Module: "DetRun", Cfg: cfg("SortedImpl", true), Files: map[string]string{"DetRun.tla": mod}, Workers: 2, Timeout: 10 * time.Minute,
		OnJSON: func(l string) {
			var p detProgram
			if json.Unmarshal([]byte(l), &p) == nil {
				progs = append(progs, p)
			}
		}})
	if err != nil {
		run.Infra(err)
	}
	if res.Violation {
		run.Infra(fmt.Errorf("Determinism.tla: OutputIndependentOfOrder fails with every walk sorted (specification defect):\n%s", res.ErrText))
	}
	// the unsorted dependency walk must be refuted by the model (vacuity guard; it is the defect fixed in /repo)
	res2, err := tlc.Run(tlc.Opts{SpecDir: SpecDir, Module: "DetRun", Cfg: cfg("SortedBug", false), Files: map[string]string{"DetRun.tla": mod}, Workers: 2, Timeout: 10 * time.Minute})
	if err != nil {
		run.Infra(err)
	}
	if !res2.Violation {
		run.Infra(fmt.Errorf("vacuity: an unsorted extension-dependency walk is not refuted by TLC"))
	}
	// a walk sorted by a key on which items tie (package name of same-named extension packages) must be refuted too
	res3, err := tlc.Run(tlc.Opts{SpecDir: SpecDir, Module: "DetRun", Cfg: cfg("SortedBug2", false), Files: map[string]string{"DetRun.tla": mod}, Workers: 2, Timeout: 10 * time.Minute})
	if err != nil {
		run.Infra(err)
	}
	if !res3.Violation {
		run.Infra(fmt.Errorf("vacuity: a dependency walk sorted by package name only is not refuted by TLC"))
	}
	run.Set("sabotaged_model_refuted", "Sorted[xgodeps] = none; Sorted[xgosame] = bykey")
	if replay != "" {
		var p detProgram
		if err := loadReplay(replay, &p); err != nil {
			run.Infra(err)
		}
		progs = []detProgram{p}
	}
	if len(progs) == 0 {
		run.Infra(fmt.Errorf("no program generated"))
	}
	K := 25
	if tier == "thorough" {
		K = 120
	}
	ref := make([]string, len(progs))
	var builds int64
	for i, p := range progs {
		first, err := detBuild(p)
		if err != nil {
			run.Fail("build-failed", err.Error(), p)
			continue
		}
		ref[i] = first
		builds++
		for k := 1; k < K; k++ {
			out, err := detBuild(p)
			builds++
			if err != nil {
				run.Fail("build-failed", err.Error(), p)
				break
			}
			if out != first {
				which := []string{}
				if p.Imports > 1 {
					which = append(which, "imports")
				}
				if p.Files > 1 {
					which = append(which, "files")
				}
				if p.Overloads > 1 {
					which = append(which, "overloads")
				}
				if p.XGoDeps > 1 {
					which = append(which, "xgodeps")
				}
				if p.Forced > 1 {
					which = append(which, "forced")
				}
				if p.SameBase > 0 {
					which = append(which, "samebase")
				}
				if p.XGoSame > 1 {
					which = append(which, "xgosame")
				}
				if p.OvRef > 1 {
					which = append(which, "ovref")
				}
				run.Fail("output-differs-between-builds/"+diffKind(first, out), fmt.Sprintf("program %+v: build %d differs from build 1: %s (collections with >= 2 items: %v)", p, k+1, firstDiff(first, out), which), p)
				break
			}
		}
		run.Eval(fmt.Sprintf("%+v", p))
	}
	// two fresh processes
	exe, _ := os.Executable()
	var in bytes.Buffer
	for _, p := range progs {
		b, _ := json.Marshal(p)
		in.Write(b)
		in.WriteByte('\n')
	}
	for proc := 0; proc < 2; proc++ {
		cmd := exec.Command(exe, "C15", "emit")
		cmd.Stdin = bytes.NewReader(in.Bytes())
		outb, err := cmd.Output()
		if err != nil {
			run.Infra(fmt.Errorf("child process: %v", err))
		}
		lines := strings.Split(strings.TrimSpace(string(outb)), "\n")
		if len(lines) != len(progs) {
			run.Infra(fmt.Errorf("child process answered %d of %d programs", len(lines), len(progs)))
		}
		for i, l := range lines {
			builds++
			if ref[i] != "" && l != detHash(ref[i]) {
				run.Fail("output-differs-between-processes", fmt.Sprintf("program %+v: a fresh process produced different bytes (%s)", progs[i], l), progs[i])
			}
		}
	}
	run.Sample(map[string]any{"program": progs[len(progs)/2], "output_excerpt": firstLines(ref[len(progs)/2], 14)})
	run.Set("states", res.Distinct+res2.Distinct)
	run.Set("transitions", res.Generated+res2.Generated)
	run.Set("traces_validated_against_impl", builds)
	run.Set("programs", len(progs))
	run.Set("builds_per_program", K+2)
	run.Set("rule", "a case = one program (sizes 0..3 of: imports per file, files, overload families, extension-package dependencies, force-imports, imports sharing a base name, same-named extension dependencies, overload families listing another family; at most 3 collections with items per program) built K times in-process and in two fresh processes, all files compared byte for byte; distinct = distinct size vector")
	run.Assume("Go randomises map iteration order per range loop: with 3 items 25 repetitions miss an order dependence with probability < 1e-4, with 2 items 2^-24")
	run.Finish()
}

func diffKind(a, b string) string {
	d := firstDiff(a, b)
	switch {
	case strings.Contains(d, "XGoPackage"):
		return "extension-dependency-list"
	case strings.Contains(d, "import") || strings.Contains(d, "\\\""):
		return "import-block"
	case strings.Contains(d, "__"):
		return "overload-callee"
	}
	return "other"
}
