package props

// C16 — builder state is balanced across every construct.
//
// spec/Builder.tla is the CodeBuilder as a stack machine (frames, scopes, function and
// label context, initialiser contexts).  TLC checks the balance law on it (Balanced,
// StmtBoundary, DepthOK, EndRestores) and generates operation histories carrying, after
// every operation, the predicted stack length, scope identity and depth, current
// function, visible labels and in-vblock flag.  Each history is replayed on a fresh
// real gogen.Package and the projection of the real state is compared after every step.

import (
	"encoding/json"
	"fmt"
	"go/token"
	"go/types"
	"runtime"
	"sort"
	"strings"
	"sync"
	"time"

	"github.com/goplus/gogen"
	"github.com/goplus/gogen/packages"

	"verif/harness/internal/ev"
	"verif/harness/internal/tlc"
)

func init() { Registry["C16"] = runC16 }

var (
	sharedOnce sync.Once
	sharedFset *token.FileSet
	sharedImp  types.Importer
)

// lockedImporter serialises imports: the gc importer shares one package map and is not safe for
// concurrent first-time imports (the harness builds many packages in parallel with one importer;
// C18, which is about concurrent builds, gives every builder its own importer instead).
type lockedImporter struct {
	mu  sync.Mutex
	imp types.Importer
}

func (l *lockedImporter) Import(path string) (*types.Package, error) {
	l.mu.Lock()
	defer l.mu.Unlock()
	return l.imp.Import(path)
}

func sharedImporter() (*token.FileSet, types.Importer) {
	sharedOnce.Do(func() {
		sharedFset = token.NewFileSet()
		li := &lockedImporter{imp: packages.NewImporter(sharedFset)}
		sharedImp = li
		// warm up: a first package imports what the builtin type-info table needs
		gogen.NewPackage("", "warmup", &gogen.Config{Fset: sharedFset, Importer: li})
	})
	return sharedFset, sharedImp
}

// bStep is one history entry of Builder.tla: <<op, arg, len, scope, sdepth, fn, labels, invb>>
type bStep struct {
	Op, A  string
	Len    int
	Scope  int
	SDepth int
	Fn     int
	Labels []string
	InVB   bool
}

func (s *bStep) UnmarshalJSON(b []byte) error {
	var raw []json.RawMessage
	if err := json.Unmarshal(b, &raw); err != nil {
		return err
	}
	if len(raw) != 8 {
		return fmt.Errorf("history entry has %d fields", len(raw))
	}
	json.Unmarshal(raw[0], &s.Op)
	json.Unmarshal(raw[1], &s.A)
	json.Unmarshal(raw[2], &s.Len)
	json.Unmarshal(raw[3], &s.Scope)
	json.Unmarshal(raw[4], &s.SDepth)
	json.Unmarshal(raw[5], &s.Fn)
	json.Unmarshal(raw[6], &s.Labels)
	json.Unmarshal(raw[7], &s.InVB)
	return nil
}

func (s bStep) MarshalJSON() ([]byte, error) {
	return json.Marshal([]any{s.Op, s.A, s.Len, s.Scope, s.SDepth, s.Fn, s.Labels, s.InVB})
}

// bMachine drives one real package.
type bMachine struct {
	pkg    *gogen.Package
	cb     *gogen.CodeBuilder
	errs   []string
	nrange int
	scopes map[int]*types.Scope
	scopeR map[*types.Scope]int
	fns    map[int]*gogen.Func
	fnR    map[*gogen.Func]int
}

func newBMachine() *bMachine {
	fset, imp := sharedImporter()
	m := &bMachine{scopes: map[int]*types.Scope{}, scopeR: map[*types.Scope]int{}, fns: map[int]*gogen.Func{}, fnR: map[*gogen.Func]int{}}
	conf := &gogen.Config{Fset: fset, Importer: imp, HandleErr: func(err error) { m.errs = append(m.errs, err.Error()) }}
	m.pkg = gogen.NewPackage("", "main", conf)
	m.cb = m.pkg.CB()
	ti := types.Typ[types.Int]
	pkg := m.pkg
	// prelude: var a int; var p bool; var sl []int; var ifc any; func g0(); func g1(int) int; func gv(...int) int
	pkg.NewVar(token.NoPos, ti, "a")
	pkg.NewVar(token.NoPos, types.Typ[types.Bool], "p")
	pkg.NewVar(token.NoPos, types.NewSlice(ti), "sl")
	pkg.NewVar(token.NoPos, types.NewInterfaceType(nil, nil), "ifc")
	x := func() *types.Tuple { return types.NewTuple(types.NewParam(token.NoPos, pkg.Types, "x", ti)) }
	r := func() *types.Tuple { return types.NewTuple(types.NewParam(token.NoPos, pkg.Types, "", ti)) }
	pkg.NewFunc(nil, "g0", nil, nil, false).BodyStart(pkg).End()
	pkg.NewFunc(nil, "g1", x(), r(), false).BodyStart(pkg).Val(0).Return(1).End()
	xs := types.NewTuple(types.NewParam(token.NoPos, pkg.Types, "xs", types.NewSlice(ti)))
	pkg.NewFunc(nil, "gv", xs, r(), true).BodyStart(pkg).Val(0).Return(1).End()
	m.scopes[0] = pkg.Types.Scope()
	m.scopeR[pkg.Types.Scope()] = 0
	return m
}

func (m *bMachine) ref(name string) types.Object {
	_, o := m.cb.Scope().LookupParent(name, token.NoPos)
	return o
}

// apply performs one operation; a panic is returned as error text.
func (m *bMachine) apply(s bStep) (perr string) {
	defer func() {
		if e := recover(); e != nil {
			perr = fmt.Sprintf("%v", e)
			if _, ok := e.(runtime.Error); ok {
				perr = "runtime error: " + perr
			}
		}
	}()
	cb, pkg := m.cb, m.pkg
	ti := types.Typ[types.Int]
	switch s.Op {
	case "Val":
		if s.A == "int" {
			cb.Val(m.ref("a"))
		} else {
			cb.Val(m.ref("p"))
		}
	case "VarRef":
		cb.VarRef(m.ref(s.A))
	case "Assign":
		cb.Assign(1)
	case "BinaryOp":
		if s.A == "+" {
			cb.BinaryOp(token.ADD)
		} else {
			cb.BinaryOp(token.EQL)
		}
	case "UnaryOp":
		cb.UnaryOp(token.SUB)
	case "ValFn":
		cb.Val(m.ref(s.A))
	case "Call":
		n := 0
		fmt.Sscan(s.A, &n)
		cb.Call(n)
	case "EndStmt":
		cb.EndStmt()
	case "ResetStmt":
		cb.ResetStmt()
	case "Return":
		n := 0
		fmt.Sscan(s.A, &n)
		cb.Return(n)
	case "DefineVarStart":
		cb.DefineVarStart(token.NoPos, s.A)
	case "NewVarStart":
		if cb.Func() == nil {
			pkg.NewVarStart(token.NoPos, nil, s.A)
		} else {
			cb.NewVarStart(nil, s.A)
		}
	case "EndInit":
		cb.EndInit(1)
	case "EndInitRejected":
		// EndInit(2) for one name must be reported; a run-time fault or an acceptance is a failure of the step
		reported := false
		func() {
			defer func() {
				if e := recover(); e != nil {
					if _, ok := e.(runtime.Error); ok {
						panic(e)
					}
					reported = true
				}
			}()
			cb.EndInit(2)
		}()
		if !reported {
			panic("EndInit(2) for one name was accepted")
		}
	case "If":
		cb.If()
	case "For":
		cb.For()
	case "Switch":
		cb.Switch()
	case "TypeSwitch":
		cb.TypeSwitch("")
	case "Select":
		cb.Select()
	case "Block":
		cb.Block()
	case "VBlock":
		cb.VBlock()
	case "ForRange":
		m.nrange++
		cb.ForRange(fmt.Sprintf("r%d", m.nrange))
	case "None":
		cb.None()
	case "ValX":
		switch s.A {
		case "iface":
			cb.Val(m.ref("ifc"))
		case "slice":
			cb.Val(m.ref("sl"))
		default:
			cb.Typ(ti)
		}
	case "Then":
		cb.Then()
	case "Else":
		cb.Else()
	case "Post":
		cb.Post()
	case "Case":
		cb.Case()
	case "DefaultThen":
		cb.DefaultThen()
	case "Fallthrough":
		cb.Fallthrough()
	case "TypeAssertThen":
		cb.TypeAssertThen()
	case "TypeCase":
		cb.TypeCase()
	case "TypeDefaultThen":
		cb.TypeDefaultThen()
	case "CommCase":
		cb.CommCase()
	case "CommDefaultThen":
		cb.CommDefaultThen()
	case "RangeAssignThen":
		cb.RangeAssignThen(token.NoPos)
	case "End":
		cb.End()
	case "NewFunc.BodyStart":
		pkg.NewFunc(nil, s.A, nil, nil, false).BodyStart(pkg)
	case "NewClosure.BodyStart":
		cb.NewClosure(nil, nil, false).BodyStart(pkg)
	case "CallInlineClosureStart":
		if s.A == "1" {
			sig := types.NewSignatureType(nil, nil, nil,
				types.NewTuple(types.NewParam(token.NoPos, pkg.Types, "x", ti)),
				types.NewTuple(types.NewParam(token.NoPos, pkg.Types, "", ti)), false)
			cb.CallInlineClosureStart(sig, 1, false)
		} else {
			cb.CallInlineClosureStart(types.NewSignatureType(nil, nil, nil, nil, nil, false), 0, false)
		}
	case "NewLabel+Label":
		l := cb.NewLabel(token.NoPos, token.NoPos, s.A)
		cb.Label(l)
	case "Goto":
		l, ok := cb.LookupLabel(s.A)
		if !ok {
			return "label " + s.A + " not visible"
		}
		cb.Goto(l)
	default:
		return "harness: unknown op " + s.Op
	}
	return ""
}

// observe compares the real state with the prediction; returns differences by aspect.
func (m *bMachine) observe(s bStep) map[string]string {
	d := map[string]string{}
	cb := m.cb
	if n := cb.InternalStack().Len(); n != s.Len {
		d["len"] = fmt.Sprintf("stack length %d, predicted %d", n, s.Len)
	}
	sc := cb.Scope()
	depth := 0
	for x := sc; x != nil && x != m.pkg.Types.Scope(); x = x.Parent() {
		depth++
	}
	if depth != s.SDepth {
		d["sdepth"] = fmt.Sprintf("scope depth %d, predicted %d", depth, s.SDepth)
	}
	if want, ok := m.scopes[s.Scope]; ok {
		if want != sc {
			d["scope"] = fmt.Sprintf("current scope is not the scope that was current when id %d was first seen (restore failed)", s.Scope)
		}
	} else if old, ok := m.scopeR[sc]; ok {
		d["scope"] = fmt.Sprintf("current scope was already seen as id %d, the specification predicts a fresh scope %d", old, s.Scope)
	} else {
		m.scopes[s.Scope] = sc
		m.scopeR[sc] = s.Scope
	}
	fn := cb.Func()
	if s.Fn == 0 {
		if fn != nil {
			d["fn"] = "a function is current, predicted package level"
		}
	} else if want, ok := m.fns[s.Fn]; ok {
		if want != fn {
			d["fn"] = fmt.Sprintf("current function is not function %d (restore failed)", s.Fn)
		}
	} else if fn == nil {
		d["fn"] = fmt.Sprintf("no current function, predicted function %d", s.Fn)
	} else if old, ok := m.fnR[fn]; ok {
		d["fn"] = fmt.Sprintf("current function already seen as %d, predicted fresh function %d", old, s.Fn)
	} else {
		m.fns[s.Fn] = fn
		m.fnR[fn] = s.Fn
	}
	var labs []string
	for _, l := range []string{"L1", "L2"} {
		if _, ok := cb.LookupLabel(l); ok {
			labs = append(labs, l)
		}
	}
	want := append([]string{}, s.Labels...)
	sort.Strings(want)
	if strings.Join(labs, ",") != strings.Join(want, ",") {
		d["labels"] = fmt.Sprintf("visible labels %v, predicted %v", labs, want)
	}
	if cb.InVBlock() != s.InVB {
		d["invb"] = fmt.Sprintf("InVBlock %v, predicted %v", cb.InVBlock(), s.InVB)
	}
	return d
}

type c16Mismatch struct {
	Key, What string
	Step      int
}

// c16Replay replays one history; returns the first disagreement.
func c16Replay(h []bStep) *c16Mismatch {
	m := newBMachine()
	for i, s := range h {
		if e := m.apply(s); e != "" {
			kind := "panic"
			if strings.HasPrefix(e, "runtime error") {
				kind = "runtime-error"
			}
			return &c16Mismatch{Key: fmt.Sprintf("%s/%s%s", kind, s.Op, c16Ctx(h, i)), What: fmt.Sprintf("step %d %s(%s): the specification allows the operation here, the builder failed: %s", i, s.Op, s.A, e), Step: i}
		}
		if d := m.observe(s); len(d) > 0 {
			ks := []string{}
			for k := range d {
				ks = append(ks, k)
			}
			sort.Strings(ks)
			var w []string
			for _, k := range ks {
				w = append(w, d[k])
			}
			return &c16Mismatch{Key: fmt.Sprintf("state/%s/%s%s", strings.Join(ks, "+"), s.Op, c16Ctx(h, i)), What: fmt.Sprintf("step %d after %s(%s): %s", i, s.Op, s.A, strings.Join(w, "; ")), Step: i}
		}
	}
	return nil
}

// c16Ctx names the innermost open construct at step i (specification-level context of a finding).
func c16Ctx(h []bStep, i int) string {
	var open []string
	for j := 0; j <= i && j < len(h); j++ {
		switch h[j].Op {
		case "If", "For", "Switch", "TypeSwitch", "Select", "Block", "VBlock", "ForRange", "NewFunc.BodyStart", "NewClosure.BodyStart", "CallInlineClosureStart", "Case", "DefaultThen", "TypeCase", "TypeDefaultThen", "CommCase", "CommDefaultThen":
			name := h[j].Op
			if name == "CallInlineClosureStart" {
				name += h[j].A
			}
			open = append(open, name)
		case "End":
			if j < i && len(open) > 0 {
				open = open[:len(open)-1]
			}
		}
	}
	if len(open) == 0 {
		return "@pkg"
	}
	return "@" + open[len(open)-1]
}

type c16Conf struct {
	name    string
	ops     string
	nest    int
	stk     int
	hist    int
	sim     int // >0: simulation with this many traces
	simStep int
}

func c16Cfg(c c16Conf, leak string, emit string) string {
	s := fmt.Sprintf("SPECIFICATION Spec\nCONSTANTS\n  MaxNest = %d\n  MaxStk = %d\n  MaxHist = %d\n  Ops = %s\n  Leak = %q\n", c.nest, c.stk, c.hist, c.ops, leak)
	s += "INVARIANTS Balanced StmtBoundary DepthOK FnOK " + emit + "\nPROPERTY EndRestores\nCHECK_DEADLOCK FALSE\n"
	return s
}

func runC16(tier, replay string) {
	run := ev.Start("C16", tier, "model_checking")
	if replay != "" {
		var bt struct {
			Trace []blockEv `json:"block_trace"`
		}
		if loadReplay(replay, &bt) == nil && len(bt.Trace) > 0 {
			// a rejected window of a recorded trace: validate it again from its first reset / open
			evs := bt.Trace
			for i, e := range evs {
				if e.Ev == "reset" {
					evs = evs[i:]
				}
			}
			if bad, _, _ := blockValidate(run, evs); bad >= 0 {
				run.Fail(fmt.Sprintf("block-trace-rejected/%s/%s", evs[bad].Ev, strings.TrimPrefix(evs[bad].Kind, "*gogen.")), fmt.Sprintf("event %d: %+v", bad, evs[bad]), bt)
			}
			run.Eval("replay")
			run.Set("states", 1)
			run.Set("transitions", 1)
			run.Set("traces_validated_against_impl", 1)
			run.Finish()
		}
		var h []bStep
		if err := loadReplay(replay, &h); err != nil {
			run.Infra(err)
		}
		if m := c16Replay(h); m != nil {
			run.Fail(m.Key, m.What, h)
		}
		run.Eval("replay")
		run.Eval("replay2")
		run.Set("states", 1)
		run.Set("transitions", 1)
		run.Set("traces_validated_against_impl", 1)
		run.Sample(h)
		run.Finish()
	}
	all := `{"expr","call","assign","reset","flow","init","if","for","switch","typeswitch","select","block","vblock","range","func","closure","inline","label","reject"}`
	confs := []c16Conf{
		{name: "init-reject", ops: `{"expr","init","reject","if","vblock","block","func"}`, nest: 6, stk: 3, hist: 8},
		{name: "init-reject-nested", ops: `{"expr","init","reject","closure","func"}`, nest: 6, stk: 3, hist: 8},
		{name: "if-for-init", ops: `{"expr","call","init","if","for","func"}`, nest: 6, stk: 2, hist: 9},
		{name: "switch-typeswitch-select", ops: `{"expr","call","switch","typeswitch","select","func"}`, nest: 6, stk: 2, hist: 9},
		{name: "closures-inline-init", ops: `{"expr","call","init","closure","inline","func","block"}`, nest: 6, stk: 3, hist: 6},
		{name: "blocks-vblock-range", ops: `{"call","block","vblock","range","func","flow"}`, nest: 6, stk: 2, hist: 8},
		{name: "labels-assign-closure", ops: `{"call","assign","reset","label","closure","func"}`, nest: 6, stk: 2, hist: 7},
		{name: "inline-calls", ops: `{"call","inline","func","reset"}`, nest: 6, stk: 3, hist: 7},
		{name: "all-sim", ops: all, nest: 9, stk: 4, hist: 60, sim: 60},
	}
	if tier == "thorough" {
		confs = []c16Conf{
			{name: "init-reject", ops: `{"expr","init","reject","if","vblock","block","func","closure"}`, nest: 7, stk: 3, hist: 10},
			{name: "if-for-init", ops: `{"expr","call","init","if","for","func"}`, nest: 7, stk: 3, hist: 11},
			{name: "switch-typeswitch-select", ops: `{"expr","call","switch","typeswitch","select","func"}`, nest: 7, stk: 2, hist: 11},
			{name: "closures-inline-init", ops: `{"expr","call","init","closure","inline","func","block"}`, nest: 7, stk: 3, hist: 7},
			{name: "blocks-vblock-range", ops: `{"call","block","vblock","range","func","flow"}`, nest: 7, stk: 2, hist: 10},
			{name: "labels-assign-closure", ops: `{"call","assign","reset","label","closure","func"}`, nest: 7, stk: 2, hist: 9},
			{name: "inline-calls", ops: `{"call","inline","func","reset"}`, nest: 7, stk: 3, hist: 9},
			{name: "all-short", ops: all, nest: 6, stk: 3, hist: 6},
			{name: "all-sim", ops: all, nest: 10, stk: 4, hist: 80, sim: 1500},
		}
	}
	var states, transitions, replays int64
	t0 := time.Now()
	for ci, c := range confs {
		var mu sync.Mutex
		var batch [][]bStep
		var wg sync.WaitGroup
		sem := make(chan struct{}, runtime.NumCPU())
		flush := func(b [][]bStep) {
			wg.Add(1)
			sem <- struct{}{}
			go func() {
				defer func() { <-sem; wg.Done() }()
				for _, h := range b {
					m := c16Replay(h)
					id := ""
					for _, s := range h {
						id += s.Op[:2] + s.A + "."
					}
					run.Eval(c.name + ":" + id)
					if m != nil {
						run.Fail(m.Key, m.What+" [configuration "+c.name+"]", h[:m.Step+1])
					}
				}
			}()
		}
		var nh int64
		opts := tlc.Opts{SpecDir: SpecDir, Module: "Builder", Cfg: c16Cfg(c, "none", "EmitFull"), Workers: tierWorkers(tier), Heavy: true, HeapMB: 8192, Timeout: 30 * time.Minute,
			OnJSON: func(l string) {
				var h []bStep
				if err := json.Unmarshal([]byte(l), &h); err != nil || len(h) == 0 {
					return
				}
				mu.Lock()
				batch = append(batch, h)
				nh++
				var b [][]bStep
				if len(batch) >= 512 {
					b, batch = batch, nil
				}
				mu.Unlock()
				if b != nil {
					flush(b)
				}
				if nh == 77 {
					run.Sample(map[string]any{"configuration": c.name, "history": h})
				}
			}}
		if c.sim > 0 {
			opts.Simulate = fmt.Sprintf("num=%d", c.sim)
			opts.Depth = c.hist + 2
			opts.Seed = run.Seed + int64(ci)
			opts.Workers = 1
			opts.Heavy = false
		}
		res, err := tlc.Run(opts)
		if err != nil {
			run.Infra(err)
		}
		if res.Violation {
			run.Infra(fmt.Errorf("Builder.tla violates the balance law in configuration %s (specification defect):\n%s", c.name, res.ErrText))
		}
		if len(batch) > 0 {
			flush(batch)
		}
		wg.Wait()
		if nh == 0 {
			run.Infra(fmt.Errorf("configuration %s generated no history", c.name))
		}
		states += res.Distinct
		transitions += res.Generated
		replays += nh
		run.Set("conf_"+c.name, fmt.Sprintf("%d histories of %d operations (nest<=%d), tlc %d distinct states, %.1fs since start", nh, c.hist, c.nest, res.Distinct, time.Since(t0).Seconds()))
	}
	// vacuity guard: a model whose End forgets to restore the scope depth must be refuted (DepthOK / EndRestores)
	{
		c := c16Conf{ops: `{"expr","call","if","block","func"}`, nest: 4, stk: 2, hist: 6}
		res, err := tlc.Run(tlc.Opts{SpecDir: SpecDir, Module: "Builder", Cfg: c16Cfg(c, "Restore", ""), Workers: 2, Timeout: 10 * time.Minute})
		if err != nil {
			run.Infra(err)
		}
		if !res.Violation {
			run.Infra(fmt.Errorf("vacuity: Builder.tla with Leak = \"Restore\" is not refuted"))
		}
		run.Set("sabotaged_models_refuted", []string{"Restore"})
	}
	if states == 0 { // simulation reports no distinct-state count
		states = replays
	}
	// the other direction: recorded executions of the repository's own tests against the frame discipline
	st2, tr2, nev := blocksTrace(run, tier)
	states, transitions = states+st2, transitions+tr2
	run.Set("recorded_block_events_validated_by_tlc", nev)
	run.Set("states", states)
	run.Set("transitions", transitions)
	run.Set("traces_validated_against_impl", replays)
	run.Set("rule", "a case = one TLC-generated operation history (all histories of the bounded family configurations at full length, plus simulated deep histories) replayed on a fresh real package with comparison of stack length, scope identity/depth, current function, visible labels and InVBlock after every operation; distinct = distinct operation sequence")
	run.Assume("error paths are not part of the histories: every operation is issued where the API's protocol allows it")
	run.Finish()
}
