package props

// C10 — missing-return and label diagnostics coincide with Go's rules.
//
// spec/Flow.tla transcribes the Go specification's terminating-statement analysis and
// label rules over the statement tree a client builds, and enumerates complete function
// bodies (operation sequences) with the diagnostics Go requires.  Three parties per body:
//   S  the specification's prediction,
//   T  go/types on an independent rendering of the same operations (validates S; S != T is
//      a specification defect, exit 2, never a verdict about gogen),
//   G  the diagnostics the real CodeBuilder delivers to Config.HandleErr.
// G != S (with S = T) is a violation.

import (
	"encoding/json"
	"fmt"
	"go/ast"
	"go/parser"
	"go/token"
	"go/types"
	"sort"
	"strings"
	"sync"
	"time"

	"github.com/goplus/gogen"

	"verif/harness/internal/ev"
	"verif/harness/internal/tlc"
)

func init() { Registry["C10"] = runC10 }

type flowBody struct {
	Ops     [][2]string `json:"ops"`
	Missing int         `json:"missing"`
	Unused  []string    `json:"unused"`
	Dup     []string    `json:"dup"`
}

type flowDiag struct {
	Missing int
	Unused  []string
	Dup     []string
	Other   []string
}

func (d flowDiag) norm(dup []string) string {
	isDup := map[string]bool{}
	for _, l := range dup {
		isDup[l] = true
	}
	var u []string
	for _, l := range d.Unused {
		if !isDup[l] { // when a label is defined twice only the duplicate diagnostic is compared
			u = append(u, l)
		}
	}
	sort.Strings(u)
	dd := append([]string{}, d.Dup...)
	sort.Strings(dd)
	return fmt.Sprintf("missing=%d unused=%v dup=%v", d.Missing, u, dd)
}

// ---------- T: independent rendering ----------

func flowRender(name string, ops [][2]string) string {
	var b strings.Builder
	fmt.Fprintf(&b, "func %s() int {\n", name)
	type fr struct {
		k string
		n int
	}
	stack := []fr{{"func", 0}}
	pendLabel := false
	for _, op := range ops {
		k, a := op[0], op[1]
		if pendLabel && (k == "end" || k == "case" || k == "default" || k == "else") {
			b.WriteString(";\n") // a label at the end of a statement list labels an empty statement
		}
		pendLabel = k == "label"
		switch k {
		case "ret":
			b.WriteString("return 0\n")
		case "panic":
			b.WriteString("panic(\"x\")\n")
		case "spanic":
			b.WriteString("{ panic := func(interface{}) {}; panic(\"x\") }\n")
		case "call":
			b.WriteString("g0()\n")
		case "assign":
			b.WriteString("xi = 1\n")
		case "define":
			b.WriteString("y" + a + " := 1\n_ = y" + a + "\n")
		case "incdec":
			b.WriteString("xi++\n")
		case "send":
			b.WriteString("ch <- 1\n")
		case "defer":
			b.WriteString("defer g0()\n")
		case "go":
			b.WriteString("go g0()\n")
		case "var":
			b.WriteString("var z" + a + " int\n_ = z" + a + "\n")
		case "break", "continue", "goto":
			b.WriteString(k + " " + a + "\n")
		case "fgoto":
			b.WriteString("goto " + a + "\n")
		case "label":
			b.WriteString(a + ":\n")
		case "fallthrough":
			b.WriteString("fallthrough\n")
		case "ifb":
			b.WriteString("if p {\n")
			stack = append(stack, fr{k, 0})
		case "for":
			b.WriteString("for {\n")
			stack = append(stack, fr{k, 0})
		case "forcond":
			b.WriteString("for p {\n")
			stack = append(stack, fr{k, 0})
		case "range", "erange": // a range loop over a user-defined enumerator is a range loop for Go's rules
			b.WriteString("for range sl {\n")
			stack = append(stack, fr{k, 0})
		case "block":
			b.WriteString("{\n")
			stack = append(stack, fr{k, 0})
		case "switch":
			b.WriteString("switch {\n")
			stack = append(stack, fr{k, 0})
		case "tswitch":
			b.WriteString("switch ifc.(type) {\n")
			stack = append(stack, fr{k, 0})
		case "select":
			b.WriteString("select {\n")
			stack = append(stack, fr{k, 0})
		case "closure":
			b.WriteString("gf(func() int {\n")
			stack = append(stack, fr{k, 0})
		case "inline":
			b.WriteString("func() {\n")
			stack = append(stack, fr{k, 0})
		case "else":
			b.WriteString("} else {\n")
		case "case", "default":
			top := stack[len(stack)-1].k
			switch {
			case k == "default":
				b.WriteString("default:\n")
			case top == "switch":
				b.WriteString("case p:\n")
			case top == "tswitch":
				b.WriteString("case " + flowCaseTypes[stack[len(stack)-1].n%len(flowCaseTypes)] + ":\n")
				stack[len(stack)-1].n++
			default:
				b.WriteString("case <-ch:\n")
			}
			stack = append(stack, fr{"clause", 0})
		case "end":
			top := stack[len(stack)-1].k
			stack = stack[:len(stack)-1]
			switch top {
			case "clause":
			case "closure":
				b.WriteString("})\n")
			case "inline":
				b.WriteString("}()\n")
			default:
				b.WriteString("}\n")
			}
		}
	}
	if pendLabel {
		b.WriteString(";\n")
	}
	b.WriteString("}\n")
	return b.String()
}

var flowCaseTypes = []string{"int", "string", "bool", "float64"}

const flowPrelude = "package p\nvar p bool\nvar xi int\nvar sl []int\nvar ch chan int\nvar ifc interface{}\nfunc g0() {}\nfunc gf(func() int) {}\n"

// flowTypesBatch type-checks many rendered bodies at once and returns diagnostics per body.
func flowTypesBatch(bodies []flowBody) ([]flowDiag, error) {
	var src strings.Builder
	src.WriteString(flowPrelude)
	starts := make([]int, len(bodies)+1)
	line := strings.Count(flowPrelude, "\n") + 1
	for i, b := range bodies {
		starts[i] = line
		txt := flowRender(fmt.Sprintf("f%d", i), b.Ops)
		src.WriteString(txt)
		line += strings.Count(txt, "\n")
	}
	starts[len(bodies)] = line
	fset := token.NewFileSet()
	f, err := parser.ParseFile(fset, "b.go", src.String(), 0)
	if err != nil {
		return nil, fmt.Errorf("reference rendering does not parse: %v", err)
	}
	out := make([]flowDiag, len(bodies))
	conf := types.Config{Error: func(err error) {
		te, ok := err.(types.Error)
		if !ok {
			return
		}
		ln := fset.Position(te.Pos).Line
		i := sort.Search(len(starts), func(i int) bool { return starts[i] > ln }) - 1
		if i < 0 || i >= len(bodies) {
			return
		}
		msg := te.Msg
		switch {
		case strings.Contains(msg, "missing return"):
			out[i].Missing++
		case strings.HasPrefix(msg, "label ") && strings.Contains(msg, "declared and not used"):
			out[i].Unused = append(out[i].Unused, strings.Fields(msg)[1])
		case strings.HasPrefix(msg, "label ") && strings.Contains(msg, "already declared"):
			out[i].Dup = append(out[i].Dup, strings.Fields(msg)[1])
		case strings.Contains(msg, "other declaration of"): // continuation line of "already declared"
		case strings.Contains(msg, "declared and not used"): // variables
		default:
			out[i].Other = append(out[i].Other, msg)
		}
	}}
	conf.Check("p", fset, []*ast.File{f}, nil)
	return out, nil
}

// ---------- G: the real builder ----------

type flowBuilder struct {
	pkg  *gogen.Package
	errs []string
	n    int
}

func newFlowBuilder() *flowBuilder {
	fset, imp := sharedImporter()
	fb := &flowBuilder{}
	conf := &gogen.Config{Fset: fset, Importer: imp, HandleErr: func(err error) { fb.errs = append(fb.errs, err.Error()) }}
	pkg := gogen.NewPackage("", "p", conf)
	fb.pkg = pkg
	ti := types.Typ[types.Int]
	pkg.NewVar(token.NoPos, types.Typ[types.Bool], "p")
	pkg.NewVar(token.NoPos, ti, "xi")
	pkg.NewVar(token.NoPos, types.NewSlice(ti), "sl")
	pkg.NewVar(token.NoPos, types.NewChan(types.SendRecv, ti), "ch")
	pkg.NewVar(token.NoPos, types.NewInterfaceType(nil, nil), "ifc")
	pkg.NewFunc(nil, "g0", nil, nil, false).BodyStart(pkg).End()
	// a user-defined enumerator in the Next() style: type En struct{}; func (En) XGo_Enum() *It; func (*It) Next() (int, bool)
	tIt := pkg.NewType("It").InitType(pkg, types.NewStruct(nil, nil))
	pIt := types.NewPointer(tIt)
	pkg.NewFunc(types.NewParam(token.NoPos, pkg.Types, "it", pIt), "Next", nil,
		types.NewTuple(types.NewParam(token.NoPos, pkg.Types, "", ti), types.NewParam(token.NoPos, pkg.Types, "", types.Typ[types.Bool])), false).
		BodyStart(pkg).Val(0).Val(false).Return(2).End()
	tEn := pkg.NewType("En").InitType(pkg, types.NewStruct(nil, nil))
	pkg.NewFunc(types.NewParam(token.NoPos, pkg.Types, "e", tEn), "XGo_Enum", nil, types.NewTuple(types.NewParam(token.NoPos, pkg.Types, "", pIt)), false).
		BodyStart(pkg).Val(pkg.Builtin().Ref("new")).Typ(tIt).Call(1).Return(1).End()
	pkg.NewVar(token.NoPos, tEn, "en")
	fsig := types.NewSignatureType(nil, nil, nil, nil, types.NewTuple(types.NewParam(token.NoPos, pkg.Types, "", ti)), false)
	pkg.NewFunc(nil, "gf", types.NewTuple(types.NewParam(token.NoPos, pkg.Types, "f", fsig)), nil, false).BodyStart(pkg).End()
	return fb
}

// build builds one body as a function; returns its diagnostics, or a failure text.
func (fb *flowBuilder) build(ops [][2]string) (d flowDiag, fail string) {
	defer func() {
		if e := recover(); e != nil {
			fail = fmt.Sprintf("builder failed: %v", e)
		}
	}()
	pkg := fb.pkg
	fb.n++
	fb.errs = nil
	ti := types.Typ[types.Int]
	res := func() *types.Tuple { return types.NewTuple(types.NewParam(token.NoPos, pkg.Types, "", ti)) }
	cb := pkg.NewFunc(nil, fmt.Sprintf("f%d", fb.n), nil, res(), false).BodyStart(pkg)
	ref := func(name string) types.Object {
		_, o := cb.Scope().LookupParent(name, token.NoPos)
		return o
	}
	var stack []string
	var ncase []int
	fwd := []map[string]*gogen.Label{{}} // labels created by a forward goto and not placed yet, per function
	for _, op := range ops {
		k, a := op[0], op[1]
		switch k {
		case "fgoto":
			l := cb.NewLabel(token.NoPos, token.NoPos, a)
			if l == nil {
				return d, "NewLabel returned nil for the fresh label " + a
			}
			fwd[len(fwd)-1][a] = l
			cb.Goto(l)
		case "ret":
			cb.Val(0).Return(1)
		case "panic":
			cb.Val(pkg.Builtin().Ref("panic")).Val("x").Call(1).EndStmt()
		case "spanic":
			cb.Block()
			anyT := types.NewInterfaceType(nil, nil)
			cb.DefineVarStart(token.NoPos, "panic")
			cb.NewClosure(types.NewTuple(types.NewParam(token.NoPos, pkg.Types, "", anyT)), nil, false).BodyStart(pkg).End()
			cb.EndInit(1)
			cb.Val(ref("panic")).Val("x").Call(1).EndStmt()
			cb.End()
		case "call":
			cb.Val(ref("g0")).Call(0).EndStmt()
		case "assign":
			cb.VarRef(ref("xi")).Val(1).Assign(1)
		case "define":
			cb.DefineVarStart(token.NoPos, "y"+a).Val(1).EndInit(1)
			cb.VarRef(nil).Val(ref("y" + a)).Assign(1)
		case "incdec":
			cb.VarRef(ref("xi")).IncDec(token.INC)
		case "send":
			cb.Val(ref("ch")).Val(1).Send()
		case "defer":
			cb.Val(ref("g0")).Call(0).Defer()
		case "go":
			cb.Val(ref("g0")).Call(0).Go()
		case "var":
			cb.NewVar(ti, "z"+a)
			cb.VarRef(nil).Val(ref("z" + a)).Assign(1)
		case "break", "continue", "goto":
			var l *gogen.Label
			if a != "" {
				ll, ok := cb.LookupLabel(a)
				if !ok {
					return d, "label " + a + " not found by LookupLabel"
				}
				l = ll
			}
			switch k {
			case "break":
				cb.Break(l)
			case "continue":
				cb.Continue(l)
			default:
				cb.Goto(l)
			}
		case "label":
			if l, ok := fwd[len(fwd)-1][a]; ok {
				delete(fwd[len(fwd)-1], a)
				cb.Label(l)
			} else if l := cb.NewLabel(token.NoPos, token.NoPos, a); l != nil {
				cb.Label(l)
			}
		case "fallthrough":
			cb.Fallthrough()
		case "ifb":
			cb.If().Val(ref("p")).Then()
			stack = append(stack, k)
		case "for":
			cb.For().None().Then()
			stack = append(stack, k)
		case "forcond":
			cb.For().Val(ref("p")).Then()
			stack = append(stack, k)
		case "range":
			cb.ForRange().Val(ref("sl")).RangeAssignThen(token.NoPos)
			stack = append(stack, k)
		case "erange":
			cb.ForRange().Val(ref("en")).RangeAssignThen(token.NoPos)
			stack = append(stack, k)
		case "block":
			cb.Block()
			stack = append(stack, k)
		case "switch":
			cb.Switch().None().Then()
			stack = append(stack, k)
		case "tswitch":
			cb.TypeSwitch("").Val(ref("ifc")).TypeAssertThen()
			stack = append(stack, k)
			ncase = append(ncase, 0)
		case "select":
			cb.Select()
			stack = append(stack, k)
		case "closure":
			cb.Val(ref("gf"))
			cb.NewClosure(nil, res(), false).BodyStart(pkg)
			stack = append(stack, k)
			fwd = append(fwd, map[string]*gogen.Label{})
		case "inline":
			cb.CallInlineClosureStart(types.NewSignatureType(nil, nil, nil, nil, nil, false), 0, false)
			stack = append(stack, k)
			fwd = append(fwd, map[string]*gogen.Label{})
		case "else":
			cb.Else()
		case "case", "default":
			top := stack[len(stack)-1]
			switch {
			case k == "default" && top == "switch":
				cb.DefaultThen()
			case k == "default" && top == "tswitch":
				cb.TypeDefaultThen()
			case k == "default":
				cb.CommDefaultThen()
			case top == "switch":
				cb.Case().Val(ref("p")).Then()
			case top == "tswitch":
				kinds := []types.BasicKind{types.Int, types.String, types.Bool, types.Float64}
				cb.TypeCase().Typ(types.Typ[kinds[ncase[len(ncase)-1]%len(kinds)]]).Then()
				ncase[len(ncase)-1]++
			default:
				cb.CommCase().Val(ref("ch")).UnaryOp(token.ARROW).EndStmt().Then()
			}
			stack = append(stack, "clause")
		case "end":
			top := stack[len(stack)-1]
			stack = stack[:len(stack)-1]
			cb.End()
			if top == "tswitch" {
				ncase = ncase[:len(ncase)-1]
			}
			if top == "closure" {
				fwd = fwd[:len(fwd)-1]
				cb.Call(1).EndStmt()
			}
			if top == "inline" {
				fwd = fwd[:len(fwd)-1]
			}
		}
	}
	cb.End()
	for _, e := range fb.errs {
		switch {
		case strings.Contains(e, "missing return"):
			d.Missing++
		case strings.Contains(e, "defined and not used"):
			i := strings.Index(e, "label ")
			d.Unused = append(d.Unused, strings.Fields(e[i:])[1])
		case strings.Contains(e, "already defined"):
			i := strings.Index(e, "label ")
			d.Dup = append(d.Dup, strings.Fields(e[i:])[1])
		default:
			d.Other = append(d.Other, e)
		}
	}
	return d, ""
}

// shape of a body for finding keys: the nesting path of the constructs around the last statement
func flowShape(ops [][2]string) string {
	var st []string
	var parts []string
	for _, op := range ops {
		switch op[0] {
		case "end":
			if len(st) > 0 {
				st = st[:len(st)-1]
			}
		case "ifb", "for", "forcond", "range", "erange", "inline", "block", "switch", "tswitch", "select", "closure", "case", "default":
			st = append(st, op[0])
		}
		parts = append(parts, op[0])
	}
	return strings.Join(parts, ",")
}

// flowKinds is the set of statement kinds a body uses (specification-level class of a finding).
func flowKinds(ops [][2]string) string {
	set := map[string]bool{}
	for _, op := range ops {
		if op[0] != "end" {
			set[op[0]] = true
		}
	}
	var ks []string
	for k := range set {
		ks = append(ks, k)
	}
	sort.Strings(ks)
	return "{" + strings.Join(ks, ",") + "}"
}

type flowConf struct {
	name  string
	cfg   string
	heavy bool
}

func flowCfg(maxOps, maxNest int, labels, kinds, simple, jumps string, maxItems int) string {
	return fmt.Sprintf("SPECIFICATION Spec\nCONSTANTS\n  MaxOps = %d\n  MaxNest = %d\n  Labels = %s\n  Kinds = %s\n  Simple = %s\n  Jumps = %s\n  MaxItems = %d\nINVARIANTS Laws EmitInv\nCHECK_DEADLOCK FALSE\n",
		maxOps, maxNest, labels, kinds, simple, jumps, maxItems)
}

func runC10(tier, replay string) {
	run := ev.Start("C10", tier, "model_checking")
	check := func(bodies []flowBody, conf string) {
		// T validates S
		td, err := flowTypesBatch(bodies)
		if err != nil {
			run.Infra(err)
		}
		fb := newFlowBuilder()
		for i, b := range bodies {
			s := flowDiag{Missing: b.Missing, Unused: b.Unused, Dup: b.Dup}
			if len(td[i].Other) > 0 && len(b.Dup) == 0 {
				run.Infra(fmt.Errorf("generator produced a body go/types rejects for another reason (specification defect): %v\n%s", td[i].Other, flowRender("f", b.Ops)))
			}
			sT, tT := s.norm(b.Dup), td[i].norm(b.Dup)
			if len(b.Dup) > 0 {
				// the reference text necessarily contains the second definition as a labelled statement, which the
				// client cannot build (no label object): only the duplicate diagnostic is comparable with go/types
				a1, a2 := append([]string{}, s.Dup...), append([]string{}, td[i].Dup...)
				sort.Strings(a1)
				sort.Strings(a2)
				sT, tT = fmt.Sprint(a1), fmt.Sprint(a2)
			}
			if sT != tT {
				run.Infra(fmt.Errorf("Flow.tla disagrees with go/types (specification defect, not a verdict): S %s, T %s\n%s", s.norm(b.Dup), td[i].norm(b.Dup), flowRender("f", b.Ops)))
			}
			g, fail := fb.build(b.Ops)
			run.Eval(flowShape(b.Ops))
			if fail != "" {
				run.Fail("build-failed/"+firstWord(fail), fmt.Sprintf("%s [%s]\n%s", fail, conf, flowRender("f", b.Ops)), b)
				fb = newFlowBuilder()
				continue
			}
			if len(g.Other) > 0 {
				run.Fail("other-diagnostic/"+firstWord(g.Other[0]), fmt.Sprintf("the builder reports %v for a body Go accepts apart from %s [%s]\n%s", g.Other, s.norm(b.Dup), conf, flowRender("f", b.Ops)), b)
				continue
			}
			if g.norm(b.Dup) != s.norm(b.Dup) {
				kind := "diag"
				switch {
				case g.Missing < s.Missing:
					kind = "missing-return-omitted"
				case g.Missing > s.Missing:
					kind = "missing-return-spurious"
				case len(g.Unused) != len(s.Unused):
					kind = "unused-label"
				case len(g.Dup) != len(s.Dup):
					kind = "duplicate-label"
				}
				run.Fail(kind+"/"+flowKinds(b.Ops), fmt.Sprintf("diagnostics: builder %s, Go (Flow.tla = go/types) %s [%s]\n%s", g.norm(b.Dup), s.norm(b.Dup), conf, flowRender("f", b.Ops)), b)
			}
		}
	}
	if replay != "" {
		var b flowBody
		if err := loadReplay(replay, &b); err != nil {
			run.Infra(err)
		}
		check([]flowBody{b}, "replay")
		run.Eval("x")
		run.Set("states", 1)
		run.Set("transitions", 1)
		run.Set("traces_validated_against_impl", 1)
		run.Sample(b)
		run.Finish()
	}
	allK := `{"ifb","for","forcond","range","block","switch","tswitch","select","closure"}`
	allS := `{"ret","panic","spanic","call"}`
	allJ := `{"break","continue","goto","label","fallthrough"}`
	confs := []flowConf{
		{name: "full-alphabet-5", cfg: flowCfg(5, 4, `{"L"}`, allK, allS, allJ, 3)},
		{name: "loops-switch-break-8", cfg: flowCfg(8, 4, `{"L"}`, `{"for","switch"}`, `{"ret"}`, `{"break","label"}`, 2)},
		{name: "if-else-block-panic-8", cfg: flowCfg(8, 5, `{"L"}`, `{"ifb","block"}`, `{"ret","panic","spanic"}`, `{}`, 2)},
		{name: "select-for-break-8", cfg: flowCfg(8, 4, `{"L"}`, `{"select","for"}`, `{"ret"}`, `{"break","label"}`, 2)},
		{name: "label-goto-closure-7", cfg: flowCfg(7, 4, `{"L","M"}`, `{"for","closure"}`, `{"ret","call"}`, `{"goto","label","continue"}`, 3)},
		{name: "tswitch-fallthrough-7", cfg: flowCfg(7, 4, `{"L"}`, `{"switch","tswitch"}`, `{"ret","panic"}`, `{"fallthrough","break"}`, 2)},
		{name: "forward-goto-7", cfg: flowCfg(7, 4, `{"L"}`, `{"for","ifb","switch","closure"}`, `{"ret","call"}`, `{"fgoto","label"}`, 3)},
		{name: "for-if-else-break-9", cfg: flowCfg(9, 4, `{"L"}`, `{"for","ifb"}`, `{"ret"}`, `{"break"}`, 2)},
		{name: "simple-statements-5", cfg: flowCfg(5, 3, `{"L"}`, `{"ifb","for","closure"}`, `{"ret","assign","define","incdec","send","defer","go","var"}`, `{}`, 3)},
		{name: "enumerator-range-last-6", cfg: flowCfg(6, 4, `{"L"}`, `{"erange","ifb","for"}`, `{"ret"}`, `{"break"}`, 2)},
		{name: "clause-trailing-label-9", cfg: flowCfg(9, 4, `{"L"}`, `{"switch","select"}`, `{"ret"}`, `{"fgoto","label"}`, 2)},
	}
	if tier == "thorough" {
		confs = []flowConf{
			{name: "full-alphabet-6", cfg: flowCfg(6, 5, `{"L"}`, allK, allS, allJ, 3), heavy: true},
			{name: "loops-switch-break-10", cfg: flowCfg(10, 5, `{"L"}`, `{"for","switch"}`, `{"ret"}`, `{"break","label"}`, 2), heavy: true},
			{name: "if-else-block-panic-10", cfg: flowCfg(10, 6, `{"L"}`, `{"ifb","block"}`, `{"ret","panic","spanic"}`, `{}`, 2), heavy: true},
			{name: "select-for-break-10", cfg: flowCfg(10, 5, `{"L"}`, `{"select","for"}`, `{"ret"}`, `{"break","label"}`, 2), heavy: true},
			{name: "label-goto-closure-9", cfg: flowCfg(9, 5, `{"L","M"}`, `{"for","closure"}`, `{"ret","call"}`, `{"goto","label","continue"}`, 3), heavy: true},
			{name: "tswitch-fallthrough-9", cfg: flowCfg(9, 5, `{"L"}`, `{"switch","tswitch"}`, `{"ret","panic"}`, `{"fallthrough","break"}`, 2), heavy: true},
			{name: "range-forcond-labels-8", cfg: flowCfg(8, 5, `{"L","M"}`, `{"range","forcond","for","block"}`, `{"ret"}`, `{"break","continue","label"}`, 2), heavy: true},
			{name: "forward-goto-8", cfg: flowCfg(8, 4, `{"L"}`, `{"for","ifb","switch","closure"}`, `{"ret","call"}`, `{"fgoto","label"}`, 3), heavy: true}, // 4.5e6 states measured
			{name: "for-if-else-break-10", cfg: flowCfg(10, 5, `{"L"}`, `{"for","ifb"}`, `{"ret"}`, `{"break","label"}`, 2), heavy: true},
			{name: "two-labels-goto-8", cfg: flowCfg(8, 5, `{"L","M"}`, `{"for","ifb","block"}`, `{"ret"}`, `{"fgoto","goto","label"}`, 2), heavy: true},     // 3.9e6 states measured
		}
	}
	var states, transitions, total int64
	t0 := time.Now()
	for _, c := range confs {
		var mu sync.Mutex
		var batch []flowBody
		var wg sync.WaitGroup
		sem := make(chan struct{}, 12)
		var n int64
		flush := func(b []flowBody) {
			wg.Add(1)
			sem <- struct{}{}
			go func() { defer func() { <-sem; wg.Done() }(); check(b, c.name) }()
		}
		res, err := tlc.Run(tlc.Opts{SpecDir: SpecDir, Module: "Flow", Cfg: c.cfg, Workers: tierWorkers(tier), Heavy: true, HeapMB: 8192, Timeout: 40 * time.Minute,
			OnJSON: func(l string) {
				var b flowBody
				if json.Unmarshal([]byte(l), &b) != nil || len(b.Ops) == 0 {
					return
				}
				mu.Lock()
				batch = append(batch, b)
				n++
				var out []flowBody
				if len(batch) >= 400 {
					out, batch = batch, nil
				}
				mu.Unlock()
				if out != nil {
					flush(out)
				}
				if n == 1000 {
					run.Sample(map[string]any{"configuration": c.name, "body": b, "go": flowRender("f", b.Ops)})
				}
			}})
		if err != nil {
			run.Infra(err)
		}
		if res.Violation {
			run.Infra(fmt.Errorf("Flow.tla violates its sanity laws in %s:\n%s", c.name, res.ErrText))
		}
		if len(batch) > 0 {
			flush(batch)
		}
		wg.Wait()
		if n == 0 {
			run.Infra(fmt.Errorf("configuration %s generated no body", c.name))
		}
		states += res.Distinct
		transitions += res.Generated
		total += n
		run.Set("conf_"+c.name, fmt.Sprintf("%d complete bodies, tlc %d distinct states, %.1fs since start", n, res.Distinct, time.Since(t0).Seconds()))
	}
	run.Set("states", states)
	run.Set("transitions", transitions)
	run.Set("traces_validated_against_impl", total)
	run.Set("spec_vs_gotypes_agreement", fmt.Sprintf("S = T on all %d bodies (a disagreement aborts with exit 2)", total))
	run.Set("rule", "a case = one complete function body (operation sequence) enumerated by TLC from Flow.tla, built through the real CodeBuilder; compared: number of missing-return diagnostics, unused labels, duplicate labels; distinct = distinct operation sequence")
	run.Assume("jumps are generated towards legal targets only, so that Go raises no other error on the body")
	run.Assume("when a label is defined twice only the duplicate diagnostic is compared for it (the API returns no label object for the second definition)")
	run.Finish()
}

func firstWord(s string) string {
	f := strings.FieldsFunc(s, func(r rune) bool { return r == ' ' || r == ':' || r == '\n' })
	if len(f) > 3 {
		f = f[:3]
	}
	return strings.Join(f, "-")
}
