package props

// C02 at statement level: the valid function bodies of Flow.tla (statement order, nesting, clause
// structure, labels, jumps) must be accepted without a diagnostic and come out of Package.WriteTo
// as the same program - typed canonical form (astcanon.go) of the emitted function equal to that
// of the independent reference rendering.

import (
	"bytes"
	"encoding/json"
	"fmt"
	"strings"
	"sync"
	"time"

	"verif/harness/internal/ev"
	"verif/harness/internal/tlc"
)

type flowBuilt struct {
	name string
	b    flowBody
}

// flowCompare writes the package and compares every built function with the reference rendering.
func flowCompare(run *ev.Run, fb *flowBuilder, ref string, built []flowBuilt, conf string) {
	if len(built) == 0 {
		return
	}
	var out bytes.Buffer
	var werr error
	func() {
		defer func() {
			if e := recover(); e != nil {
				werr = fmt.Errorf("WriteTo failed: %v", e)
			}
		}()
		werr = fb.pkg.WriteTo(&out)
	}()
	if werr != nil {
		run.Fail("write-fails/"+flowKinds(built[len(built)-1].b.Ops), fmt.Sprintf("%v [%s]", werr, conf), built[len(built)-1].b)
		return
	}
	rc, err := canonParse(ref, unsafeOnly{})
	if err != nil || len(rc.terrs) > 0 {
		run.Infra(fmt.Errorf("reference rendering of valid bodies is not valid Go: %v %v", err, rc.terrs))
	}
	gc, err := canonParse(out.String(), unsafeOnly{})
	if err != nil {
		// find the culprit by name if possible: report against the first body (the replay re-runs it alone)
		for _, bt := range built {
			if !flowAlone(bt.b) {
				run.Fail("emitted-code-does-not-parse/"+flowKinds(bt.b.Ops), fmt.Sprintf("the emitted package does not parse: %v [%s]\n%s", err, conf, flowRender("f", bt.b.Ops)), bt.b)
				return
			}
		}
		run.Fail("emitted-code-does-not-parse/batch", fmt.Sprintf("the emitted package does not parse: %v [%s]", err, conf), built[0].b)
		return
	}
	for _, bt := range built {
		want, got := rc.Func(bt.name), gc.Func(bt.name)
		if want == "" {
			run.Infra(fmt.Errorf("reference function %s missing", bt.name))
		}
		if got != want {
			what := "the emitted function is a different program"
			if got == "" {
				what = "the function is missing from the emitted package"
			}
			run.Fail("not-reproduced/"+flowKinds(bt.b.Ops), fmt.Sprintf("%s [%s]: %s\nprogram:\n%s", what, conf, canonDiff(want, got), flowRender("f", bt.b.Ops)), bt.b)
		}
	}
	for _, e := range gc.terrs {
		run.Fail("emitted-code-ill-typed/"+firstWord(stripPos(e)), fmt.Sprintf("go/types rejects the emitted package: %s [%s]", e, conf), built[0].b)
		break
	}
}

// flowAlone builds one body alone and says whether its emitted package parses.
func flowAlone(b flowBody) (parses bool) {
	defer func() {
		if recover() != nil {
			parses = false
		}
	}()
	fb := newFlowBuilder()
	if _, fail := fb.build(b.Ops); fail != "" {
		return false
	}
	var out bytes.Buffer
	if fb.pkg.WriteTo(&out) != nil {
		return false
	}
	_, err := canonParse(out.String(), nil)
	return err == nil
}

// flowFaithfulBatch checks one batch; returns the number of valid bodies compared.
func flowFaithfulBatch(run *ev.Run, bodies []flowBody, conf string) int {
	td, err := flowTypesBatch(bodies)
	if err != nil {
		run.Infra(err)
	}
	var valid []flowBody
	for i, b := range bodies {
		sValid := b.Missing == 0 && len(b.Unused) == 0 && len(b.Dup) == 0
		tValid := td[i].Missing == 0 && len(td[i].Unused) == 0 && len(td[i].Dup) == 0 && len(td[i].Other) == 0
		if sValid != tValid {
			run.Infra(fmt.Errorf("Flow.tla disagrees with go/types on validity (specification defect, not a verdict): S %v, T %v\n%s", sValid, tValid, flowRender("f", b.Ops)))
		}
		if sValid {
			valid = append(valid, b)
		}
	}
	if len(valid) == 0 {
		return 0
	}
	fb := newFlowBuilder()
	var ref strings.Builder
	ref.WriteString(flowPrelude)
	var ok []flowBuilt
	for _, b := range valid {
		g, fail := fb.build(b.Ops)
		run.Eval("flow:" + flowShape(b.Ops))
		name := fmt.Sprintf("f%d", fb.n)
		if fail != "" {
			run.Fail("valid-body-fails/"+flowKinds(b.Ops), fmt.Sprintf("%s [%s] on a body that is valid Go:\n%s", fail, conf, flowRender("f", b.Ops)), b)
			// the package is in an unknown state: compare what was built so far, then start afresh
			flowCompare(run, fb, ref.String(), ok, conf)
			fb, ok = newFlowBuilder(), nil
			ref.Reset()
			ref.WriteString(flowPrelude)
			continue
		}
		if g.Missing > 0 || len(g.Unused) > 0 || len(g.Dup) > 0 || len(g.Other) > 0 {
			run.Fail("valid-body-rejected/"+flowKinds(b.Ops), fmt.Sprintf("the builder reports %s %v [%s] for a body that is valid Go:\n%s", g.norm(nil), g.Other, conf, flowRender("f", b.Ops)), b)
		}
		ref.WriteString(flowRender(name, b.Ops))
		ok = append(ok, flowBuilt{name, b})
	}
	flowCompare(run, fb, ref.String(), ok, conf)
	return len(valid)
}

// flowFaithfulRun enumerates bodies with TLC and checks the valid ones; returns (states, transitions, valid bodies).
func flowFaithfulRun(run *ev.Run, tier string) (int64, int64, int64) {
	allK := `{"ifb","for","forcond","range","block","switch","tswitch","select","closure"}`
	allS := `{"ret","panic","spanic","call"}`
	allJ := `{"break","continue","goto","fgoto","label","fallthrough"}`
	confs := []flowConf{
		{name: "full-alphabet-5", cfg: flowCfg(5, 4, `{"L"}`, allK, allS, allJ, 3)},
		{name: "forward-goto-7", cfg: flowCfg(7, 4, `{"L"}`, `{"for","ifb","switch","closure"}`, `{"ret","call"}`, `{"fgoto","label"}`, 3)},
		{name: "if-else-block-panic-7", cfg: flowCfg(7, 5, `{"L"}`, `{"ifb","block"}`, `{"ret","panic","spanic"}`, `{}`, 2)},
		{name: "loops-switch-break-7", cfg: flowCfg(7, 4, `{"L"}`, `{"for","switch","select"}`, `{"ret"}`, `{"break","label","continue"}`, 2)},
		{name: "simple-statements-5", cfg: flowCfg(5, 3, `{"L"}`, `{"ifb","for","closure"}`, `{"ret","assign","define","incdec","send","defer","go","var"}`, `{}`, 3)},
		// a label as last statement of a clause that is followed by another clause (needs a forward goto to be used)
		{name: "clause-trailing-label-9", cfg: flowCfg(9, 4, `{"L"}`, `{"switch","select"}`, `{"ret"}`, `{"fgoto","label"}`, 2)},
	}
	if tier == "thorough" {
		confs = []flowConf{
			{name: "full-alphabet-6", cfg: flowCfg(6, 5, `{"L"}`, allK, allS, allJ, 3)},
			{name: "forward-goto-8", cfg: flowCfg(8, 4, `{"L"}`, `{"for","ifb","switch","closure"}`, `{"ret","call"}`, `{"fgoto","label"}`, 3)}, // 4.5e6 states measured
			{name: "two-labels-goto-8", cfg: flowCfg(8, 5, `{"L","M"}`, `{"for","ifb","block"}`, `{"ret"}`, `{"fgoto","goto","label"}`, 2)},     // 3.9e6
			{name: "if-else-block-panic-9", cfg: flowCfg(9, 6, `{"L"}`, `{"ifb","block"}`, `{"ret","panic","spanic"}`, `{}`, 2)},                // 1.8e6
			{name: "loops-switch-break-9", cfg: flowCfg(9, 5, `{"L"}`, `{"for","switch","select"}`, `{"ret"}`, `{"break","label","continue"}`, 2)},
			{name: "tswitch-fallthrough-9", cfg: flowCfg(9, 5, `{"L"}`, `{"switch","tswitch"}`, `{"ret","panic"}`, `{"fallthrough","break"}`, 2)},
			{name: "range-forcond-labels-8", cfg: flowCfg(8, 5, `{"L","M"}`, `{"range","forcond","for","block"}`, `{"ret"}`, `{"break","continue","label"}`, 2)},
			{name: "clause-trailing-label-9", cfg: flowCfg(9, 4, `{"L"}`, `{"switch","select"}`, `{"ret"}`, `{"fgoto","label"}`, 2)},
			{name: "simple-statements-6", cfg: flowCfg(6, 4, `{"L"}`, `{"ifb","for","switch","closure"}`, `{"ret","assign","define","incdec","send","defer","go","var"}`, `{}`, 3)},
		}
	}
	var states, transitions, total int64
	t0 := time.Now()
	for _, c := range confs {
		var mu sync.Mutex
		var batch []flowBody
		var wg sync.WaitGroup
		sem := make(chan struct{}, 12)
		var n, nvalid int64
		flush := func(b []flowBody) {
			wg.Add(1)
			sem <- struct{}{}
			go func() {
				defer func() { <-sem; wg.Done() }()
				v := flowFaithfulBatch(run, b, c.name)
				mu.Lock()
				nvalid += int64(v)
				mu.Unlock()
			}()
		}
		res, err := tlc.Run(tlc.Opts{SpecDir: SpecDir, Module: "Flow", Cfg: c.cfg, Workers: tierWorkers(tier), Heavy: true, HeapMB: 8192, Timeout: 40 * time.Minute,
			OnJSON: func(l string) {
				var b flowBody
				if json.Unmarshal([]byte(l), &b) != nil || len(b.Ops) == 0 {
					return
				}
				mu.Lock()
				batch = append(batch, b)
				n++
				var out []flowBody
				if len(batch) >= 400 {
					out, batch = batch, nil
				}
				mu.Unlock()
				if out != nil {
					flush(out)
				}
			}})
		if err != nil {
			run.Infra(err)
		}
		if res.Violation {
			run.Infra(fmt.Errorf("Flow.tla violates its sanity laws in %s:\n%s", c.name, res.ErrText))
		}
		if len(batch) > 0 {
			flush(batch)
		}
		wg.Wait()
		if nvalid == 0 {
			run.Infra(fmt.Errorf("configuration %s generated no valid body", c.name))
		}
		states += res.Distinct
		transitions += res.Generated
		total += nvalid
		run.Set("flow_"+c.name, fmt.Sprintf("%d complete bodies of which %d valid Go and compared, tlc %d distinct states, %.1fs since start", n, nvalid, res.Distinct, time.Since(t0).Seconds()))
	}
	return states, transitions, total
}
