package props

// Declarations engine (spec/Decls.tla): define / assign / var / return statements over single
// values, multi-value calls and comma-ok forms, and constant blocks with iota.  Feeds C01-C04.

import (
	"encoding/json"
	"fmt"
	"go/ast"
	"go/constant"
	"go/parser"
	"go/token"
	"go/types"
	"sort"
	"strings"
	"time"

	"github.com/goplus/gogen"

	"verif/harness/internal/ev"
	"verif/harness/internal/tlc"
)

type dRhs struct {
	K   string  `json:"k"`
	Src string  `json:"src"`
	Ty  TTerm   `json:"ty"`
	Tys []TTerm `json:"tys"`
}

type dSpec struct {
	Ty string `json:"ty"`
	E  string `json:"e"`
}

type dPoint struct {
	Family string `json:"-"`
	Pt     struct {
		Names []string        `json:"names"`
		Rhs   []dRhs          `json:"rhs"`
		N     int             `json:"n"`
		Ty    *TTerm          `json:"ty"`
		Rs    []TTerm         `json:"rs"`
		Specs []dSpec         `json:"specs"`
		Raw   json.RawMessage `json:"-"`
	} `json:"pt"`
	R struct {
		Ok   bool            `json:"ok"`
		Why  string          `json:"why"`
		Decl json.RawMessage `json:"decl"`
		Cons []struct {
			Ty   TTerm  `json:"ty"`
			Kind string `json:"kind"`
			V    int64  `json:"v"`
		} `json:"consts"`
	} `json:"r"`
}

type dDecl struct {
	N  string `json:"n"`
	Ty TTerm  `json:"ty"`
}

// decls parses r.decl, which TLC prints either as an array or as an object keyed by index.
func (p dPoint) decls() []dDecl {
	var arr []dDecl
	if json.Unmarshal(p.R.Decl, &arr) == nil {
		return arr
	}
	var obj map[string]dDecl
	if json.Unmarshal(p.R.Decl, &obj) == nil {
		keys := []string{}
		for k := range obj {
			keys = append(keys, k)
		}
		sort.Strings(keys)
		for _, k := range keys {
			arr = append(arr, obj[k])
		}
	}
	return arr
}

func dTypeSrc(t TTerm) string {
	if t.K == "iface" && len(t.Ms) == 0 {
		return "interface{}"
	}
	return t.Src()
}

const dPrelude = `package p
type MyInt int
var fl float64
var mi MyInt
var e interface{}
var gerr error
var m map[string]string
var ch chan int
func f() (string, error) { return "", nil }
func g() (int, error) { return 0, nil }
func h() int { return 0 }
`

func (p dPoint) rhsSrc() string {
	var s []string
	for _, r := range p.Pt.Rhs {
		s = append(s, r.Src)
	}
	return strings.Join(s, ", ")
}

// text renders the statement (inside a function that declares x and s locally).
func (p dPoint) text(i int) string {
	var b strings.Builder
	switch p.Family {
	case "const":
		fmt.Fprintf(&b, "const (\n")
		for k, s := range p.Pt.Specs {
			name := fmt.Sprintf("K%d_%d", i, k)
			e := map[string]string{"": "", "iota": "iota", "k": "7", "str": `"x"`, "iota*2": "iota * 2", "1<<iota": "1 << iota", "big": "300"}[s.E]
			line := name
			if s.Ty != "" {
				line += " " + s.Ty
			}
			if e != "" {
				line += " = " + e
			}
			b.WriteString("\t" + line + "\n")
		}
		b.WriteString(")\n")
		fmt.Fprintf(&b, "const K%d_S = iota\n", i)
		return b.String()
	case "return":
		var rs []string
		for _, r := range p.Pt.Rs {
			rs = append(rs, dTypeSrc(r))
		}
		fmt.Fprintf(&b, "func d%d() (%s) {\n\tvar x int; var s string; _, _ = x, s\n\treturn %s\n}\n", i, strings.Join(rs, ", "), p.rhsSrc())
		return b.String()
	}
	fmt.Fprintf(&b, "func d%d() {\n\tvar x int; var s string; _, _ = x, s\n", i)
	switch p.Family {
	case "define":
		fmt.Fprintf(&b, "\t%s := %s\n", strings.Join(p.Pt.Names, ", "), p.rhsSrc())
	case "assign":
		fmt.Fprintf(&b, "\t%s = %s\n", strings.Join(p.Pt.Names, ", "), p.rhsSrc())
	case "var":
		names := []string{"n1", "n2"}[:p.Pt.N]
		ty := ""
		if p.Pt.Ty != nil && p.Pt.Ty.K != "untyped" {
			ty = " " + dTypeSrc(*p.Pt.Ty)
		}
		fmt.Fprintf(&b, "\tvar %s%s = %s\n", strings.Join(names, ", "), ty, p.rhsSrc())
	}
	b.WriteString("}\n")
	return b.String()
}

// outcome of a party: accepted + declared types (name -> type string) + constants
type dOutcome struct {
	Ok     bool
	Msg    string
	Fault  bool
	Types  map[string]string
	Consts []string // "type=value"
}

func normType(s string) string {
	s = strings.ReplaceAll(s, "p.MyInt", "MyInt")
	s = strings.ReplaceAll(s, "any", "interface{}")
	if s == "rune" {
		s = "int32"
	}
	if s == "byte" {
		s = "uint8"
	}
	return s
}

func (p dPoint) spec(w *TWorld) dOutcome {
	o := dOutcome{Ok: p.R.Ok, Msg: p.R.Why, Types: map[string]string{}}
	if !p.R.Ok {
		return o
	}
	for _, d := range p.decls() {
		o.Types[d.N] = normType(dTypeSrc(d.Ty))
		if d.Ty.K == "untyped" {
			o.Types[d.N] = "untyped " + d.Ty.N
		}
	}
	for _, c := range p.R.Cons {
		ty := normType(dTypeSrc(c.Ty))
		if c.Ty.K == "untyped" {
			ty = "untyped " + c.Ty.N
		}
		v := fmt.Sprint(c.V)
		if c.Kind == "str" {
			v = `"x"`
		}
		o.Consts = append(o.Consts, ty+"="+v)
	}
	return o
}

// T: go/types on the rendered batch
func dTypes(points []dPoint) ([]dOutcome, error) {
	var src strings.Builder
	src.WriteString(dPrelude)
	line := strings.Count(dPrelude, "\n") + 1
	starts := make([]int, len(points)+1)
	for i, p := range points {
		starts[i] = line
		t := p.text(i)
		src.WriteString(t)
		line += strings.Count(t, "\n")
	}
	starts[len(points)] = line
	fset := token.NewFileSet()
	f, err := parser.ParseFile(fset, "d.go", src.String(), 0)
	if err != nil {
		return nil, fmt.Errorf("reference rendering does not parse: %v", err)
	}
	out := make([]dOutcome, len(points))
	for i := range out {
		out[i] = dOutcome{Ok: true, Types: map[string]string{}}
	}
	idx := func(pos token.Pos) int {
		ln := fset.Position(pos).Line
		return sort.Search(len(starts), func(i int) bool { return starts[i] > ln }) - 1
	}
	info := &types.Info{Defs: map[*ast.Ident]types.Object{}}
	conf := types.Config{Error: func(e error) {
		te, ok := e.(types.Error)
		if !ok || strings.Contains(te.Msg, "declared and not used") {
			return
		}
		if i := idx(te.Pos); i >= 0 && i < len(points) && out[i].Ok {
			out[i].Ok = false
			out[i].Msg = te.Msg
		}
	}}
	pkg, _ := conf.Check("p", fset, []*ast.File{f}, info)
	for id, ob := range info.Defs {
		if ob == nil {
			continue
		}
		i := idx(id.Pos())
		if i < 0 || i >= len(points) {
			continue
		}
		if v, ok := ob.(*types.Var); ok && (id.Name == "n1" || id.Name == "n2") {
			out[i].Types[id.Name] = normType(v.Type().String())
		}
	}
	for i, p := range points {
		if p.Family != "const" || !out[i].Ok {
			continue
		}
		names := []string{}
		for k := range p.Pt.Specs {
			names = append(names, fmt.Sprintf("K%d_%d", i, k))
		}
		names = append(names, fmt.Sprintf("K%d_S", i))
		for _, nm := range names {
			c, _ := pkg.Scope().Lookup(nm).(*types.Const)
			if c == nil {
				continue
			}
			out[i].Consts = append(out[i].Consts, normType(c.Type().String())+"="+c.Val().ExactString())
		}
	}
	return out, nil
}

// G: the real builder
type dBuilder struct {
	pkg  *gogen.Package
	errs []string
	n    int
}

func newDBuilder() *dBuilder {
	fset, imp := sharedImporter()
	b := &dBuilder{}
	b.pkg = gogen.NewPackage("", "p", &gogen.Config{Fset: fset, Importer: imp, HandleErr: func(e error) { b.errs = append(b.errs, e.Error()) }})
	pkg := b.pkg
	ti, ts := types.Typ[types.Int], types.Typ[types.String]
	terr := types.Universe.Lookup("error").Type()
	pkg.NewType("MyInt").InitType(pkg, ti)
	my := pkg.Types.Scope().Lookup("MyInt").Type()
	pkg.NewVar(token.NoPos, types.Typ[types.Float64], "fl")
	pkg.NewVar(token.NoPos, my, "mi")
	pkg.NewVar(token.NoPos, types.NewInterfaceType(nil, nil), "e")
	pkg.NewVar(token.NoPos, terr, "gerr")
	pkg.NewVar(token.NoPos, types.NewMap(ts, ts), "m")
	pkg.NewVar(token.NoPos, types.NewChan(types.SendRecv, ti), "ch")
	res := func(ts ...types.Type) *types.Tuple {
		var vs []*types.Var
		for _, t := range ts {
			vs = append(vs, types.NewParam(token.NoPos, pkg.Types, "", t))
		}
		return types.NewTuple(vs...)
	}
	pkg.NewFunc(nil, "f", nil, res(ts, terr), false).BodyStart(pkg).Val("").Val(nil).Return(2).End()
	pkg.NewFunc(nil, "g", nil, res(ti, terr), false).BodyStart(pkg).Val(0).Val(nil).Return(2).End()
	pkg.NewFunc(nil, "h", nil, res(ti), false).BodyStart(pkg).Val(0).Return(1).End()
	return b
}

func (b *dBuilder) realType(w *TWorld, t TTerm) types.Type {
	switch {
	case t.K == "named" && t.N == "MyInt":
		return b.pkg.Types.Scope().Lookup("MyInt").Type()
	case t.K == "named" && t.N == "error":
		return types.Universe.Lookup("error").Type()
	case t.K == "iface" && len(t.Ms) == 0:
		return types.NewInterfaceType(nil, nil)
	}
	return w.Type(t)
}

func (b *dBuilder) pushRhs(cb *gogen.CodeBuilder, r dRhs, two bool) {
	lookup := func(n string) types.Object {
		_, o := cb.Scope().LookupParent(n, token.NoPos)
		return o
	}
	lhs := 0
	if two {
		lhs = 1 // comma-ok form
	}
	switch r.Src {
	case "x", "s", "fl", "mi", "e", "gerr":
		cb.Val(lookup(r.Src))
	case "h()":
		cb.Val(lookup("h")).Call(0)
	case "f()":
		cb.Val(lookup("f")).Call(0)
	case "g()":
		cb.Val(lookup("g")).Call(0)
	case "1":
		cb.Val(1)
	case "257":
		cb.Val(257)
	case "'\\u0101'":
		cb.Val(rune(257))
	case "1.5":
		cb.Val(&ast.BasicLit{Kind: token.FLOAT, Value: "1.5"})
	case `"s"`:
		cb.Val("s")
	case "true":
		cb.Val(true)
	case "nil":
		cb.Val(nil)
	case `m["k"]`:
		cb.Val(lookup("m")).Val("k").Index(1, lhs+1)
	case "<-ch":
		cb.Val(lookup("ch")).UnaryOpEx(token.ARROW, lhs+1)
	case "e.(int)":
		cb.Val(lookup("e")).TypeAssert(types.Typ[types.Int], lhs+1)
	default:
		panic("harness: unknown rhs " + r.Src)
	}
}

func (b *dBuilder) build(w *TWorld, p dPoint) (o dOutcome) {
	pkg := b.pkg
	b.n++
	b.errs = nil
	o.Types = map[string]string{}
	defer func() {
		if e := recover(); e != nil {
			o = dOutcome{Ok: false, Msg: fmt.Sprint(e), Types: map[string]string{}}
			if _, ok := e.(interface{ RuntimeError() }); ok {
				o.Fault = true
			} else if s, ok := e.(string); ok && isForeignPanic(s) {
				o.Fault = true
			} else if strings.HasPrefix(o.Msg, "harness:") {
				panic(e)
			}
		}
	}()
	ti, ts := types.Typ[types.Int], types.Typ[types.String]
	if p.Family == "const" {
		defs := pkg.NewConstDefs(pkg.Types.Scope())
		iota := func(cb *gogen.CodeBuilder) { _, o := cb.Scope().LookupParent("iota", token.NoPos); cb.Val(o) }
		for k, s := range p.Pt.Specs {
			name := fmt.Sprintf("K%d_%d", b.n, k)
			if s.E == "" {
				defs.Next(k, token.NoPos, name)
				continue
			}
			var T types.Type
			switch s.Ty {
			case "uint8":
				T = types.Typ[types.Uint8]
			case "int":
				T = ti
			case "string":
				T = ts
			case "MyInt":
				T = pkg.Types.Scope().Lookup("MyInt").Type()
			}
			e := s.E
			defs.New(func(cb *gogen.CodeBuilder) int {
				switch e {
				case "iota":
					iota(cb)
				case "k":
					cb.Val(7)
				case "str":
					cb.Val("x")
				case "iota*2":
					iota(cb)
					cb.Val(2).BinaryOp(token.MUL)
				case "1<<iota":
					cb.Val(1)
					iota(cb)
					cb.BinaryOp(token.SHL)
				case "big":
					cb.Val(300)
				}
				return 1
			}, k, token.NoPos, T, name)
		}
		if len(b.errs) > 0 {
			return dOutcome{Ok: false, Msg: b.errs[0], Types: map[string]string{}}
		}
		// a separate single-spec declaration using iota, built after the block
		pkg.NewConstStart(pkg.Types.Scope(), token.NoPos, nil, fmt.Sprintf("K%d_S", b.n))
		iota(pkg.CB())
		pkg.CB().EndInit(1)
		o.Ok = true
		cnames := []string{}
		for k := range p.Pt.Specs {
			cnames = append(cnames, fmt.Sprintf("K%d_%d", b.n, k))
		}
		cnames = append(cnames, fmt.Sprintf("K%d_S", b.n))
		for _, cname := range cnames {
			c, _ := pkg.Types.Scope().Lookup(cname).(*types.Const)
			if c == nil {
				o.Consts = append(o.Consts, "missing")
				continue
			}
			v := "nil"
			if c.Val() != nil {
				v = c.Val().ExactString()
				if c.Val().Kind() == constant.Float {
					if iv := constant.ToInt(c.Val()); iv.Kind() == constant.Int {
						v = iv.ExactString()
					}
				}
			}
			o.Consts = append(o.Consts, normType(c.Type().String())+"="+v)
		}
		return o
	}
	var results *types.Tuple
	if p.Family == "return" {
		var vs []*types.Var
		for _, r := range p.Pt.Rs {
			vs = append(vs, types.NewParam(token.NoPos, pkg.Types, "", b.realType(w, r)))
		}
		results = types.NewTuple(vs...)
	}
	cb := pkg.NewFunc(nil, fmt.Sprintf("d%d", b.n), nil, results, false).BodyStart(pkg)
	closed := false
	defer func() {
		if !closed {
			func() {
				defer func() { recover() }()
				cb.ResetStmt()
				cb.End()
			}()
		}
	}()
	cb.NewVar(ti, "x")
	cb.NewVar(ts, "s")
	lookup := func(n string) types.Object {
		_, o := cb.Scope().LookupParent(n, token.NoPos)
		return o
	}
	ntargets := len(p.Pt.Names)
	if p.Family == "var" {
		ntargets = p.Pt.N
	}
	if p.Family == "return" {
		ntargets = len(p.Pt.Rs)
	}
	two := ntargets == 2 && len(p.Pt.Rhs) == 1
	switch p.Family {
	case "define":
		cb.DefineVarStart(token.NoPos, p.Pt.Names...)
		for _, r := range p.Pt.Rhs {
			b.pushRhs(cb, r, two)
		}
		cb.EndInit(len(p.Pt.Rhs))
	case "assign":
		for _, n := range p.Pt.Names {
			if n == "_" {
				cb.VarRef(nil)
			} else {
				cb.VarRef(lookup(n))
			}
		}
		for _, r := range p.Pt.Rhs {
			b.pushRhs(cb, r, two)
		}
		cb.Assign(len(p.Pt.Names), len(p.Pt.Rhs))
	case "var":
		var T types.Type
		if p.Pt.Ty != nil && p.Pt.Ty.K != "untyped" {
			T = b.realType(w, *p.Pt.Ty)
		}
		cb.NewVarStart(T, []string{"n1", "n2"}[:p.Pt.N]...)
		for _, r := range p.Pt.Rhs {
			b.pushRhs(cb, r, two)
		}
		cb.EndInit(len(p.Pt.Rhs))
	case "return":
		for _, r := range p.Pt.Rhs {
			b.pushRhs(cb, r, false)
		}
		cb.Return(len(p.Pt.Rhs))
	}
	if len(b.errs) > 0 {
		return dOutcome{Ok: false, Msg: b.errs[0], Types: map[string]string{}}
	}
	o.Ok = true
	for _, n := range []string{"n1", "n2"} {
		if ob := cb.Scope().Lookup(n); ob != nil {
			o.Types[n] = normType(ob.Type().String())
		}
	}
	cb.End()
	closed = true
	if len(b.errs) > 0 {
		return dOutcome{Ok: false, Msg: b.errs[0], Types: map[string]string{}}
	}
	return o
}

func (p dPoint) describe() string {
	return strings.TrimSpace(strings.ReplaceAll(p.text(0), "\n", " "))
}

// class of a point for finding keys
func (p dPoint) class() string {
	var rk []string
	for _, r := range p.Pt.Rhs {
		k := r.K
		if k == "one" {
			if r.Ty.K == "untyped" {
				k = "untyped-" + r.Ty.N
			} else {
				k = "value"
			}
		}
		rk = append(rk, k)
	}
	switch p.Family {
	case "define", "assign":
		var nk []string
		for _, n := range p.Pt.Names {
			switch n {
			case "n1", "n2":
				nk = append(nk, "new")
			case "_":
				nk = append(nk, "blank")
			default:
				nk = append(nk, "existing")
			}
		}
		return fmt.Sprintf("%s [%s] <- [%s]", p.Family, strings.Join(nk, ","), strings.Join(rk, ","))
	case "var":
		t := "inferred"
		if p.Pt.Ty != nil && p.Pt.Ty.K != "untyped" {
			t = "typed"
		}
		return fmt.Sprintf("var(%d,%s) <- [%s]", p.Pt.N, t, strings.Join(rk, ","))
	case "return":
		return fmt.Sprintf("return(%d results) <- [%s]", len(p.Pt.Rs), strings.Join(rk, ","))
	}
	var sk []string
	for _, s := range p.Pt.Specs {
		t := "untyped"
		if s.Ty != "" {
			t = "typed"
		}
		e := s.E
		if e == "" {
			t, e = "implicit", "repeat"
		}
		sk = append(sk, t+":"+e)
	}
	return "const(" + strings.Join(sk, "; ") + ")"
}

// declsRun enumerates all families; handle gets S and G (S = T is asserted).
func declsRun(run *ev.Run, handle func(p dPoint, s, g dOutcome)) (states, transitions, points int64) {
	w, err := NewTWorld()
	if err != nil {
		run.Infra(err)
	}
	for _, fam := range []string{"define", "assign", "var", "return", "const"} {
		var pts []dPoint
		cfg := fmt.Sprintf("INIT Init\nNEXT Next\nCONSTANT Family = %q\nINVARIANTS Laws Emit\nCHECK_DEADLOCK FALSE\n", fam)
		res, err := tlc.Run(tlc.Opts{SpecDir: SpecDir, Module: "Decls", Cfg: cfg, Workers: 2, Timeout: 20 * time.Minute,
			OnJSON: func(l string) {
				var p dPoint
				if json.Unmarshal([]byte(l), &p) == nil {
					p.Family = fam
					pts = append(pts, p)
				}
			}})
		if err != nil {
			run.Infra(err)
		}
		if res.Violation {
			run.Infra(fmt.Errorf("Decls.tla violates its laws (%s):\n%s", fam, res.ErrText))
		}
		if len(pts) == 0 {
			run.Infra(fmt.Errorf("Decls.tla family %s is empty", fam))
		}
		states += res.Distinct
		transitions += res.Generated
		ts, err := dTypes(pts)
		if err != nil {
			run.Infra(err)
		}
		b := newDBuilder()
		for i, p := range pts {
			s := p.spec(w)
			t := ts[i]
			if s.Ok != t.Ok || (s.Ok && (fmt.Sprint(s.Types) != fmt.Sprint(t.Types) || fmt.Sprint(s.Consts) != fmt.Sprint(t.Consts))) {
				run.Infra(fmt.Errorf("Decls.tla disagrees with go/types (specification defect, not a verdict) on `%s`: S ok=%v %s %v %v, T ok=%v %s %v %v", p.describe(), s.Ok, s.Msg, s.Types, s.Consts, t.Ok, t.Msg, t.Types, t.Consts))
			}
			g := b.build(w, p)
			if !g.Ok {
				b = newDBuilder()
			}
			points++
			handle(p, s, g)
		}
	}
	return
}

// declsClassify derives the findings of one point.
func declsClassify(p dPoint, s, g dOutcome) []opsFinding {
	var out []opsFinding
	cls := p.class()
	desc := fmt.Sprintf("`%s`: Go (Decls.tla = go/types): ok=%v %s types=%v consts=%v; builder: ok=%v %s types=%v consts=%v", p.describe(), s.Ok, s.Msg, s.Types, s.Consts, g.Ok, g.Msg, g.Types, g.Consts)
	switch {
	case g.Fault:
		out = append(out, opsFinding{"C17", "fault/" + cls, desc})
		if s.Ok {
			out = append(out, opsFinding{"C02", "fault-on-valid-statement/" + cls, desc})
		}
	case !s.Ok && g.Ok:
		out = append(out, opsFinding{"C01", fmt.Sprintf("accepted-although-%s/%s", s.Msg, cls), desc})
		if p.Family == "const" {
			out = append(out, opsFinding{"C04", fmt.Sprintf("constant-declared-although-%s/%s", s.Msg, cls), desc})
		}
	case s.Ok && !g.Ok:
		out = append(out, opsFinding{"C02", "rejected-valid/" + cls, desc})
	case s.Ok && g.Ok:
		if fmt.Sprint(s.Types) != fmt.Sprint(g.Types) {
			out = append(out, opsFinding{"C03", fmt.Sprintf("declared-type: go=%v builder=%v/%s", s.Types, g.Types, cls), desc})
		}
		if p.Family == "const" {
			for i := range s.Consts {
				if i >= len(g.Consts) {
					break
				}
				st, sv, _ := strings.Cut(s.Consts[i], "=")
				gt, gv, _ := strings.Cut(g.Consts[i], "=")
				if st != gt {
					out = append(out, opsFinding{"C03", fmt.Sprintf("constant-type: go=%s builder=%s (spec %d)/%s", st, gt, i, cls), desc})
				}
				if sv != gv {
					out = append(out, opsFinding{"C04", fmt.Sprintf("constant-value (spec %d)/%s", i, cls), desc})
				}
			}
		}
	}
	return out
}
