package props

// C02 on expression shapes: the trees of Print.tla over operators that are closed on one operand type (integer
// operators over an int variable, logical operators over a bool variable) are well-typed Go whatever their shape.
// Each tree is built on the operand stack of the real CodeBuilder (x y z op op for x op (y op z)), the expression
// the builder holds is written, parsed back and compared with the tree: operator precedence and associativity
// must be reproduced by parentheses wherever the shape needs them.

import (
	"encoding/json"
	"fmt"
	"go/ast"
	"go/parser"
	"go/token"
	"go/types"
	"strings"
	"time"

	"github.com/goplus/gogen"

	"verif/harness/internal/ev"
	"verif/harness/internal/tlc"
)

type shapeWorld struct {
	pkg  *gogen.Package
	errs []string
	fn   *gogen.Func
	n    int
}

func newShapeWorld() *shapeWorld {
	fset, imp := sharedImporter()
	w := &shapeWorld{}
	w.pkg = gogen.NewPackage("", "p", &gogen.Config{Fset: fset, Importer: imp, HandleErr: func(e error) { w.errs = append(w.errs, e.Error()) }})
	w.pkg.NewVar(token.NoPos, types.Typ[types.Int], "x")
	w.pkg.NewVar(token.NoPos, types.Typ[types.Bool], "b")
	return w
}

func (w *shapeWorld) push(cb *gogen.CodeBuilder, t *prTree, v string) {
	switch t.K {
	case "id":
		cb.Val(w.pkg.Types.Scope().Lookup(v))
	case "bin":
		w.push(cb, t.A, v)
		w.push(cb, t.B, v)
		cb.BinaryOp(prTok[t.Op])
	case "un":
		w.push(cb, t.A, v)
		cb.UnaryOp(prTok[t.Op])
	default:
		panic("harness: tree node " + t.K)
	}
}

// build returns the text of the expression the builder holds for the tree
func (w *shapeWorld) build(t *prTree, v string) (text string, rejected bool, msg string) {
	pkg := w.pkg
	w.errs = nil
	if w.fn == nil {
		w.n++
		w.fn = pkg.NewFunc(nil, fmt.Sprintf("body%d", w.n), nil, nil, false)
		w.fn.BodyStart(pkg)
	}
	cb := pkg.CB()
	defer func() {
		if e := recover(); e != nil {
			rejected, msg = true, fmt.Sprint(e)
			cb.ResetStmt()
			w.fn = nil
		}
	}()
	w.push(cb, t, v)
	el := cb.InternalStack().Pop()
	cb.ResetStmt()
	if len(w.errs) > 0 {
		return "", true, strings.Join(w.errs, "; ")
	}
	var buf strings.Builder
	if err := gogen.VerifFormatNode(&buf, el.Val.(ast.Expr)); err != nil {
		return "", true, "print: " + err.Error()
	}
	return buf.String(), false, ""
}

// the tree with the identifier v in place of Print.tla's x
func (t *prTree) astWith(v string) ast.Expr {
	switch t.K {
	case "id":
		return &ast.Ident{Name: v}
	case "bin":
		return &ast.BinaryExpr{X: t.A.astWith(v), Op: prTok[t.Op], Y: t.B.astWith(v)}
	case "un":
		return &ast.UnaryExpr{Op: prTok[t.Op], X: t.A.astWith(v)}
	}
	panic("harness: tree node " + t.K)
}

func shapeCheck(run *ev.Run, pts []prPoint, v string) {
	var batches [][]prPoint
	for i := 0; i < len(pts); i += 500 {
		j := i + 500
		if j > len(pts) {
			j = len(pts)
		}
		batches = append(batches, pts[i:j])
	}
	parallelN(8, len(batches), func(bi int) {
		w := newShapeWorld()
		for _, p := range batches[bi] {
			run.Eval("shape:" + v + ":" + p.Tree.shape())
			text, rejected, msg := w.build(p.Tree, v)
			if rejected {
				run.Fail("rejected-valid/expression-shape/"+shapeOps(p.Tree), fmt.Sprintf("the well-typed expression %s over %s is rejected: %s", p.Tree.shape(), v, firstLines(msg, 1)), shapeReplay{p, v})
				continue
			}
			back, err := parser.ParseExpr(text)
			if err != nil {
				run.Fail("emitted-expression-does-not-parse/expression-shape", fmt.Sprintf("tree %s is emitted as `%s`: %v", p.Tree.shape(), text, err), shapeReplay{p, v})
				continue
			}
			if want, got := canonUntyped(p.Tree.astWith(v)), canonUntyped(back); want != got {
				run.Fail("not-reproduced/expression-shape/"+p.Tree.shape(), fmt.Sprintf("the operations of tree %s are emitted as `%s`, which is another expression: %s", p.Tree.shape(), text, canonDiff(want, got)), shapeReplay{p, v})
			}
		}
	})
}

type shapeReplay struct {
	Shape prPoint `json:"shape"`
	Var   string  `json:"var"`
}

func shapeOps(t *prTree) string {
	set := map[string]bool{}
	var walk func(t *prTree)
	walk = func(t *prTree) {
		if t == nil {
			return
		}
		if t.Op != "" {
			set[t.K+t.Op] = true
		}
		walk(t.A)
		walk(t.B)
	}
	walk(t)
	return setString(set)
}

func shapeRun(run *ev.Run, tier string) (int64, int64, int64) {
	type conf struct{ name, v, cfg string }
	confs := []conf{
		{"integer-operators-depth2", "x", prCfg(`{"x"}`, `{"+","-","*","/","&","|","^","&^","<<"}`, `{"-","^"}`, `{}`, 2, false, false)},
		{"logical-operators-depth2", "b", prCfg(`{"x"}`, `{"&&","||"}`, `{"!"}`, `{}`, 2, false, false)},
	}
	if tier == "thorough" {
		confs = append(confs, conf{"arithmetic-depth3", "x", prCfg(`{"x"}`, `{"+","-","*","<<"}`, `{"-"}`, `{}`, 3, false, false)},
			conf{"logical-operators-depth3", "b", prCfg(`{"x"}`, `{"&&","||"}`, `{"!"}`, `{}`, 3, false, false)})
	}
	var states, transitions, total int64
	for _, c := range confs {
		var pts []prPoint
		res, err := tlc.Run(tlc.Opts{SpecDir: SpecDir, Module: "Print", Cfg: c.cfg, Workers: 4, Heavy: true, Timeout: 20 * time.Minute,
			OnJSON: func(l string) {
				var p prPoint
				if json.Unmarshal([]byte(l), &p) == nil && p.Tree != nil {
					pts = append(pts, p)
				}
			}})
		if err != nil {
			run.Infra(err)
		}
		if res.Violation {
			run.Infra(fmt.Errorf("Print.tla violates its laws in %s:\n%s", c.name, res.ErrText))
		}
		if int64(len(pts)) != res.Distinct || len(pts) == 0 {
			run.Infra(fmt.Errorf("Print.tla %s: %d trees received, %d states", c.name, len(pts), res.Distinct))
		}
		shapeCheck(run, pts, c.v)
		states, transitions, total = states+res.Distinct, transitions+res.Generated, total+int64(len(pts))
		run.Set("shapes_"+c.name, fmt.Sprintf("%d trees built on the operand stack and compared with the emitted expression", len(pts)))
	}
	return states, transitions, total
}
