package props

// C02, expressions in statement headers (spec/Headers.tla): every placement of every expression
// tree of the grammar in every statement context is a valid Go program; the builder must accept it
// and emit text that parses back to the same typed tree.  go/parser on the text *without*
// protective parentheses validates the model's Ambiguous predicate (S = T).

import (
	"bytes"
	"encoding/json"
	"fmt"
	"go/parser"
	"go/token"
	"go/types"
	"regexp"
	"strings"
	"time"

	"github.com/goplus/gogen"

	"verif/harness/internal/ev"
	"verif/harness/internal/tlc"
)

type hx struct {
	K    string `json:"k"`
	N    string `json:"n,omitempty"`
	T    string `json:"t,omitempty"`
	Op   string `json:"op,omitempty"`
	V    int    `json:"v,omitempty"`
	X    *hx    `json:"x,omitempty"`
	F    *hx    `json:"f,omitempty"`
	A    *hx    `json:"a,omitempty"`
	B    *hx    `json:"b,omitempty"`
	I    *hx    `json:"i,omitempty"`
	Args []*hx  `json:"args,omitempty"`
}

var hdrPathRe = regexp.MustCompile(`(\.sel|\.call)+`)

type hdrPoint struct {
	Ctx    string `json:"ctx"`
	E      *hx    `json:"e"`
	Amb    bool   `json:"amb"`
	Header bool   `json:"header"`
}

const hdrPrelude = `package p

import "image"

type N struct {
	v   int
	ok  bool
	p   *N
	arr []int
	e   any
}

func (N) M() N { return N{} }

type G[T any] struct {
	v  T
	ok bool
}

var vn N
var bs []bool
var p bool
var pt image.Point
var x int

func g0()          {}
func fb(N) bool    { return false }
func fi(N) int     { return 0 }
func fb2(bool)     {}
`

// render: protect = parenthesise every type-name literal (always unambiguous)
func (e *hx) render(protect bool) string {
	switch e.K {
	case "var":
		return e.N
	case "int":
		return fmt.Sprint(e.V)
	case "str":
		return `"a"`
	case "lit":
		s := "N{v: 1}"
		if e.T == "Pt" {
			s = "image.Point{X: 1}"
		}
		if e.T == "G" {
			s = "G[int]{v: 1}"
		}
		if protect {
			return "(" + s + ")"
		}
		return s
	case "addr":
		return "(&" + e.X.render(protect) + ")"
	case "sel":
		return e.X.render(protect) + "." + e.N
	case "call":
		var as []string
		for _, a := range e.Args {
			as = append(as, a.render(protect))
		}
		return e.F.render(protect) + "(" + strings.Join(as, ", ") + ")"
	case "index":
		return e.X.render(protect) + "[" + e.I.render(protect) + "]"
	case "slice":
		return e.X.render(protect) + "[0:1]"
	case "bin":
		return e.A.render(protect) + " " + e.Op + " " + e.B.render(protect)
	case "not":
		return "!" + e.X.render(protect)
	case "slicelit":
		return "[]N{N{v: 1}}"
	case "maplit":
		return `map[string]N{"a": N{v: 1}}`
	case "anonlit":
		return "struct {\nok bool\nv int\n}{true, 1}"
	case "funccall":
		return "func() N { return N{v: 1} }()"
	}
	panic("harness: unknown expression node " + e.K)
}

func hdrStmt(ctx, name, e string) string {
	switch ctx {
	case "if-cond":
		return fmt.Sprintf("func %s() {\nif %s {\ng0()\n}\n}\n", name, e)
	case "if-init":
		return fmt.Sprintf("func %s() {\nif t := %s; t == 1 {\ng0()\n}\n}\n", name, e)
	case "elseif-cond":
		return fmt.Sprintf("func %s() {\nif p {\ng0()\n} else if %s {\ng0()\n}\n}\n", name, e)
	case "for-cond":
		return fmt.Sprintf("func %s() {\nfor %s {\ng0()\n}\n}\n", name, e)
	case "for-init":
		return fmt.Sprintf("func %s() {\nfor i := %s; i < 1; i++ {\ng0()\n}\n}\n", name, e)
	case "for-post":
		return fmt.Sprintf("func %s() {\nfor ; p; x = %s {\ng0()\n}\n}\n", name, e)
	case "switch-tag":
		return fmt.Sprintf("func %s() {\nswitch %s {\ncase 1:\ng0()\n}\n}\n", name, e)
	case "switch-tag-self":
		return fmt.Sprintf("func %s() {\nswitch %s {\n}\n}\n", name, e)
	case "switch-init":
		return fmt.Sprintf("func %s() {\nswitch t := %s; t {\ncase 1:\ng0()\n}\n}\n", name, e)
	case "tswitch-x":
		return fmt.Sprintf("func %s() {\nswitch %s.(type) {\ncase int:\ng0()\n}\n}\n", name, e)
	case "range-x":
		return fmt.Sprintf("func %s() {\nfor range %s {\ng0()\n}\n}\n", name, e)
	case "case-expr":
		return fmt.Sprintf("func %s() {\nswitch x {\ncase %s:\ng0()\n}\n}\n", name, e)
	case "assign":
		return fmt.Sprintf("func %s() {\nx = %s\n}\n", name, e)
	case "return":
		return fmt.Sprintf("func %s() bool {\nreturn %s\n}\n", name, e)
	case "call-stmt":
		return fmt.Sprintf("func %s() {\nfb2(%s)\n}\n", name, e)
	}
	panic("harness: unknown context " + ctx)
}

type hdrBuilder struct {
	pkg  *gogen.Package
	errs []string
	tN   *types.Named
	tG   types.Type
	tPt  types.Type
	n    int
}

func newHdrBuilder() *hdrBuilder {
	fset, imp := sharedImporter()
	hb := &hdrBuilder{}
	pkg := gogen.NewPackage("", "p", &gogen.Config{Fset: fset, Importer: imp, HandleErr: func(err error) { hb.errs = append(hb.errs, err.Error()) }})
	hb.pkg = pkg
	ti, tb := types.Typ[types.Int], types.Typ[types.Bool]
	decl := pkg.NewType("N")
	tN := decl.Type()
	fld := func(n string, t types.Type) *types.Var { return types.NewField(token.NoPos, pkg.Types, n, t, false) }
	decl.InitType(pkg, types.NewStruct([]*types.Var{fld("v", ti), fld("ok", tb), fld("p", types.NewPointer(tN)), fld("arr", types.NewSlice(ti)), fld("e", types.NewInterfaceType(nil, nil))}, nil))
	hb.tN = tN
	par := func(n string, t types.Type) *types.Var { return types.NewParam(token.NoPos, pkg.Types, n, t) }
	pkg.NewFunc(par("", tN), "M", nil, types.NewTuple(par("", tN)), false).BodyStart(pkg).StructLit(tN, 0, false).Return(1).End()
	tp := types.NewTypeParam(types.NewTypeName(token.NoPos, pkg.Types, "T", nil), types.Universe.Lookup("any").Type())
	gdecl := pkg.NewType("G").InitType(pkg, types.NewStruct([]*types.Var{fld("v", tp), fld("ok", tb)}, nil), tp)
	hb.tG = pkg.Instantiate(gdecl, []types.Type{ti})
	hb.tPt = pkg.Import("image").Ref("Point").Type()
	pkg.NewVar(token.NoPos, tN, "vn")
	pkg.NewVar(token.NoPos, types.NewSlice(tb), "bs")
	pkg.NewVar(token.NoPos, tb, "p")
	pkg.NewVar(token.NoPos, hb.tPt, "pt")
	pkg.NewVar(token.NoPos, ti, "x")
	pkg.NewFunc(nil, "g0", nil, nil, false).BodyStart(pkg).End()
	pkg.NewFunc(nil, "fb", types.NewTuple(par("", tN)), types.NewTuple(par("", tb)), false).BodyStart(pkg).Val(false).Return(1).End()
	pkg.NewFunc(nil, "fi", types.NewTuple(par("", tN)), types.NewTuple(par("", ti)), false).BodyStart(pkg).Val(0).Return(1).End()
	pkg.NewFunc(nil, "fb2", types.NewTuple(par("", tb)), nil, false).BodyStart(pkg).End()
	return hb
}

func (hb *hdrBuilder) expr(cb *gogen.CodeBuilder, e *hx) {
	pkg := hb.pkg
	ref := func(name string) types.Object {
		_, o := cb.Scope().LookupParent(name, token.NoPos)
		if o == nil {
			panic("harness: no object " + name)
		}
		return o
	}
	ti, tb := types.Typ[types.Int], types.Typ[types.Bool]
	switch e.K {
	case "var":
		cb.Val(ref(e.N))
	case "int":
		cb.Val(e.V)
	case "str":
		cb.Val("a")
	case "lit":
		if e.T == "Pt" {
			cb.Val(0).Val(1).StructLit(hb.tPt, 2, true)
		} else if e.T == "G" {
			cb.Val(0).Val(1).StructLit(hb.tG, 2, true)
		} else {
			cb.Val(0).Val(1).StructLit(hb.tN, 2, true)
		}
	case "addr":
		hb.expr(cb, e.X)
		cb.UnaryOp(token.AND)
	case "sel":
		hb.expr(cb, e.X)
		cb.MemberVal(e.N, 0)
	case "call":
		hb.expr(cb, e.F)
		for _, a := range e.Args {
			hb.expr(cb, a)
		}
		cb.Call(len(e.Args))
	case "index":
		hb.expr(cb, e.X)
		hb.expr(cb, e.I)
		cb.Index(1, 0)
	case "slice":
		hb.expr(cb, e.X)
		cb.Val(0).Val(1).Slice(false)
	case "bin":
		hb.expr(cb, e.A)
		hb.expr(cb, e.B)
		tok := map[string]token.Token{"==": token.EQL, "&&": token.LAND, "+": token.ADD}[e.Op]
		cb.BinaryOp(tok)
	case "not":
		hb.expr(cb, e.X)
		cb.UnaryOp(token.NOT)
	case "slicelit":
		cb.Val(0).Val(1).StructLit(hb.tN, 2, true).SliceLit(types.NewSlice(hb.tN), 1)
	case "maplit":
		cb.Val("a").Val(0).Val(1).StructLit(hb.tN, 2, true).MapLit(types.NewMap(types.Typ[types.String], hb.tN), 2)
	case "anonlit":
		st := types.NewStruct([]*types.Var{types.NewField(token.NoPos, pkg.Types, "ok", tb, false), types.NewField(token.NoPos, pkg.Types, "v", ti, false)}, nil)
		cb.Val(true).Val(1).StructLit(st, 2, false)
	case "funccall":
		cb.NewClosure(nil, types.NewTuple(types.NewParam(token.NoPos, pkg.Types, "", hb.tN)), false).BodyStart(pkg).
			Val(0).Val(1).StructLit(hb.tN, 2, true).Return(1).End().Call(0)
	default:
		panic("harness: unknown expression node " + e.K)
	}
}

// build builds the statement of one point as function h<n>; returns its name, or a failure text.
func (hb *hdrBuilder) build(p hdrPoint) (name string, fail string) {
	defer func() {
		if e := recover(); e != nil {
			fail = fmt.Sprintf("builder failed: %v", e)
		}
	}()
	pkg := hb.pkg
	hb.n++
	hb.errs = nil
	name = fmt.Sprintf("h%d", hb.n)
	var res *types.Tuple
	if p.Ctx == "return" {
		res = types.NewTuple(types.NewParam(token.NoPos, pkg.Types, "", types.Typ[types.Bool]))
	}
	cb := pkg.NewFunc(nil, name, nil, res, false).BodyStart(pkg)
	ref := func(n string) types.Object {
		_, o := cb.Scope().LookupParent(n, token.NoPos)
		return o
	}
	g0 := func() { cb.Val(ref("g0")).Call(0).EndStmt() }
	e := func() { hb.expr(cb, p.E) }
	switch p.Ctx {
	case "if-cond":
		cb.If()
		e()
		cb.Then()
		g0()
		cb.End()
	case "if-init":
		cb.If().DefineVarStart(token.NoPos, "t")
		e()
		cb.EndInit(1).Val(ref("t")).Val(1).BinaryOp(token.EQL).Then()
		g0()
		cb.End()
	case "elseif-cond":
		cb.If().Val(ref("p")).Then()
		g0()
		cb.Else().If()
		e()
		cb.Then()
		g0()
		cb.End().End()
	case "for-cond":
		cb.For()
		e()
		cb.Then()
		g0()
		cb.End()
	case "for-init":
		cb.For().DefineVarStart(token.NoPos, "i")
		e()
		cb.EndInit(1).Val(ref("i")).Val(1).BinaryOp(token.LSS).Then()
		g0()
		cb.Post().VarRef(ref("i")).IncDec(token.INC).End()
	case "for-post":
		cb.For().Val(ref("p")).Then()
		g0()
		cb.Post().VarRef(ref("x"))
		e()
		cb.Assign(1).End()
	case "switch-tag":
		cb.Switch()
		e()
		cb.Then().Case().Val(1).Then()
		g0()
		cb.End().End()
	case "switch-tag-self":
		cb.Switch()
		e()
		cb.Then().End()
	case "switch-init":
		cb.Switch().DefineVarStart(token.NoPos, "t")
		e()
		cb.EndInit(1).Val(ref("t")).Then().Case().Val(1).Then()
		g0()
		cb.End().End()
	case "tswitch-x":
		cb.TypeSwitch("")
		e()
		cb.TypeAssertThen().TypeCase().Typ(types.Typ[types.Int]).Then()
		g0()
		cb.End().End()
	case "range-x":
		cb.ForRange()
		e()
		cb.RangeAssignThen(token.NoPos)
		g0()
		cb.End()
	case "case-expr":
		cb.Switch().Val(ref("x")).Then().Case()
		e()
		cb.Then()
		g0()
		cb.End().End()
	case "assign":
		cb.VarRef(ref("x"))
		e()
		cb.Assign(1)
	case "return":
		e()
		cb.Return(1)
	case "call-stmt":
		cb.Val(ref("fb2"))
		e()
		cb.Call(1).EndStmt()
	default:
		panic("harness: unknown context " + p.Ctx)
	}
	cb.End()
	if len(hb.errs) > 0 {
		return name, "reported: " + strings.Join(hb.errs, "; ")
	}
	return name, ""
}

// shape of the expression for finding keys: the spine from the root to the exposed literal
func (e *hx) spine() string {
	switch e.K {
	case "sel":
		return e.X.spine() + ".sel"
	case "call":
		return e.F.spine() + ".call"
	case "index":
		return e.X.spine() + ".index"
	case "slice":
		return e.X.spine() + ".slice"
	case "addr":
		return e.X.spine() + ".addr"
	case "not":
		return e.X.spine() + ".not"
	case "bin":
		return "bin(" + e.A.spine() + "," + e.B.spine() + ")"
	case "lit":
		return "lit" + e.T
	}
	return e.K
}

// class for finding keys: context + whether the point is ambiguous + how the literal is reached (collapsed repetitions)
func (p hdrPoint) class() string {
	// runs of selector / method-call steps are one class: ".path" (selectors only) or ".path(call)"
	s := hdrPathRe.ReplaceAllStringFunc(p.E.spine(), func(m string) string {
		if strings.Contains(m, ".call") {
			return ".path(call)"
		}
		return ".path"
	})
	amb := "unambiguous"
	if p.Amb {
		amb = "literal-exposed"
	}
	return fmt.Sprintf("%s/%s/%s", p.Ctx, amb, s)
}

func hdrCheckBatch(run *ev.Run, pts []hdrPoint) {
	// T validates S: without protective parentheses the text fails to parse exactly when the model says ambiguous
	for _, p := range pts {
		src := hdrPrelude + hdrStmt(p.Ctx, "h", p.E.render(false))
		_, err := parser.ParseFile(token.NewFileSet(), "t.go", src, parser.SkipObjectResolution)
		if (err != nil) != p.Amb {
			run.Infra(fmt.Errorf("Headers.tla disagrees with go/parser (specification defect, not a verdict): Ambiguous=%v, parse error=%v\n%s", p.Amb, err, hdrStmt(p.Ctx, "h", p.E.render(false))))
		}
	}
	hb := newHdrBuilder()
	var ref strings.Builder
	ref.WriteString(hdrPrelude)
	type built struct {
		name string
		p    hdrPoint
	}
	var ok []built
	compare := func() {
		if len(ok) == 0 {
			return
		}
		var out bytes.Buffer
		if err := hb.pkg.WriteTo(&out); err != nil {
			run.Fail("write-fails", fmt.Sprintf("WriteTo: %v", err), ok[len(ok)-1].p)
			return
		}
		_, imp := sharedImporter()
		rc, err := canonParse(ref.String(), imp)
		if err != nil || len(rc.terrs) > 0 {
			run.Infra(fmt.Errorf("reference rendering is not valid Go (harness or specification defect): %v %v", err, rc.terrs))
		}
		gc, err := canonParse(out.String(), imp)
		if err != nil {
			// locate the culprits: every function is printed on its own
			found := false
			for _, bt := range ok {
				if txt, e := hdrAlone(bt.p); e != nil {
					found = true
					run.Fail("emitted-code-does-not-parse/"+bt.p.class(), fmt.Sprintf("valid Go `%s` is emitted as text that does not parse (%v):\n%s", strings.TrimSpace(hdrStmt(bt.p.Ctx, "h", bt.p.E.render(true))), e, txt), bt.p)
				}
			}
			if !found {
				run.Fail("emitted-code-does-not-parse/batch", fmt.Sprintf("the emitted package does not parse: %v", err), ok[0].p)
			}
			return
		}
		for _, bt := range ok {
			want, got := rc.Func(bt.name), gc.Func(bt.name)
			if want == "" {
				run.Infra(fmt.Errorf("reference function %s missing", bt.name))
			}
			if got != want {
				run.Fail("not-reproduced/"+bt.p.class(), fmt.Sprintf("`%s` comes out as a different program: %s", strings.TrimSpace(hdrStmt(bt.p.Ctx, "h", bt.p.E.render(true))), canonDiff(want, got)), bt.p)
			}
		}
		for _, e := range gc.terrs {
			run.Fail("emitted-code-ill-typed/"+firstWord(stripPos(e)), fmt.Sprintf("go/types rejects the emitted package: %s", e), ok[0].p)
			break
		}
	}
	for _, p := range pts {
		name, fail := hb.build(p)
		run.Eval("hdr:" + p.Ctx + ":" + p.E.render(false))
		if fail != "" {
			run.Fail("valid-statement-rejected/"+p.class(), fmt.Sprintf("%s on valid Go `%s`", fail, strings.TrimSpace(hdrStmt(p.Ctx, "h", p.E.render(true)))), p)
			compare()
			hb, ok = newHdrBuilder(), nil
			ref.Reset()
			ref.WriteString(hdrPrelude)
			continue
		}
		ref.WriteString(hdrStmt(p.Ctx, name, p.E.render(true)))
		ok = append(ok, built{name, p})
	}
	compare()
}

// hdrAlone builds one point alone; returns the emitted function text and the parse error, if any.
func hdrAlone(p hdrPoint) (txt string, err error) {
	defer func() {
		if e := recover(); e != nil {
			err = fmt.Errorf("%v", e)
		}
	}()
	hb := newHdrBuilder()
	name, fail := hb.build(p)
	if fail != "" {
		return "", fmt.Errorf("%s", fail)
	}
	var out bytes.Buffer
	if e := hb.pkg.WriteTo(&out); e != nil {
		return "", e
	}
	s := out.String()
	if i := strings.Index(s, "func "+name+"("); i >= 0 {
		txt = s[i:]
	}
	_, err = parser.ParseFile(token.NewFileSet(), "t.go", s, parser.SkipObjectResolution)
	return txt, err
}

func hdrRun(run *ev.Run, tier string) (int64, int64, int64) {
	maxChain := 2
	if tier == "thorough" {
		maxChain = 4
	}
	var pts []hdrPoint
	res, err := tlc.Run(tlc.Opts{SpecDir: SpecDir, Module: "Headers", Cfg: fmt.Sprintf("INIT Init\nNEXT Next\nCONSTANTS MaxChain = %d\nINVARIANTS Laws Emit\nCHECK_DEADLOCK FALSE\n", maxChain),
		Workers: 4, Heavy: tier == "thorough", Timeout: 20 * time.Minute,
		OnJSON: func(l string) {
			var p hdrPoint
			if json.Unmarshal([]byte(l), &p) == nil && p.Ctx != "" && p.E != nil {
				pts = append(pts, p)
			}
		}})
	if err != nil {
		run.Infra(err)
	}
	if res.Violation {
		run.Infra(fmt.Errorf("Headers.tla violates its laws:\n%s", res.ErrText))
	}
	if len(pts) == 0 || int64(len(pts)) != res.Distinct {
		run.Infra(fmt.Errorf("Headers.tla: %d points received, %d states", len(pts), res.Distinct))
	}
	namb := 0
	for _, p := range pts {
		if p.Amb {
			namb++
		}
	}
	if namb == 0 {
		run.Infra(fmt.Errorf("Headers.tla generated no ambiguous placement (vacuous)"))
	}
	var batches [][]hdrPoint
	for i := 0; i < len(pts); i += 300 {
		j := i + 300
		if j > len(pts) {
			j = len(pts)
		}
		batches = append(batches, pts[i:j])
	}
	parallelN(8, len(batches), func(i int) { hdrCheckBatch(run, batches[i]) })
	run.Set("header_points", fmt.Sprintf("%d placements (expression tree x statement context), %d of them ambiguous without parentheses; Ambiguous = go/parser on all", len(pts), namb))
	return res.Distinct, res.Generated, int64(len(pts))
}
