package props

// C05 — assignability, comparability and convertibility verdicts match the Go spec.
//
// spec/GoTypes.tla transcribes the Go specification's judgements over a closed universe of
// types and exact symbolic constants; spec/Grid.tla lets TLC evaluate them on every grid
// point and check the meta-properties (comparison symmetric, identical => assignable,
// assignable => convertible, representability an interval, defaults idempotent).  Per grid
// point: S (TLC's verdict), T (go/types on one-line programs; S != T is exit 2), G (gogen's
// public predicates AssignableConv / ConvertibleTo / ComparableTo in both argument orders /
// Default, and the builder constructs `var _ T = v`, `T(v)`, `v == w`).

import (
	"encoding/json"
	"fmt"
	"go/ast"
	"go/parser"
	"go/token"
	"go/types"
	"sort"
	"strings"
	"sync"
	"time"

	"github.com/goplus/gogen"

	"verif/harness/internal/ev"
	"verif/harness/internal/tlc"
)

func init() { Registry["C05"] = runC05 }

type gridOperand struct {
	Ty TTerm `json:"ty"`
	C  CTerm `json:"c"`
}

type gridPoint struct {
	V    *TTerm       `json:"v,omitempty"` // types mode
	X    *gridOperand `json:"x,omitempty"` // consts mode
	T    TTerm        `json:"t"`
	Asg  bool         `json:"asg"`
	Conv bool         `json:"conv"`
	Cmp  bool         `json:"cmp"`
	Dflt *TTerm       `json:"dflt,omitempty"`
}

func (p gridPoint) operand() gridOperand {
	if p.X != nil {
		return *p.X
	}
	return gridOperand{Ty: *p.V, C: CTerm{CK: "none"}}
}

func (p gridPoint) name() string {
	o := p.operand()
	return fmt.Sprintf("%s[%s] -> %s", o.Ty.Src(), o.C.Desc(), p.T.Src())
}

// operand expression as Go source for the reference one-liners
func (o gridOperand) src(i int) (decl, expr string) {
	if o.C.CK != "none" {
		if o.Ty.K == "untyped" {
			return "", o.C.Src(o.Ty.N)
		}
		// typed constant
		kind := "int"
		if o.C.Frac {
			kind = "float"
		}
		return fmt.Sprintf("const c%d %s = %s\n", i, o.Ty.Src(), o.C.Src(kind)), fmt.Sprintf("c%d", i)
	}
	if o.Ty.K == "untyped" {
		switch o.Ty.N {
		case "nil":
			return "", "nil"
		case "bool":
			return "", "(vi == vi)" // untyped boolean value
		}
	}
	return fmt.Sprintf("var v%d %s\n", i, o.Ty.Src()), fmt.Sprintf("v%d", i)
}

// T: go/types verdicts for a batch of points.
func gridTypes(points []gridPoint) (asg, conv, cmp []bool, err error) {
	var b strings.Builder
	b.WriteString(universeSrc + "var vi int\n")
	line := strings.Count(b.String(), "\n") + 1
	kindAt := map[int][2]int{} // line -> (point, which)
	emit := func(s string, pi, which int) {
		for _, l := range strings.Split(strings.TrimRight(s, "\n"), "\n") {
			b.WriteString(l + "\n")
			kindAt[line] = [2]int{pi, which}
			line++
		}
	}
	for i, p := range points {
		o := p.operand()
		decl, x := o.src(i)
		emit(decl, i, -1)
		emit(fmt.Sprintf("var w%d %s", i, p.T.Src()), i, -1)
		emit(fmt.Sprintf("var _ %s = %s", p.T.Src(), x), i, 0)
		emit(fmt.Sprintf("var _ = (%s)(%s)", p.T.Src(), x), i, 1)
		emit(fmt.Sprintf("var _ = %s == w%d", x, i), i, 2)
	}
	fset := token.NewFileSet()
	f, perr := parser.ParseFile(fset, "g.go", b.String(), 0)
	if perr != nil {
		return nil, nil, nil, fmt.Errorf("reference one-liners do not parse: %v", perr)
	}
	asg, conv, cmp = make([]bool, len(points)), make([]bool, len(points)), make([]bool, len(points))
	for i := range points {
		asg[i], conv[i], cmp[i] = true, true, true
	}
	var bad error
	conf := types.Config{Importer: unsafeOnly{}, Error: func(e error) {
		te, ok := e.(types.Error)
		if !ok {
			return
		}
		ln := fset.Position(te.Pos).Line
		k, ok := kindAt[ln]
		if !ok {
			return
		}
		switch k[1] {
		case 0:
			asg[k[0]] = false
		case 1:
			conv[k[0]] = false
		case 2:
			cmp[k[0]] = false
		default:
			if bad == nil {
				lines := strings.Split(b.String(), "\n")
				bad = fmt.Errorf("reference declaration rejected by go/types: %v: %s", te, lines[ln-1])
			}
		}
	}}
	conf.Check("u", fset, []*ast.File{f}, nil)
	return asg, conv, cmp, bad
}

type gridWorld struct {
	w   *TWorld
	pkg *gogen.Package
	cb  *gogen.CodeBuilder
	n   int
}

type uImporter struct {
	u    *types.Package
	base types.Importer
}

func (i uImporter) Import(path string) (*types.Package, error) {
	if path == "u" {
		return i.u, nil
	}
	return i.base.Import(path)
}

func newGridWorld() (*gridWorld, error) {
	w, err := NewTWorld()
	if err != nil {
		return nil, err
	}
	fset, imp := sharedImporter()
	g := &gridWorld{w: w}
	g.pkg = gogen.NewPackage("", "p", &gogen.Config{Fset: fset, Importer: uImporter{w.Pkg, imp}, HandleErr: func(error) {}})
	g.cb = g.pkg.NewFunc(nil, "host", nil, nil, false).BodyStart(g.pkg)
	g.pkg.NewVar(token.NoPos, types.Typ[types.Int], "vi")
	return g, nil
}

// element of an operand for the predicates and the builder
func (g *gridWorld) elem(o gridOperand) *gogen.Element {
	t := g.w.Type(o.Ty)
	e := &gogen.Element{Type: t}
	if o.C.CK != "none" {
		kind := o.Ty.N
		if o.Ty.K != "untyped" {
			kind = "int"
			if o.C.Frac {
				kind = "float"
			}
			if u, ok := t.Underlying().(*types.Basic); ok && u.Info()&types.IsFloat != 0 {
				kind = "float"
			} else if ok && u.Info()&types.IsComplex != 0 {
				kind = "complex"
			}
		}
		e.CVal = o.C.Value(kind)
		x, _ := parser.ParseExpr(o.C.Src(kind))
		e.Val = x
		return e
	}
	if o.Ty.K == "untyped" && o.Ty.N == "nil" {
		e.Val = ast.NewIdent("nil")
		return e
	}
	g.n++
	e.Val = ast.NewIdent(fmt.Sprintf("x%d", g.n))
	return e
}

func tryBool(f func() bool) (s string) {
	defer func() {
		if e := recover(); e != nil {
			s = "panic:" + firstWord(fmt.Sprint(e))
		}
	}()
	return fmt.Sprint(f())
}

func runC05(tier, replay string) {
	run := ev.Start("C05", tier, "model_checking")
	var mu sync.Mutex
	var npoints int64
	checkBatch := func(points []gridPoint, mode string) {
		tAsg, tConv, tCmp, err := gridTypes(points)
		if err != nil {
			run.Infra(err)
		}
		g, err := newGridWorld()
		if err != nil {
			run.Infra(err)
		}
		pkg := g.pkg
		for i, p := range points {
			o := p.operand()
			// T validates S
			if p.Asg != tAsg[i] || p.Conv != tConv[i] || p.Cmp != tCmp[i] {
				run.Infra(fmt.Errorf("GoTypes.tla disagrees with go/types (specification defect, not a verdict) on %s: S asg=%v conv=%v cmp=%v, T asg=%v conv=%v cmp=%v",
					p.name(), p.Asg, p.Conv, p.Cmp, tAsg[i], tConv[i], tCmp[i]))
			}
			V, T := g.w.Type(o.Ty), g.w.Type(p.T)
			target := gridOperand{Ty: p.T, C: CTerm{CK: "none"}}
			got := map[string]string{}
			want := map[string]string{}
			got["AssignableConv"] = tryBool(func() bool { return gogen.AssignableConv(pkg, V, T, g.elem(o)) })
			want["AssignableConv"] = fmt.Sprint(p.Asg)
			if o.C.CK == "none" {
				got["ConvertibleTo"] = tryBool(func() bool { return gogen.ConvertibleTo(pkg, V, T) })
				want["ConvertibleTo"] = fmt.Sprint(p.Conv)
			}
			got["ComparableTo(v,t)"] = tryBool(func() bool { return gogen.ComparableTo(pkg, g.elem(o), g.elem(target)) })
			got["ComparableTo(t,v)"] = tryBool(func() bool { return gogen.ComparableTo(pkg, g.elem(target), g.elem(o)) })
			want["ComparableTo(v,t)"] = fmt.Sprint(p.Cmp)
			want["ComparableTo(t,v)"] = fmt.Sprint(p.Cmp)
			if p.Dflt != nil {
				d := gogen.Default(pkg, V)
				got["Default"] = fmt.Sprint(types.Identical(d, g.w.Type(*p.Dflt)))
				want["Default"] = "true"
			}
			// alias realisation: type AV = V, type AT = T are identical to V and T; the verdicts must not change
			if o.Ty.K != "untyped" || p.T.K != "untyped" {
				aV, aT := V, T
				if o.Ty.K != "untyped" {
					aV = types.NewAlias(types.NewTypeName(token.NoPos, pkg.Types, "AV", nil), V)
				}
				if p.T.K != "untyped" {
					aT = types.NewAlias(types.NewTypeName(token.NoPos, pkg.Types, "AT", nil), T)
				}
				el := func(ox gridOperand, t types.Type) *gogen.Element { e := g.elem(ox); e.Type = t; return e }
				gotA := map[string]string{}
				gotA["AssignableConv"] = tryBool(func() bool { return gogen.AssignableConv(pkg, aV, aT, el(o, aV)) })
				if o.C.CK == "none" {
					gotA["ConvertibleTo"] = tryBool(func() bool { return gogen.ConvertibleTo(pkg, aV, aT) })
				}
				gotA["ComparableTo(v,t)"] = tryBool(func() bool { return gogen.ComparableTo(pkg, el(o, aV), el(target, aT)) })
				gotA["ComparableTo(t,v)"] = tryBool(func() bool { return gogen.ComparableTo(pkg, el(target, aT), el(o, aV)) })
				for k, ga := range gotA {
					if ga != want[k] && ga != got[k] {
						g2 := ga
						if strings.HasPrefix(g2, "panic:") {
							g2 = "panic"
						}
						run.Fail(fmt.Sprintf("alias-changes-verdict/%s: Go=%s plain=%s alias=%s", k, want[k], got[k], g2),
							fmt.Sprintf("%s on %s with V and T replaced by aliases of themselves: Go says %s, gogen says %s for the plain types and %s for the aliases", k, p.name(), want[k], got[k], ga),
							map[string]any{"mode": mode, "point": p})
					}
				}
			}
			mu.Lock()
			npoints++
			mu.Unlock()
			run.Eval(p.name())
			keys := []string{}
			for k := range want {
				keys = append(keys, k)
			}
			sort.Strings(keys)
			for _, k := range keys {
				if got[k] != want[k] {
					cls := gridClass(o, p.T)
					if rc := c05RootCause(k, want[k], got[k], o, p.T, g.w); rc != "" {
						cls = ""
						k2 := "root-cause/" + rc
						run.Fail(k2, fmt.Sprintf("%s on %s: the Go specification (GoTypes.tla = go/types) says %s, gogen says %s", k, p.name(), want[k], got[k]),
							map[string]any{"mode": mode, "point": p})
						continue
					}
					g2 := got[k]
					if strings.HasPrefix(g2, "panic:") {
						g2 = "panic"
					}
					run.Fail(fmt.Sprintf("%s: Go=%s gogen=%s %s", k, want[k], g2, cls),
						fmt.Sprintf("%s on %s: the Go specification (GoTypes.tla = go/types) says %s, gogen says %s", k, p.name(), want[k], got[k]),
						map[string]any{"mode": mode, "point": p})
				}
			}
		}
	}
	if replay != "" {
		var r struct {
			Mode  string    `json:"mode"`
			Point gridPoint `json:"point"`
		}
		if err := loadReplay(replay, &r); err != nil {
			run.Infra(err)
		}
		checkBatch([]gridPoint{r.Point}, r.Mode)
		run.Eval("x")
		run.Set("states", 1)
		run.Set("transitions", 1)
		run.Set("traces_validated_against_impl", 1)
		run.Sample(r.Point)
		run.Finish()
	}
	var states, transitions int64
	t0 := time.Now()
	for _, mode := range []string{"types", "consts"} {
		var batch []gridPoint
		var wg sync.WaitGroup
		sem := make(chan struct{}, 12)
		var n int64
		flush := func(b []gridPoint) {
			wg.Add(1)
			sem <- struct{}{}
			go func() { defer func() { <-sem; wg.Done() }(); checkBatch(b, mode) }()
		}
		cfg := fmt.Sprintf("INIT Init\nNEXT Next\nCONSTANT Mode = %q\nINVARIANTS Laws Emit\nCHECK_DEADLOCK FALSE\n", mode)
		res, err := tlc.Run(tlc.Opts{SpecDir: SpecDir, Module: "Grid", Cfg: cfg, Workers: tierWorkers(tier), Heavy: true, HeapMB: 8192, Timeout: 30 * time.Minute,
			OnJSON: func(l string) {
				var p gridPoint
				if json.Unmarshal([]byte(l), &p) != nil || p.T.K == "" {
					return
				}
				batch = append(batch, p)
				n++
				if len(batch) >= 1500 {
					flush(batch)
					batch = nil
				}
				if n == 1234 {
					run.Sample(map[string]any{"mode": mode, "point": p.name(), "assignable": p.Asg, "convertible": p.Conv, "comparable": p.Cmp})
				}
			}})
		if err != nil {
			run.Infra(err)
		}
		if res.Violation {
			run.Infra(fmt.Errorf("GoTypes.tla violates a meta-property (%s grid):\n%s", mode, res.ErrText))
		}
		if len(batch) > 0 {
			flush(batch)
		}
		wg.Wait()
		if n == 0 {
			run.Infra(fmt.Errorf("grid %s is empty", mode))
		}
		states += res.Distinct
		transitions += res.Generated
		run.Set("grid_"+mode, fmt.Sprintf("%d points, %.1fs since start", n, time.Since(t0).Seconds()))
	}
	run.Set("states", states)
	run.Set("transitions", transitions)
	run.Set("traces_validated_against_impl", npoints)
	run.Set("exhaustive", true)
	run.Set("spec_vs_gotypes_agreement", fmt.Sprintf("S = T on all %d grid points x 3 judgements (a disagreement aborts with exit 2)", npoints))
	run.Set("rule", "a case = one grid point (operand type or constant x target type) evaluated by TLC on GoTypes.tla and by gogen's AssignableConv / ConvertibleTo / ComparableTo (both orders) / Default; distinct = distinct point")
	run.Assume("constants are exact symbolic values 2^e+d (e up to 1024), +-, +1/2, +i: every boundary of every integer and float range")
	run.Finish()
}

// c05RootCause maps a failing point to a named root cause (a predicate over specification-level facts), or "".
func c05RootCause(pred, want, got string, o gridOperand, t TTerm, w *TWorld) string {
	tt := w.Type(t)
	ub, _ := tt.Underlying().(*types.Basic)
	isConstNum := o.C.CK == "num" && o.Ty.K == "untyped"
	realTarget := ub != nil && ub.Info()&(types.IsInteger|types.IsFloat) != 0
	fcTarget := ub != nil && ub.Info()&(types.IsFloat|types.IsComplex) != 0
	_, ifaceTarget := tt.Underlying().(*types.Interface)
	switch {
	case isConstNum && o.Ty.N == "complex" && realTarget:
		return "untyped-complex-constant-against-a-real-type"
	case pred == "AssignableConv" && want == "false" && got == "true" && isConstNum && fcTarget:
		return "float-and-complex-target-ranges-are-not-checked"
	case pred == "AssignableConv" && want == "false" && got == "true" && isConstNum && ifaceTarget:
		return "constant-to-interface-ignores-overflow-of-the-default-type"
	case strings.HasPrefix(pred, "ComparableTo") && want == "false" && got == "true" && isConstNum:
		return "ComparableTo-ignores-representability-of-the-untyped-constant"
	case strings.HasPrefix(pred, "ComparableTo") && want == "false" && got == "true" && o.Ty.K != "untyped":
		v := w.Type(o.Ty)
		if !types.Comparable(v) || !types.Comparable(tt) {
			return "ComparableTo-accepts-operands-of-non-comparable-types"
		}
		if !types.AssignableTo(v, tt) && !types.AssignableTo(tt, v) {
			return "ComparableTo-accepts-mismatched-types-with-identical-underlying-types"
		}
	}
	return ""
}

// gridClass abstracts a grid point to operand/target classes for finding keys.
func gridClass(o gridOperand, t TTerm) string {
	cls := func(x TTerm) string {
		switch x.K {
		case "basic", "untyped":
			return x.K + ":" + x.N
		case "named":
			return "named(" + x.U.K + ")"
		case "alias":
			return "alias"
		}
		return x.K
	}
	c := "nonconst"
	if o.C.CK != "none" {
		c = "const:" + o.C.CK
		if o.C.CK == "num" {
			switch {
			case o.C.Imag:
				c += ":imag"
			case o.C.Frac:
				c += ":frac"
			default:
				c += ":integral"
			}
		}
	}
	return fmt.Sprintf("[%s %s -> %s]", cls(o.Ty), c, cls(t))
}
