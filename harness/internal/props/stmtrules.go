package props

// C01 / C02 on statement heads (spec/StmtRules.tla): conditions, expression-switch cases, range operands and
// variables, type-switch operands and cases, send, inc/dec.  T = go/types on the rendered statement (S = T on
// every point or exit 2); G = the statement built with the real CodeBuilder: accepted / rejected.

import (
	"encoding/json"
	"fmt"
	"go/ast"
	"go/parser"
	"go/token"
	"go/types"
	"strings"
	"time"

	"github.com/goplus/gogen"

	"verif/harness/internal/ev"
	"verif/harness/internal/tlc"
)

type srOp struct {
	Src string `json:"src"`
	Cls string `json:"cls"`
	Ty  string `json:"ty"`
}

type srR struct {
	Src     string `json:"src"`
	Kind    string `json:"kind"`
	MaxVars int    `json:"maxvars"`
}

type srPt struct {
	Kind  string          `json:"kind"`
	Ctx   string          `json:"ctx"`
	X     json.RawMessage `json:"x"`
	Tag   srOp            `json:"tag"`
	Cases []srOp          `json:"cases"`
	NVars int             `json:"nvars"`
	Cts   []string        `json:"cts"`
	Ch    srR             `json:"ch"`
	V     srOp            `json:"v"`
	T     string          `json:"t"`
	Form  string          `json:"form"`
}

type srPoint struct {
	Pt  srPt   `json:"pt"`
	Res string `json:"res"`
}

func (p srPoint) xop() srOp { var o srOp; json.Unmarshal(p.Pt.X, &o); return o }
func (p srPoint) xr() srR   { var o srR; json.Unmarshal(p.Pt.X, &o); return o }

const srPrelude = `package q

type MyBool bool
type MyInt int
type S struct{}

func (S) String() string { return "" }

type MyErr struct{}

func (MyErr) Error() string { return "" }

type SE struct{}

func (SE) String() string { return "" }
func (SE) Error() string  { return "" }

type PE struct{}

func (*PE) Error() string { return "" }

type WE struct{}

func (WE) Error(int) string { return "" }

type Stringer interface{ String() string }

var vb bool
var vmb MyBool
var vi int
var vs string
var vmy MyInt
var vf float64
var va any
var verr error
var vstr Stringer
var vsl []int
var varr [2]int
var vparr *[2]int
var vm map[string]int
var vch chan int
var vrch <-chan int
var vsch chan<- int
var vS S
var vpsl *[]int
var vit1 func(yield func(int) bool)
var vit2 func(yield func(string, int) bool)

func g0() {}
`

// statement text of the point (inside a function body)
func (p srPoint) stmt() string {
	e := p.Pt
	switch e.Kind {
	case "cond":
		if e.Ctx == "if" {
			return "if " + p.xop().Src + " {\ng0()\n}"
		}
		return "for " + p.xop().Src + " {\ng0()\n}"
	case "switch":
		var cs []string
		for _, c := range e.Cases {
			cs = append(cs, c.Src)
		}
		tag := e.Tag.Src
		if e.Tag.Cls == "none" {
			tag = ""
		}
		return "switch " + tag + " {\ncase " + strings.Join(cs, ", ") + ":\ng0()\n}"
	case "range":
		vars := []string{"", "k := ", "k, v := "}[e.NVars]
		use := []string{"g0()", "_ = k", "_, _ = k, v"}[e.NVars]
		return "for " + vars + "range " + p.xr().Src + " {\n" + use + "\n}"
	case "tswitch":
		return "switch " + p.xop().Src + ".(type) {\ncase " + strings.Join(e.Cts, ", ") + ":\ng0()\n}"
	case "send":
		return e.Ch.Src + " <- " + e.V.Src
	case "assert":
		if e.Form == "commaok" {
			return "_, _ = " + p.xop().Src + ".(" + e.T + ")"
		}
		return "_ = " + p.xop().Src + ".(" + e.T + ")"
	case "incdec":
		return p.xop().Src + "++"
	}
	return "?"
}

func (p srPoint) class() string {
	e := p.Pt
	opc := func(o srOp) string {
		if o.Cls == "var" {
			return "var:" + o.Ty
		}
		if o.Cls == "const" {
			return o.Ty + "-const"
		}
		return o.Cls
	}
	switch e.Kind {
	case "cond":
		return e.Ctx + "-condition/" + opc(p.xop())
	case "switch":
		set := map[string]bool{}
		for _, c := range e.Cases {
			set[opc(c)] = true
		}
		tag := "tagless"
		if e.Tag.Cls != "none" {
			tag = "tag:" + e.Tag.Ty
		}
		return "switch/" + tag + "/cases" + setString(set)
	case "range":
		return fmt.Sprintf("range/%s/%d-variables", p.xr().Kind, e.NVars)
	case "tswitch":
		return "type-switch/" + p.xop().Ty + "/cases{" + strings.Join(e.Cts, ",") + "}"
	case "send":
		return "send/" + e.Ch.Kind + "/" + opc(e.V)
	case "assert":
		return "type-assertion/" + e.Form + "/" + p.xop().Ty + ".(" + e.T + ")"
	case "incdec":
		return "incdec/" + p.xop().Ty
	}
	return e.Kind
}

// coarse class for unsound-acceptance keys (the reason is part of the key)
func (p srPoint) coarse() string {
	e := p.Pt
	switch e.Kind {
	case "switch":
		if e.Tag.Cls == "none" {
			return "switch/tagless"
		}
		return "switch/tag:" + e.Tag.Ty
	case "tswitch":
		return "type-switch/" + p.xop().Ty
	case "send":
		return "send/" + e.Ch.Kind
	case "assert":
		return "type-assertion/" + p.xop().Ty
	}
	return p.class()
}

func srReference(pts []srPoint) ([]bool, []string, error) {
	var b strings.Builder
	b.WriteString(srPrelude)
	starts := make([]int, len(pts)+1)
	line := strings.Count(srPrelude, "\n") + 1
	for i, p := range pts {
		starts[i] = line
		txt := fmt.Sprintf("func h%d() {\n%s\n}\n", i, p.stmt())
		b.WriteString(txt)
		line += strings.Count(txt, "\n")
	}
	starts[len(pts)] = line
	fset := token.NewFileSet()
	f, err := parser.ParseFile(fset, "q.go", b.String(), 0)
	if err != nil {
		return nil, nil, fmt.Errorf("reference does not parse: %v", err)
	}
	ok := make([]bool, len(pts))
	msg := make([]string, len(pts))
	for i := range ok {
		ok[i] = true
	}
	conf := types.Config{Error: func(e error) {
		te, isTE := e.(types.Error)
		if !isTE {
			return
		}
		ln := fset.Position(te.Pos).Line
		lo, hi := 0, len(pts)
		for lo < hi {
			mid := (lo + hi) / 2
			if starts[mid+1] <= ln {
				lo = mid + 1
			} else {
				hi = mid
			}
		}
		if lo < len(pts) && ln >= starts[lo] {
			if strings.Contains(te.Msg, "declared and not used") {
				return
			}
			ok[lo] = false
			if msg[lo] == "" {
				msg[lo] = te.Msg
			}
		}
	}}
	conf.Check("q", fset, []*ast.File{f}, nil)
	return ok, msg, nil
}

type srWorld struct {
	pkg  *gogen.Package
	errs []string
	n    int
	tys  map[string]types.Type
}

func newSrWorld() *srWorld {
	fset, imp := sharedImporter()
	w := &srWorld{tys: map[string]types.Type{}}
	w.pkg = gogen.NewPackage("", "p", &gogen.Config{Fset: fset, Importer: imp, HandleErr: func(e error) { w.errs = append(w.errs, e.Error()) }})
	pkg := w.pkg
	ti, ts, tb := types.Typ[types.Int], types.Typ[types.String], types.Typ[types.Bool]
	par := func(t types.Type) *types.Var { return types.NewParam(token.NoPos, pkg.Types, "", t) }
	w.tys["MyBool"] = pkg.NewType("MyBool").InitType(pkg, tb)
	w.tys["MyInt"] = pkg.NewType("MyInt").InitType(pkg, ti)
	// a method name: "M" value receiver, "*M" pointer receiver, "M(int)" with an int parameter
	mk := func(name string, methods ...string) types.Type {
		t := pkg.NewType(name).InitType(pkg, types.NewStruct(nil, nil))
		for _, m := range methods {
			recv, params := types.Type(t), (*types.Tuple)(nil)
			if strings.HasPrefix(m, "*") {
				recv, m = types.NewPointer(t), m[1:]
			}
			if strings.HasSuffix(m, "(int)") {
				params, m = types.NewTuple(par(ti)), strings.TrimSuffix(m, "(int)")
			}
			pkg.NewFunc(par(recv), m, params, types.NewTuple(par(ts)), false).BodyStart(pkg).Val("").Return(1).End()
		}
		return t
	}
	w.tys["S"] = mk("S", "String")
	w.tys["MyErr"] = mk("MyErr", "Error")
	w.tys["SE"] = mk("SE", "String", "Error")
	w.tys["PE"] = mk("PE", "*Error")
	w.tys["*PE"] = types.NewPointer(w.tys["PE"])
	w.tys["WE"] = mk("WE", "Error(int)")
	strM := types.NewFunc(token.NoPos, pkg.Types, "String", types.NewSignatureType(nil, nil, nil, nil, types.NewTuple(par(ts)), false))
	w.tys["Stringer"] = pkg.NewType("Stringer").InitType(pkg, types.NewInterfaceType([]*types.Func{strM}, nil).Complete())
	w.tys["error"] = types.Universe.Lookup("error").Type()
	w.tys["int"], w.tys["string"] = ti, ts
	arr := types.NewArray(ti, 2)
	yield1 := types.NewSignatureType(nil, nil, nil, types.NewTuple(par(ti)), types.NewTuple(par(tb)), false)
	yield2 := types.NewSignatureType(nil, nil, nil, types.NewTuple(par(ts), par(ti)), types.NewTuple(par(tb)), false)
	vars := [][2]any{{"vb", tb}, {"vmb", w.tys["MyBool"]}, {"vi", ti}, {"vs", ts}, {"vmy", w.tys["MyInt"]}, {"vf", types.Typ[types.Float64]}, {"va", types.NewInterfaceType(nil, nil)},
		{"verr", w.tys["error"]}, {"vstr", w.tys["Stringer"]}, {"vsl", types.NewSlice(ti)}, {"varr", arr}, {"vparr", types.NewPointer(arr)}, {"vm", types.NewMap(ts, ti)},
		{"vch", types.NewChan(types.SendRecv, ti)}, {"vrch", types.NewChan(types.RecvOnly, ti)}, {"vsch", types.NewChan(types.SendOnly, ti)}, {"vS", w.tys["S"]},
		{"vpsl", types.NewPointer(types.NewSlice(ti))},
		{"vit1", types.NewSignatureType(nil, nil, nil, types.NewTuple(types.NewParam(token.NoPos, pkg.Types, "yield", yield1)), nil, false)},
		{"vit2", types.NewSignatureType(nil, nil, nil, types.NewTuple(types.NewParam(token.NoPos, pkg.Types, "yield", yield2)), nil, false)}}
	for _, v := range vars {
		pkg.NewVar(token.NoPos, v[1].(types.Type), v[0].(string))
	}
	pkg.NewFunc(nil, "g0", nil, nil, false).BodyStart(pkg).End()
	return w
}

func (w *srWorld) push(cb *gogen.CodeBuilder, o srOp) {
	obj := func(n string) types.Object { return w.pkg.Types.Scope().Lookup(n) }
	switch {
	case o.Src == "vi == 1":
		cb.Val(obj("vi")).Val(1).BinaryOp(token.EQL)
	case o.Cls == "var":
		cb.Val(obj(o.Src))
	case o.Cls == "nil":
		cb.Val(nil)
	case o.Src == "true":
		cb.Val(true)
	case o.Ty == "utint":
		var n int
		fmt.Sscan(o.Src, &n)
		cb.Val(n)
	case o.Ty == "utfloat":
		cb.Val(&ast.BasicLit{Kind: token.FLOAT, Value: o.Src})
	case o.Ty == "utstring":
		cb.Val(strings.Trim(o.Src, `"`))
	default:
		panic("harness: operand " + o.Src)
	}
}

// build builds the statement in a fresh function; returns rejected / fault
func (w *srWorld) build(p srPoint) (rejected bool, msg, fault string) {
	pkg := w.pkg
	w.errs = nil
	w.n++
	defer func() {
		if e := recover(); e != nil {
			rejected, msg = true, fmt.Sprint(e)
			if _, rt := e.(interface{ RuntimeError() }); rt || isForeignPanic(msg) {
				fault = msg
			}
		}
	}()
	cb := pkg.NewFunc(nil, fmt.Sprintf("h%d", w.n), nil, nil, false).BodyStart(pkg)
	obj := func(n string) types.Object { return pkg.Types.Scope().Lookup(n) }
	g0 := func() { cb.Val(obj("g0")).Call(0).EndStmt() }
	e := p.Pt
	switch e.Kind {
	case "cond":
		if e.Ctx == "if" {
			cb.If()
		} else {
			cb.For()
		}
		w.push(cb, p.xop())
		cb.Then()
		g0()
		cb.End()
	case "switch":
		cb.Switch()
		if e.Tag.Cls == "none" {
			cb.None()
		} else {
			w.push(cb, e.Tag)
		}
		cb.Then().Case()
		for _, c := range e.Cases {
			w.push(cb, c)
		}
		cb.Then()
		g0()
		cb.End().End()
	case "range":
		switch e.NVars {
		case 0:
			cb.ForRange()
		case 1:
			cb.ForRange("k")
		default:
			cb.ForRange("k", "v")
		}
		x := p.xr()
		if x.Kind == "constint" {
			cb.Val(5)
		} else {
			cb.Val(obj(x.Src))
		}
		cb.RangeAssignThen(token.NoPos)
		local := func(n string) types.Object { _, o := cb.Scope().LookupParent(n, token.NoPos); return o }
		switch e.NVars {
		case 0:
			g0()
		case 1:
			cb.VarRef(nil).Val(local("k")).Assign(1)
		default:
			cb.VarRef(nil).VarRef(nil).Val(local("k")).Val(local("v")).Assign(2)
		}
		cb.End()
	case "tswitch":
		cb.TypeSwitch("")
		w.push(cb, p.xop())
		cb.TypeAssertThen().TypeCase()
		for _, t := range e.Cts {
			cb.Typ(w.tys[t])
		}
		cb.Then()
		g0()
		cb.End().End()
	case "send":
		cb.Val(obj(e.Ch.Src))
		w.push(cb, e.V)
		cb.Send()
	case "assert":
		if e.Form == "commaok" {
			cb.VarRef(nil).VarRef(nil)
			w.push(cb, p.xop())
			cb.TypeAssert(w.tys[e.T], 2).Assign(2, 1)
		} else {
			cb.VarRef(nil)
			w.push(cb, p.xop())
			cb.TypeAssert(w.tys[e.T], 0).Assign(1)
		}
	case "incdec":
		cb.VarRef(obj(p.xop().Src)).IncDec(token.INC)
	default:
		panic("harness: statement kind " + e.Kind)
	}
	cb.End()
	if len(w.errs) > 0 {
		return true, strings.Join(w.errs, "; "), ""
	}
	return false, "", ""
}

func srRun(run *ev.Run, prop string) (int64, int64, int64) {
	var pts []srPoint
	res, err := tlc.Run(tlc.Opts{SpecDir: SpecDir, Module: "StmtRules", Cfg: "INIT Init\nNEXT Next\nINVARIANTS Monotone AssertIsCase Emit\nCHECK_DEADLOCK FALSE\n", Workers: 2, Timeout: 10 * time.Minute,
		OnJSON: func(l string) {
			var p srPoint
			if json.Unmarshal([]byte(l), &p) == nil && p.Pt.Kind != "" {
				pts = append(pts, p)
			}
		}})
	if err != nil {
		run.Infra(err)
	}
	if res.Violation {
		run.Infra(fmt.Errorf("StmtRules.tla violates its laws:\n%s", res.ErrText))
	}
	if int64(len(pts)) != res.Distinct || len(pts) == 0 {
		run.Infra(fmt.Errorf("StmtRules.tla: %d points received, %d states", len(pts), res.Distinct))
	}
	srCheck(run, pts, prop)
	run.Set("statement_head_points", fmt.Sprintf("%d points of StmtRules.tla (conditions, switch cases, range, type switch, type assertion, send, inc/dec)", len(pts)))
	return res.Distinct, res.Generated, int64(len(pts))
}

func srCheck(run *ev.Run, pts []srPoint, prop string) {
	tok, tmsg, err := srReference(pts)
	if err != nil {
		run.Infra(err)
	}
	for i, p := range pts {
		if tok[i] != (p.Res == "ok") {
			run.Infra(fmt.Errorf("StmtRules.tla disagrees with go/types (specification defect, not a verdict): `%s`: S %s, T ok=%v %s", strings.ReplaceAll(p.stmt(), "\n", " "), p.Res, tok[i], tmsg[i]))
		}
	}
	for _, p := range pts {
		// a rejected or faulting build can leave the package half built: one package per point
		w := newSrWorld()
		rejected, msg, fault := w.build(p)
		run.Eval("stmt:" + strings.ReplaceAll(p.stmt(), "\n", " "))
		desc := fmt.Sprintf("`%s`: Go (StmtRules.tla = go/types): %s; builder: rejected=%v %s", strings.ReplaceAll(p.stmt(), "\n", " "), p.Res, rejected, firstLines(msg, 1))
		switch {
		case fault != "":
			if prop == "C17" || (prop == "C02" && p.Res == "ok") || (prop == "C01" && p.Res != "ok") {
				run.Fail("fault/"+p.class(), desc, p)
			}
		case p.Res != "ok" && !rejected:
			if prop == "C01" {
				run.Fail("accepted-although-"+p.Res+"/"+p.coarse(), desc, p)
			}
		case p.Res == "ok" && rejected:
			if prop == "C02" {
				run.Fail("rejected-valid/"+p.class(), desc, p)
			}
		}
	}
}
