package props

// C16, the other direction: block events recorded from the repository's *own* test suite (built with -tags verif,
// hook verifTrace -> VERIF_TRACE_FILE) are validated by TLC against spec/BlockTrace.tla (frame discipline of
// Blocks.tla, the projection of Builder.tla's frames onto startBlockStmt / endBlockStmt).

import (
	"bufio"
	"bytes"
	"encoding/json"
	"fmt"
	"os"
	"os/exec"
	"path/filepath"
	"sort"
	"strings"
	"time"

	"verif/harness/internal/ev"
	"verif/harness/internal/tlc"
)

type blockEv struct {
	B     int    `json:"b"`
	Ev    string `json:"ev"`
	Kind  string `json:"kind"`
	Len   int    `json:"len"`
	Base  int    `json:"base"`
	Depth int    `json:"depth"`
}

// blockValidate runs TLC on the events; returns the index (0-based) of the first event that is not explained, or -1.
func blockValidate(run *ev.Run, evs []blockEv) (int, int64, int64) {
	var sb strings.Builder
	for _, e := range evs {
		b, _ := json.Marshal(map[string]any{"ev": e.Ev, "kind": e.Kind, "len": e.Len, "base": e.Base, "depth": e.Depth})
		sb.Write(b)
		sb.WriteByte('\n')
	}
	res, err := tlc.Run(tlc.Opts{SpecDir: SpecDir, Module: "BlockTrace", Workers: 1, Timeout: 20 * time.Minute, HeapMB: 4096,
		Cfg:   "SPECIFICATION TraceSpec\nCONSTANTS\n  Kinds = {}\n  MaxDepth = 0\n  MaxLen = 0\nINVARIANTS WellNested BaseMonotone\nCHECK_DEADLOCK FALSE\n",
		Files: map[string]string{"trace.ndjson": sb.String()}})
	if err != nil {
		run.Infra(err)
	}
	if res.Violation {
		run.Infra(fmt.Errorf("BlockTrace.tla: invariant violated on a recorded trace (specification defect): %s", res.ErrText))
	}
	if res.Depth == len(evs)+1 {
		return -1, res.Distinct, res.Generated
	}
	return res.Depth - 1, res.Distinct, res.Generated
}

// blocksTrace records and validates; returns (states, transitions, events validated)
func blocksTrace(run *ev.Run, tier string) (int64, int64, int64) {
	// the generative model itself
	res, err := tlc.Run(tlc.Opts{SpecDir: SpecDir, Module: "Blocks", Workers: 2, Timeout: 10 * time.Minute,
		Cfg: "SPECIFICATION Spec\nCONSTANTS\n  Kinds = {\"func\",\"if\",\"for\"}\n  MaxDepth = 4\n  MaxLen = 3\nINVARIANTS WellNested BaseMonotone\nCHECK_DEADLOCK FALSE\n"})
	if err != nil {
		run.Infra(err)
	}
	if res.Violation {
		run.Infra(fmt.Errorf("Blocks.tla violates its invariants:\n%s", res.ErrText))
	}
	states, transitions := res.Distinct, res.Generated
	// record: the repository's own tests, built with the hook
	pattern := "TestIf|TestFor|TestSwitch|TestSelect|TestClosure|TestTypeSwitch|TestLabel|TestGoto|TestBlock|TestRange|TestFunc|TestDefer|TestGo|TestReturn|TestBreak"
	if tier == "thorough" {
		pattern = "."
	}
	tmp, err := os.MkdirTemp("", "c16trace")
	if err != nil {
		run.Infra(err)
	}
	defer os.RemoveAll(tmp)
	tf := filepath.Join(tmp, "trace.ndjson")
	// tests of error paths drive the builder against its protocol on purpose (If().End() ...): their executions are not
	// claimed by the property (C16: "every operation is issued where the API's protocol allows it")
	cmd := exec.Command("go", "test", "-tags", "verif", "-mod=mod", "-vet=off", "-count=1", "-timeout", "40m", "-run", pattern, "-skip", "Err|Panic|Invalid|Bad|Unexpected|Fail", ".")
	cmd.Dir = "/repo"
	var env []string
	for _, e := range os.Environ() {
		if strings.HasPrefix(e, "GOFLAGS=") || strings.HasPrefix(e, "GOPROXY=") {
			continue // one repository test matches the text of a `go list` error that depends on them
		}
		env = append(env, e)
	}
	cmd.Env = append(env, "VERIF_TRACE_FILE="+tf)
	var out bytes.Buffer
	cmd.Stdout, cmd.Stderr = &out, &out
	t0 := time.Now()
	if err := cmd.Run(); err != nil {
		tail := out.String()
		if len(tail) > 1500 {
			tail = tail[len(tail)-1500:]
		}
		run.Infra(fmt.Errorf("the repository's tests (pattern %q, -tags verif) do not pass, no trace to judge: %v\n%s", pattern, err, tail))
	}
	f, err := os.Open(tf)
	if err != nil {
		run.Infra(fmt.Errorf("no trace recorded: %v", err))
	}
	defer f.Close()
	byB := map[int][]blockEv{}
	sc := bufio.NewScanner(f)
	n := 0
	for sc.Scan() {
		var e blockEv
		if json.Unmarshal(sc.Bytes(), &e) != nil || e.Ev == "" {
			run.Infra(fmt.Errorf("unreadable trace line %q", sc.Text()))
		}
		byB[e.B] = append(byB[e.B], e)
		n++
	}
	if n < 100 {
		run.Infra(fmt.Errorf("only %d block events recorded (hook not compiled in?)", n))
	}
	ids := make([]int, 0, len(byB))
	for b := range byB {
		ids = append(ids, b)
	}
	sort.Ints(ids)
	var all []blockEv
	owner := []int{}
	for _, b := range ids {
		all = append(all, blockEv{Ev: "reset"})
		owner = append(owner, b)
		for _, e := range byB[b] {
			all = append(all, e)
			owner = append(owner, b)
		}
	}
	bad, st, tr := blockValidate(run, all)
	states, transitions = states+st, transitions+tr
	run.EvalN(int64(n))
	if bad >= 0 {
		b := owner[bad]
		e := all[bad]
		// the replay case is the whole trace of that builder up to the rejected event
		from := bad
		for from > 0 && all[from].Ev != "reset" {
			from--
		}
		run.Fail(fmt.Sprintf("block-trace-rejected/%s/%s", e.Ev, strings.TrimPrefix(e.Kind, "*gogen.")),
			fmt.Sprintf("an execution of the repository's own tests is not a behaviour of the frame discipline (BlockTrace.tla): event %d of builder %d: %+v", bad-from, b, e),
			map[string]any{"block_trace": all[from : bad+1]})
	}
	// binding guard: a corrupted copy of the trace must be rejected
	cor := append([]blockEv{}, all...)
	for i := range cor {
		if cor[i].Ev == "close" {
			cor[i].Len++
			break
		}
	}
	if b2, _, _ := blockValidate(run, cor[:min(len(cor), 400)]); b2 < 0 {
		run.Infra(fmt.Errorf("BlockTrace.tla accepts a corrupted trace (one operand left behind at a close): the trace specification binds nothing"))
	}
	run.Set("block_trace", fmt.Sprintf("%d block events of %d builders recorded from `go test -tags verif -run %s` in /repo (%.0f s) and validated by TLC against BlockTrace.tla; a corrupted copy is rejected", n, len(ids), pattern, time.Since(t0).Seconds()))
	return states, transitions, int64(n)
}
