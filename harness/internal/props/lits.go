package props

// C01-C03 on composite literals and primary expressions (spec/Lits.tla): slice / array / map / struct
// literals, index and slice expressions, indirection.  T = go/types on the rendered expression (S = T on
// every point or exit 2); G = the expression built with the real CodeBuilder.

import (
	"encoding/json"
	"fmt"
	"go/ast"
	"go/parser"
	"go/token"
	"go/types"
	"strings"
	"time"

	"github.com/goplus/gogen"

	"verif/harness/internal/ev"
	"verif/harness/internal/tlc"
)

type litOp struct {
	Src string `json:"src"`
	K   string `json:"k"`
	Ck  string `json:"ck"`
	N   int    `json:"n"`
	D   int    `json:"d"`
	Ty  string `json:"ty"`
}

type litX struct {
	Src  string `json:"src"`
	Kind string `json:"kind"`
	Elem string `json:"elem"`
	Len  int    `json:"len"`
}

type litElem struct {
	Key litOp `json:"key"`
	Val litOp `json:"val"`
}

type litPt struct {
	Kind  string    `json:"kind"`
	Ety   string    `json:"ety"`
	Alen  int       `json:"alen"`
	Elems []litElem `json:"elems"`
	Kt    string    `json:"kt"`
	Vt    string    `json:"vt"`
	Vals  []litOp   `json:"vals"`
	Fs    []string  `json:"fs"`
	X     litX      `json:"x"`
	I     litOp     `json:"i"`
	Lo    litOp     `json:"lo"`
	Hi    litOp     `json:"hi"`
	Mx    litOp     `json:"mx"`
	T     string    `json:"t"`
	O     litOp     `json:"o"`
	Use   string    `json:"use"`
	L     int       `json:"l"`
}

type litPoint struct {
	Pt  litPt  `json:"pt"`
	Ok  bool   `json:"ok"`
	Why string `json:"why"`
	Ty  string `json:"ty"`
}

const litPrelude = "package q\ntype MyInt int\ntype S struct { a int; b string }\nvar vi int\nvar vi8 int8\nvar vs string\nvar vmy MyInt\nvar vf float64\nvar va any\nvar vsl []int\nvar varr [2]int\nvar vparr *[2]int\nvar vm map[string]int\nvar vpi *int\nvar vch chan int\n"

func (p litPoint) text() string {
	e := p.Pt
	switch e.Kind {
	case "openarr":
		q := p
		q.Pt.Kind, q.Pt.Alen = "list", -2
		lit := q.text()
		switch e.Use {
		case "elem":
			return fmt.Sprintf("[][%d]%s{%s}", e.L, e.Ety, lit)
		case "index":
			return fmt.Sprintf("%s[%d]", lit, e.L-1)
		}
		return lit
	case "list", "map":
		var parts []string
		for _, el := range e.Elems {
			if el.Key.K == "nokey" {
				parts = append(parts, el.Val.Src)
			} else {
				parts = append(parts, el.Key.Src+": "+el.Val.Src)
			}
		}
		ty := "map[" + e.Kt + "]" + e.Vt
		if e.Kind == "list" {
			ty = "[]" + e.Ety
			if e.Alen >= 0 {
				ty = fmt.Sprintf("[%d]%s", e.Alen, e.Ety)
			} else if e.Alen == -2 {
				ty = "[...]" + e.Ety
			}
		}
		return ty + "{" + strings.Join(parts, ", ") + "}"
	case "structpos":
		var parts []string
		for _, v := range e.Vals {
			parts = append(parts, v.Src)
		}
		return "S{" + strings.Join(parts, ", ") + "}"
	case "structkey":
		var parts []string
		for i, v := range e.Vals {
			parts = append(parts, e.Fs[i]+": "+v.Src)
		}
		return "S{" + strings.Join(parts, ", ") + "}"
	case "index":
		return e.X.Src + "[" + e.I.Src + "]"
	case "slice":
		s := e.X.Src + "[" + e.Lo.Src + ":" + e.Hi.Src
		if e.Mx.K != "none" {
			s += ":" + e.Mx.Src
		}
		return s + "]"
	case "star":
		return "*" + e.X.Src
	case "conv":
		t := e.T
		if strings.HasPrefix(t, "*") || strings.HasPrefix(t, "<-") || t == "func()" || strings.HasPrefix(t, "func") {
			t = "(" + t + ")"
		}
		return t + "(" + e.O.Src + ")"
	}
	return "?"
}

// mixed keyed / unkeyed element lists are built in keyVal mode with None() as the key of an unkeyed element
func (p litPoint) buildable() bool { return true }

func (p litPoint) class() string {
	e := p.Pt
	opc := func(o litOp) string {
		switch o.K {
		case "const":
			return "untyped-" + o.Ck + "-const"
		case "var":
			return "var:" + o.Ty
		}
		return o.K
	}
	switch e.Kind {
	case "openarr":
		return "open-array-literal/" + e.Use
	case "list":
		k := "slice-literal"
		if e.Alen >= 0 {
			k = "array-literal"
		}
		set := map[string]bool{}
		for _, el := range e.Elems {
			if el.Key.K != "nokey" {
				set["key:"+opc(el.Key)] = true
			}
			set["elem:"+opc(el.Val)] = true
		}
		return k + "[" + e.Ety + "]" + setString(set)
	case "map":
		set := map[string]bool{}
		for _, el := range e.Elems {
			set["key:"+opc(el.Key)] = true
			set["elem:"+opc(el.Val)] = true
		}
		return "map-literal[" + e.Kt + "]" + e.Vt + setString(set)
	case "structpos":
		return fmt.Sprintf("struct-literal/positional/%d-values", len(e.Vals))
	case "structkey":
		return "struct-literal/keyed/" + strings.Join(e.Fs, ",")
	case "index":
		return "index/" + e.X.Kind + "[" + opc(e.I) + "]"
	case "slice":
		return "slice/" + e.X.Kind + "[" + opc(e.Lo) + ":" + opc(e.Hi) + ":" + opc(e.Mx) + "]"
	case "star":
		return "indirection/" + e.X.Kind
	case "conv":
		return "conversion/" + e.T + "(" + opc(e.O) + ")"
	}
	return e.Kind
}

// coarse class (construct and operand kind only) for unsound-acceptance keys: the reason is part of the key already
func (p litPoint) coarse() string {
	e := p.Pt
	switch e.Kind {
	case "list":
		k := "slice-literal"
		if e.Alen >= 0 {
			k = "array-literal"
		}
		return k
	case "map":
		return "map-literal"
	case "index", "slice":
		return e.Kind + "/" + e.X.Kind
	}
	return p.class()
}

// floatKey marks literals one of whose keys is an untyped float constant with integral value (1.0)
func (p litPoint) floatKey() string {
	for _, el := range p.Pt.Elems {
		if el.Key.K == "const" && el.Key.Ck == "float" && el.Key.D == 1 {
			return "/integral-float-key"
		}
	}
	for _, v := range p.Pt.Vals {
		if v.K == "const" && v.Ck == "float" && v.D == 1 {
			return "/integral-float-value"
		}
	}
	return ""
}

func setString(set map[string]bool) string {
	var ks []string
	for k := range set {
		ks = append(ks, k)
	}
	sortStrings(ks)
	return "{" + strings.Join(ks, ",") + "}"
}

func sortStrings(a []string) {
	for i := 1; i < len(a); i++ {
		for j := i; j > 0 && a[j] < a[j-1]; j-- {
			a[j], a[j-1] = a[j-1], a[j]
		}
	}
}

func litNormType(s string) string {
	s = strings.ReplaceAll(s, "interface{}", "any")
	s = strings.ReplaceAll(s, "byte", "uint8")
	s = strings.ReplaceAll(s, "q.", "")
	s = strings.ReplaceAll(s, "p.", "")
	return s
}

type litT struct {
	ok  bool
	ty  string
	msg string
}

func litReference(pts []litPoint) ([]litT, error) {
	var b strings.Builder
	b.WriteString(litPrelude + "func body() {\n")
	first := strings.Count(b.String(), "\n") + 1
	for _, p := range pts {
		fmt.Fprintf(&b, "_ = %s\n", p.text())
	}
	b.WriteString("}\n")
	fset := token.NewFileSet()
	f, err := parser.ParseFile(fset, "q.go", b.String(), 0)
	if err != nil {
		return nil, fmt.Errorf("reference does not parse: %v", err)
	}
	bad := map[int]string{}
	info := &types.Info{Types: map[ast.Expr]types.TypeAndValue{}}
	conf := types.Config{Error: func(e error) {
		if te, ok := e.(types.Error); ok {
			ln := fset.Position(te.Pos).Line
			if bad[ln] == "" {
				bad[ln] = te.Msg
			}
		}
	}}
	conf.Check("q", fset, []*ast.File{f}, info)
	body := f.Decls[len(f.Decls)-1].(*ast.FuncDecl).Body.List
	if len(body) != len(pts) {
		return nil, fmt.Errorf("reference: %d statements for %d points", len(body), len(pts))
	}
	out := make([]litT, len(pts))
	for i := range pts {
		msg, isBad := bad[first+i]
		out[i] = litT{ok: !isBad, msg: msg}
		if !isBad {
			if tv, ok := info.Types[body[i].(*ast.AssignStmt).Rhs[0]]; ok {
				out[i].ty = litNormType(types.TypeString(tv.Type, func(p *types.Package) string { return "" }))
			}
		}
	}
	return out, nil
}

type litWorld struct {
	pkg  *gogen.Package
	errs []string
	fn   *gogen.Func
	n    int
	tS   types.Type
	tMy  types.Type
}

func newLitWorld() *litWorld {
	fset, imp := sharedImporter()
	w := &litWorld{}
	w.pkg = gogen.NewPackage("", "p", &gogen.Config{Fset: fset, Importer: imp, HandleErr: func(e error) { w.errs = append(w.errs, e.Error()) }})
	pkg := w.pkg
	ti, ts := types.Typ[types.Int], types.Typ[types.String]
	w.tMy = pkg.NewType("MyInt").InitType(pkg, ti)
	w.tS = pkg.NewType("S").InitType(pkg, types.NewStruct([]*types.Var{types.NewField(token.NoPos, pkg.Types, "a", ti, false), types.NewField(token.NoPos, pkg.Types, "b", ts, false)}, nil))
	arr := types.NewArray(ti, 2)
	for n, t := range map[string]types.Type{"vi": ti, "vi8": types.Typ[types.Int8], "vs": ts, "vmy": w.tMy, "vf": types.Typ[types.Float64], "va": types.NewInterfaceType(nil, nil),
		"vsl": types.NewSlice(ti), "varr": arr, "vparr": types.NewPointer(arr), "vm": types.NewMap(ts, ti), "vpi": types.NewPointer(ti), "vch": types.NewChan(types.SendRecv, ti)} {
		pkg.NewVar(token.NoPos, t, n)
	}
	return w
}

func (w *litWorld) typ(n string) types.Type {
	switch n {
	case "int":
		return types.Typ[types.Int]
	case "int8":
		return types.Typ[types.Int8]
	case "string":
		return types.Typ[types.String]
	case "any":
		return types.NewInterfaceType(nil, nil)
	}
	panic("harness: element type " + n)
}

func (w *litWorld) convType(n string) types.Type {
	ti := types.Typ[types.Int]
	par := func(t types.Type) *types.Var { return types.NewParam(token.NoPos, nil, "", t) }
	switch n {
	case "*int":
		return types.NewPointer(ti)
	case "<-chan int":
		return types.NewChan(types.RecvOnly, ti)
	case "chan<- int":
		return types.NewChan(types.SendOnly, ti)
	case "chan int":
		return types.NewChan(types.SendRecv, ti)
	case "func()":
		return types.NewSignatureType(nil, nil, nil, nil, nil, false)
	case "func() int":
		return types.NewSignatureType(nil, nil, nil, nil, types.NewTuple(par(ti)), false)
	case "[]int":
		return types.NewSlice(ti)
	case "map[string]int":
		return types.NewMap(types.Typ[types.String], ti)
	case "any":
		return types.NewInterfaceType(nil, nil)
	case "*[2]int":
		return types.NewPointer(types.NewArray(ti, 2))
	}
	panic("harness: conversion target " + n)
}

func (w *litWorld) push(cb *gogen.CodeBuilder, o litOp) {
	switch o.K {
	case "var":
		cb.Val(w.pkg.Types.Scope().Lookup(o.Src))
	case "nil":
		cb.Val(nil)
	case "none":
		cb.None()
	case "const":
		switch {
		case o.Ck == "string":
			cb.Val(strings.Trim(o.Src, `"`))
		case o.Ck == "float":
			cb.Val(&ast.BasicLit{Kind: token.FLOAT, Value: o.Src})
		default:
			cb.Val(o.N)
		}
	default:
		panic("harness: operand kind " + o.K)
	}
}

type litG struct {
	text     string
	rejected bool
	msg      string
	ty       string
	fault    string
}

func (w *litWorld) build(p litPoint) (g litG) {
	pkg := w.pkg
	w.errs = nil
	if w.fn == nil {
		w.n++
		w.fn = pkg.NewFunc(nil, fmt.Sprintf("body%d", w.n), nil, nil, false)
		w.fn.BodyStart(pkg)
	}
	cb := pkg.CB()
	defer func() {
		if e := recover(); e != nil {
			g.rejected = true
			g.msg = fmt.Sprint(e)
			if _, rt := e.(interface{ RuntimeError() }); rt || isForeignPanic(g.msg) {
				g.fault = g.msg
			}
			cb.ResetStmt()
		}
	}()
	e := p.Pt
	pushX := func() {
		if e.X.Kind == "conststring" {
			cb.Val("abc")
		} else {
			cb.Val(pkg.Types.Scope().Lookup(e.X.Src))
		}
	}
	switch e.Kind {
	case "list", "openarr":
		if e.Kind == "openarr" {
			e.Alen = -2
		}
		keyed := false
		for _, el := range e.Elems {
			keyed = keyed || el.Key.K != "nokey"
		}
		for _, el := range e.Elems {
			if keyed {
				if el.Key.K == "nokey" {
					cb.None()
				} else {
					w.push(cb, el.Key)
				}
			}
			w.push(cb, el.Val)
		}
		n := len(e.Elems)
		if keyed {
			n *= 2
		}
		if e.Alen == -2 {
			cb.ArrayLit(types.NewArray(w.typ(e.Ety), -1), n, keyed)
			switch e.Use {
			case "elem":
				cb.SliceLit(types.NewSlice(types.NewArray(w.typ(e.Ety), int64(e.L))), 1)
			case "index":
				cb.Val(e.L - 1).Index(1, 0)
			}
		} else if e.Alen >= 0 {
			cb.ArrayLit(types.NewArray(w.typ(e.Ety), int64(e.Alen)), n, keyed)
		} else {
			cb.SliceLit(types.NewSlice(w.typ(e.Ety)), n, keyed)
		}
	case "map":
		for _, el := range e.Elems {
			w.push(cb, el.Key)
			w.push(cb, el.Val)
		}
		cb.MapLit(types.NewMap(w.typ(e.Kt), w.typ(e.Vt)), 2*len(e.Elems))
	case "structpos":
		for _, v := range e.Vals {
			w.push(cb, v)
		}
		cb.StructLit(w.tS, len(e.Vals), false)
	case "structkey":
		for i, v := range e.Vals {
			cb.Val(map[string]int{"a": 0, "b": 1}[e.Fs[i]])
			w.push(cb, v)
		}
		cb.StructLit(w.tS, 2*len(e.Vals), true)
	case "index":
		pushX()
		w.push(cb, e.I)
		cb.Index(1, 0)
	case "slice":
		pushX()
		w.push(cb, e.Lo)
		w.push(cb, e.Hi)
		if e.Mx.K != "none" {
			w.push(cb, e.Mx)
		}
		cb.Slice(e.Mx.K != "none")
	case "star":
		pushX()
		cb.Star()
	case "conv":
		cb.Typ(w.convType(e.T))
		w.push(cb, e.O)
		cb.Call(1)
	default:
		panic("harness: literal point kind " + e.Kind)
	}
	el := cb.InternalStack().Pop()
	cb.ResetStmt()
	if len(w.errs) > 0 {
		g.rejected, g.msg = true, strings.Join(w.errs, "; ")
		return g
	}
	if el.Type != nil {
		g.ty = litNormType(types.TypeString(el.Type, func(p *types.Package) string { return "" }))
	}
	if x, ok := el.Val.(ast.Expr); ok {
		var buf strings.Builder
		if err := gogen.VerifFormatNode(&buf, x); err == nil {
			g.text = buf.String()
		}
	}
	return g
}

// litRun evaluates the grid; cb receives every judged point with the findings per property
func litRun(run *ev.Run, tier, prop string) (int64, int64, int64) {
	var pts []litPoint
	maxElems := 2
	res, err := tlc.Run(tlc.Opts{SpecDir: SpecDir, Module: "Lits", Cfg: fmt.Sprintf("INIT Init\nNEXT Next\nCONSTANTS MaxElems = %d\nINVARIANTS TypeIsLiteralType PrefixClosed OpenLength Emit\nCHECK_DEADLOCK FALSE\n", maxElems),
		Workers: 4, Heavy: true, Timeout: 20 * time.Minute,
		OnJSON: func(l string) {
			var p litPoint
			if json.Unmarshal([]byte(l), &p) == nil && p.Pt.Kind != "" {
				pts = append(pts, p)
			}
		}})
	if err != nil {
		run.Infra(err)
	}
	if res.Violation {
		run.Infra(fmt.Errorf("Lits.tla violates its laws:\n%s", res.ErrText))
	}
	if int64(len(pts)) != res.Distinct || len(pts) == 0 {
		run.Infra(fmt.Errorf("Lits.tla: %d points received, %d states", len(pts), res.Distinct))
	}
	n := litCheck(run, pts, prop)
	run.Set("literal_points", fmt.Sprintf("%d points of Lits.tla (composite literals, index, slice, indirection), %d buildable through the literal API", len(pts), n))
	return res.Distinct, res.Generated, int64(n)
}

func litCheck(run *ev.Run, pts []litPoint, prop string) int {
	tref, err := litReference(pts)
	if err != nil {
		run.Infra(err)
	}
	for i, p := range pts {
		t := tref[i]
		if t.ok != p.Ok || (t.ok && t.ty != litNormType(p.Ty)) {
			run.Infra(fmt.Errorf("Lits.tla disagrees with go/types (specification defect, not a verdict): %s: S ok=%v %s (%s), T ok=%v %s %s", p.text(), p.Ok, p.Ty, p.Why, t.ok, t.ty, t.msg))
		}
	}
	var batches [][]litPoint
	for i := 0; i < len(pts); i += 3000 {
		j := i + 3000
		if j > len(pts) {
			j = len(pts)
		}
		batches = append(batches, pts[i:j])
	}
	counts := make([]int, len(batches))
	parallelN(8, len(batches), func(bi int) {
		w := newLitWorld()
		for _, p := range batches[bi] {
			if !p.buildable() {
				continue
			}
			counts[bi]++
			g := w.build(p)
			run.Eval("lit:" + p.text())
			desc := fmt.Sprintf("`%s`: Go (Lits.tla = go/types): ok=%v %s%s; builder: rejected=%v %s %s", p.text(), p.Ok, p.Ty, p.Why, g.rejected, g.ty, firstLines(g.msg, 1))
			switch {
			case g.fault != "":
				if prop == "C17" || (prop == "C02" && p.Ok) {
					run.Fail("fault/"+p.class(), desc, p)
				}
				w.fn = nil
			case !p.Ok && !g.rejected:
				if prop == "C01" {
					run.Fail("accepted-although-"+p.Why+"/"+p.coarse(), desc, p)
				}
			case p.Ok && g.rejected:
				if prop == "C02" {
					run.Fail("rejected-valid/"+p.coarse()+p.floatKey(), desc, p)
				}
			case p.Ok && !g.rejected && g.ty != litNormType(p.Ty):
				if prop == "C03" {
					run.Fail(fmt.Sprintf("type %s reported as %s [%s]", p.Ty, g.ty, p.Pt.Kind), desc, p)
				}
			}
			// C02: the emitted expression is the same expression (parses back to the same tree as the source text)
			if prop == "C02" && p.Ok && !g.rejected && g.fault == "" && g.text != "" {
				want, err1 := parser.ParseExpr(p.text())
				got, err2 := parser.ParseExpr(g.text)
				switch {
				case err1 != nil:
					run.Infra(fmt.Errorf("reference text %q does not parse: %v", p.text(), err1))
				case err2 != nil:
					run.Fail("emitted-expression-does-not-parse/"+p.coarse(), fmt.Sprintf("`%s` is emitted as `%s`: %v", p.text(), g.text, err2), p)
				case canonUntyped(want) != canonUntyped(got):
					run.Fail("not-reproduced/"+p.coarse(), fmt.Sprintf("`%s` is emitted as `%s`: %s", p.text(), g.text, canonDiff(canonUntyped(want), canonUntyped(got))), p)
				}
			}
		}
	})
	n := 0
	for _, c := range counts {
		n += c
	}
	return n
}
