package props

// C07: generic inference and instantiation agree with the Go type checker.
// spec/Infer.tla infers the type arguments of every (signature, explicit prefix, argument list)
// point of its fragment.  T: go/types on a one-line call (accept/reject + the instantiated result
// type, which is func(<all type parameters>) for every fixture function and therefore shows the
// whole vector) - S must equal T on every point, otherwise exit 2.  G: the call built with the real
// CodeBuilder (Val(fn) [Typ.. Index] args Call): accept/reject and the result Elem.Type must equal S.

import (
	"bytes"
	"encoding/json"
	"fmt"
	"go/ast"
	"go/parser"
	"go/token"
	"go/types"
	"sort"
	"strings"
	"sync"
	"time"

	"github.com/goplus/gogen"

	"verif/harness/internal/ev"
	"verif/harness/internal/tlc"
)

func init() { Registry["C07"] = runC07 }

type infPoint struct {
	Kind   string   `json:"kind"`
	Ell    bool     `json:"ell"`
	Target string   `json:"target"`
	Real   string   `json:"real,omitempty"` // replay only: the realisation that failed ("xgox")
	Fam    []int    `json:"fam,omitempty"`  // kind "ti": overloaded generic type name (candidates in order)
	First  int      `json:"first"`          // kind "ti": index of the first candidate that instantiates, 0 if none
	Sig    int      `json:"sig"`
	Expl   []string `json:"expl"`
	Args   []string `json:"args"`
	Ok     bool     `json:"ok"`
	TArgs  []string `json:"targs"`
}

var infFvNames = map[int]string{1: "ConvV", 2: "Same1", 3: "Map1", 4: "PairV", 5: "SumS"}
var infNames = map[int]string{15: "Collect", 16: "Cast", 17: "Mk", 1: "Id", 2: "Eq", 3: "Sum", 4: "Map", 5: "Keys", 6: "Ptr", 7: "Sl", 8: "Two", 9: "Conv", 10: "Ai", 11: "App", 12: "Same", 13: "Fn", 14: "SlE", 18: "Gather", 19: "KeysX", 20: "Show"}

const infFixture = `package ov

type MyInt int
type MySl []int

func Id[T any](x T) func(T)                              { return nil }
func Eq[T comparable](a, b T) func(T)                    { return nil }
func Sum[T int | float64](xs ...T) func(T)               { return nil }
func Map[T, U any](s []T, f func(T) U) func(T, U)        { return nil }
func Keys[K comparable, V any](m map[K]V) func(K, V)     { return nil }
func Ptr[T any](p *T) func(T)                            { return nil }
func Sl[S ~[]E, E any](s S) func(S, E)                   { return nil }
func Two[T, U any](a T, b U) func(T, U)                  { return nil }
func Conv[T, U any](a T) func(T, U)                      { return nil }
func Ai[T ~int](a T) func(T)                             { return nil }
func App[T any](s []T, xs ...T) func(T)                  { return nil }
func Same[T any](a, b T) func(T)                         { return nil }
func Fn[T any](f func(T) T, x T) func(T)                 { return nil }
func SlE[S ~[]E, E int | float64](s S, e E) func(S, E)   { return nil }
func Collect[R, T any](xs ...T) func(R, T)               { return nil }
func Cast[R, T any](x T) func(R, T)                      { return nil }
func Mk[R any]() func(R)                                 { return nil }
func Gather[T, U any](u U, xs ...T) func(T, U)           { return nil }
func KeysX[K comparable](m map[K]int, extra ...K) func(K) { return nil }

type MyLab string

func (MyLab) String() string { return "" }

type Stringer interface{ String() string }

func Show[T Stringer](x int) func(T) { return nil }

// the same three as type-as-parameter functions: XCollect(R, xs...), XCast(R, x), XMk(R)
const XGoPackage = true

func XGox_XCollect[R, T any](xs ...T) func(R, T) { return nil }
func XGox_XCast[R, T any](x T) func(R, T)        { return nil }
func XGox_XMk[R any]() func(R)                   { return nil }
func XGox_XGather[T, U any](u U, xs ...T) func(T, U) { return nil }

// generic functions used as values
func ConvV[To, From any](src From) To           { var z To; return z }
func Same1[T any](x T) T                        { return x }
func Map1[T, U any](x T) U                      { var z U; return z }
func PairV[K comparable, V any](k K, v V) V     { return v }
func SumS[T int | float64](xs []T) T            { var z T; return z }
`

const infVars = "var vi int\nvar vf float64\nvar vs string\nvar vmy ov.MyInt\nvar vsl []int\nvar vmysl ov.MySl\nvar vslf []float64\nvar vm map[string]int\nvar vpi *int\nvar vfis func(int) string\nvar vfii func(int) int\n"

var infArgText = map[string]string{"c1": "1", "c15": "1.5", "cs": `"s"`, "nil": "nil"}

func (p infPoint) text() string {
	if p.Kind == "ti" {
		return fmt.Sprintf("ov.%s[%s]", tiName(p.Fam), strings.Join(p.Expl, ", "))
	}
	if p.Kind == "pv" {
		return fmt.Sprintf("ov.%s[%s]", infNames[p.Sig], strings.Join(p.Expl, ", "))
	}
	if p.Kind == "fv" {
		ex := ""
		if len(p.Expl) > 0 {
			ex = "[" + strings.Join(p.Expl, ", ") + "]"
		}
		return fmt.Sprintf("%s(ov.%s%s)", p.Target, infFvNames[p.Sig], ex)
	}
	var as []string
	for _, a := range p.Args {
		if t, ok := infArgText[a]; ok {
			as = append(as, t)
		} else {
			as = append(as, a)
		}
	}
	ex := ""
	if len(p.Expl) > 0 {
		ex = "[" + strings.Join(p.Expl, ", ") + "]"
	}
	ell := ""
	if p.Ell {
		ell = "..."
	}
	return fmt.Sprintf("ov.%s%s(%s%s)", infNames[p.Sig], ex, strings.Join(as, ", "), ell)
}

func (p infPoint) want() string {
	if p.Kind == "ti" {
		return fmt.Sprintf("ov.%s[%s]", tiCandName(p.Fam, p.First), strings.Join(p.Expl, ","))
	}
	if p.Kind == "fv" || p.Kind == "pv" {
		return strings.Join(p.TArgs, ", ")
	}
	return "func(" + strings.Join(p.TArgs, ", ") + ")"
}

// class of a point for finding keys: signature + explicit prefix length + argument classes
func (p infPoint) class() string {
	var cs []string
	for _, a := range p.Args {
		switch a {
		case "c1", "c15", "cs":
			cs = append(cs, "untyped-"+map[string]string{"c1": "int", "c15": "float", "cs": "string"}[a])
		case "nil":
			cs = append(cs, "nil")
		case "vmy", "vmysl":
			cs = append(cs, "defined-type")
		default:
			cs = append(cs, "typed")
		}
	}
	if p.Kind == "ti" {
		return fmt.Sprintf("type-instantiation/%s/%d-arguments", tiName(p.Fam), len(p.Expl))
	}
	if p.Kind == "fv" {
		return fmt.Sprintf("function-value/%s/explicit=%d/%s", infFvNames[p.Sig], len(p.Expl), p.Target)
	}
	if p.Kind == "pv" {
		return fmt.Sprintf("instantiated-function-as-value/%s/explicit=%d", infNames[p.Sig], len(p.Expl))
	}
	ell := ""
	if p.Ell {
		ell = "..."
	}
	return fmt.Sprintf("%s/explicit=%d/(%s%s)", infNames[p.Sig], len(p.Expl), strings.Join(cs, ","), ell)
}

type infT struct {
	ok  bool
	res string
	msg string
}

func infReference(ovPkg *types.Package, base types.Importer, pts []infPoint) ([]infT, error) {
	var b strings.Builder
	b.WriteString("package q\nimport \"ov\"\n" + infVars + "func body() {\n")
	first := strings.Count(b.String(), "\n") + 1
	for i, p := range pts {
		if p.Kind == "ti" {
			fmt.Fprintf(&b, "_ = 0 // type instantiation %d: see tiReference\n", i)
		} else if p.Kind == "fv" || p.Kind == "pv" {
			fmt.Fprintf(&b, "var x%d %s = %s; _ = x%d\n", i, p.Target, strings.TrimSuffix(strings.TrimPrefix(p.text(), p.Target+"("), ")"), i)
		} else {
			fmt.Fprintf(&b, "_ = %s\n", p.text())
		}
	}
	b.WriteString("}\n")
	fset := token.NewFileSet()
	f, err := parser.ParseFile(fset, "q.go", b.String(), 0)
	if err != nil {
		return nil, fmt.Errorf("reference does not parse: %v", err)
	}
	bad := map[int]string{}
	info := &types.Info{Types: map[ast.Expr]types.TypeAndValue{}, Instances: map[*ast.Ident]types.Instance{}}
	conf := types.Config{Importer: ovImporter{ovPkg, base}, Error: func(e error) {
		if te, ok := e.(types.Error); ok {
			ln := fset.Position(te.Pos).Line
			if bad[ln] == "" {
				bad[ln] = te.Msg
			}
		}
	}}
	conf.Check("q", fset, []*ast.File{f}, info)
	// instances by line
	instByLine := map[int]string{}
	for id, inst := range info.Instances {
		var ts []string
		for i := 0; i < inst.TypeArgs.Len(); i++ {
			ts = append(ts, types.TypeString(inst.TypeArgs.At(i), func(p *types.Package) string { return p.Name() }))
		}
		instByLine[fset.Position(id.Pos()).Line] = strings.Join(ts, ", ")
	}
	body := f.Decls[len(f.Decls)-1].(*ast.FuncDecl).Body.List
	out := make([]infT, len(pts))
	si := 0
	for i, p := range pts {
		msg, isBad := bad[first+i]
		out[i] = infT{ok: !isBad, msg: msg}
		if p.Kind == "fv" || p.Kind == "pv" {
			si += 2 // declaration + blank assignment
			if !isBad {
				out[i].res = instByLine[first+i]
			}
			continue
		}
		if si >= len(body) {
			return nil, fmt.Errorf("reference: statements and points out of step")
		}
		if !isBad {
			if tv, ok := info.Types[body[si].(*ast.AssignStmt).Rhs[0]]; ok {
				out[i].res = types.TypeString(tv.Type, func(p *types.Package) string { return p.Name() })
			}
		}
		si++
	}
	return out, nil
}

type infWorld struct {
	loaders map[*types.Named]func() // delay-loaded types (Config.LoadNamed)
	nlab    int
	nbody int
	pkg   *gogen.Package
	ov    gogen.PkgRef
	errs  []string
	fn    *gogen.Func
}

func newInfWorld(ovPkg *types.Package, base types.Importer) *infWorld {
	w := &infWorld{}
	w.pkg = gogen.NewPackage("", "p", &gogen.Config{Fset: token.NewFileSet(), Importer: ovImporter{ovPkg, base}, HandleErr: func(e error) { w.errs = append(w.errs, e.Error()) },
		LoadNamed: func(at *gogen.Package, t *types.Named) {
			if f := w.loaders[t]; f != nil {
				delete(w.loaders, t)
				f()
			}
		}})
	w.loaders = map[*types.Named]func(){}
	pkg := w.pkg
	w.ov = pkg.Import("ov")
	ti, tf, ts := types.Typ[types.Int], types.Typ[types.Float64], types.Typ[types.String]
	par := func(t types.Type) *types.Var { return types.NewParam(token.NoPos, nil, "", t) }
	vars := map[string]types.Type{"vi": ti, "vf": tf, "vs": ts, "vmy": w.ov.Ref("MyInt").Type(), "vsl": types.NewSlice(ti), "vmysl": w.ov.Ref("MySl").Type(),
		"vslf": types.NewSlice(tf), "vm": types.NewMap(ts, ti), "vpi": types.NewPointer(ti),
		"vfis": types.NewSignatureType(nil, nil, nil, types.NewTuple(par(ti)), types.NewTuple(par(ts)), false),
		"vfii": types.NewSignatureType(nil, nil, nil, types.NewTuple(par(ti)), types.NewTuple(par(ti)), false)}
	names := make([]string, 0, len(vars))
	for n := range vars {
		names = append(names, n)
	}
	sort.Strings(names)
	for _, n := range names {
		pkg.NewVar(token.NoPos, vars[n], n)
	}
	return w
}

func (w *infWorld) explType(n string) types.Type {
	switch n {
	case "int":
		return types.Typ[types.Int]
	case "float64":
		return types.Typ[types.Float64]
	case "string":
		return types.Typ[types.String]
	case "[]int":
		return types.NewSlice(types.Typ[types.Int])
	case "[]string":
		return types.NewSlice(types.Typ[types.String])
	case "[]float64":
		return types.NewSlice(types.Typ[types.Float64])
	case "ov.MyInt":
		return w.ov.Ref("MyInt").Type()
	case "ov.MySl":
		return w.ov.Ref("MySl").Type()
	case "ov.MyLab":
		// realised delay-loaded: a fresh type object whose underlying type and method arrive when Config.LoadNamed asks for
		// them - as explicit type argument of a function with a method constraint it is the first use that needs the methods
		real := w.ov.Ref("MyLab").Type().(*types.Named)
		d := types.NewNamed(types.NewTypeName(token.NoPos, real.Obj().Pkg(), "MyLab", nil), nil, nil)
		// two shapes of an incomplete type, in turn: nothing known yet / the underlying type known and the methods not yet
		w.nlab++
		if w.nlab%2 == 0 {
			d.SetUnderlying(real.Underlying())
		}
		w.loaders[d] = func() {
			d.SetUnderlying(real.Underlying())
			m := real.Method(0)
			sig := m.Type().(*types.Signature)
			d.AddMethod(types.NewFunc(token.NoPos, m.Pkg(), m.Name(), types.NewSignatureType(types.NewVar(token.NoPos, m.Pkg(), "", d), nil, nil, sig.Params(), sig.Results(), false)))
		}
		return d
	}
	panic("harness: explicit type " + n)
}

type infG struct {
	rejected bool
	msg      string
	res      string
	expr     string
	fault    string
}

// generic types of the "ti" points: a single generic type is TG<i>, an overloaded name is OT<i>x<j> with candidates OT<i>x<j>__0, __1
var tiDecl = map[int]string{1: "[T any] struct{ V T }", 2: "[T comparable] struct{ V T }", 3: "[T int | float64] struct{ V T }", 4: "[K comparable, V any] map[K]V",
	5: "[T ~int] struct{ V T }", 6: "[S ~[]E, E any] struct{ V S }"}

func tiName(fam []int) string {
	if len(fam) == 1 {
		return fmt.Sprintf("TG%d", fam[0])
	}
	return fmt.Sprintf("OT%dx%d", fam[0], fam[1])
}

func tiCandName(fam []int, first int) string {
	if len(fam) == 1 || first == 0 {
		return tiName(fam)
	}
	return fmt.Sprintf("%s__%d", tiName(fam), first-1)
}

func tiFixture() string {
	var b strings.Builder
	for i := 1; i <= 6; i++ {
		fmt.Fprintf(&b, "type TG%d%s\n", i, tiDecl[i])
	}
	for _, f := range [][2]int{{1, 4}, {4, 1}, {2, 1}, {3, 5}, {5, 3}, {6, 4}} {
		fmt.Fprintf(&b, "type OT%dx%d__0%s\ntype OT%dx%d__1%s\n", f[0], f[1], tiDecl[f[0]], f[0], f[1], tiDecl[f[1]])
	}
	return b.String()
}

var infXgox = map[int]string{15: "XCollect", 16: "XCast", 17: "XMk", 18: "XGather"}

// call builds the call; real = "" (F[explicit...](args)) or "xgox" (the type-as-parameter form XF(explicit..., args))
func (w *infWorld) call(p infPoint, real string) (g infG) {
	pkg := w.pkg
	w.errs = nil
	if w.fn == nil {
		w.nbody++
		w.fn = pkg.NewFunc(nil, fmt.Sprintf("body%d", w.nbody), nil, nil, false)
		w.fn.BodyStart(pkg)
	}
	cb := pkg.CB()
	defer func() {
		if e := recover(); e != nil {
			g.rejected = true
			g.msg = fmt.Sprint(e)
			if _, rt := e.(interface{ RuntimeError() }); rt {
				g.fault = g.msg
			}
			cb.ResetStmt()
		}
	}()
	ref := func(name string) types.Object { return pkg.Types.Scope().Lookup(name) }
	nlead := 0
	if real == "xgox" {
		cb.Val(w.ov.Ref(infXgox[p.Sig]))
		for _, t := range p.Expl {
			cb.Typ(w.explType(t))
		}
		nlead = len(p.Expl)
	} else {
		cb.Val(w.ov.Ref(infNames[p.Sig]))
		if len(p.Expl) > 0 {
			for _, t := range p.Expl {
				cb.Typ(w.explType(t))
			}
			cb.Index(len(p.Expl), 0)
		}
	}
	for _, a := range p.Args {
		switch a {
		case "c1":
			cb.Val(1)
		case "c15":
			cb.Val(&ast.BasicLit{Kind: token.FLOAT, Value: "1.5"})
		case "cs":
			cb.Val("s")
		case "nil":
			cb.Val(nil)
		default:
			cb.Val(ref(a))
		}
	}
	var flags gogen.InstrFlags
	if p.Ell {
		flags = gogen.InstrFlagEllipsis
	}
	cb.CallWith(nlead+len(p.Args), 0, flags)
	e := cb.InternalStack().Pop()
	cb.ResetStmt()
	if len(w.errs) > 0 {
		g.rejected, g.msg = true, strings.Join(w.errs, "; ")
		return g
	}
	if e.Type != nil {
		g.res = types.TypeString(e.Type, func(p *types.Package) string { return p.Name() })
	}
	if x, ok := e.Val.(ast.Expr); ok {
		g.expr = types.ExprString(x)
	}
	return g
}

func (w *infWorld) tiType(s string) types.Type {
	switch s {
	case "func(int) int":
		return w.targetType("func(int) int")
	case "map[string]int":
		return types.NewMap(types.Typ[types.String], types.Typ[types.Int])
	}
	return w.explType(s)
}

// target function types of the function-value points
func (w *infWorld) targetType(s string) types.Type {
	ti, ts := types.Typ[types.Int], types.Typ[types.String]
	par := func(t types.Type) *types.Var { return types.NewParam(token.NoPos, nil, "", t) }
	fn := func(r types.Type, ps ...types.Type) types.Type {
		var pv []*types.Var
		for _, t := range ps {
			pv = append(pv, par(t))
		}
		return types.NewSignatureType(nil, nil, nil, types.NewTuple(pv...), types.NewTuple(par(r)), false)
	}
	switch s {
	case "": // no declared type: var v = F[X]
		return nil
	case "func(int) string":
		return fn(ts, ti)
	case "func(int) int":
		return fn(ti, ti)
	case "func(string) int":
		return fn(ti, ts)
	case "func(int, string) string":
		return fn(ts, ti, ts)
	case "func([]int) int":
		return fn(ti, types.NewSlice(ti))
	case "func([]string) string":
		return fn(ts, types.NewSlice(ts))
	case "func(ov.MySl) int":
		return fn(ti, w.ov.Ref("MySl").Type())
	}
	panic("harness: target type " + s)
}

// funcValue declares  var <name> <target> = ov.F[explicit...]  at package level
func (w *infWorld) funcValue(p infPoint, name string) (g infG) {
	pkg := w.pkg
	w.errs = nil
	defer func() {
		if e := recover(); e != nil {
			g.rejected = true
			g.msg = fmt.Sprint(e)
			if _, rt := e.(interface{ RuntimeError() }); rt {
				g.fault = g.msg
			}
			pkg.CB().ResetStmt()
		}
	}()
	cb := pkg.NewVarStart(token.NoPos, w.targetType(p.Target), name)
	if p.Kind == "pv" {
		cb.Val(w.ov.Ref(infNames[p.Sig]))
	} else {
		cb.Val(w.ov.Ref(infFvNames[p.Sig]))
	}
	if len(p.Expl) > 0 {
		for _, t := range p.Expl {
			cb.Typ(w.explType(t))
		}
		cb.Index(len(p.Expl), 0)
	}
	cb.EndInit(1)
	if len(w.errs) > 0 {
		g.rejected, g.msg = true, strings.Join(w.errs, "; ")
	}
	return g
}

// tiReference: go/types on every candidate of every "ti" point; returns the index of the first candidate that instantiates
func tiReference(ovPkg *types.Package, base types.Importer, pts []infPoint) (map[int]int, error) {
	var b strings.Builder
	b.WriteString("package q\nimport \"ov\"\n")
	first := strings.Count(b.String(), "\n") + 1
	type ln struct{ pt, cand int }
	var lines []ln
	for i, p := range pts {
		if p.Kind != "ti" {
			continue
		}
		for k := range p.Fam {
			fmt.Fprintf(&b, "var _ ov.%s[%s]\n", tiCandName(p.Fam, k+1), strings.Join(p.Expl, ", "))
			lines = append(lines, ln{i, k + 1})
		}
	}
	fset := token.NewFileSet()
	f, err := parser.ParseFile(fset, "q.go", b.String(), 0)
	if err != nil {
		return nil, fmt.Errorf("type-instantiation reference does not parse: %v", err)
	}
	bad := map[int]bool{}
	conf := types.Config{Importer: ovImporter{ovPkg, base}, Error: func(e error) {
		if te, ok := e.(types.Error); ok {
			bad[fset.Position(te.Pos).Line] = true
		}
	}}
	conf.Check("q", fset, []*ast.File{f}, nil)
	out := map[int]int{}
	for j, l := range lines {
		if _, seen := out[l.pt]; !seen {
			out[l.pt] = 0
		}
		if !bad[first+j] && out[l.pt] == 0 {
			out[l.pt] = l.cand
		}
	}
	return out, nil
}

func runC07(tier, replay string) {
	run := ev.Start("C07", tier, "model_checking")
	_, base := sharedImporter()
	var pts []infPoint
	var states, transitions int64
	if replay != "" {
		var p infPoint
		if err := loadReplay(replay, &p); err != nil {
			run.Infra(err)
		}
		pts = []infPoint{p}
		states, transitions = 1, 1
	} else {
		forms := `{"vi","vf","vs","vmy","vsl","vmysl","vslf","vm","vpi","vfis","vfii","c1","c15","cs","nil"}`
		cfgs := []string{fmt.Sprintf("INIT Init\nNEXT Next\nCONSTANTS\n  SigIds = {1,2,3,4,5,6,7,8,9,10,11,12,13,14,15,16,17,18,19,20}\n  Forms = %s\n  ExplNames = {\"int\",\"float64\",\"MySl\",\"[]string\",\"MyLab\"}\n  MaxExpl = 1\n  MaxVariadic = 2\n  FvSigs = {1,2,3,4,5}\n  TypeInst = TRUE\n  PvSigs = {1,2,3,7,8,10,14}\nINVARIANTS ExplicitRespected InferredSatisfies Symmetric Emit\nCHECK_DEADLOCK FALSE\n", forms)}
		if tier == "thorough" {
			cfgs = append(cfgs,
				fmt.Sprintf("INIT Init\nNEXT Next\nCONSTANTS\n  SigIds = {4,5,7,8,9,14,16,17}\n  Forms = %s\n  ExplNames = {\"int\",\"float64\",\"string\",\"MyInt\",\"MySl\",\"[]int\",\"[]string\"}\n  MaxExpl = 2\n  MaxVariadic = 0\n  FvSigs = {1,2,3,4,5}\n  TypeInst = TRUE\n  PvSigs = {1,2,3,7,8,10,14}\nINVARIANTS ExplicitRespected InferredSatisfies Symmetric Emit\nCHECK_DEADLOCK FALSE\n", forms),
				fmt.Sprintf("INIT Init\nNEXT Next\nCONSTANTS\n  SigIds = {3,11,15,18,19}\n  Forms = %s\n  ExplNames = {\"int\",\"float64\",\"MyInt\"}\n  MaxExpl = 2\n  MaxVariadic = 3\n  FvSigs = {}\n  TypeInst = FALSE\n  PvSigs = {}\nINVARIANTS ExplicitRespected InferredSatisfies Symmetric Emit\nCHECK_DEADLOCK FALSE\n", `{"vi","vf","vmy","vsl","vmysl","c1","c15","cs","nil"}`))
		}
		seen := map[string]bool{}
		for ci, cfg := range cfgs {
			n := 0
			res, err := tlc.Run(tlc.Opts{SpecDir: SpecDir, Module: "Infer", Cfg: cfg, Workers: tierWorkers(tier), Heavy: true, Timeout: 30 * time.Minute,
				OnJSON: func(l string) {
					var p infPoint
					if json.Unmarshal([]byte(l), &p) == nil && (p.Sig > 0 || p.Kind == "ti") {
						k := p.text()
						if !seen[k] {
							seen[k] = true
							pts = append(pts, p)
						}
						n++
					}
				}})
			if err != nil {
				run.Infra(err)
			}
			if res.Violation {
				run.Infra(fmt.Errorf("Infer.tla violates its laws:\n%s", res.ErrText))
			}
			if n == 0 || int64(n) != res.Distinct {
				run.Infra(fmt.Errorf("Infer.tla configuration %d: %d points received, %d states", ci, n, res.Distinct))
			}
			states += res.Distinct
			transitions += res.Generated
		}
	}
	fixture := infFixture + tiFixture()
	refPkg, err := ovCheckFixture(fixture)
	if err != nil {
		run.Infra(fmt.Errorf("fixture package does not type-check: %v", err))
	}
	// T validates S
	tref, err := infReference(refPkg, base, pts)
	if err != nil {
		run.Infra(err)
	}
	tiT, err := tiReference(refPkg, base, pts)
	if err != nil {
		run.Infra(err)
	}
	nacc := 0
	for i, p := range pts {
		if p.Kind == "ti" {
			if tiT[i] != p.First {
				run.Infra(fmt.Errorf("Infer.tla disagrees with go/types on type instantiation (specification defect, not a verdict): %s: S first=%d, T first=%d", p.text(), p.First, tiT[i]))
			}
			if p.Ok {
				nacc++
			}
			continue
		}
		t := tref[i]
		if t.ok != p.Ok || (t.ok && t.res != p.want()) {
			run.Infra(fmt.Errorf("Infer.tla disagrees with go/types (specification defect, not a verdict): %s: S ok=%v %s, T ok=%v %s %s", p.text(), p.Ok, p.want(), t.ok, t.res, t.msg))
		}
		if p.Ok {
			nacc++
		}
	}
	if replay == "" && (nacc == 0 || nacc == len(pts)) {
		run.Infra(fmt.Errorf("vacuous: %d of %d points accepted", nacc, len(pts)))
	}
	run.Set("spec_vs_gotypes_agreement", fmt.Sprintf("accept/reject and the full type-argument vector: S = T on all %d points (%d accepted)", len(pts), nacc))
	// G
	gogenPkg, err := ovCheckFixture(fixture)
	if err != nil {
		run.Infra(err)
	}
	var batches [][]infPoint
	for i := 0; i < len(pts); i += 2000 {
		j := i + 2000
		if j > len(pts) {
			j = len(pts)
		}
		batches = append(batches, pts[i:j])
	}
	var initMu sync.Mutex
	parallelN(8, len(batches), func(bi int) {
		initMu.Lock()
		w := newInfWorld(gogenPkg, base)
		initMu.Unlock()
		judge := func(p infPoint, g infG, real string) {
			run.Eval(real + p.text())
			pk := p
			pk.Real = real
			desc := p.text()
			if real != "" {
				desc += " [as type-as-parameter function ov." + infXgox[p.Sig] + "]"
			}
			switch {
			case g.fault != "":
				run.Fail("fault/"+real+p.class(), fmt.Sprintf("%s: %s", desc, g.fault), pk)
				w.fn = nil
			case p.Ok && g.rejected:
				run.Fail("rejected-although-go-infers/"+real+p.class(), fmt.Sprintf("%s: Go infers %s; the builder reports: %s", desc, p.want(), firstLines(g.msg, 2)), pk)
			case !p.Ok && !g.rejected:
				run.Fail("accepted-although-go-rejects/"+real+p.class(), fmt.Sprintf("%s: Go rejects it (%s); the builder emits %s of type %s", desc, tref0(tref, pts, p), g.expr, g.res), pk)
			case p.Ok && p.Kind != "fv" && p.Kind != "pv" && g.res != p.want():
				run.Fail("instantiated-signature-differs/"+real+p.class(), fmt.Sprintf("%s: Go instantiates %s; the builder reports %s", desc, p.want(), g.res), pk)
			}
		}
		for _, p := range batches[bi] {
			if p.Kind == "ti" {
				w.errs = nil
				var targs []types.Type
				for _, t := range p.Expl {
					targs = append(targs, w.tiType(t))
				}
				var got types.Type
				var g infG
				func() {
					defer func() {
						if e := recover(); e != nil {
							g.rejected, g.msg = true, fmt.Sprint(e)
							if _, rt := e.(interface{ RuntimeError() }); rt {
								g.fault = g.msg
							}
						}
					}()
					got = w.pkg.Instantiate(w.ov.Ref(tiName(p.Fam)).Type(), targs)
				}()
				if len(w.errs) > 0 {
					g.rejected, g.msg = true, strings.Join(w.errs, "; ")
				}
				if got != nil && !g.rejected {
					g.res = strings.ReplaceAll(types.TypeString(got, func(p *types.Package) string { return p.Name() }), ", ", ",")
					g.expr = g.res
				}
				q := p
				judgeTi := q
				_ = judgeTi
				run.Eval(p.text())
				switch {
				case g.fault != "":
					run.Fail("fault/"+p.class(), fmt.Sprintf("%s: %s", p.text(), g.fault), p)
				case p.Ok && g.rejected:
					run.Fail("rejected-although-go-instantiates/"+p.class(), fmt.Sprintf("%s: candidate %d instantiates; the builder reports: %s", p.text(), p.First-1, firstLines(g.msg, 1)), p)
				case !p.Ok && !g.rejected:
					run.Fail("accepted-although-go-rejects/"+p.class(), fmt.Sprintf("%s: no candidate instantiates; Package.Instantiate returns %s", p.text(), g.res), p)
				case p.Ok && g.res != p.want():
					run.Fail("instantiated-type-differs/"+p.class(), fmt.Sprintf("%s: the first candidate that instantiates gives %s; Package.Instantiate returns %s", p.text(), p.want(), g.res), p)
				}
				continue
			}
			if p.Kind == "fv" || p.Kind == "pv" {
				// a rejected initialiser leaves the declaration half built: every function-value point gets its own package
				initMu.Lock()
				w2 := newInfWorld(gogenPkg, base)
				initMu.Unlock()
				g := w2.funcValue(p, "fv")
				judge(p, g, "")
				if g.rejected || g.fault != "" || !p.Ok {
					continue
				}
				// the instantiation in the emitted declaration, as go/types sees it
				var out bytes.Buffer
				if err := w2.pkg.WriteTo(&out); err != nil {
					run.Fail("write-fails", err.Error(), p)
					continue
				}
				fset := token.NewFileSet()
				f, err := parser.ParseFile(fset, "o.go", out.Bytes(), 0)
				if err != nil {
					run.Fail("emitted-code-does-not-parse", stripPos(err.Error()), p)
					continue
				}
				info := &types.Info{Instances: map[*ast.Ident]types.Instance{}}
				var terrs []string
				conf := types.Config{Importer: ovImporter{refPkg, base}, Error: func(e error) { terrs = append(terrs, e.Error()) }}
				conf.Check("p", fset, []*ast.File{f}, info)
				got := "<none>"
				for _, in := range info.Instances {
					var ts []string
					for i := 0; i < in.TypeArgs.Len(); i++ {
						ts = append(ts, types.TypeString(in.TypeArgs.At(i), func(p *types.Package) string { return p.Name() }))
					}
					got = strings.Join(ts, ", ")
				}
				if got != p.want() || len(terrs) > 0 {
					run.Fail("instantiated-signature-differs/"+p.class(), fmt.Sprintf("%s: Go instantiates [%s]; in the emitted declaration go/types finds [%s] %v", p.text(), p.want(), got, firstLines(strings.Join(terrs, "; "), 1)), p)
				}
				continue
			}
			if p.Real != "xgox" {
				judge(p, w.call(p, ""), "")
			}
			// (a type-as-parameter function takes its leading type arguments as ordinary arguments: without any there is nothing to realise)
			if _, ok := infXgox[p.Sig]; ok && (p.Real == "" || p.Real == "xgox") && (len(p.Expl) > 0 || !p.Ok) {
				judge(p, w.call(p, "xgox"), "xgox")
			}
		}
	})
	if len(pts) > 0 {
		p := pts[len(pts)/2]
		run.Sample(map[string]any{"call": p.text(), "go_accepts": p.Ok, "type_arguments": p.TArgs})
	}
	run.Set("states", states)
	run.Set("transitions", transitions)
	run.Set("traces_validated_against_impl", len(pts))
	run.Set("exhaustive", true)
	run.Set("rule", "a case = one call (generic function, explicit type-argument prefix, argument list) of Infer.tla's fragment built with the real CodeBuilder; compared: accept/reject and the instantiated result type func(<all type parameters>); distinct = distinct call text")
	run.Assume("the fragment: 14 signatures (any / comparable / union / ~int / core-type constraints; type parameters inside slices, maps, pointers, function types; variadic), arguments of 11 typed forms, 3 untyped constants and nil; generic function values as arguments are excluded (Id(Id) does not terminate: C17)")
	run.Finish()
}

func tref0(tref []infT, pts []infPoint, p infPoint) string {
	for i := range pts {
		if pts[i].text() == p.text() {
			return tref[i].msg
		}
	}
	return ""
}
