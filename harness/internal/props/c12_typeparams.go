package props

// C12 part E: type parameter lists of generic type declarations (spec/TypeParams.tla).

import (
	"bytes"
	"encoding/json"
	"fmt"
	"go/ast"
	"go/format"
	"go/parser"
	"go/token"
	"go/types"
	"strings"
	"time"

	"github.com/goplus/gogen"

	"verif/harness/internal/ev"
	"verif/harness/internal/tlc"
)

type tpPoint struct {
	C     []string `json:"c"`
	N     int      `json:"n"`
	Comma bool     `json:"comma"`
}

func (p tpPoint) constraint() string { return strings.Join(p.C, " | ") }
func (p tpPoint) text(comma bool) string {
	s := "P " + p.constraint()
	if p.N == 2 {
		s += ", Q any"
	} else if comma {
		s += ","
	}
	return "[" + s + "]"
}

func tpTerm(t string) *types.Term {
	base := types.Type(types.Typ[types.Int])
	if strings.HasSuffix(t, "string") {
		base = types.Typ[types.String]
	}
	switch {
	case strings.HasPrefix(t, "*"):
		return types.NewTerm(false, types.NewPointer(base))
	case strings.HasPrefix(t, "~"):
		return types.NewTerm(true, base)
	case strings.HasPrefix(t, "[]"):
		return types.NewTerm(false, types.NewSlice(base))
	}
	return types.NewTerm(false, base)
}

func tpRun(run *ev.Run, tier string) (int64, int64, int64) {
	maxTerms := 2
	if tier == "thorough" {
		maxTerms = 3
	}
	var pts []tpPoint
	res, err := tlc.Run(tlc.Opts{SpecDir: SpecDir, Module: "TypeParams", Cfg: fmt.Sprintf("INIT Init\nNEXT Next\nCONSTANTS MaxTerms = %d\nINVARIANTS Laws Emit\nCHECK_DEADLOCK FALSE\n", maxTerms),
		Workers: 2, Timeout: 10 * time.Minute,
		OnJSON: func(l string) {
			var p tpPoint
			if json.Unmarshal([]byte(l), &p) == nil && len(p.C) > 0 {
				pts = append(pts, p)
			}
		}})
	if err != nil {
		run.Infra(err)
	}
	if res.Violation {
		run.Infra(fmt.Errorf("TypeParams.tla violates its laws:\n%s", res.ErrText))
	}
	if int64(len(pts)) != res.Distinct || len(pts) == 0 {
		run.Infra(fmt.Errorf("TypeParams.tla: %d points received, %d states", len(pts), res.Distinct))
	}
	tpCheck(run, pts)
	run.Set("type_parameter_lists", fmt.Sprintf("%d generic type declarations (TypeParams.tla): ambiguity rule validated against go/parser, declared through the builder, read back", len(pts)))
	return res.Distinct, res.Generated, int64(len(pts))
}

func tpCheck(run *ev.Run, pts []tpPoint) {
	// T validates S: without the comma the declaration parses as an array type exactly when NeedsComma
	for _, p := range pts {
		src := "package q\ntype G" + p.text(false) + " struct{}\n"
		f, err := parser.ParseFile(token.NewFileSet(), "q.go", src, 0)
		ambiguous := err != nil
		if err == nil {
			ts := f.Decls[0].(*ast.GenDecl).Specs[0].(*ast.TypeSpec)
			ambiguous = ts.TypeParams == nil
		}
		if ambiguous != p.Comma {
			run.Infra(fmt.Errorf("TypeParams.tla disagrees with go/parser (specification defect, not a verdict): `type G%s struct{}`: S needs-comma=%v, T parses-as-array=%v", p.text(false), p.Comma, ambiguous))
		}
	}
	fset, imp := sharedImporter()
	_ = fset
	var errs []string
	pkg := gogen.NewPackage("", "p", &gogen.Config{Fset: token.NewFileSet(), Importer: imp, HandleErr: func(e error) { errs = append(errs, e.Error()) }})
	failed := make([]string, len(pts))
	for i, p := range pts {
		func() {
			defer func() {
				if e := recover(); e != nil {
					failed[i] = fmt.Sprint(e)
				}
			}()
			var terms []*types.Term
			for _, t := range p.C {
				terms = append(terms, tpTerm(t))
			}
			var emb types.Type = types.NewUnion(terms)
			if len(terms) == 1 && !terms[0].Tilde() {
				emb = terms[0].Type()
			}
			c := types.NewInterfaceType(nil, []types.Type{emb})
			c.MarkImplicit()
			tps := []*types.TypeParam{types.NewTypeParam(types.NewTypeName(token.NoPos, pkg.Types, "P", nil), c)}
			if p.N == 2 {
				tps = append(tps, types.NewTypeParam(types.NewTypeName(token.NoPos, pkg.Types, "Q", nil), types.Universe.Lookup("any").Type()))
			}
			pkg.NewType(fmt.Sprintf("G%d", i)).InitType(pkg, types.NewStruct(nil, nil), tps...)
		}()
	}
	var buf bytes.Buffer
	if err := gogen.WriteTo(&buf, pkg, ""); err != nil {
		run.Fail("type-parameters/write-failed", err.Error(), pts)
		return
	}
	src := buf.String()
	specs := map[string]*ast.TypeSpec{}
	f, perr := parser.ParseFile(token.NewFileSet(), "o.go", src, 0)
	if perr == nil {
		ast.Inspect(f, func(n ast.Node) bool {
			if ts, ok := n.(*ast.TypeSpec); ok {
				specs[ts.Name.Name] = ts
			}
			return true
		})
	}
	lineOf := func(name string) string {
		for _, l := range strings.Split(src, "\n") {
			if strings.HasPrefix(l, "type "+name+"[") || strings.HasPrefix(l, "type "+name+" ") {
				return l
			}
		}
		return ""
	}
	for i, p := range pts {
		run.Eval("typeparams:" + p.text(p.Comma))
		name := fmt.Sprintf("G%d", i)
		cls := fmt.Sprintf("type-parameters/%d-parameters/needs-comma=%v", p.N, p.Comma)
		desc := fmt.Sprintf("type %s%s struct{} is written as `%s`", name, p.text(p.Comma), lineOf(name))
		rp := map[string]any{"typeparams": p}
		if failed[i] != "" {
			run.Fail(cls+"/builder-failed", desc+": "+failed[i], rp)
			continue
		}
		if perr != nil {
			// the whole file does not parse: attribute it to the declarations whose own line does not parse
			if _, err := parser.ParseFile(token.NewFileSet(), "l.go", "package q\n"+lineOf(name)+"\n", 0); err != nil || lineOf(name) == "" {
				run.Fail(cls+"/written-declaration-does-not-parse", desc+": "+firstLines(perr.Error(), 1), rp)
			}
			continue
		}
		ts := specs[name]
		switch {
		case ts == nil:
			run.Fail(cls+"/declaration-missing", desc, rp)
		case ts.TypeParams == nil || len(ts.TypeParams.List) != p.N:
			run.Fail(cls+"/type-parameter-list-lost", desc+": it reads back without its type parameter list", rp)
		default:
			if _, ok := ts.Type.(*ast.StructType); !ok {
				run.Fail(cls+"/declared-type-differs", fmt.Sprintf("%s: the declared type reads back as %T", desc, ts.Type), rp)
				continue
			}
			want, _ := parser.ParseExpr(p.constraint())
			if got := ts.TypeParams.List[0].Type; canonUntyped(want) != canonUntyped(got) {
				run.Fail(cls+"/constraint-differs", fmt.Sprintf("%s: the constraint reads back as %s", desc, types.ExprString(got)), rp)
			}
		}
	}
	if perr == nil {
		if fm, err := format.Source([]byte(src)); err != nil || string(fm) != src {
			run.Fail("type-parameters/not-a-gofmt-fixed-point", fmt.Sprintf("go/format changes the written declarations (err=%v)", err), pts)
		}
	}
	if len(errs) > 0 {
		run.Fail("type-parameters/builder-reported-error", strings.Join(errs, "; "), pts)
	}
}
