// Package ev holds the verdict plumbing shared by all checks: known findings,
// violations with replay files, evidence files and exit codes.
//
// Exit codes: 0 = the property held on everything explored (KNOWN-FINDING lines may
// be printed), 1 = a violation that no listed finding covers, 2 = infrastructure
// failure (never a verdict about the code).
package ev

import (
	"crypto/sha1"
	"encoding/json"
	"fmt"
	"os"
	"path/filepath"
	"sort"
	"strconv"
	"strings"
	"sync"
	"time"
)

// Root of the verification tree.
var Root = func() string {
	if r := os.Getenv("VERIF_ROOT"); r != "" {
		return r
	}
	return "/verif"
}()

// Finding is one entry of known-findings.json.
type Finding struct {
	ID       string   `json:"id,omitempty"`
	Property string   `json:"property,omitempty"`
	Key      string   `json:"key,omitempty"`    // exact key
	Keys     []string `json:"keys,omitempty"`   // several exact keys with one root cause
	Points   string   `json:"points,omitempty"` // file (relative to /verif) with one exact key per line
	What     string   `json:"what,omitempty"`
	Where    string   `json:"where,omitempty"`
	Witness  any      `json:"witness,omitempty"`
	Fixed    string   `json:"fixed,omitempty"` // "property=<id> <commit> <what failed>"; suppresses nothing
}

// Run is the state of one check invocation.
type Run struct {
	Prop, Tier, Level string
	Seed              int64
	start             time.Time

	mu          sync.Mutex
	cov         map[string]any
	samples     []any
	assumptions []string
	findings    []Finding
	keyIndex    map[string]int // key -> index in findings
	hitFinding  map[int]int
	hitExample  map[int]string
	violations  []violation
	distinct    map[string]struct{}
	evals       int64
}

type violation struct {
	Key    string
	What   string
	Replay string
}

// Seed from VERIF_SEED (default 1).
func envSeed() int64 {
	if s := os.Getenv("VERIF_SEED"); s != "" {
		if v, err := strconv.ParseInt(s, 10, 64); err == nil {
			return v
		}
	}
	return 1
}

// Start begins a check run.
func Start(prop, tier, level string) *Run {
	r := &Run{Prop: prop, Tier: tier, Level: level, Seed: envSeed(), start: time.Now(),
		cov: map[string]any{}, keyIndex: map[string]int{}, hitFinding: map[int]int{}, hitExample: map[int]string{},
		distinct: map[string]struct{}{}}
	b, err := os.ReadFile(filepath.Join(Root, "known-findings.json"))
	if err == nil {
		var all []Finding
		if err := json.Unmarshal(b, &all); err != nil {
			r.Infra(fmt.Errorf("known-findings.json: %v", err))
		}
		for _, f := range all {
			if f.Fixed != "" || f.Property != prop {
				continue
			}
			idx := len(r.findings)
			r.findings = append(r.findings, f)
			if f.Key != "" {
				r.keyIndex[f.Key] = idx
			}
			for _, k := range f.Keys {
				r.keyIndex[k] = idx
			}
			if f.Points != "" {
				pb, err := os.ReadFile(filepath.Join(Root, f.Points))
				if err != nil {
					r.Infra(fmt.Errorf("known-findings points file: %v", err))
				}
				for _, k := range strings.Split(string(pb), "\n") {
					k = strings.TrimSpace(k)
					if k != "" && !strings.HasPrefix(k, "#") {
						r.keyIndex[k] = idx
					}
				}
			}
		}
	}
	return r
}

// Eval counts one evaluated case; id identifies a distinct non-trivial case ("" = trivial).
func (r *Run) Eval(id string) {
	r.mu.Lock()
	r.evals++
	if id != "" {
		r.distinct[id] = struct{}{}
	}
	r.mu.Unlock()
}

// EvalN counts n evaluated trivial cases.
func (r *Run) EvalN(n int64) { r.mu.Lock(); r.evals += n; r.mu.Unlock() }

// Evals so far.
func (r *Run) Evals() int64 { r.mu.Lock(); defer r.mu.Unlock(); return r.evals }

// Sample records an explored case for the evidence file (bounded).
func (r *Run) Sample(s any) {
	r.mu.Lock()
	if len(r.samples) < 8 {
		r.samples = append(r.samples, s)
	}
	r.mu.Unlock()
}

// Set sets a coverage key.
func (r *Run) Set(k string, v any) { r.mu.Lock(); r.cov[k] = v; r.mu.Unlock() }

// Add adds to an integer coverage key.
func (r *Run) Add(k string, n int64) {
	r.mu.Lock()
	old, _ := r.cov[k].(int64)
	r.cov[k] = old + n
	r.mu.Unlock()
}

// Assume records an assumption / trusted component.
func (r *Run) Assume(s string) { r.mu.Lock(); r.assumptions = append(r.assumptions, s); r.mu.Unlock() }

// Known reports whether key is a listed finding.
func (r *Run) Known(key string) bool {
	r.mu.Lock()
	defer r.mu.Unlock()
	_, ok := r.keyIndex[key]
	return ok
}

// Fail reports that the real code contradicts the property on a case. key is the
// specification-level key of the case; if a listed finding has that key the case
// is a KNOWN-FINDING, otherwise a VIOLATION with a replay file holding `replay`.
func (r *Run) Fail(key, what string, replay any) {
	r.mu.Lock()
	defer r.mu.Unlock()
	if idx, ok := r.keyIndex[key]; ok {
		r.hitFinding[idx]++
		if _, ok := r.hitExample[idx]; !ok {
			r.hitExample[idx] = what
		}
		return
	}
	for _, v := range r.violations {
		if v.Key == key {
			return
		}
	}
	if f := os.Getenv("VERIF_DUMP_KEYS"); f != "" { // development aid: every unlisted key, one per line
		if fh, err := os.OpenFile(f, os.O_APPEND|os.O_CREATE|os.O_WRONLY, 0o644); err == nil {
			fmt.Fprintln(fh, key)
			fh.Close()
		}
	}
	if len(r.violations) >= 40 {
		r.violations = append(r.violations, violation{Key: key, What: what})
		return
	}
	h := sha1.Sum([]byte(key))
	name := fmt.Sprintf("%s-%x.json", r.Prop, h[:6])
	path := filepath.Join(Root, "replays", name)
	os.MkdirAll(filepath.Dir(path), 0o755)
	doc := map[string]any{"property": r.Prop, "key": key, "what": what, "case": replay, "tier": r.Tier, "seed": r.Seed}
	b, _ := json.MarshalIndent(doc, "", " ")
	os.WriteFile(path, b, 0o644)
	r.violations = append(r.violations, violation{Key: key, What: what, Replay: path})
}

// Violations so far.
func (r *Run) Violations() int { r.mu.Lock(); defer r.mu.Unlock(); return len(r.violations) }

// Infra aborts the run with an infrastructure failure (exit 2). Never a verdict.
func (r *Run) Infra(err error) {
	fmt.Printf("INFRA-FAILURE property=%s %v\n", r.Prop, err)
	os.Exit(2)
}

// Finish writes the evidence file, prints the verdict lines and exits.
func (r *Run) Finish() {
	r.mu.Lock()
	defer r.mu.Unlock()
	cov := r.cov
	if _, ok := cov["evaluations"]; !ok {
		cov["evaluations"] = r.evals
	}
	if _, ok := cov["distinct_nontrivial"]; !ok {
		cov["distinct_nontrivial"] = len(r.distinct)
	}
	if len(r.samples) > 0 {
		cov["samples"] = r.samples
	}
	// known findings
	idxs := []int{}
	for i := range r.hitFinding {
		idxs = append(idxs, i)
	}
	sort.Ints(idxs)
	kf := []map[string]any{}
	for _, i := range idxs {
		f := r.findings[i]
		fmt.Printf("KNOWN-FINDING: property=%s %s %s (cases matched this run: %d)\n", r.Prop, f.ID, f.What, r.hitFinding[i])
		kf = append(kf, map[string]any{"id": f.ID, "cases": r.hitFinding[i], "example": r.hitExample[i]})
	}
	cov["known_findings_matched"] = kf
	notSeen := []string{}
	for i, f := range r.findings {
		if _, ok := r.hitFinding[i]; !ok {
			notSeen = append(notSeen, f.ID)
		}
	}
	cov["known_findings_not_reproduced_this_run"] = notSeen
	if r.assumptions == nil {
		r.assumptions = []string{}
	}
	doc := map[string]any{
		"property_id": r.Prop, "tier": r.Tier, "seed": r.Seed, "level": r.Level,
		"coverage": cov, "assumptions": r.assumptions,
		"wall_s": time.Since(r.start).Seconds(), "violations": len(r.violations),
	}
	b, err := json.MarshalIndent(doc, "", " ")
	if err != nil {
		fmt.Printf("INFRA-FAILURE property=%s evidence: %v\n", r.Prop, err)
		os.Exit(2)
	}
	os.MkdirAll(filepath.Join(Root, "evidence"), 0o755)
	if err := os.WriteFile(filepath.Join(Root, "evidence", r.Prop+".json"), b, 0o644); err != nil {
		fmt.Printf("INFRA-FAILURE property=%s evidence: %v\n", r.Prop, err)
		os.Exit(2)
	}
	for _, v := range r.violations {
		if v.Replay == "" {
			continue
		}
		fmt.Printf("VIOLATION property=%s replay=%s key=%s :: %s\n", r.Prop, v.Replay, v.Key, v.What)
	}
	if len(r.violations) > 0 {
		fmt.Printf("FAIL property=%s tier=%s violations=%d evaluations=%d wall=%.1fs\n", r.Prop, r.Tier, len(r.violations), r.evals, time.Since(r.start).Seconds())
		os.Exit(1)
	}
	fmt.Printf("PASS property=%s tier=%s evaluations=%d distinct=%d known=%d wall=%.1fs\n", r.Prop, r.Tier, r.evals, len(r.distinct), len(idxs), time.Since(r.start).Seconds())
	os.Exit(0)
}
