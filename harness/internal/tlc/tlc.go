// Package tlc runs the TLC model checker on a specification of /verif/spec in a
// scratch directory and returns what it printed: the JSON payloads emitted by the
// specification through PrintT(ToJson(..)), and TLC's own state counts.
package tlc

import (
	"bufio"
	"fmt"
	"io"
	"os"
	"os/exec"
	"path/filepath"
	"regexp"
	"strconv"
	"strings"
	"time"
)

const (
	jar  = "/opt/veriftools/tla/tla2tools.jar"
	deps = "/opt/veriftools/tla/CommunityModules-deps.jar"
)

// Opts describes one TLC run.
type Opts struct {
	SpecDir  string            // directory holding the .tla files (copied into the scratch dir)
	Module   string            // root module name (without .tla)
	Cfg      string            // text of the configuration file
	Workers  int               // default 1
	Timeout  time.Duration     // hard limit; default 10 min
	HeapMB   int               // default 4096
	Simulate string            // e.g. "num=1000" => -simulate num=1000
	Depth    int               // -depth for simulation
	Seed     int64             // -seed (simulation)
	Extra    []string          // extra TLC arguments
	Files    map[string]string // extra files to create in the scratch dir (e.g. trace.ndjson)
	DFS      bool              // use the StateDeque queue
	Heavy    bool              // long exhaustive run: parallel GC, full JIT
	OnJSON   func(line string) // called for every JSON payload line, in order (if nil, lines are collected)
	KeepRaw  bool              // keep the non-payload output
}

// Result of a TLC run.
type Result struct {
	JSON      []string // payloads (when OnJSON is nil)
	Generated int64
	Distinct  int64
	Depth     int
	ExitCode  int
	Violation bool   // TLC reported an invariant/property violation
	ErrText   string // TLC's error section (if any)
	Raw       string
	Wall      time.Duration
	Cmd       string
}

var (
	reStates = regexp.MustCompile(`(\d+) states generated, (\d+) distinct states found`)
	reDepth  = regexp.MustCompile(`The depth of the complete state graph search is (\d+)`)
)

// Run executes TLC. An error is returned only for infrastructure failures (cannot
// start, timeout, parse errors in the spec, Java failure), never for a property
// violation, which is reported in Result.Violation.
func Run(o Opts) (*Result, error) {
	if o.Workers <= 0 {
		o.Workers = 1
	}
	if o.Timeout <= 0 {
		o.Timeout = 10 * time.Minute
	}
	if o.HeapMB <= 0 {
		o.HeapMB = 4096
	}
	scratch, err := os.MkdirTemp("", "vtlc-")
	if err != nil {
		return nil, err
	}
	defer os.RemoveAll(scratch)
	ents, err := os.ReadDir(o.SpecDir)
	if err != nil {
		return nil, err
	}
	for _, e := range ents {
		if strings.HasSuffix(e.Name(), ".tla") {
			b, err := os.ReadFile(filepath.Join(o.SpecDir, e.Name()))
			if err != nil {
				return nil, err
			}
			if err := os.WriteFile(filepath.Join(scratch, e.Name()), b, 0o644); err != nil {
				return nil, err
			}
		}
	}
	for name, text := range o.Files {
		if err := os.WriteFile(filepath.Join(scratch, name), []byte(text), 0o644); err != nil {
			return nil, err
		}
	}
	if err := os.WriteFile(filepath.Join(scratch, "run.cfg"), []byte(o.Cfg), 0o644); err != nil {
		return nil, err
	}
	// small runs (the default) start fastest with the serial collector and C1 only; several of
	// them run side by side without fighting over GC threads.  Heavy runs get the parallel
	// collector and the full JIT.
	args := []string{"-XX:+UseSerialGC", "-XX:TieredStopAtLevel=1", fmt.Sprintf("-Xmx%dm", o.HeapMB), "-Xss64m"}
	if o.Heavy {
		args = []string{"-XX:+UseParallelGC", fmt.Sprintf("-Xmx%dm", o.HeapMB), "-Xss64m"}
	}
	if o.DFS {
		args = append(args, "-Dtlc2.tool.queue.IStateQueue=StateDeque")
	}
	args = append(args, "-cp", jar+":"+deps, "tlc2.TLC",
		"-metadir", filepath.Join(scratch, "meta"), "-workers", strconv.Itoa(o.Workers),
		"-config", "run.cfg", "-noGenerateSpecTE")
	if o.Simulate != "" {
		args = append(args, "-simulate", o.Simulate)
		if o.Depth > 0 {
			args = append(args, "-depth", strconv.Itoa(o.Depth))
		}
		args = append(args, "-seed", strconv.FormatInt(o.Seed, 10))
	}
	args = append(args, o.Extra...)
	args = append(args, o.Module+".tla")
	cmd := exec.Command("java", args...)
	cmd.Dir = scratch
	// the jvm must not inherit JAVA_TOOL_OPTIONS that break start-up
	env := []string{}
	for _, kv := range os.Environ() {
		if !strings.HasPrefix(kv, "JAVA_TOOL_OPTIONS=") {
			env = append(env, kv)
		}
	}
	cmd.Env = env
	stdout, err := cmd.StdoutPipe()
	if err != nil {
		return nil, err
	}
	cmd.Stderr = cmd.Stdout
	res := &Result{Cmd: "java " + strings.Join(args, " ")}
	t0 := time.Now()
	if err := cmd.Start(); err != nil {
		return nil, err
	}
	timedOut := false
	timer := time.AfterFunc(o.Timeout, func() { timedOut = true; cmd.Process.Kill() })
	defer timer.Stop()
	var raw strings.Builder
	rd := bufio.NewReaderSize(stdout, 1<<20)
	inErr := false
	for {
		line, err := rd.ReadString('\n')
		if len(line) > 0 {
			l := strings.TrimRight(line, "\r\n")
			if strings.HasPrefix(l, `"{`) || strings.HasPrefix(l, `"[`) {
				s, uerr := strconv.Unquote(l)
				if uerr != nil {
					s = tlaUnquote(l)
				}
				if o.OnJSON != nil {
					o.OnJSON(s)
				} else {
					res.JSON = append(res.JSON, s)
				}
			} else {
				if strings.HasPrefix(l, "Error:") {
					inErr = true
				}
				if inErr && len(res.ErrText) < 8000 {
					res.ErrText += l + "\n"
				}
				if m := reStates.FindStringSubmatch(l); m != nil {
					res.Generated, _ = strconv.ParseInt(m[1], 10, 64)
					res.Distinct, _ = strconv.ParseInt(m[2], 10, 64)
				}
				if m := reDepth.FindStringSubmatch(l); m != nil {
					res.Depth, _ = strconv.Atoi(m[1])
				}
				if o.KeepRaw || raw.Len() < 1<<16 {
					raw.WriteString(l)
					raw.WriteByte('\n')
				}
			}
		}
		if err != nil {
			if err != io.EOF {
				return nil, err
			}
			break
		}
	}
	werr := cmd.Wait()
	res.Wall = time.Since(t0)
	res.Raw = raw.String()
	if timedOut {
		return res, fmt.Errorf("tlc: timeout after %v", o.Timeout)
	}
	if werr != nil {
		if ee, ok := werr.(*exec.ExitError); ok {
			res.ExitCode = ee.ExitCode()
		} else {
			return res, werr
		}
	}
	switch res.ExitCode {
	case 0:
	case 12, 13: // safety / liveness violation
		res.Violation = true
	default:
		// simulation mode ends with exit code 0 too; anything else is an infrastructure problem
		tail := res.Raw
		if len(tail) > 3000 {
			tail = tail[len(tail)-3000:]
		}
		return res, fmt.Errorf("tlc: exit code %d\n%s", res.ExitCode, tail)
	}
	return res, nil
}

// tlaUnquote undoes TLC's string printing when strconv.Unquote refuses it.
func tlaUnquote(l string) string {
	l = strings.TrimPrefix(l, `"`)
	l = strings.TrimSuffix(l, `"`)
	var b strings.Builder
	for i := 0; i < len(l); i++ {
		if l[i] == '\\' && i+1 < len(l) {
			i++
			switch l[i] {
			case 'n':
				b.WriteByte('\n')
			case 't':
				b.WriteByte('\t')
			default:
				b.WriteByte(l[i])
			}
			continue
		}
		b.WriteByte(l[i])
	}
	return b.String()
}
