/* stubgo is installed as `go` first on PATH while C20 runs: packages/cache executes
 * `go list -export ...`; the stub forwards the request to the harness over a unix socket so
 * that the listing observes the scripted environment inside the harness process (one mutex,
 * one total order of observations).  Written in C because process start-up dominates the
 * cost of a replay in this sandbox (a Go binary takes 4x longer to start).
 * protocol: "D <cwd>\n" {"A <arg>\n"} ".\n"  ->  "<code> <nout> <nerr>\n" <stdout bytes> <stderr bytes> */
#include <stdio.h>
#include <stdlib.h>
#include <string.h>
#include <unistd.h>
#include <sys/socket.h>
#include <sys/un.h>

static int readn(int fd, char *buf, long n) {
  long got = 0;
  while (got < n) { long r = read(fd, buf + got, n - got); if (r <= 0) return -1; got += r; }
  return 0;
}
int main(int argc, char **argv) {
  const char *sock = getenv("VERIF_STUB_SOCK");
  if (!sock) { fprintf(stderr, "stubgo: VERIF_STUB_SOCK not set\n"); return 3; }
  int fd = socket(AF_UNIX, SOCK_STREAM, 0);
  struct sockaddr_un addr; memset(&addr, 0, sizeof addr); addr.sun_family = AF_UNIX;
  strncpy(addr.sun_path, sock, sizeof(addr.sun_path) - 1);
  if (fd < 0 || connect(fd, (struct sockaddr *)&addr, sizeof addr) != 0) { perror("stubgo: connect"); return 3; }
  char cwd[4096]; if (!getcwd(cwd, sizeof cwd)) return 3;
  FILE *w = fdopen(dup(fd), "w");
  fprintf(w, "D %s\n", cwd);
  for (int i = 1; i < argc; i++) fprintf(w, "A %s\n", argv[i]);
  fprintf(w, ".\n"); fflush(w);
  char hdr[128]; int n = 0;
  while (n < (int)sizeof(hdr) - 1) { char c; if (read(fd, &c, 1) != 1) return 3; if (c == '\n') break; hdr[n++] = c; }
  hdr[n] = 0;
  int code; long nout, nerr;
  if (sscanf(hdr, "%d %ld %ld", &code, &nout, &nerr) != 3) return 3;
  char *out = malloc(nout + 1), *err = malloc(nerr + 1);
  if (readn(fd, out, nout) || readn(fd, err, nerr)) return 3;
  fwrite(out, 1, nout, stdout); fwrite(err, 1, nerr, stderr);
  return code;
}
