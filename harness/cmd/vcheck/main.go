// vcheck runs one property check: vcheck <ID> <quick|thorough> [--replay file]
package main

import (
	"fmt"
	"io"
	"log"
	"os"
	"sort"

	"verif/harness/internal/props"
)

func main() {
	log.SetOutput(io.Discard) // gogen reports some errors through log.Panicln: the panic value is what the checks classify
	if len(os.Args) < 2 {
		usage()
	}
	id := os.Args[1]
	tier := "quick"
	replay := ""
	for i := 2; i < len(os.Args); i++ {
		switch a := os.Args[i]; a {
		case "quick", "thorough", "emit":
			tier = a
		case "--replay":
			if i+1 < len(os.Args) {
				replay = os.Args[i+1]
				i++
			}
		case "--selftest":
			tier = "selftest"
		}
	}
	if t := os.Getenv("VERIF_TIER"); t != "" && len(os.Args) < 3 {
		tier = t
	}
	f, ok := props.Registry[id]
	if !ok {
		usage()
	}
	f(tier, replay)
}

func usage() {
	ids := []string{}
	for k := range props.Registry {
		ids = append(ids, k)
	}
	sort.Strings(ids)
	fmt.Fprintf(os.Stderr, "usage: vcheck <ID> <quick|thorough> [--replay file]\nknown ids: %v\n", ids)
	os.Exit(2)
}
